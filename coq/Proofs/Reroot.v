(** C05 (a): one rotation step, a whole re-rooting path and [reroot] preserve
    well-formedness, the leaves and every tip-to-tip path length; error characterisation. *)
From Coq Require Import String ZArith QArith Bool Arith Lia List Permutation Setoid Morphisms.
From GT Require Import Base.UTree Spec.Obs Model.Reroot Spec.Unrooted Proofs.RerootBase.
Import ListNotations.
Local Close Scope Q_scope.
Local Arguments n_up : simpl never.

(** the nodes met along a path all have at least two neighbours (none of them is a tip) *)
Fixpoint path_ok (t : utree) (p : list nat) : Prop :=
  match p with
  | [] => True
  | k :: r => match nth_error (uslots t) k with
              | Some (Some (_, ch)) => 2 <= degree ch /\ path_ok ch r
              | _ => False
              end
  end.

Lemma nonnil_match {A B} (l : list A) (a b : B) :
  l <> [] -> match l with [] => a | _ :: _ => b end = b.
Proof. destruct l; congruence. Qed.

Lemma leaves_node n c sl : kids_of sl <> [] -> leaves (UNode n c sl) = kleaves (kids_of sl).
Proof. intros H. rewrite leaves_unfold. now apply nonnil_match. Qed.
Lemma depths_node w n c sl :
  kids_of sl <> [] -> depths w (UNode n c sl) = concat (kD w (kids_of sl)).
Proof. intros H. rewrite depths_unfold. now apply nonnil_match. Qed.

Lemma kleaves_cons x l : kleaves (x :: l) = leaves (snd x) ++ kleaves l.
Proof. reflexivity. Qed.

Lemma forallb_nth_error {A} (f : A -> bool) l k x :
  forallb f l = true -> nth_error l k = Some x -> f x = true.
Proof. intros H E. rewrite forallb_forall in H. apply H. eapply nth_error_In; eauto. Qed.

Lemma wf_sub_child sl k e ch :
  forallb (fun s : slot => match s with Some (_, c) => wf_sub c | None => true end) sl = true ->
  nth_error sl k = Some (Some (e, ch)) -> wf_sub ch = true.
Proof. intros H E. apply (forallb_nth_error _ _ _ _ H E). Qed.

(** ** one rotation *)
Section OneStep.
  Variables (n : string) (c : list string) (sl : list slot) (k : nat) (e : einfo)
            (n' : string) (c' : list string) (sl' : list slot).
  Hypothesis Hk : nth_error sl k = Some (Some (e, UNode n' c' sl')).
  Hypothesis Hwf : wf (UNode n c sl) = true.
  Hypothesis Hdeg : 2 <= length sl.
  Hypothesis Hdeg' : 2 <= length sl'.

  Let t := UNode n c sl.
  Let R := UNode n c (set_nth k None sl).
  Let t' := UNode n' c' (replace_up sl' (Some (e, R))).

  Lemma step_rotate_to : rotate_to t k = Some t'.
  Proof. unfold t, t', R. simpl. now rewrite Hk. Qed.

  Lemma step_facts :
    n_up sl = 0 /\ n_up sl' = 1 /\
    forallb (fun p => wf_sub (snd p)) (kids_of sl) = true /\
    forallb (fun p => wf_sub (snd p)) (kids_of sl') = true.
  Proof.
    pose proof Hwf as H. rewrite wf_unfold in H. apply andb_true_iff in H as [H1 H2].
    apply Nat.eqb_eq in H1.
    assert (Hc : wf_sub (UNode n' c' sl') = true).
    { rewrite forallb_forall in H2.
      apply (H2 (e, UNode n' c' sl')). apply kids_of_In. eapply nth_error_In; eauto. }
    rewrite wf_sub_unfold in Hc. apply andb_true_iff in Hc as [H3 H4].
    apply Nat.eqb_eq in H3. auto.
  Qed.

  Lemma step_shape :
    exists A B A' B',
      kids_of sl = A ++ (e, UNode n' c' sl') :: B /\
      kids_of (set_nth k None sl) = A ++ B /\
      kids_of sl' = A' ++ B' /\
      kids_of (replace_up sl' (Some (e, R))) = A' ++ (e, R) :: B' /\
      A ++ B <> [] /\ A' ++ B' <> [].
  Proof.
    destruct step_facts as [U0 [U1 _]].
    destruct (kids_of_set_nth _ _ _ Hk) as [A [B [E1 E2]]].
    destruct (kids_of_replace_up sl' (e, R)) as [A' [B' [E3 E4]]]; [lia|].
    exists A, B, A', B'. repeat split; auto.
    - intros E. pose proof (length_slots sl) as L. rewrite E1, app_length in L. simpl in L.
      apply (f_equal (@length _)) in E. rewrite app_length in E. simpl in E. lia.
    - intros E. pose proof (length_slots sl') as L. rewrite E3, E in L. simpl in L. lia.
  Qed.

  Lemma step_wf : wf t' = true.
  Proof.
    destruct step_facts as [U0 [U1 [F F']]].
    destruct step_shape as [A [B [A' [B' [E1 [E2 [E3 [E4 _]]]]]]]].
    unfold t'. rewrite wf_unfold, n_up_replace_up, U1, E4.
    rewrite E3 in F'. rewrite E1 in F. rewrite forallb_app in F, F'. rewrite forallb_app.
    apply andb_true_iff in F' as [Fa Fb]. apply andb_true_iff in F as [Fc Fd].
    simpl in Fd. apply andb_true_iff in Fd as [_ Fd].
    change (forallb (fun p => wf_sub (snd p)) ((e, R) :: B'))
      with (wf_sub R && forallb (fun p => wf_sub (snd p)) B').
    rewrite Fa, Fb. unfold R.
    rewrite wf_sub_unfold, (n_up_set_nth _ _ _ Hk), U0, E2, forallb_app, Fc, Fd.
    reflexivity.
  Qed.

  Lemma step_degree : degree t' = length sl'.
  Proof. unfold t', degree. simpl. apply length_replace_up. Qed.

  Lemma step_leaves : Permutation (leaves t') (leaves t).
  Proof.
    destruct step_shape as [A [B [A' [B' [E1 [E2 [E3 [E4 [N N']]]]]]]]].
    unfold t', t. rewrite !leaves_node.
    - rewrite E4, E1, !kleaves_app, !kleaves_cons. simpl snd. unfold R.
      rewrite !leaves_node by (rewrite ?E2, ?E3; auto).
      rewrite E2, E3, !kleaves_app. perm.
    - rewrite E1. destruct A; discriminate.
    - rewrite E4. destruct A'; discriminate.
  Qed.

  Lemma step_pairdists w : dists_equiv (pairdists w t') (pairdists w t).
  Proof.
    destruct step_shape as [A [B [A' [B' [E1 [E2 [E3 [E4 [N N']]]]]]]]].
    unfold t', t. rewrite !pairdists_unfold, E4, E1, !kD_app, !kpd_app.
    change (kD w ((e, R) :: B')) with (shift (w e) (depths w R) :: kD w B').
    change (kD w ((e, UNode n' c' sl') :: B))
      with (shift (w e) (depths w (UNode n' c' sl')) :: kD w B).
    change (kpd w ((e, R) :: B')) with (pairdists w R ++ kpd w B').
    change (kpd w ((e, UNode n' c' sl') :: B)) with (pairdists w (UNode n' c' sl') ++ kpd w B).
    unfold R. rewrite !depths_node by (rewrite ?E2, ?E3; auto).
    rewrite !pairdists_unfold, E2, E3, !kD_app, !kpd_app.
    set (X := concat (kD w A ++ kD w B)). set (Y := concat (kD w A' ++ kD w B')).
    etransitivity; [apply dists_equiv_perm; apply Permutation_app_tail; apply cross_all_insert|].
    etransitivity; [|apply dists_equiv_perm; symmetry; apply Permutation_app_tail; apply cross_all_insert].
    fold X. fold Y. rewrite <- !app_assoc.
    apply dists_equiv_app.
    - etransitivity; [apply symcross_shift_move|]. apply dists_equiv_perm, symcross_comm.
    - apply dists_equiv_perm. perm.
  Qed.
End OneStep.

(** the theorem for one step, as a statement about [rotate_to] *)
Lemma rotate_to_preserves t k t' :
  wf t = true -> 2 <= degree t -> path_ok t [k] -> rotate_to t k = Some t' ->
  wf t' = true /\ 2 <= degree t' /\ Permutation (leaves t') (leaves t) /\
  (forall w, dists_equiv (pairdists w t') (pairdists w t)).
Proof.
  destruct t as [n c sl]. simpl. intros Hwf Hd Hp Hr.
  destruct (nth_error sl k) as [[[e [n' c' sl']]|]|] eqn:Hk; try discriminate.
  destruct Hp as [Hd' _]. inversion Hr; subst t'. unfold degree in *. simpl in *.
  repeat split.
  - eapply step_wf; eauto.
  - rewrite length_replace_up. exact Hd'.
  - apply (step_leaves n c sl k e n' c' sl'); auto.
  - intros w. apply (step_pairdists n c sl k e n' c' sl'); auto.
Qed.

Lemma rotate_to_defined t k : path_ok t [k] -> exists t', rotate_to t k = Some t'.
Proof.
  destruct t as [n c sl]. simpl.
  destruct (nth_error sl k) as [[[e [n' c' sl']]|]|]; try tauto. eauto.
Qed.

(** ** a whole path *)
Lemma path_ok_replace_up n c sl n2 c2 x p :
  path_ok (UNode n c sl) p -> path_ok (UNode n2 c2 (replace_up sl x)) p.
Proof.
  destruct p as [|k r]; simpl; auto.
  destruct (nth_error sl k) as [[[e ch]|]|] eqn:E; try tauto.
  now rewrite (nth_error_replace_up _ x _ _ E).
Qed.

Theorem reroot_path_preserves p : forall t,
  wf t = true -> 2 <= degree t -> path_ok t p ->
  exists t', reroot_path t p = Some t' /\
    wf t' = true /\ 2 <= degree t' /\ Permutation (leaves t') (leaves t) /\
    (forall w, dists_equiv (pairdists w t') (pairdists w t)).
Proof.
  induction p as [|k r IH]; intros t Hwf Hd Hp.
  - exists t. simpl. repeat split; auto. intros; reflexivity.
  - assert (Hp1 : path_ok t [k]).
    { simpl in *. destruct (nth_error (uslots t) k) as [[[e ch]|]|]; tauto. }
    destruct (rotate_to_defined _ _ Hp1) as [t1 Hr].
    destruct (rotate_to_preserves _ _ _ Hwf Hd Hp1 Hr) as [W1 [D1 [L1 P1]]].
    assert (Hp2 : path_ok t1 r).
    { destruct t as [n c sl]. simpl in Hr, Hp.
      destruct (nth_error sl k) as [[[e [n' c' sl']]|]|]; try tauto.
      inversion Hr; subst. apply path_ok_replace_up with (n := n') (c := c'). tauto. }
    destruct (IH t1 W1 D1 Hp2) as [t' [E [W [D [L P]]]]].
    exists t'. simpl. rewrite Hr. repeat split; auto.
    + now rewrite L.
    + intros w. etransitivity; [apply P | apply P1].
Qed.

(** ** [reroot] *)
Lemma node_at_path_ok p : forall t m,
  (wf t = true \/ wf_sub t = true) -> node_at t p = Some m -> 2 <= degree m -> path_ok t p.
Proof.
  induction p as [|k r IH]; intros t m Hwf Hn Hd; simpl; auto.
  simpl in Hn. destruct (nth_error (uslots t) k) as [[[e ch]|]|] eqn:E; try discriminate.
  assert (Hc : wf_sub ch = true).
  { destruct t as [n c sl]. simpl in *.
    destruct Hwf as [H|H]; apply andb_true_iff in H as [_ H]; eapply wf_sub_child; eauto. }
  split; [|eapply IH; eauto].
  destruct r as [|k' r'].
  - simpl in Hn. inversion Hn; subst. auto.
  - simpl in Hn. destruct ch as [n' c' sl']. simpl in *.
    destruct (nth_error sl' k') as [[p'|]|] eqn:E'; try discriminate.
    apply andb_true_iff in Hc as [Hc _]. apply Nat.eqb_eq in Hc.
    unfold degree. simpl. rewrite length_slots, Hc.
    apply nth_error_In in E'. destruct p' as [e' ch']. apply kids_of_In in E'.
    destruct (kids_of sl'); [destruct E'|simpl; lia].
Qed.

Theorem reroot_preserves t i t' :
  wf t = true -> 2 <= degree t -> reroot t i = Ok t' ->
  wf t' = true /\ 2 <= degree t' /\ Permutation (leaves t') (leaves t) /\
  (forall w, dists_equiv (pairdists w t') (pairdists w t)).
Proof.
  intros Hwf Hd H. unfold reroot in H.
  destruct (nth_error (paths t) i) as [p|]; [|discriminate].
  destruct (node_at t p) as [m|] eqn:Hn; [|discriminate].
  destruct (Nat.ltb (degree m) 2) eqn:Hm; [discriminate|].
  apply Nat.ltb_ge in Hm.
  assert (Hp : path_ok t p) by (eapply node_at_path_ok; eauto).
  destruct (reroot_path_preserves p t Hwf Hd Hp) as [t1 [E R]].
  rewrite E in H. inversion H; subst. exact R.
Qed.

(** ** when does [reroot] refuse *)
Lemma node_at_replace_up n c sl n2 c2 x p m :
  node_at (UNode n c sl) p = Some m -> exists m', node_at (UNode n2 c2 (replace_up sl x)) p = Some m'.
Proof.
  destruct p as [|k r]; simpl; eauto.
  destruct (nth_error sl k) as [[[e ch]|]|] eqn:E; try discriminate.
  rewrite (nth_error_replace_up _ x _ _ E). eauto.
Qed.

Lemma reroot_path_defined p : forall t m, node_at t p = Some m -> exists t', reroot_path t p = Some t'.
Proof.
  induction p as [|k r IH]; intros t m H; simpl; eauto.
  destruct t as [n c sl]. simpl in *.
  destruct (nth_error sl k) as [[[e [n' c' sl']]|]|] eqn:E; try discriminate.
  destruct (node_at_replace_up n' c' sl' n' c' (Some (e, UNode n c (set_nth k None sl))) r m H) as [m' H'].
  eapply IH; eauto.
Qed.

(** [paths] and [nodes] are parallel *)
Definition slot_nodes (s : slot) : list utree :=
  match s with Some (_, c) => nodes c | None => [] end.

Lemma paths_nodes t : Forall2 (fun p m => node_at t p = Some m) (paths t) (nodes t).
Proof.
  induction t as [n c sl IH] using utree_ind'.
  simpl. constructor; [reflexivity|].
  set (go := fix go (k : nat) (l : list slot) {struct l} : list (list nat) :=
               match l with
               | [] => []
               | None :: r => go (S k) r
               | Some (_, c0) :: r => map (cons k) (paths c0) ++ go (S k) r
               end).
  assert (G : forall l pre, sl = pre ++ l ->
            Forall2 (fun p m => node_at (UNode n c sl) p = Some m)
                    (go (length pre) l) (flat_map slot_nodes l)).
  { induction l as [|s r IHl]; intros pre E; simpl; [constructor|].
    assert (Er : sl = (pre ++ [s]) ++ r) by (rewrite <- app_assoc; exact E).
    specialize (IHl _ Er). rewrite app_length in IHl. simpl in IHl.
    rewrite Nat.add_1_r in IHl.
    destruct s as [[e ch]|]; simpl; auto.
    apply Forall2_app; auto.
    assert (Hch : In (Some (e, ch)) sl) by (rewrite E; apply in_or_app; right; now left).
    rewrite Forall_forall in IH. specialize (IH _ Hch). simpl in IH.
    assert (Hk : nth_error sl (length pre) = Some (Some (e, ch))).
    { rewrite E, nth_error_app2, Nat.sub_diag by lia. reflexivity. }
    clear - IH Hk. induction IH; simpl; constructor; auto.
    simpl. now rewrite Hk. }
  specialize (G sl [] eq_refl). simpl in G.
  replace (flat_map (fun s : slot => match s with Some (_, c0) => nodes c0 | None => [] end) sl)
    with (flat_map slot_nodes sl) by reflexivity.
  exact G.
Qed.

Lemma Forall2_nth_error {A B} (R : A -> B -> Prop) l l' i a :
  Forall2 R l l' -> nth_error l i = Some a -> exists b, nth_error l' i = Some b /\ R a b.
Proof.
  intros H; revert i; induction H; intros [|i]; simpl; intros E; try discriminate.
  - inversion E; subst. eauto.
  - eauto.
Qed.

Lemma Forall2_same_length {A B} (R : A -> B -> Prop) l l' : Forall2 R l l' -> length l = length l'.
Proof. induction 1; simpl; congruence. Qed.

Lemma paths_length t : length (paths t) = length (nodes t).
Proof. eapply Forall2_same_length, paths_nodes. Qed.

(** [reroot] fails exactly when the index is out of range or the node has fewer than two
    neighbours (no well-formedness needed). *)
Theorem reroot_err_iff t i :
  (exists msg, reroot t i = Err msg) <->
  (length (nodes t) <= i \/ exists m, nth_error (nodes t) i = Some m /\ degree m < 2).
Proof.
  unfold reroot. split.
  - intros [msg H].
    destruct (nth_error (paths t) i) as [p|] eqn:Ep.
    + destruct (Forall2_nth_error _ _ _ _ _ (paths_nodes t) Ep) as [m [Em Hn]].
      rewrite Hn in H. destruct (Nat.ltb (degree m) 2) eqn:Hm.
      * right. exists m. split; auto. now apply Nat.ltb_lt.
      * destruct (reroot_path_defined _ _ _ Hn) as [t' E]. rewrite E in H. discriminate.
    + left. apply nth_error_None in Ep. now rewrite <- paths_length.
  - intros [H | [m [Em Hm]]].
    + rewrite <- paths_length in H. apply nth_error_None in H. rewrite H. eauto.
    + destruct (nth_error (paths t) i) as [p|] eqn:Ep.
      * destruct (Forall2_nth_error _ _ _ _ _ (paths_nodes t) Ep) as [m' [Em' Hn]].
        rewrite Em in Em'. inversion Em'; subst m'. rewrite Hn.
        apply Nat.ltb_lt in Hm. rewrite Hm. eauto.
      * eauto.
Qed.

Theorem reroot_ok_iff t i :
  (exists t', reroot t i = Ok t') <->
  (exists m, nth_error (nodes t) i = Some m /\ 2 <= degree m).
Proof.
  split.
  - intros [t' H]. destruct (nth_error (nodes t) i) as [m|] eqn:Em.
    + exists m. split; auto. destruct (le_lt_dec 2 (degree m)) as [?|Hlt]; auto.
      assert (X : exists msg, reroot t i = Err msg) by (apply reroot_err_iff; right; eauto).
      destruct X as [msg X]. congruence.
    + apply nth_error_None in Em.
      assert (X : exists msg, reroot t i = Err msg) by (apply reroot_err_iff; left; auto).
      destruct X as [msg X]. congruence.
  - intros [m [Em Hm]]. destruct (reroot t i) as [t'|msg] eqn:E; eauto.
    assert (X : exists msg, reroot t i = Err msg) by eauto.
    apply reroot_err_iff in X. destruct X as [X | [m' [Em' Hm']]].
    + apply nth_error_None in X. congruence.
    + rewrite Em in Em'. inversion Em'; subst. lia.
Qed.
