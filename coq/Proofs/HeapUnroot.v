(** Heap model: Tree.UnRoot on the heap preserves [Good] and refines [unroot] of
    Model/Reroot.v through [abs]; it never fails on a good heap.  Also the step lemmas for
    delNeighbor, ConnectNodes, delNode at the level of lookups. *)
From Coq Require Import String ZArith QArith Bool Arith Lia Permutation List.
From GT Require Import Base.UTree Model.Reroot Model.Heap Proofs.Enum Proofs.HeapBase Proofs.HeapRep
     Proofs.HeapGood Proofs.HeapGoodRep Proofs.HeapRerootL Proofs.HeapReorder Proofs.HeapUnrootL.
Import ListNotations.
Local Close Scope Q_scope.

(** * the primitive steps, described by lookups *)
Definition same_but_nodes (h h' : heap) : Prop :=
  hedges h' = hedges h /\ hroot h' = hroot h /\ hnextn h' = hnextn h /\ hnexte h' = hnexte h.

(** node.go delNeighbor: the slot of [n2] disappears from neigh and br of [n], nothing else moves *)
Lemma del_neighbor_step h n n2 hn i :
  alookup n (hnodes h) = Some hn -> index_of n2 (hneigh hn) = Some i -> i < length (hbr hn) ->
  exists h', del_neighbor n n2 h = HOk h' /\
    (forall x, alookup x (hnodes h') =
       if Nat.eqb x n then Some (mkHN (hname hn) (hcom hn) (del_nth i (hneigh hn)) (del_nth i (hbr hn)))
       else alookup x (hnodes h)) /\
    same_but_nodes h h'.
Proof.
  intros Hn Hi Hl. unfold del_neighbor, get_node. rewrite Hn. cbn [hbind]. rewrite Hi.
  apply Nat.ltb_lt in Hl. rewrite Hl. eexists. split; [reflexivity|]. split; [|repeat split].
  intros x. cbn [set_node hnodes]. apply alookup_aupd.
Qed.

Lemma del_neighbor_not_neighbor h n n2 hn :
  alookup n (hnodes h) = Some hn -> ~ In n2 (hneigh hn) -> del_neighbor n n2 h = HErr err_node_index.
Proof.
  intros Hn Hni. unfold del_neighbor, get_node. rewrite Hn. cbn [hbind].
  destruct (index_of n2 (hneigh hn)) as [i|] eqn:E; [|reflexivity].
  exfalso. apply Hni. apply index_of_spec in E. destruct E as [E _]. eapply nth_error_In. exact E.
Qed.

Definition app_slot (hn : hnode) (m e : nat) : hnode :=
  mkHN (hname hn) (hcom hn) (hneigh hn ++ [m]) (hbr hn ++ [e]).

(** tree.go ConnectNodes: a fresh edge parent -> child, appended to both neighbour lists:
    the new adjacency is symmetric through the same edge id *)
Lemma connect_nodes_step h a b ha hb : a <> b ->
  alookup a (hnodes h) = Some ha -> alookup b (hnodes h) = Some hb ->
  exists h', connect_nodes a b h = HOk (hnexte h, h') /\
    (forall x, alookup x (hnodes h') =
       if Nat.eqb x a then Some (app_slot ha b (hnexte h))
       else if Nat.eqb x b then Some (app_slot hb a (hnexte h)) else alookup x (hnodes h)) /\
    (forall e, alookup e (hedges h') =
       if Nat.eqb e (hnexte h) then Some (mkHE a b e0) else alookup e (hedges h)) /\
    hroot h' = hroot h /\ hnextn h' = hnextn h /\ hnexte h' = S (hnexte h).
Proof.
  intros Hab Ha Hb. unfold connect_nodes, new_edge, add_child, get_node. cbn [hnodes hbind].
  rewrite Ha. cbn [hbind set_node hnodes]. rewrite alookup_aupd_ne by (intros E; apply Hab; symmetry; exact E).
  rewrite Hb. cbn [hbind]. eexists. split; [reflexivity|]. cbn [set_node hnodes hedges hroot hnextn hnexte].
  split; [|split; [|repeat split]].
  - intros x. rewrite !alookup_aupd. unfold app_slot.
    destruct (Nat.eqb_spec x b) as [Eb|Nb]; destruct (Nat.eqb_spec x a) as [Ea|Na]; try reflexivity. congruence.
  - intros e. apply alookup_aupd.
Qed.

Lemma set_info_if_step h e l r i (c : bool) f : alookup e (hedges h) = Some (mkHE l r i) ->
  exists h', (if c then set_info h e f else HOk h) = HOk h' /\
    hnodes h' = hnodes h /\ hroot h' = hroot h /\ hnextn h' = hnextn h /\ hnexte h' = hnexte h /\
    forall e', alookup e' (hedges h') =
      if Nat.eqb e' e then Some (mkHE l r (if c then f i else i)) else alookup e' (hedges h).
Proof.
  intros He. destruct c.
  - unfold set_info, get_edge. rewrite He. cbn [hbind]. eexists. split; [reflexivity|]. repeat split.
    intros e'. cbn. apply alookup_aupd.
  - exists h. repeat split. intros e'. destruct (Nat.eqb_spec e' e) as [->|]; [exact He|reflexivity].
Qed.

(** tree.go delNode on a node with two branches *)
Lemma del_node_step2 h n hn e1 e2 : alookup n (hnodes h) = Some hn -> hbr hn = [e1; e2] ->
  exists h', del_node n h = HOk h' /\
    (forall x, alookup x (hnodes h') = if Nat.eqb x n then None else alookup x (hnodes h)) /\
    (forall e, alookup e (hedges h') = if Nat.eqb e e1 then None else if Nat.eqb e e2 then None else alookup e (hedges h)) /\
    hroot h' = hroot h /\ hnextn h' = hnextn h /\ hnexte h' = hnexte h.
Proof.
  intros Hn Hb. unfold del_node, get_node. rewrite Hn. cbn [hbind]. rewrite Hb. cbn [fold_right].
  eexists. split; [reflexivity|]. cbn. split; [|split; [|repeat split]].
  - intros x. apply alookup_arem.
  - intros e. rewrite !alookup_arem. reflexivity.
Qed.

Ltac eqb_cases :=
  repeat match goal with
         | |- context [Nat.eqb ?a ?b] => destruct (Nat.eqb_spec a b)
         end.

(** * evaluation of UnRoot on a rooted heap *)
Lemma unroot_eval h hr n1 n2 e1 e2 hn1 hn2 i1 i2 ed1 ed2 :
  alookup (hroot h) (hnodes h) = Some hr -> hneigh hr = [n1; n2] -> hbr hr = [e1; e2] ->
  alookup n1 (hnodes h) = Some hn1 -> alookup n2 (hnodes h) = Some hn2 ->
  n1 <> n2 -> n1 <> hroot h -> n2 <> hroot h ->
  index_of (hroot h) (hneigh hn1) = Some i1 -> i1 < length (hbr hn1) -> i1 < length (hneigh hn1) ->
  index_of (hroot h) (hneigh hn2) = Some i2 -> i2 < length (hbr hn2) -> i2 < length (hneigh hn2) ->
  alookup e1 (hedges h) = Some ed1 -> alookup e2 (hedges h) = Some ed2 ->
  e1 <> hnexte h -> e2 <> hnexte h ->
  let n1tip := Nat.eqb (length (hneigh hn1)) 1 in
  let n2tip := Nat.eqb (length (hneigh hn2)) 1 in
  let e3 := hnexte h in
  let X1 m := mkHN (hname hn1) (hcom hn1) (del_nth i1 (hneigh hn1) ++ [m]) (del_nth i1 (hbr hn1) ++ [e3]) in
  let X2 m := mkHN (hname hn2) (hcom hn2) (del_nth i2 (hneigh hn2) ++ [m]) (del_nth i2 (hbr hn2) ++ [e3]) in
  let e3i := unroot_info (hinfo ed1) (hinfo ed2) n1tip n2tip in
  exists h', unroot_heap h = HOk h' /\
    if n1tip then unroot_desc h h' (hroot h) n2 n1 e2 e1 e3 (X2 n1) (X1 n2) e3i
    else unroot_desc h h' (hroot h) n1 n2 e1 e2 e3 (X1 n2) (X2 n1) e3i.
Proof.
  intros Hr Hng Hbr Hn1 Hn2 N12 N1r N2r I1 L1 L1' I2 L2 L2' E1 E2 F1 F2. cbv zeta.
  unfold unroot_heap. unfold get_node at 1. rewrite Hr. cbn [hbind]. rewrite Hng. cbn [length Nat.eqb negb].
  unfold nth_res. rewrite Hbr. cbn [nth_error hbind]. unfold get_node at 1. rewrite Hn1. cbn [hbind].
  (* the two delNeighbor *)
  destruct (del_neighbor_step h n1 (hroot h) hn1 i1 Hn1 I1 L1) as [h1 (S1 & Nd1 & (Ed1 & Rt1 & Nn1 & Ne1))].
  rewrite S1. cbn [ignore_err hbind].
  assert (Hn2' : alookup n2 (hnodes h1) = Some hn2).
  { rewrite Nd1. destruct (Nat.eqb_spec n2 n1); [congruence|exact Hn2]. }
  destruct (del_neighbor_step h1 n2 (hroot h) hn2 i2 Hn2' I2 L2) as [h2 (S2 & Nd2 & (Ed2 & Rt2 & Nn2 & Ne2))].
  rewrite S2. cbn [ignore_err hbind].
  set (Y1 := mkHN (hname hn1) (hcom hn1) (del_nth i1 (hneigh hn1)) (del_nth i1 (hbr hn1))) in *.
  set (Y2 := mkHN (hname hn2) (hcom hn2) (del_nth i2 (hneigh hn2)) (del_nth i2 (hbr hn2))) in *.
  assert (A1 : alookup n1 (hnodes h2) = Some Y1).
  { rewrite Nd2. destruct (Nat.eqb_spec n1 n2); [congruence|]. rewrite Nd1, Nat.eqb_refl. reflexivity. }
  assert (A2 : alookup n2 (hnodes h2) = Some Y2) by (rewrite Nd2, Nat.eqb_refl; reflexivity).
  assert (Hne2 : hnexte h2 = hnexte h) by congruence.
  assert (Hed2 : hedges h2 = hedges h) by congruence.
  pose proof (del_nth_length i1 (hneigh hn1) L1') as Len1. pose proof (del_nth_length i2 (hneigh hn2) L2') as Len2.
  destruct (Nat.eqb (length (hneigh hn1)) 1) eqn:Tip1.
  - (* n1 is a tip: ConnectNodes(n2, n1), root n2 *)
    destruct (connect_nodes_step h2 n2 n1 Y2 Y1 (not_eq_sym N12) A2 A1) as [h3 (S3 & Nd3 & Ed3 & Rt3 & Nn3 & Ne3)].
    rewrite S3. cbn [hbind]. rewrite Hne2 in *.
    unfold get_edge. cbn [set_root hedges].
    rewrite (Ed3 e1), Hed2. destruct (Nat.eqb_spec e1 (hnexte h)); [contradiction|]. rewrite E1. cbn [hbind].
    rewrite (Ed3 e2), Hed2. destruct (Nat.eqb_spec e2 (hnexte h)); [contradiction|]. rewrite E2. cbn [hbind].
    match goal with |- context [if ?c then set_info ?hh ?e ?f else HOk ?hh] =>
      destruct (set_info_if_step hh e n2 n1 e0 c f) as [h5 (S5 & Nd5 & Rt5 & Nn5 & Ne5 & Ed5)] end.
    { cbn [set_root hedges]. rewrite Ed3, Nat.eqb_refl. reflexivity. }
    rewrite S5. cbn [hbind]. unfold get_node. rewrite Nd5. cbn [set_root hnodes].
    rewrite (Nd3 n1). destruct (Nat.eqb_spec n1 n2); [congruence|]. rewrite Nat.eqb_refl. cbn [hbind].
    rewrite (Nd3 n2), Nat.eqb_refl. cbn [hbind app_slot hneigh]. rewrite !app_length. cbn [length Y1 Y2 hneigh].
    match goal with |- context [if ?c then set_info ?hh ?e ?f else HOk ?hh] =>
      destruct (set_info_if_step hh e n2 n1 _ c f (eq_trans (Ed5 e) ltac:(rewrite Nat.eqb_refl; reflexivity)))
        as [h6 (S6 & Nd6 & Rt6 & Nn6 & Ne6 & Ed6)] end.
    rewrite S6. cbn [hbind].
    assert (Hr6 : alookup (hroot h) (hnodes h6) = Some hr).
    { rewrite Nd6, Nd5. cbn [set_root hnodes]. rewrite Nd3.
      destruct (Nat.eqb_spec (hroot h) n2); [congruence|]. destruct (Nat.eqb_spec (hroot h) n1); [congruence|].
      rewrite Nd2. destruct (Nat.eqb_spec (hroot h) n2); [congruence|]. rewrite Nd1.
      destruct (Nat.eqb_spec (hroot h) n1); [congruence|]. exact Hr. }
    destruct (del_node_step2 h6 (hroot h) hr e1 e2 Hr6 Hbr) as [h7 (S7 & Nd7 & Ed7 & Rt7 & Nn7 & Ne7)].
    exists h7. split; [exact S7|]. constructor.
    + intros x. rewrite Nd7, Nd6, Nd5. cbn [set_root hnodes]. rewrite Nd3, Nd2, Nd1. unfold app_slot, Y1, Y2. cbn [hname hcom hneigh hbr].
      eqb_cases; subst; try congruence; reflexivity.
    + intros e. rewrite Ed7, Ed6, Ed5. cbn [set_root hedges]. rewrite Ed3, Hed2.
      unfold unroot_info. cbn [e0 elen esup epv ecom].
      replace (length (del_nth i1 (hneigh hn1)) + 1) with (length (hneigh hn1)) by lia.
      replace (length (del_nth i2 (hneigh hn2)) + 1) with (length (hneigh hn2)) by lia.
      rewrite Tip1. cbn [negb andb].
      eqb_cases; subst; try congruence; try reflexivity.
      all: repeat match goal with |- context [if ?c then _ else _] => destruct c end; reflexivity.
    + rewrite Rt7, Rt6, Rt5. reflexivity.
    + rewrite Nn7, Nn6, Nn5. cbn. congruence.
    + rewrite Ne7, Ne6, Ne5. cbn. congruence.
  - (* ConnectNodes(n1, n2), root n1 *)
    destruct (connect_nodes_step h2 n1 n2 Y1 Y2 N12 A1 A2) as [h3 (S3 & Nd3 & Ed3 & Rt3 & Nn3 & Ne3)].
    rewrite S3. cbn [hbind]. rewrite Hne2 in *.
    unfold get_edge. cbn [set_root hedges].
    rewrite (Ed3 e1), Hed2. destruct (Nat.eqb_spec e1 (hnexte h)); [contradiction|]. rewrite E1. cbn [hbind].
    rewrite (Ed3 e2), Hed2. destruct (Nat.eqb_spec e2 (hnexte h)); [contradiction|]. rewrite E2. cbn [hbind].
    match goal with |- context [if ?c then set_info ?hh ?e ?f else HOk ?hh] =>
      destruct (set_info_if_step hh e n1 n2 e0 c f) as [h5 (S5 & Nd5 & Rt5 & Nn5 & Ne5 & Ed5)] end.
    { cbn [set_root hedges]. rewrite Ed3, Nat.eqb_refl. reflexivity. }
    rewrite S5. cbn [hbind]. unfold get_node. rewrite Nd5. cbn [set_root hnodes].
    rewrite (Nd3 n1), Nat.eqb_refl. cbn [hbind].
    rewrite (Nd3 n2). destruct (Nat.eqb_spec n2 n1); [congruence|]. rewrite Nat.eqb_refl. cbn [hbind app_slot hneigh].
    rewrite !app_length. cbn [length Y1 Y2 hneigh].
    match goal with |- context [if ?c then set_info ?hh ?e ?f else HOk ?hh] =>
      destruct (set_info_if_step hh e n1 n2 _ c f (eq_trans (Ed5 e) ltac:(rewrite Nat.eqb_refl; reflexivity)))
        as [h6 (S6 & Nd6 & Rt6 & Nn6 & Ne6 & Ed6)] end.
    rewrite S6. cbn [hbind].
    assert (Hr6 : alookup (hroot h) (hnodes h6) = Some hr).
    { rewrite Nd6, Nd5. cbn [set_root hnodes]. rewrite Nd3.
      destruct (Nat.eqb_spec (hroot h) n1); [congruence|]. destruct (Nat.eqb_spec (hroot h) n2); [congruence|].
      rewrite Nd2. destruct (Nat.eqb_spec (hroot h) n2); [congruence|]. rewrite Nd1.
      destruct (Nat.eqb_spec (hroot h) n1); [congruence|]. exact Hr. }
    destruct (del_node_step2 h6 (hroot h) hr e1 e2 Hr6 Hbr) as [h7 (S7 & Nd7 & Ed7 & Rt7 & Nn7 & Ne7)].
    exists h7. split; [exact S7|]. constructor.
    + intros x. rewrite Nd7, Nd6, Nd5. cbn [set_root hnodes]. rewrite Nd3, Nd2, Nd1. unfold app_slot, Y1, Y2. cbn [hname hcom hneigh hbr].
      eqb_cases; subst; try congruence; reflexivity.
    + intros e. rewrite Ed7, Ed6, Ed5. cbn [set_root hedges]. rewrite Ed3, Hed2.
      unfold unroot_info. cbn [e0 elen esup epv ecom].
      replace (length (del_nth i1 (hneigh hn1)) + 1) with (length (hneigh hn1)) by lia.
      replace (length (del_nth i2 (hneigh hn2)) + 1) with (length (hneigh hn2)) by lia.
      rewrite Tip1. cbn [negb andb].
      eqb_cases; subst; try congruence; try reflexivity.
      all: repeat match goal with |- context [if ?c then _ else _] => destruct c end; reflexivity.
    + rewrite Rt7, Rt6, Rt5. reflexivity.
    + rewrite Nn7, Nn6, Nn5. cbn. congruence.
    + rewrite Ne7, Ne6, Ne5. cbn. congruence.
Qed.

(** * UnRoot keeps the representation *)
Lemma lunroot_not_two e3 i n c sl : length sl <> 2 -> lunroot e3 (LNode i n c sl) = LNode i n c sl.
Proof.
  intros H. destruct sl as [|[[[e1 ei1] [n1 nm1 cm1 sl1]]|] [|[[[e2 ei2] [n2 nm2 cm2 sl2]]|] [|s3 sl]]]; try reflexivity.
  cbn in H. lia.
Qed.

Lemma child_view h r e n nm cm sl : shape true h (Some (r, e)) (LNode n nm cm sl) -> lwf_sub (LNode n nm cm sl) ->
  exists hn, alookup n (hnodes h) = Some hn /\ hname hn = nm /\ hcom hn = cm /\
             length (hneigh hn) = length (hbr hn) /\ length (hneigh hn) = length sl /\
             Forall2 (slot_ok true h (Some (r, e)) n) (slots_of hn) sl /\ lnup sl = 1 /\
             (forall e' ei ch, In (Some (e', ei, ch)) sl -> lwf_sub ch).
Proof.
  intros Sh W. pose proof Sh as Sh'. apply shape_unfold in Sh. destruct Sh as [hn (A1 & A2 & A3 & A4 & A5)].
  apply lwf_sub_iff in W. destruct W as [W1 W2]. exists hn. repeat split; try assumption.
  exact (proj1 (shape_length _ _ _ _ _ _ _ _ Sh' A1)).
Qed.

Theorem unroot_heap_Rep h lt : Rep h lt -> exists h', unroot_heap h = HOk h' /\ Rep h' (lunroot (hnexte h) lt).
Proof.
  intros R. destruct lt as [r0 nm cm sl]. pose proof (rep_root _ _ R) as Hroot. cbn [lid] in Hroot. subst r0.
  pose proof (rep_shape _ _ R) as Sh. pose proof Sh as Sh0. apply shape_unfold in Sh. destruct Sh as [hr (A1 & A2 & A3 & A4 & A5)].
  destruct (shape_length _ _ _ _ _ _ _ _ Sh0 A1) as [Lr _].
  destruct (Nat.eq_dec (length sl) 2) as [L2|L2].
  2:{ exists h. rewrite lunroot_not_two by exact L2. split; [|exact R].
      unfold unroot_heap, get_node. rewrite A1. cbn [hbind]. rewrite Lr.
      destruct (Nat.eqb_spec (length sl) 2); [contradiction|reflexivity]. }
  pose proof (rep_wf _ _ R) as W. apply lwf_iff in W. destruct W as [W0 Wk].
  destruct sl as [|s1 [|s2 [|s3 sl]]]; cbn in L2; try lia.
  destruct s1 as [[[e1 ei1] [n1 nm1 cm1 sl1]]|]; [|cbn in W0; discriminate].
  destruct s2 as [[[e2 ei2] [n2 nm2 cm2 sl2]]|]; [|cbn in W0; discriminate].
  (* the root's two slots *)
  unfold slots_of in A5. destruct (hneigh hr) as [|x1 [|x2 [|x3 ng]]] eqn:Eng; cbn in Lr; try lia.
  destruct (hbr hr) as [|b1 [|b2 [|b3 bs]]] eqn:Ebr; cbn in A4; try lia. cbn [combine] in A5.
  inversion A5 as [|? ? ? ? O1 A5']; subst. inversion A5' as [|? ? ? ? O2 _]; subst. clear A5 A5'.
  cbn [slot_ok fst snd lid] in O1, O2.
  destruct O1 as (_ & <- & <- & [ed1 (E1 & E1i & E1l & E1r)] & S1).
  destruct O2 as (_ & <- & <- & [ed2 (E2 & E2i & E2l & E2r)] & S2).
  destruct (child_view _ _ _ _ _ _ _ S1 (Wk _ _ _ (or_introl eq_refl))) as [hn1 (B1 & B2 & B3 & B4 & B5 & B6 & B7 & B8)].
  destruct (child_view _ _ _ _ _ _ _ S2 (Wk _ _ _ (or_intror (or_introl eq_refl)))) as [hn2 (C1 & C2 & C3 & C4 & C5 & C6 & C7 & C8)].
  (* distinctness *)
  pose proof (rep_nd _ _ R) as Nd. rewrite lids_eq in Nd. cbn [flat_map] in Nd. rewrite !lids_eq in Nd. fold (sids sl1) (sids sl2) in Nd. rewrite app_nil_r in Nd.
  pose proof (rep_ned _ _ R) as Ned. rewrite leids_eq in Ned. cbn [flat_map] in Ned. rewrite !leids_eq in Ned. fold (seids sl1) (seids sl2) in Ned. rewrite app_nil_r in Ned.
  assert (P1 : Permutation ((hroot h) :: (n1 :: sids sl1) ++ n2 :: sids sl2) ((hroot h) :: n1 :: n2 :: sids sl1 ++ sids sl2)).
  { apply perm_skip. cbn [app]. apply perm_skip. symmetry. apply Permutation_middle. }
  assert (P2 : Permutation ((hroot h) :: (n1 :: sids sl1) ++ n2 :: sids sl2) ((hroot h) :: n2 :: n1 :: sids sl2 ++ sids sl1)).
  { apply perm_skip. rewrite Permutation_app_comm. cbn [app]. apply perm_skip. symmetry. apply Permutation_middle. }
  assert (Q1 : Permutation ((e1 :: seids sl1) ++ e2 :: seids sl2) (e1 :: e2 :: seids sl1 ++ seids sl2)).
  { cbn [app]. apply perm_skip. symmetry. apply Permutation_middle. }
  assert (Q2 : Permutation ((e1 :: seids sl1) ++ e2 :: seids sl2) (e2 :: e1 :: seids sl2 ++ seids sl1)).
  { rewrite Permutation_app_comm. cbn [app]. apply perm_skip. symmetry. apply Permutation_middle. }
  pose proof (Permutation_NoDup P1 Nd) as Nd1. pose proof (Permutation_NoDup P2 Nd) as Nd2.
  pose proof (Permutation_NoDup Q1 Ned) as Ned1. pose proof (Permutation_NoDup Q2 Ned) as Ned2.
  assert (Dn : forall x, alookup x (hnodes h) <> None <-> In x ((hroot h) :: (n1 :: sids sl1) ++ n2 :: sids sl2)).
  { intros x. rewrite <- (rep_nodes _ _ R x). rewrite lids_eq. cbn [flat_map]. rewrite !lids_eq. fold (sids sl1) (sids sl2). rewrite app_nil_r. reflexivity. }
  assert (De : forall e, alookup e (hedges h) <> None <-> In e ((e1 :: seids sl1) ++ e2 :: seids sl2)).
  { intros x. rewrite <- (rep_edges _ _ R x). rewrite leids_eq. cbn [flat_map]. rewrite !leids_eq. fold (seids sl1) (seids sl2). rewrite app_nil_r. reflexivity. }
  assert (Fn : forall x, alookup x (hnodes h) <> None -> x < hnextn h).
  { intros x Hx. apply (rep_fn _ _ R). apply (rep_nodes _ _ R). exact Hx. }
  assert (Fe : forall e, alookup e (hedges h) <> None -> e < hnexte h).
  { intros x Hx. apply (rep_fe _ _ R). apply (rep_edges _ _ R). exact Hx. }
  assert (Dist : n1 <> n2 /\ n1 <> (hroot h) /\ n2 <> (hroot h)).
  { apply NoDup_cons_iff in Nd1. destruct Nd1 as [X1 X2]. apply NoDup_cons_iff in X2. destruct X2 as [X3 _].
    repeat split; intros E.
    - apply X3. left. symmetry. exact E.
    - apply X1. left. exact E.
    - apply X1. right. left. exact E. }
  destruct Dist as (N12 & N1r & N2r).
  (* index of the root in its two neighbours *)
  assert (Hs1 : forall z, In z (sids sl1) -> z <> (hroot h)).
  { intros z Hz ->. apply NoDup_cons_iff in Nd1. apply (proj1 Nd1). right. right. apply in_or_app. left. exact Hz. }
  assert (Hs2 : forall z, In z (sids sl2) -> z <> (hroot h)).
  { intros z Hz ->. apply NoDup_cons_iff in Nd1. apply (proj1 Nd1). right. right. apply in_or_app. right. exact Hz. }
  destruct (drop_up_Forall2 (slot_ok true h (Some ((hroot h), e1)) n1) (hroot h) sl1 (hneigh hn1) (hbr hn1) B4 B6) as [i1 (I1 & I1' & _)].
  { intros j y Hj. eapply neigh_iff_none; [exact B6|exact B4|exact Hs1|exact Hj]. }
  { apply lnup_pos_in. lia. }
  destruct (drop_up_Forall2 (slot_ok true h (Some ((hroot h), e2)) n2) (hroot h) sl2 (hneigh hn2) (hbr hn2) C4 C6) as [i2 (I2 & I2' & _)].
  { intros j y Hj. eapply neigh_iff_none; [exact C6|exact C4|exact Hs2|exact Hj]. }
  { apply lnup_pos_in. lia. }
  assert (F1 : e1 <> hnexte h). { intros E. assert (e1 < hnexte h); [apply Fe; congruence|lia]. }
  assert (F2 : e2 <> hnexte h). { intros E. assert (e2 < hnexte h); [apply Fe; congruence|lia]. }
  destruct (unroot_eval h hr n1 n2 e1 e2 hn1 hn2 i1 i2 ed1 ed2 A1 Eng Ebr B1 C1 N12 N1r N2r I1 I1' ltac:(lia) I2 I2' ltac:(lia) E1 E2 F1 F2)
    as [h' [Ev D]].
  exists h'. split; [exact Ev|]. cbn [lunroot]. rewrite <- B5, <- C5, <- E1i, <- E2i.
  destruct (Nat.eqb (length (hneigh hn1)) 1) eqn:Tip1.
  - eapply (unroot_generic h h' (hroot h) n2 n1 e2 e1 (hnexte h) nm2 nm1 cm2 cm1 sl2 sl1 hn2 hn1 i2 i1); try eassumption; try reflexivity.
    + intros x. rewrite Dn. split; intros Hx; [eapply Permutation_in; [exact P2|exact Hx]|eapply Permutation_in; [symmetry; exact P2|exact Hx]].
    + intros x. rewrite De. split; intros Hx; [eapply Permutation_in; [exact Q2|exact Hx]|eapply Permutation_in; [symmetry; exact Q2|exact Hx]].
  - eapply (unroot_generic h h' (hroot h) n1 n2 e1 e2 (hnexte h) nm1 nm2 cm1 cm2 sl1 sl2 hn1 hn2 i1 i2); try eassumption; try reflexivity.
    + intros x. rewrite Dn. split; intros Hx; [eapply Permutation_in; [exact P1|exact Hx]|eapply Permutation_in; [symmetry; exact P1|exact Hx]].
    + intros x. rewrite De. split; intros Hx; [eapply Permutation_in; [exact Q1|exact Hx]|eapply Permutation_in; [symmetry; exact Q1|exact Hx]].
Qed.

(** * statements on [Good] and [abs] *)
Theorem unroot_heap_total h : Good h -> exists h', unroot_heap h = HOk h'.
Proof.
  intros G. destruct (Good_Rep h G) as [lt R]. destruct (unroot_heap_Rep h lt R) as [h' [E _]]. eauto.
Qed.

Theorem unroot_heap_good h h' : Good h -> unroot_heap h = HOk h' -> Good h'.
Proof.
  intros G E. destruct (Good_Rep h G) as [lt R]. destruct (unroot_heap_Rep h lt R) as [h2 [E2 R2]].
  rewrite E in E2. injection E2 as <-. eapply Rep_Good. exact R2.
Qed.

Theorem unroot_heap_square h t h' : Good h -> abs h = Some t -> unroot_heap h = HOk h' -> abs h' = Some (unroot t).
Proof.
  intros G Ha E. destruct (Good_Rep h G) as [lt R]. destruct (unroot_heap_Rep h lt R) as [h2 [E2 R2]].
  rewrite E in E2. injection E2 as <-. rewrite (Rep_abs _ _ R) in Ha. injection Ha as <-.
  rewrite (Rep_abs _ _ R2), erase_lunroot. reflexivity.
Qed.

(** * ConnectNodes / delNeighbor in terms of adjacency *)
Lemma slots_of_app_slot hn m e : length (hneigh hn) = length (hbr hn) ->
  slots_of (app_slot hn m e) = slots_of hn ++ [(m, e)].
Proof. intros H. unfold slots_of, app_slot. cbn [hneigh hbr]. rewrite combine_app_eq by exact H. reflexivity. Qed.

(** ConnectNodes(a, b) on two distinct nodes: a FRESH edge a -> b, listed by both ends under the
    same id, every other slot and edge untouched *)
Theorem connect_nodes_adjacent h a b ha hb e h' : a <> b ->
  alookup a (hnodes h) = Some ha -> alookup b (hnodes h) = Some hb ->
  length (hneigh ha) = length (hbr ha) -> length (hneigh hb) = length (hbr hb) ->
  connect_nodes a b h = HOk (e, h') ->
  e = hnexte h /\ alookup e (hedges h') = Some (mkHE a b e0) /\
  has_slot h' a b e /\ has_slot h' b a e /\
  (forall n m e', has_slot h n m e' -> has_slot h' n m e') /\
  (forall e', e' <> e -> alookup e' (hedges h') = alookup e' (hedges h)).
Proof.
  intros Hab Ha Hb La Lb E.
  destruct (connect_nodes_step h a b ha hb Hab Ha Hb) as [h2 (S & Nd & Ed & _)].
  rewrite S in E. injection E as <- <-. split; [reflexivity|]. split; [rewrite Ed, Nat.eqb_refl; reflexivity|].
  assert (Sa : alookup a (hnodes h2) = Some (app_slot ha b (hnexte h))) by (rewrite Nd, Nat.eqb_refl; reflexivity).
  assert (Sb : alookup b (hnodes h2) = Some (app_slot hb a (hnexte h))).
  { rewrite Nd. destruct (Nat.eqb_spec b a); [congruence|]. rewrite Nat.eqb_refl. reflexivity. }
  split; [|split; [|split]].
  - eexists. split; [exact Sa|]. rewrite slots_of_app_slot by exact La. apply in_or_app. right. left. reflexivity.
  - eexists. split; [exact Sb|]. rewrite slots_of_app_slot by exact Lb. apply in_or_app. right. left. reflexivity.
  - intros n m e' [hn [Hn Hin]]. destruct (Nat.eq_dec n a) as [->|Na]; [|destruct (Nat.eq_dec n b) as [->|Nb]].
    + rewrite Ha in Hn. injection Hn as <-. eexists. split; [exact Sa|]. rewrite slots_of_app_slot by exact La. apply in_or_app. left. exact Hin.
    + rewrite Hb in Hn. injection Hn as <-. eexists. split; [exact Sb|]. rewrite slots_of_app_slot by exact Lb. apply in_or_app. left. exact Hin.
    + exists hn. split; [|exact Hin]. rewrite Nd. destruct (Nat.eqb_spec n a); [contradiction|]. destruct (Nat.eqb_spec n b); [contradiction|]. exact Hn.
  - intros e' Hne. rewrite Ed. destruct (Nat.eqb_spec e' (hnexte h)); [contradiction|reflexivity].
Qed.

Lemma combine_del_nth {A B} i (l : list A) (m : list B) :
  combine (del_nth i l) (del_nth i m) = del_nth i (combine l m).
Proof.
  revert l m. induction i as [|i IH]; intros [|a l] [|b m]; try reflexivity.
  - unfold del_nth. cbn. destruct l; reflexivity.
  - rewrite !del_nth_S. cbn [combine]. rewrite del_nth_S. f_equal. apply IH.
Qed.

Lemma in_del_nth {A} i (l : list A) x : In x (del_nth i l) -> In x l.
Proof.
  revert i. induction l as [|a l IH]; intros i H.
  - unfold del_nth in H. destruct i; cbn in H; exact H.
  - destruct i as [|i]; [rewrite del_nth_0 in H; right; exact H|]. rewrite del_nth_S in H.
    destruct H as [<-|H]; [left; reflexivity|right; exact (IH i H)].
Qed.

Lemma in_del_nth_other {A} (l : list A) : forall i j x, nth_error l j = Some x -> j <> i -> In x (del_nth i l).
Proof.
  induction l as [|a l IH]; intros i j x Hj Hne; [destruct j; discriminate|].
  destruct i as [|i], j as [|j]; cbn in Hj.
  - contradiction.
  - rewrite del_nth_0. eapply nth_error_In. exact Hj.
  - rewrite del_nth_S. injection Hj as ->. left. reflexivity.
  - rewrite del_nth_S. right. apply (IH i j x Hj). lia.
Qed.

(** delNeighbor(n2) on a node whose neighbour list has no duplicate: the slot of [n2] is gone,
    the other slots stay, no other node and no edge changes *)
Theorem del_neighbor_removes h n n2 hn h' :
  alookup n (hnodes h) = Some hn -> length (hneigh hn) = length (hbr hn) -> NoDup (hneigh hn) ->
  del_neighbor n n2 h = HOk h' ->
  (forall e, ~ has_slot h' n n2 e) /\
  (forall m e, has_slot h' n m e -> has_slot h n m e) /\
  (forall m e, m <> n2 -> has_slot h n m e -> has_slot h' n m e) /\
  (forall x m e, x <> n -> (has_slot h' x m e <-> has_slot h x m e)) /\
  hedges h' = hedges h.
Proof.
  intros Hn Hl Hnd E. unfold del_neighbor, get_node in E. rewrite Hn in E. cbn [hbind] in E.
  destruct (index_of n2 (hneigh hn)) as [i|] eqn:Ei; [|discriminate].
  destruct (Nat.ltb_spec i (length (hbr hn))) as [Li|Li]; [|discriminate]. injection E as <-.
  set (hn' := mkHN (hname hn) (hcom hn) (del_nth i (hneigh hn)) (del_nth i (hbr hn))).
  assert (Sn : alookup n (hnodes (set_node h n hn')) = Some hn') by (cbn; apply alookup_aupd_eq).
  assert (Ss : slots_of hn' = del_nth i (slots_of hn)) by (unfold slots_of, hn'; cbn [hneigh hbr]; apply combine_del_nth).
  destruct (index_of_spec _ _ _ Ei) as [Hi _].
  assert (Hsplit : hneigh hn = firstn i (hneigh hn) ++ n2 :: skipn (S i) (hneigh hn)).
  { clear - Hi. revert i Hi. induction (hneigh hn) as [|a l IH]; intros [|i] Hi; cbn in *; try discriminate.
    - injection Hi as ->. reflexivity.
    - f_equal. apply IH. exact Hi. }
  split; [|split; [|split; [|split]]].
  - intros e [hx [Hx Hin]]. rewrite Sn in Hx. injection Hx as <-.
    apply slots_of_in_neigh in Hin. cbn [hn' hneigh] in Hin. unfold del_nth in Hin.
    rewrite Hsplit in Hnd. apply NoDup_remove_2 in Hnd. exact (Hnd Hin).
  - intros m e [hx [Hx Hin]]. rewrite Sn in Hx. injection Hx as <-. exists hn. split; [exact Hn|].
    rewrite Ss in Hin. eapply in_del_nth. exact Hin.
  - intros m e Hm [hx [Hx Hin]]. rewrite Hn in Hx. injection Hx as <-. exists hn'. split; [exact Sn|]. rewrite Ss.
    apply In_nth_error in Hin. destruct Hin as [j Hj].
    assert (j <> i).
    { intros ->. assert (nth_error (map fst (slots_of hn)) i = Some m) by (rewrite nth_error_map, Hj; reflexivity).
      rewrite slots_of_fst in H by exact Hl. congruence. }
    eapply in_del_nth_other; eassumption.
  - intros x m e Hx. unfold has_slot. cbn [set_node hnodes]. rewrite alookup_aupd_ne by exact Hx. reflexivity.
  - reflexivity.
Qed.
