(** Heap model: Tree.removeTip never panics on a good heap: it either succeeds (and the heap is
    good) or returns one of its error messages. *)
From Coq Require Import String ZArith QArith Bool Arith Lia Permutation List.
From GT Require Import Base.UTree Model.Reroot Model.Heap Proofs.Enum Proofs.HeapBase Proofs.HeapRep
     Proofs.HeapGood Proofs.HeapGoodRep Proofs.HeapRerootL Proofs.HeapReorder Proofs.HeapUnrootL Proofs.HeapUnroot
     Proofs.HeapCtx Proofs.HeapGraft Proofs.HeapCollapse Proofs.HeapPrune.
Import ListNotations.
Local Close Scope Q_scope.

Definition ok_or_err (r : hres heap) : Prop :=
  (exists h', r = HOk h' /\ Good h') \/ (exists m, r = HErr m).

Lemma suppress_tail_spec h lt name i : Rep h lt -> In i (lids lt) -> ok_or_err (suppress_tail name i h).
Proof.
  intros R Hin. pose proof (proj1 (rep_nodes _ _ R i) Hin) as Hi.
  destruct (alookup i (hnodes h)) as [hi|] eqn:Ei; [clear Hi|congruence].
  destruct (Rep_view h lt R i hi Ei) as (p & nm & cm & sl & V1 & V2 & V3 & _).
  assert (Lsl : length (hneigh hi) = length sl).
  { pose proof (Forall2_length' _ _ _ V3) as X. rewrite <- (slots_of_fst hi V2), map_length. exact X. }
  destruct (Nat.eq_dec (length sl) 2) as [L2|L2].
  - destruct p as [[P0 eP0]|].
    + destruct (suppress_inner_Rep h lt name P0 eP0 i nm cm sl R V1 L2) as (h2 & lt2 & E2 & R2).
      left. exists h2. split; [exact E2|eapply Rep_Good; exact R2].
    + destruct (lsubs_ctx _ _ _ _ V1) as [E0|[m [e E0]]]; [|discriminate]. injection E0 as E0.
      assert (Hr : hroot h = i) by (rewrite (rep_root _ _ R), <- E0; reflexivity).
      assert (L2' : length (lslots lt) = 2) by (rewrite <- E0; exact L2).
      destruct (suppress_root_Rep h lt name R L2') as [(h2 & lt2 & E2 & R2)|[msg E2]]; rewrite Hr in E2.
      * left. exists h2. split; [exact E2|eapply Rep_Good; exact R2].
      * right. exists msg. exact E2.
  - left. exists h. split; [|eapply Rep_Good; exact R].
    unfold suppress_tail. unfold get_node at 1. rewrite Ei. cbn [hbind].
    destruct (Nat.eqb_spec (length (hneigh hi)) 2) as [X|_]; [lia|reflexivity].
Qed.

Theorem remove_tip_heap_spec h name tip : Good h -> alookup tip (hnodes h) <> None ->
  ok_or_err (remove_tip_heap name tip h).
Proof.
  intros G Ht0. destruct (Good_Rep h G) as [lt R]. rewrite remove_tip_heap_eq.
  destruct (alookup tip (hnodes h)) as [ht|] eqn:Et; [clear Ht0|congruence].
  unfold get_node at 1. rewrite Et. cbn [hbind].
  destruct (Nat.eqb_spec (length (hneigh ht)) 1) as [L1|L1]; cbn [negb]; [|right; eexists; reflexivity].
  destruct (one_neighbour_record h lt tip ht R Et L1) as (m & b & Hng & Hbr).
  unfold nth_res at 1. rewrite Hbr. cbn [nth_error hbind].
  assert (Hs : has_slot h tip m b) by (exists ht; split; [exact Et|unfold slots_of; rewrite Hng, Hbr; left; reflexivity]).
  destruct (g_slot_exists _ G tip m b Hs) as [_ Hb]. destruct (alookup b (hedges h)) as [bd0|] eqn:Eb; [clear Hb|congruence].
  unfold get_edge at 1. rewrite Eb. cbn [hbind].
  destruct (Nat.eq_dec tip (hroot h)) as [Er|Nr].
  { right. destruct (g_rank _ G) as [rank [R0 R1]]. pose proof (R1 b bd0 Eb) as Hrk.
    destruct (g_ends _ G tip m b bd0 Hs Eb) as [[X Y]|[X Y]].
    - rewrite X. unfold del_neighbor, get_node. rewrite Et. cbn [hbind]. rewrite Hng.
      cbn [index_of]. destruct (Nat.eqb_spec m tip) as [E0|_]; [|eexists; reflexivity].
      rewrite X, Y, E0 in Hrk. lia.
    - rewrite Y, Er, R0 in Hrk. discriminate. }
  destruct (leaf_view h lt tip ht m b R Et Hng Hbr Nr) as (p & nm & cm & l1 & l2 & eix & nmx & cmx & Hsub).
  destruct (DL_facts h lt R p m nm cm l1 l2 b eix tip nmx cmx Hsub)
    as (hQ & hx & c1 & c2 & HQ & Hx0 & _ & _ & _ & _ & _ & _ & _ & _ & _ & Hex & _).
  destruct (drop_leaf_Rep h lt R p m nm cm l1 l2 b eix tip nmx cmx Hsub) as (h1 & hQ1 & Ev & R1 & HQ1 & HQ' & _ & _ & _ & _ & _).
  rewrite Hex in Eb. injection Eb as <-. cbn [hleft].
  destruct (del_neighbor m tip h) as [h0| |] eqn:E0; cbn [hbind] in Ev; try discriminate. cbn [hbind]. rewrite Ev. cbn [hbind].
  set (lt1 := lreplace m (LNode m nm cm (l1 ++ l2)) lt) in *.
  assert (HinQ : In m (lids lt1)) by (apply (rep_nodes _ _ R1); congruence).
  unfold get_node at 1. rewrite HQ'. cbn [hbind].
  match goal with |- context [if ?c then _ else _] => destruct c eqn:Elen end.
  2:{ cbn [hbind]. exact (suppress_tail_spec h1 lt1 name m R1 HinQ). }
  destruct (single_path_loop_Rep (hfuel h1) h1 lt1 m R1 HinQ) as (q' & h2 & lt2 & hq' & Lp & R2 & Hq' & Hstop).
  { unfold hfuel. pose proof (lids_le_nodes h1 lt1 (rep_nd _ _ R1) (fun y Hy => proj1 (rep_nodes _ _ R1 y) Hy)). lia. }
  rewrite Lp. cbn [hbind]. unfold get_node at 1. rewrite Hq'. cbn [hbind].
  assert (Hinq' : In q' (lids lt2)) by (apply (rep_nodes _ _ R2); congruence).
  match goal with |- context [if ?c then _ else _] => destruct c eqn:Efin end.
  2:{ cbn [hbind]. exact (suppress_tail_spec h2 lt2 name q' R2 Hinq'). }
  apply andb_true_iff in Efin. destruct Efin as [Fr Fl]. apply Nat.eqb_eq in Fr, Fl.
  destruct lt2 as [r2 nm2 cm2 sl2]. pose proof (rep_root _ _ R2) as Hroot2. cbn [lid] in Hroot2.
  assert (Er2 : r2 = q') by congruence. rewrite Er2 in *. clear Er2.
  pose proof (rep_shape _ _ R2) as Sh2. pose proof Sh2 as Sh2'. apply shape_unfold in Sh2. destruct Sh2 as [hq2 (A1 & A2 & A3 & A4 & A5)].
  rewrite Hq' in A1. injection A1 as <-.
  destruct (shape_length _ _ _ _ _ _ _ _ Sh2' Hq') as [Ls _].
  destruct sl2 as [|s2 [|s3 sl2]]; cbn in Ls; try lia.
  pose proof (rep_wf _ _ R2) as W2. apply lwf_iff in W2. destruct W2 as [W20 _].
  destruct s2 as [[[ec eic] [c nmc cmc slc]]|]; [|cbn in W20; discriminate].
  apply Forall2_cons_inv_r in A5. destruct A5 as ([c0 e0] & tl & Esl & Ok0 & A5). inversion A5. subst tl. clear A5.
  cbn [slot_ok fst snd lid] in Ok0. destruct Ok0 as (_ & <- & <- & _).
  assert (Hng' : hneigh hq' = [c]).
  { unfold slots_of in Esl. destruct (hneigh hq') as [|a [|a' ng]], (hbr hq') as [|b' [|b'' bs]]; cbn in A4, Esl; try discriminate; try lia.
    injection Esl as -> _. reflexivity. }
  rewrite Hng'. cbn [nth_res nth_error hbind].
  destruct (drop_root_Rep h2 q' nm2 cm2 ec eic c nmc cmc slc R2) as (h3 & E3 & R3).
  destruct (del_neighbor c q' (set_root h2 c)) as [h4| |] eqn:E4; cbn [hbind] in E3; try discriminate. cbn [hbind].
  rewrite E3. cbn [hbind]. left. exists h3. split; [reflexivity|eapply Rep_Good; exact R3].
Qed.

Corollary remove_tip_heap_total h name tip : Good h -> alookup tip (hnodes h) <> None ->
  remove_tip_heap name tip h <> HPanic.
Proof.
  intros G Ht E. destruct (remove_tip_heap_spec h name tip G Ht) as [(h' & E' & _)|(m & E')]; congruence.
Qed.
