(** TBE's inner pool (Model/PoolCells.v): whatever the interleaving and the number of workers,
    when wg.Wait() returns the per-branch cells and the mutex-protected accumulator hold what the
    sequential loop would have left — provided distinct jobs own distinct cells (the cells are
    read and written non-atomically) and the accumulator operation is associative and
    commutative (the critical sections commute). *)
From Coq Require Import Bool Arith Lia List Permutation.
From GT Require Import Model.Pool Model.PoolCells Proofs.Pool.
Import ListNotations.

Local Arguments cpending {job val acc} _.
Local Arguments cclosed {job val acc} _.
Local Arguments cqueue {job val acc} _.
Local Arguments cws {job val acc} _.
Local Arguments cells {job val acc} _.
Local Arguments accu {job val acc} _.
Local Arguments mkC {job val acc}.
Local Arguments set_cell {val}.
Local Arguments cproducer_step {job val acc}.
Local Arguments cworker_step {job val acc}.
Local Arguments cstep {job val acc}.
Local Arguments crun {job val acc}.
Local Arguments cinit {job val acc}.
Local Arguments cfinished {job val acc} _.
Local Arguments t_exited {job val} w.
Local Arguments seq_cells {job val}.
Local Arguments seq_accu {job acc}.

Lemma fold_left_perm {A} (op : A -> A -> A) :
  (forall a b c, op (op a b) c = op a (op b c)) -> (forall a b, op a b = op b a) ->
  forall l l', Permutation l l' -> forall a, fold_left op l a = fold_left op l' a.
Proof.
  intros Ha Hc l l' P. induction P; intros a; simpl; auto.
  - f_equal. rewrite !Ha. f_equal. apply Hc.
  - rewrite IHP1. apply IHP2.
Qed.

Lemma nodup_map_disjoint {A} (g : A -> nat) (l1 l2 : list A) a b :
  NoDup (map g (l1 ++ l2)) -> In a l1 -> In b l2 -> g a <> g b.
Proof.
  induction l1 as [|x l1 IH]; simpl; intros N Ha Hb; [destruct Ha|].
  inversion N as [|? ? Hn N']; subst.
  destruct Ha as [Ha|Ha].
  - subst x. intros E. apply Hn. rewrite E. apply in_map, in_or_app. auto.
  - apply IH; auto.
Qed.

Section CellsProofs.
  Variables (job val acc : Type).
  Variable cell : job -> nat.
  Variable upd : job -> val -> val.
  Variable contrib : job -> acc.
  Variable op : acc -> acc -> acc.
  Variable cj : nat.

  Local Notation cstate := (cst job val acc).
  Local Notation tst := (tstate job val).
  Local Notation wstepc := (cworker_step cell upd contrib op cj).
  Local Notation stepc := (cstep cell upd contrib op cj).
  Local Notation runc := (crun cell upd contrib op cj).

  (** * the sequential loop, cell by cell *)

  Lemma seq_cells_notin jobs c0 c :
    (forall j, In j jobs -> cell j <> c) -> seq_cells cell upd jobs c0 c = c0 c.
  Proof.
    unfold seq_cells. revert c0. induction jobs as [|a l IH]; intros c0 H; simpl; auto.
    rewrite IH by (intros; apply H; right; auto).
    unfold set_cell. destruct (Nat.eqb_spec c (cell a)); auto.
    exfalso. apply (H a); [left|]; auto.
  Qed.

  Lemma seq_cells_in jobs c0 j :
    NoDup (map cell jobs) -> In j jobs ->
    seq_cells cell upd jobs c0 (cell j) = upd j (c0 (cell j)).
  Proof.
    unfold seq_cells. revert c0. induction jobs as [|a l IH]; intros c0 N H; simpl; [destruct H|].
    inversion N as [|? ? Hn N']; subst. destruct H as [H|H].
    - subst a. fold (seq_cells cell upd l (set_cell c0 (cell j) (upd j (c0 (cell j))))).
      rewrite seq_cells_notin.
      + unfold set_cell. now rewrite Nat.eqb_refl.
      + intros j' Hj' E. apply Hn. rewrite <- E. apply in_map. auto.
    - rewrite IH; auto. unfold set_cell.
      destruct (Nat.eqb_spec (cell j) (cell a)) as [E|E]; auto.
      exfalso. apply Hn. rewrite <- E. apply in_map. auto.
  Qed.

  (** * the worker step as a relation *)

  Inductive wstepC (s : cstate) (i : nat) : cstate -> Prop :=
  | WC_stutter : wstepC s i s
  | WC_take l1 l2 j q :
      cws s = l1 ++ TIdle :: l2 -> length l1 = i -> cqueue s = j :: q ->
      wstepC s i (mkC (cpending s) (cclosed s) q (l1 ++ TGot j :: l2) (cells s) (accu s))
  | WC_rdv l1 l2 j p :
      cws s = l1 ++ TIdle :: l2 -> length l1 = i -> cqueue s = [] -> cpending s = j :: p ->
      wstepC s i (mkC p (cclosed s) [] (l1 ++ TGot j :: l2) (cells s) (accu s))
  | WC_exit l1 l2 pd :
      cws s = l1 ++ TIdle :: l2 -> length l1 = i -> cqueue s = [] -> cclosed s = true ->
      cpending s = pd ->
      wstepC s i (mkC pd true [] (l1 ++ TExited :: l2) (cells s) (accu s))
  | WC_crit l1 l2 j :
      cws s = l1 ++ TGot j :: l2 -> length l1 = i ->
      wstepC s i (mkC (cpending s) (cclosed s) (cqueue s) (l1 ++ TCounted j :: l2) (cells s)
                      (op (accu s) (contrib j)))
  | WC_read l1 l2 j :
      cws s = l1 ++ TCounted j :: l2 -> length l1 = i ->
      wstepC s i (mkC (cpending s) (cclosed s) (cqueue s)
                      (l1 ++ TRead j (cells s (cell j)) :: l2) (cells s) (accu s))
  | WC_write l1 l2 j v :
      cws s = l1 ++ TRead j v :: l2 -> length l1 = i ->
      wstepC s i (mkC (cpending s) (cclosed s) (cqueue s) (l1 ++ TIdle :: l2)
                      (set_cell (cells s) (cell j) (upd j v)) (accu s)).

  Lemma cworker_step_spec s i : wstepC s i (wstepc s i).
  Proof.
    unfold cworker_step.
    destruct (nth_error (cws s) i) as [w|] eqn:E; [|apply WC_stutter].
    destruct (nth_error_mid _ _ _ E) as (l1 & l2 & Hl & Hlen & Hset).
    destruct w as [|j|j|j v|]; try apply WC_stutter.
    - destruct (cqueue s) as [|j q] eqn:Q.
      + destruct cj as [|c].
        * destruct (cpending s) as [|j p] eqn:P.
          -- destruct (cclosed s) eqn:Cl; [|apply WC_stutter].
             rewrite Hset. eapply WC_exit; eauto.
          -- rewrite Hset. eapply WC_rdv; eauto.
        * destruct (cclosed s) eqn:Cl; [|apply WC_stutter].
          rewrite Hset. eapply WC_exit; eauto.
      + rewrite Hset. eapply WC_take; eauto.
    - rewrite Hset. eapply WC_crit; eauto.
    - rewrite Hset. eapply WC_read; eauto.
    - rewrite Hset. eapply WC_write; eauto.
  Qed.

  (** * the invariant *)

  Definition held (w : tst) : list job :=
    match w with TGot j | TCounted j | TRead j _ => [j] | _ => [] end.
  Definition counted (w : tst) : list job :=
    match w with TCounted j | TRead j _ => [j] | _ => [] end.

  Variable jobs : list job.
  Variable n : nat.
  Variable c0 : nat -> val.
  Variable a0 : acc.
  Hypothesis cells_distinct : NoDup (map cell jobs).

  Record cinv (s : cstate) : Prop := mkCInv {
    ci_closed : cclosed s = true -> cpending s = [];
    ci_exit : In TExited (cws s) -> cclosed s = true /\ cqueue s = [];
    ci_len : length (cws s) = n;
    ci_mem : exists processed accd,
        Permutation jobs (processed ++ flat_map held (cws s) ++ cqueue s ++ cpending s)
        /\ (forall j, In j processed -> cells s (cell j) = upd j (c0 (cell j)))
        /\ (forall c, (forall j, In j processed -> cell j <> c) -> cells s c = c0 c)
        /\ (forall j v, In (TRead j v) (cws s) -> v = c0 (cell j))
        /\ accu s = fold_left op (map contrib accd) a0
        /\ Permutation accd (processed ++ flat_map counted (cws s))
  }.

  Lemma flat_mid {B} (g : tst -> list B) l1 w l2 :
    flat_map g (l1 ++ w :: l2) = flat_map g l1 ++ g w ++ flat_map g l2.
  Proof. rewrite flat_map_app. reflexivity. Qed.

  Lemma cinv_init : cinv (cinit jobs n c0 a0).
  Proof.
    split; simpl.
    - discriminate.
    - intros H. apply repeat_spec in H. discriminate.
    - apply repeat_length.
    - exists [], [].
      assert (forall g : tst -> list job, g TIdle = [] -> flat_map g (repeat TIdle n) = []) as Z.
      { intros g Hg. induction n; simpl; auto. rewrite Hg. auto. }
      rewrite !Z by reflexivity. simpl. rewrite ?app_nil_r.
      repeat split; auto.
      + intros j [].
      + intros j v H. apply repeat_spec in H. discriminate.
  Qed.

  Lemma perm_move_front {A} (p h1 h2 r : list A) x :
    Permutation (p ++ (h1 ++ x :: h2) ++ r) (x :: p ++ (h1 ++ h2) ++ r).
  Proof.
    symmetry. rewrite <- !app_assoc. simpl.
    rewrite app_assoc. rewrite (app_assoc p h1 (x :: h2 ++ r)).
    apply Permutation_middle.
  Qed.

  Lemma cinv_step s a : cinv s -> cinv (stepc s a).
  Proof.
    intros Hs. pose proof Hs as [Hc He Hl (pr & ad & Hp & Hin & Hout & Hrd & Hac & Had)].
    destruct a as [|i]; simpl.
    - unfold cproducer_step. destruct (cpending s) as [|j pd] eqn:Pd.
      + split; simpl; auto.
        * intros H. destruct (He H). auto.
        * exists pr, ad. auto 10.
      + destruct (length (cqueue s) <? cj); [|exact Hs].
        split; simpl; auto.
        * intros C. specialize (Hc C). discriminate.
        * intros H. destruct (He H) as [C _]. specialize (Hc C). discriminate.
        * exists pr, ad. repeat split; auto. rewrite <- app_assoc. exact Hp.
    - destruct (cworker_step_spec s i) as
        [ | l1 l2 j q Hw Hi Q | l1 l2 j p Hw Hi Q P | l1 l2 pd Hw Hi Q Cl Pd
          | l1 l2 j Hw Hi | l1 l2 j Hw Hi | l1 l2 j v Hw Hi ].
      + exact Hs.
      + (* take *)
        rewrite Hw, Q in *. rewrite flat_mid in *. simpl in *.
        split; simpl; auto.
        * intros H. destruct He as [_ X]; [|discriminate].
          eapply in_mid_swap; eauto. discriminate.
        * rewrite <- Hl. rewrite !app_length. reflexivity.
        * exists pr, ad. rewrite !flat_mid. simpl. repeat split; auto.
          -- eapply Permutation_trans; [exact Hp|].
             apply Permutation_app_head. rewrite <- !app_assoc. apply Permutation_app_head.
             simpl. symmetry. apply Permutation_middle.
          -- intros j' v' H. apply Hrd. eapply in_mid_swap; eauto. discriminate.
      + (* rendez-vous *)
        rewrite Hw, Q, P in *. rewrite flat_mid in *. simpl in *.
        split; simpl; auto.
        * intros C. specialize (Hc C). discriminate.
        * intros H. destruct He as [C _].
          -- eapply in_mid_swap; eauto. discriminate.
          -- specialize (Hc C). discriminate.
        * rewrite <- Hl. rewrite !app_length. reflexivity.
        * exists pr, ad. rewrite !flat_mid. simpl. repeat split; auto.
          -- eapply Permutation_trans; [exact Hp|].
             apply Permutation_app_head. rewrite <- !app_assoc. apply Permutation_app_head.
             simpl. symmetry. apply Permutation_middle.
          -- intros j' v' H. apply Hrd. eapply in_mid_swap; eauto. discriminate.
      + (* exit *)
        rewrite Hw, Q in *. rewrite flat_mid in *. simpl in *. subst pd.
        split; simpl; auto.
        * rewrite <- Hl. rewrite !app_length. reflexivity.
        * exists pr, ad. rewrite !flat_mid. simpl. repeat split; auto.
          intros j' v' H. apply Hrd. eapply in_mid_swap; eauto. discriminate.
      + (* critical section *)
        rewrite Hw in *. rewrite !flat_mid in *. simpl in *.
        split; simpl; auto.
        * intros H. apply He. eapply in_mid_swap; eauto. discriminate.
        * rewrite <- Hl. rewrite !app_length. reflexivity.
        * exists pr, (ad ++ [j]). rewrite !flat_mid. simpl. repeat split; auto.
          -- intros j' v' H. apply Hrd. eapply in_mid_swap; eauto. discriminate.
          -- rewrite map_app, fold_left_app. simpl. now rewrite Hac.
          -- eapply Permutation_trans; [symmetry; apply Permutation_cons_append|].
             rewrite app_assoc. apply Permutation_cons_app. rewrite <- app_assoc. exact Had.
      + (* read the cell *)
        rewrite Hw in *. rewrite !flat_mid in *. simpl in *.
        split; simpl; auto.
        * intros H. apply He. eapply in_mid_swap; eauto. discriminate.
        * rewrite <- Hl. rewrite !app_length. reflexivity.
        * exists pr, ad. rewrite !flat_mid. simpl. repeat split; auto.
          intros j' v' H. apply in_app_or in H. destruct H as [H|[H|H]].
          -- apply Hrd. apply in_or_app. auto.
          -- injection H as <- <-. apply Hout. intros j' Hj'.
             apply (nodup_map_disjoint cell pr ((flat_map held l1 ++ j :: flat_map held l2)
                                                 ++ cqueue s ++ cpending s)).
             ++ eapply Permutation_NoDup; [apply Permutation_map; exact Hp|].
                exact cells_distinct.
             ++ exact Hj'.
             ++ apply in_or_app. left. apply in_or_app. right. left. reflexivity.
          -- apply Hrd. apply in_or_app. right. right. exact H.
      + (* write the cell back *)
        rewrite Hw in *. rewrite !flat_mid in *. simpl in *.
        assert (Hv : v = c0 (cell j)).
        { apply Hrd. apply in_or_app. right. left. reflexivity. }
        assert (Hdis : forall j', In j' pr -> cell j' <> cell j).
        { intros j' Hj'.
          apply (nodup_map_disjoint cell pr ((flat_map held l1 ++ j :: flat_map held l2)
                                              ++ cqueue s ++ cpending s)).
          - eapply Permutation_NoDup; [apply Permutation_map; exact Hp|].
            exact cells_distinct.
          - exact Hj'.
          - apply in_or_app. left. apply in_or_app. right. left. reflexivity. }
        split; simpl; auto.
        * intros H. apply He. eapply in_mid_swap; eauto. discriminate.
        * rewrite <- Hl. rewrite !app_length. reflexivity.
        * exists (pr ++ [j]), ad. rewrite !flat_mid. simpl. repeat split; auto.
          -- eapply Permutation_trans; [exact Hp|].
             rewrite <- !app_assoc. apply Permutation_app_head. simpl.
             symmetry. apply Permutation_middle.
          -- intros j' Hj'. apply in_app_or in Hj'. unfold set_cell. destruct Hj' as [Hj'|[<-|[]]].
             ++ destruct (Nat.eqb_spec (cell j') (cell j)) as [E|E]; [|auto].
                exfalso. apply (Hdis j'); auto.
             ++ rewrite Nat.eqb_refl. now rewrite Hv.
          -- intros c Hcn. unfold set_cell. destruct (Nat.eqb_spec c (cell j)) as [E|E].
             ++ exfalso. apply (Hcn j); [apply in_or_app; right; left|]; auto.
             ++ apply Hout. intros j' Hj'. apply Hcn. apply in_or_app. auto.
          -- intros j' v' H. apply Hrd. eapply in_mid_swap; eauto. discriminate.
          -- eapply Permutation_trans; [exact Had|].
             rewrite <- !app_assoc. apply Permutation_app_head. simpl.
             symmetry. apply Permutation_middle.
  Qed.

  Lemma cinv_run sched s : cinv s -> cinv (runc sched s).
  Proof.
    revert s. induction sched as [|a sched IH]; intros s H; simpl; auto.
    apply IH, cinv_step, H.
  Qed.

  (** * the final memory *)

  Lemma cfinished_all (s : cstate) : cfinished s = true -> forall w, In w (cws s) -> w = TExited.
  Proof.
    unfold cfinished. rewrite forallb_forall. intros H w Hw. specialize (H w Hw).
    destruct w; simpl in H; congruence.
  Qed.

  Lemma all_exited_flat (g : tst -> list job) (l : list tst) :
    (forall w, In w l -> w = TExited) -> g TExited = [] -> flat_map g l = [].
  Proof.
    intros Hall Hg. induction l as [|w l IH]; simpl; auto.
    rewrite (Hall w) by (left; auto). rewrite Hg. simpl. apply IH.
    intros; apply Hall; right; auto.
  Qed.

  Lemma final_memory sched :
    (forall a b c, op (op a b) c = op a (op b c)) -> (forall a b, op a b = op b a) ->
    1 <= n ->
    let s := runc sched (cinit jobs n c0 a0) in
    cfinished s = true ->
    (forall c, cells s c = seq_cells cell upd jobs c0 c) /\ accu s = seq_accu contrib op jobs a0.
  Proof.
    intros Hassoc Hcomm Hn s F.
    destruct (cinv_run sched _ cinv_init) as [Hc He Hl (pr & ad & Hp & Hin & Hout & Hrd & Hac & Had)].
    fold s in Hc, He, Hl, Hp, Hin, Hout, Hrd, Hac, Had.
    pose proof (cfinished_all s F) as Hall.
    assert (Hg : forall g : tst -> list job, g TExited = [] -> flat_map g (cws s) = [])
      by (intros g Hg; apply all_exited_flat; auto).
    assert (Hex : In TExited (cws s)).
    { destruct (cws s) as [|w l]; simpl in Hl; [lia|]. left. apply Hall. left; auto. }
    destruct (He Hex) as [C Q].
    rewrite (Hg held), Q, (Hc C) in Hp by reflexivity. simpl in Hp. rewrite app_nil_r in Hp.
    rewrite (Hg counted), app_nil_r in Had by reflexivity.
    split.
    - intros c. destruct (in_dec Nat.eq_dec c (map cell jobs)) as [Hi|Hni].
      + apply in_map_iff in Hi. destruct Hi as (j & <- & Hj).
        rewrite seq_cells_in; auto. apply Hin. eapply Permutation_in; [exact Hp|exact Hj].
      + rewrite seq_cells_notin.
        * apply Hout. intros j Hj E. apply Hni. rewrite <- E. apply in_map.
          eapply Permutation_in; [symmetry; exact Hp|exact Hj].
        * intros j Hj E. apply Hni. rewrite <- E. apply in_map. exact Hj.
    - rewrite Hac. unfold seq_accu. apply fold_left_perm; auto.
      apply Permutation_map. eapply Permutation_trans; [exact Had|]. symmetry. exact Hp.
  Qed.

End CellsProofs.
