(** Every tree the parser of Model/Newick.v delivers is a well-formed rooted structure
    ([wf]: no parent slot in the root, exactly one in every other node), whatever the input
    text.  Invariant of the node stack. *)
From Coq Require Import String Ascii ZArith QArith Bool Arith Lia List.
From GT Require Import Base.UTree Model.Newick Proofs.NewickLex.
Import ListNotations.
Local Close Scope Q_scope.
Local Open Scope string_scope.

Definition slots_wf (sl : list slot) : bool :=
  forallb (fun s => match s with Some (_, c) => wf_sub c | None => true end) sl.

Definition frame_ok (root : bool) (f : frame) : Prop :=
  n_up (fslots f) = (if root then 0 else 1) /\ slots_wf (fslots f) = true.

Fixpoint stack_ok (stk : list frame) : Prop :=
  match stk with
  | [] => True
  | [f] => frame_ok true f
  | f :: r => frame_ok false f /\ stack_ok r
  end.

Definition inv (st : pstate) : Prop :=
  stack_ok (stk st) /\ match droot st with Some t => wf t = true | None => True end.

Lemma n_up_app : forall a b : list slot, n_up (a ++ b) = n_up a + n_up b.
Proof. intros. unfold n_up. rewrite filter_app, app_length. reflexivity. Qed.

Lemma slots_wf_app : forall a b, slots_wf (a ++ b) = slots_wf a && slots_wf b.
Proof. intros. unfold slots_wf. apply forallb_app. Qed.

Lemma wf_sub_node : forall f, frame_ok false f -> wf_sub (node_of f) = true.
Proof.
  intros f [H1 H2]. unfold node_of. cbn [wf_sub]. rewrite H1. simpl. exact H2.
Qed.

Lemma wf_node : forall f, frame_ok true f -> wf (node_of f) = true.
Proof.
  intros f [H1 H2]. unfold node_of. cbn [wf]. rewrite H1. simpl. exact H2.
Qed.

Lemma add_child_ok : forall b p f, frame_ok b p -> frame_ok false f -> frame_ok b (add_child p f).
Proof.
  intros b p f [H1 H2] Hf. unfold frame_ok, add_child. cbn [fslots]. split.
  - rewrite n_up_app, H1. change (n_up [Some (edge_of f, node_of f)]) with 0. lia.
  - rewrite slots_wf_app, H2.
    change (slots_wf [Some (edge_of f, node_of f)]) with (wf_sub (node_of f) && true).
    rewrite (wf_sub_node f Hf). reflexivity.
Qed.

Lemma stack_ok_cons2 : forall f p r, stack_ok (f :: p :: r) <-> frame_ok false f /\ stack_ok (p :: r).
Proof. intros. simpl. tauto. Qed.

Lemma stack_ok_head : forall g f r,
    (forall b, frame_ok b f -> frame_ok b (g f)) -> stack_ok (f :: r) -> stack_ok (g f :: r).
Proof.
  intros g f r Hg H. destruct r as [|p r].
  - simpl in *. apply Hg. exact H.
  - apply stack_ok_cons2 in H. apply stack_ok_cons2. destruct H. split; [apply Hg; assumption|assumption].
Qed.

Lemma stack_ok_push : forall n f r, stack_ok (f :: r) -> stack_ok (mkF n [] [None] (Some e0) :: f :: r).
Proof.
  intros. apply stack_ok_cons2. split; [|assumption]. split; reflexivity.
Qed.

Lemma pop_inv : forall st stk' dr', inv st -> pop st = Some (stk', dr') ->
    stack_ok stk' /\ match dr' with Some t => wf t = true | None => True end.
Proof.
  intros [stk dr L p pe] stk' dr' [Hs Hd] H. unfold pop in H. simpl in *.
  destruct stk as [|f [|p0 r]]; [discriminate| |].
  - inversion H; subst. split; [exact I|]. apply wf_node. exact Hs.
  - inversion H; subst. split; [|exact Hd].
    apply stack_ok_cons2 in Hs. destruct Hs as [Hf Hr].
    destruct r as [|q r].
    + simpl in *. apply add_child_ok; assumption.
    + apply stack_ok_cons2 in Hr. apply stack_ok_cons2. destruct Hr.
      split; [apply add_child_ok; assumption|assumption].
Qed.

Lemma upd_head_ok : forall g st,
    (forall b f, frame_ok b f -> frame_ok b (g f)) -> stack_ok (stk st) -> stack_ok (upd_head g st).
Proof.
  intros g st Hg H. unfold upd_head. destruct (stk st) as [|f r]; [exact I|].
  apply stack_ok_head; [intros b; apply Hg|exact H].
Qed.

Lemma set_name_ok : forall n b f, frame_ok b f -> frame_ok b (set_name n f).
Proof. intros n b f H. exact H. Qed.
Lemma add_ncom_ok : forall c b f, frame_ok b f -> frame_ok b (add_ncom c f).
Proof. intros c b f H. exact H. Qed.
Lemma map_edge_ok : forall g b f, frame_ok b f -> frame_ok b (map_edge g f).
Proof. intros g b f H. exact H. Qed.

Section Wf.
  Variable numeric : string -> bool.
  Variable parse_num : string -> option Q.

  Notation step := (step numeric parse_num).
  Notation parse_iter := (parse_iter numeric parse_num).

  Lemma stack_ok_same_slots : forall f f' r,
      fslots f' = fslots f -> stack_ok (f :: r) -> stack_ok (f' :: r).
  Proof.
    intros f f' r E H. destruct r as [|p0 r].
    - simpl in *. unfold frame_ok in *. rewrite E. exact H.
    - apply stack_ok_cons2 in H. apply stack_ok_cons2. unfold frame_ok in *. rewrite E. exact H.
  Qed.

  Ltac fin Hs Hd :=
    split; cbn [stk droot];
    [ first [ exact Hs
            | apply stack_ok_push; exact Hs
            | (eapply stack_ok_same_slots; [|exact Hs]; reflexivity)
            | (split; reflexivity) ]
    | first [exact Hd | exact I] ].

  Lemma step_inv : forall st s st' r, inv st -> step st s = Cont st' r -> inv st'.
  Proof.
    intros [stk0 dr L p pe] s st' r Hinv H. pose proof Hinv as [Hs Hd]. cbn [stk droot] in Hs, Hd.
    unfold Newick.step in H.
    destruct (scan_iw numeric s) as [[[tok lit] r0] pre] eqn:E.
    destruct tok; try discriminate; unfold with_num, upd_head, head_edge in H; cbn [stk droot lvl prev perr] in H.
    - (* ILLEGAL *) inversion H; subst; assumption.
    - (* EOF *) repeat break_match_hyp; discriminate.
    - (* WS *) inversion H; subst; assumption.
    - (* IDENT *)
      repeat break_match_hyp; try discriminate; inversion H; subst; try assumption; fin Hs Hd.
    - (* NUMERIC *)
      repeat break_match_hyp; try discriminate; inversion H; subst; try assumption; fin Hs Hd.
    - (* OPENPAR *)
      repeat break_match_hyp; try discriminate; inversion H; subst; fin Hs Hd.
    - (* CLOSEPAR *)
      destruct (L - 1 <? 0)%Z; [discriminate|].
      destruct (pop (mkS stk0 dr L p pe)) as [[stk' dr']|] eqn:Ep; [|discriminate]. inversion H; subst.
      destruct (pop_inv _ _ _ Hinv Ep). split; assumption.
    - (* STARTLEN *)
      destruct (scan_iw numeric r0) as [[[tok2 lit2] r2] pre2] eqn:E2.
      repeat break_match_hyp; try discriminate; inversion H; subst; fin Hs Hd.
    - (* OPENBRACK *)
      repeat break_match_hyp; try discriminate; inversion H; subst; fin Hs Hd.
    - (* NEWSIBLING *)
      destruct (pop (mkS stk0 dr L p pe)) as [[stk' dr']|] eqn:Ep; [|discriminate]. inversion H; subst.
      destruct (pop_inv _ _ _ Hinv Ep). split; assumption.
    - (* EOT *) repeat break_match_hyp; discriminate.
  Qed.

  Lemma step_ret : forall st s st' r, step st s = Stop (IRet st' r) -> st' = st.
  Proof.
    intros st s st' r H. unfold Newick.step in H.
    destruct (scan_iw numeric s) as [[[tok lit] r0] pre] eqn:E.
    destruct tok; try discriminate; unfold with_num in H.
    - repeat break_match_hyp; try discriminate; inversion H; reflexivity.
    - repeat break_match_hyp; discriminate.
    - repeat break_match_hyp; discriminate.
    - repeat break_match_hyp; discriminate.
    - repeat break_match_hyp; discriminate.
    - destruct (scan_iw numeric r0) as [[[tok2 lit2] r2] pre2] eqn:E2.
      repeat break_match_hyp; discriminate.
    - repeat break_match_hyp; discriminate.
    - repeat break_match_hyp; discriminate.
    - repeat break_match_hyp; try discriminate; inversion H; reflexivity.
  Qed.

  Lemma parse_iter_inv : forall fuel st s st' r,
      inv st -> parse_iter fuel st s = IRet st' r -> inv st'.
  Proof.
    induction fuel; intros st s st' r Hinv H; [discriminate|]. simpl in H.
    destruct (step st s) as [st1 r1|x] eqn:E.
    - eapply IHfuel; [|exact H]. eapply step_inv; eassumption.
    - subst x. apply step_ret in E. subst. exact Hinv.
  Qed.

  Lemma collapse_wf : forall below f, stack_ok (f :: below) -> wf (collapse f below) = true.
  Proof.
    induction below as [|p r IH]; intros f H.
    - simpl in *. apply wf_node. exact H.
    - apply stack_ok_cons2 in H. destruct H as [Hf Hr]. simpl. apply IH.
      destruct r as [|q r].
      + simpl in *. apply add_child_ok; assumption.
      + apply stack_ok_cons2 in Hr. apply stack_ok_cons2. destruct Hr.
        split; [apply add_child_ok; assumption|assumption].
  Qed.

  Lemma final_tree_wf : forall st t, inv st -> final_tree st = Some t -> wf t = true.
  Proof.
    intros st t [Hs Hd] H. unfold final_tree in H. destruct (stk st) as [|f r].
    - rewrite H in Hd. exact Hd.
    - inversion H; subst. apply collapse_wf. exact Hs.
  Qed.

  Lemma trim_slots : forall sl,
      Forall (fun s : slot => match s with Some (_, t) => wf_sub (trim_tips t) = wf_sub t | None => True end) sl ->
      n_up (map (fun s : slot => match s with Some (e, ch) => Some (e, trim_tips ch) | None => None end) sl) = n_up sl /\
      slots_wf (map (fun s : slot => match s with Some (e, ch) => Some (e, trim_tips ch) | None => None end) sl) = slots_wf sl.
  Proof.
    induction 1 as [|[[e ch]|] r Hx Hr IH]; [split; reflexivity| |].
    - destruct IH as [IH1 IH2]. unfold n_up, slots_wf in *. simpl. rewrite Hx, IH2. split; [exact IH1|reflexivity].
    - destruct IH as [IH1 IH2]. unfold n_up, slots_wf in *. simpl. rewrite IH2. split; [f_equal; exact IH1|reflexivity].
  Qed.

  Lemma trim_wf_sub : forall t, wf_sub (trim_tips t) = wf_sub t.
  Proof.
    induction t as [n c sl IH] using utree_ind'. cbn [trim_tips wf_sub].
    destruct (trim_slots sl IH) as [H1 H2]. unfold slots_wf in H2. rewrite H1, H2. reflexivity.
  Qed.

  Lemma trim_wf : forall t, wf (trim_tips t) = wf t.
  Proof.
    intros [n c sl]. cbn [trim_tips wf].
    assert (H : Forall (fun s : slot => match s with Some (_, t) => wf_sub (trim_tips t) = wf_sub t | None => True end) sl).
    { apply Forall_forall. intros [[e ch]|] _; [apply trim_wf_sub|exact I]. }
    destruct (trim_slots sl H) as [H1 H2]. unfold slots_wf in H2. rewrite H1, H2. reflexivity.
  Qed.

  Theorem parse_raw_wf : forall s t, parse_raw numeric parse_num s = POk t -> wf t = true.
  Proof.
    intros s t H. unfold parse_raw, parse_fuel in H.
    destruct (scan_iw numeric s) as [[[tok lit] r] pre] eqn:E.
    assert (Hiter : forall pre1,
               match parse_iter (S (String.length s)) st0 pre1 with
               | IErr m => PErr m
               | IRet st rest =>
                 if negb (lvl st =? 0)%Z then PErr "newick error : mismatched parenthesis after parsing"
                 else let '(tok3, _, _, _) := scan_iw numeric rest in
                      if negb (token_eqb tok3 EOT) then PErr "found"
                      else match final_tree st with
                           | Some t => POk (trim_tips t)
                           | None => PErr "model: no root"
                           end
               | IFuel => POutOfFuel
               end = POk t -> wf t = true).
    { intros pre1 H1.
      destruct (parse_iter (S (String.length s)) st0 pre1) as [m|st rest|] eqn:Ei; try discriminate.
      assert (Hinv : inv st).
      { eapply parse_iter_inv; [|exact Ei]. split; exact I. }
      destruct (negb (lvl st =? 0)%Z); [discriminate|].
      destruct (scan_iw numeric rest) as [[[tok3 l3] r3] p3].
      destruct (negb (token_eqb tok3 EOT)); [discriminate|].
      destruct (final_tree st) as [t0|] eqn:Ef; [|discriminate].
      inversion H1; subst. rewrite trim_wf. eapply final_tree_wf; eassumption. }
    destruct tok;
      try (cbv beta iota in H; destruct (negb (token_eqb _ OPENPAR)); [discriminate|eapply Hiter; exact H]).
    destruct (consume_comment numeric (S (String.length r)) "" r) as [c r'| |] eqn:Ec; try discriminate.
    destruct (scan_iw numeric r') as [[[tok2 lit2] r2] pre2] eqn:E2.
    destruct (negb (token_eqb tok2 OPENPAR)); [discriminate|]. eapply Hiter. exact H.
  Qed.

  Theorem parse_wf : forall s t, parse numeric parse_num s = POk t -> wf t = true.
  Proof. intros s t H. unfold parse in H. eapply parse_raw_wf. exact H. Qed.
End Wf.
