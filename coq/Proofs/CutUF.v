(** C14 (cut), part 5a: the naive union-find of Spec/Cut.v computes connectivity.
    [conn E] is the smallest equivalence relation containing the pairs of [E]; after folding
    [union] over a list of pairs, starting from singletons, two elements of the carrier are
    in a common class exactly when they are related by [conn]. *)
From Coq Require Import Bool Arith Lia List.
From GT Require Import Spec.Cut.
Import ListNotations.

Inductive conn (E : list (nat * nat)) : nat -> nat -> Prop :=
| conn_refl i : conn E i i
| conn_edge u v : In (u, v) E -> conn E u v
| conn_sym i j : conn E i j -> conn E j i
| conn_trans i j k : conn E i j -> conn E j k -> conn E i k.

Lemma conn_mono E E' i j : incl E E' -> conn E i j -> conn E' i j.
Proof.
  intros H. induction 1.
  - apply conn_refl.
  - apply conn_edge. auto.
  - now apply conn_sym.
  - eapply conn_trans; eauto.
Qed.

Lemma conn_nil i j : conn [] i j -> i = j.
Proof. induction 1; auto; try congruence. destruct H. Qed.

(** adding one pair *)
Lemma conn_add E u v i j :
  conn (E ++ [(u, v)]) i j ->
  conn E i j \/ (conn E i u /\ conn E v j) \/ (conn E i v /\ conn E u j).
Proof.
  induction 1 as [i|a b H|i j H IH|i j k H1 IH1 H2 IH2].
  - left. apply conn_refl.
  - apply in_app_iff in H. destruct H as [H|[H|[]]].
    + left. now apply conn_edge.
    + inversion H; subst. right. left. split; apply conn_refl.
  - destruct IH as [A|[[A B]|[A B]]].
    + left. now apply conn_sym.
    + right. right. split; now apply conn_sym.
    + right. left. split; now apply conn_sym.
  - destruct IH1 as [A|[[A B]|[A B]]]; destruct IH2 as [C|[[C D]|[C D]]].
    + left. eapply conn_trans; eauto.
    + right. left. split; auto. eapply conn_trans; eauto.
    + right. right. split; auto. eapply conn_trans; eauto.
    + right. left. split; auto. eapply conn_trans; eauto.
    + right. left. split; auto.
    + left. eapply conn_trans; eauto.
    + right. right. split; auto. eapply conn_trans; eauto.
    + left. eapply conn_trans; eauto.
    + right. right. split; auto.
Qed.

(** * classes *)
Definition sc (cl : list (list nat)) (i j : nat) : Prop :=
  exists c, In c cl /\ In i c /\ In j c.

Lemma nmem_In x l : nmem x l = true <-> In x l.
Proof.
  unfold nmem. rewrite existsb_exists. split.
  - intros [y [Hy E]]. apply Nat.eqb_eq in E. now subst.
  - intros H. exists x. split; auto. apply Nat.eqb_refl.
Qed.

Definition inv (V : list nat) (cl : list (list nat)) (E : list (nat * nat)) : Prop :=
  (forall i, In i V -> exists c, In c cl /\ In i c) /\
  (forall c, In c cl -> forall i j, In i c -> In j c -> conn E i j) /\
  (forall i j, In i V -> In j V -> conn E i j -> sc cl i j).

Lemma union_head u v cl c :
  In c cl -> In u c \/ In v c -> incl c (concat (filter (fun c => nmem u c || nmem v c) cl)).
Proof.
  intros Hc H x Hx. apply in_concat. exists c. split; auto. apply filter_In. split; auto.
  apply orb_true_iff. destruct H as [H|H]; [left|right]; now apply nmem_In.
Qed.

Lemma union_into u v cl c :
  In c cl -> exists c', In c' (union u v cl) /\ incl c c'.
Proof.
  intros Hc. unfold union. destruct (nmem u c || nmem v c) eqn:E.
  - exists (concat (filter (fun c => nmem u c || nmem v c) cl)). split; [now left|].
    apply union_head; auto. apply orb_true_iff in E. destruct E as [E|E]; [left|right]; now apply nmem_In.
  - exists c. split; [|apply incl_refl]. right. apply filter_In. split; auto. now rewrite E.
Qed.

Lemma inv_union V cl E u v :
  inv V cl E -> In u V -> In v V -> inv V (union u v cl) (E ++ [(u, v)]).
Proof.
  intros [Cov [Snd Cmp]] Hu Hv. split; [|split].
  - intros i Hi. destruct (Cov i Hi) as [c [Hc Ic]].
    destruct (union_into u v cl c Hc) as [c' [Hc' I]]. exists c'. auto.
  - intros c Hc i j Hi Hj. unfold union in Hc. destruct Hc as [<-|Hc].
    + apply in_concat in Hi, Hj. destruct Hi as [c1 [H1 Hi]]. destruct Hj as [c2 [H2 Hj]].
      apply filter_In in H1, H2. destruct H1 as [H1 T1]. destruct H2 as [H2 T2].
      assert (X : forall c0 x, In c0 cl -> nmem u c0 || nmem v c0 = true -> In x c0 ->
                               conn (E ++ [(u, v)]) x u).
      { intros c0 x H0 T Hx. apply orb_true_iff in T. destruct T as [T|T]; apply nmem_In in T.
        - apply (conn_mono E); [apply incl_appl, incl_refl|]. eapply Snd; eauto.
        - eapply conn_trans.
          + apply (conn_mono E); [apply incl_appl, incl_refl|]. eapply (Snd c0 H0 x v); eauto.
          + apply conn_sym, conn_edge. apply in_app_iff. right. now left. }
      eapply conn_trans; [exact (X c1 i H1 T1 Hi)|]. apply conn_sym. exact (X c2 j H2 T2 Hj).
    + apply filter_In in Hc. destruct Hc as [Hc _].
      apply (conn_mono E); [apply incl_appl, incl_refl|]. eapply Snd; eauto.
  - intros i j Hi Hj H. apply conn_add in H. destruct H as [H|[[A B]|[A B]]].
    + destruct (Cmp i j Hi Hj H) as [c [Hc [Ic Jc]]].
      destruct (union_into u v cl c Hc) as [c' [Hc' I]]. exists c'. auto.
    + destruct (Cmp i u Hi Hu A) as [c1 [H1 [I1 U1]]]. destruct (Cmp v j Hv Hj B) as [c2 [H2 [V2 J2]]].
      exists (concat (filter (fun c => nmem u c || nmem v c) cl)). split; [now left|].
      split; [apply (union_head u v cl c1)|apply (union_head u v cl c2)]; auto.
    + destruct (Cmp i v Hi Hv A) as [c1 [H1 [I1 V1]]]. destruct (Cmp u j Hu Hj B) as [c2 [H2 [U2 J2]]].
      exists (concat (filter (fun c => nmem u c || nmem v c) cl)). split; [now left|].
      split; [apply (union_head u v cl c1)|apply (union_head u v cl c2)]; auto.
Qed.

(** the pairs joined by the fold of Spec/Cut.v [classes] *)
Definition short_pairs {A} (p : A -> bool) (ge : list (nat * nat * A)) : list (nat * nat) :=
  map fst (filter (fun x => p (snd x)) ge).

Lemma inv_fold {A} (p : A -> bool) V : forall ge cl E,
    inv V cl E ->
    (forall u v a, In (u, v, a) ge -> In u V /\ In v V) ->
    inv V (fold_left (fun cl x => if p (snd x) then union (fst (fst x)) (snd (fst x)) cl else cl) ge cl)
        (E ++ short_pairs p ge).
Proof.
  induction ge as [|[[u v] a] r IH]; intros cl E I HV; simpl.
  - unfold short_pairs. simpl. now rewrite app_nil_r.
  - unfold short_pairs. simpl. destruct (p a) eqn:Pa; simpl.
    + fold (short_pairs p r).
      replace (E ++ (u, v) :: short_pairs p r) with ((E ++ [(u, v)]) ++ short_pairs p r)
        by (now rewrite <- app_assoc).
      apply IH.
      * destruct (HV u v a (or_introl eq_refl)). now apply inv_union.
      * intros u' v' a' H. apply (HV u' v' a'). now right.
    + fold (short_pairs p r). apply IH; auto. intros u' v' a' H. apply (HV u' v' a'). now right.
Qed.

Lemma inv_init n : inv (seq 0 n) (map (fun i => [i]) (seq 0 n)) [].
Proof.
  split; [|split].
  - intros i Hi. exists [i]. split; [|now left]. apply in_map_iff. eauto.
  - intros c Hc i j Hi Hj. apply in_map_iff in Hc. destruct Hc as [x [<- _]].
    destruct Hi as [<-|[]]. destruct Hj as [<-|[]]. apply conn_refl.
  - intros i j Hi Hj H. apply conn_nil in H. subst j. exists [i]. split; [|split; now left].
    apply in_map_iff. eauto.
Qed.

(** the union-find of Spec/Cut.v: same class iff connected *)
Theorem uf_classes {A} (p : A -> bool) n (ge : list (nat * nat * A)) :
  (forall u v a, In (u, v, a) ge -> u < n /\ v < n) ->
  forall i j, i < n -> j < n ->
    (sc (fold_left (fun cl x => if p (snd x) then union (fst (fst x)) (snd (fst x)) cl else cl) ge
                   (map (fun i => [i]) (seq 0 n))) i j
     <-> conn (short_pairs p ge) i j).
Proof.
  intros HV i j Hi Hj.
  assert (I := inv_fold p (seq 0 n) ge _ [] (inv_init n)). simpl in I.
  destruct I as [Cov [Snd Cmp]].
  { intros u v a H. destruct (HV u v a H). split; apply in_seq; lia. }
  split.
  - intros [c [Hc [Ic Jc]]]. eapply Snd; eauto.
  - intros H. apply Cmp; auto; apply in_seq; lia.
Qed.
