(** Proofs about Model/HashMap.v: the bucket array behaves like a plain association list, for
    every key type whose equality is symmetric, transitive and compatible with the hash, every
    initial capacity >= 1, every resize policy and every history. *)
From Coq Require Import NArith ZArith Bool Arith Lia List Permutation.
From GT Require Import Model.Index Model.HashMap.
Import ListNotations.

(** * bit-and is bounded by its argument *)
Lemma pos_land_le : forall p q, (Pos.land p q <= Npos q)%N.
Proof.
  induction p; destruct q; simpl; try lia;
    specialize (IHp q); destruct (Pos.land p q); simpl; lia.
Qed.
Lemma land_le : forall a b, (N.land a b <= b)%N.
Proof. destruct a, b; simpl; try lia. apply pos_land_le. Qed.

Lemma W64_pos : (0 < W64)%N.
Proof. reflexivity. Qed.

Lemma index_for_lt : forall h cap, (1 <= cap < W64)%N -> (index_for h cap < cap)%N.
Proof.
  intros h cap Hc. unfold index_for, w64.
  replace (cap + W64 - 1)%N with ((cap - 1) + 1 * W64)%N by lia.
  rewrite N.mod_add by (unfold W64; lia).
  rewrite N.mod_small by lia.
  pose proof (land_le h (cap - 1)). lia.
Qed.

(** * lists *)
Lemma nthN_nth_error : forall A (l : list A) i,
    (i < N.of_nat (length l))%N -> nthN l i = nth_error l (N.to_nat i).
Proof. intros. unfold nthN. apply N.ltb_lt in H. now rewrite H. Qed.

Lemma nthN_some : forall A (l : list A) i x, nthN l i = Some x -> nth_error l (N.to_nat i) = Some x.
Proof. unfold nthN. intros. destruct (i <? N.of_nat (length l))%N; congruence. Qed.

Lemma upd_nth_split : forall A (l1 l2 : list A) b x, upd_nth (length l1) x (l1 ++ b :: l2) = l1 ++ x :: l2.
Proof. induction l1; simpl; intros; [reflexivity | now rewrite IHl1]. Qed.

Lemma upd_nth_length : forall A (l : list A) i x, length (upd_nth i x l) = length l.
Proof. induction l; destruct i; simpl; intros; auto. Qed.

Lemma fold_reinsert_none : forall K V (hash : K -> N) nc (l : list (K * V)),
    fold_left (reinsert K V hash nc) l None = None.
Proof. induction l; simpl; auto. Qed.

Lemma concat_repeat_nil : forall A n, concat (repeat (@nil A) n) = [].
Proof. induction n; simpl; auto. Qed.

Lemma Permutation_replace_middle : forall A (l1 l2 l3 l4 : list A) x y,
    Permutation (l1 ++ x :: l2) (l3 ++ x :: l4) -> Permutation (l1 ++ y :: l2) (l3 ++ y :: l4).
Proof.
  intros. apply Permutation_app_inv in H.
  eapply Permutation_trans; [apply Permutation_sym, Permutation_middle|].
  eapply Permutation_trans; [|apply Permutation_middle].
  now constructor.
Qed.

Section Refine.
  Variables K V : Type.
  Variable hash : K -> N.
  Variable eqb : K -> K -> bool.
  Variable need : nat -> N -> bool.
  (** the keys the client uses; the Hasher contract is only required of them *)
  Variable ok : K -> Prop.
  Hypothesis eqb_sym : forall a b, ok a -> ok b -> eqb a b = true -> eqb b a = true.
  Hypothesis eqb_trans : forall a b c, ok a -> ok b -> ok c -> eqb a b = true -> eqb b c = true -> eqb a c = true.
  Hypothesis hash_compat : forall a b, ok a -> ok b -> eqb a b = true -> hash a = hash b.

  Notation bucket_find := (bucket_find K V eqb).
  Notation bucket_set := (bucket_set K V eqb).
  Notation hmap := (hmap K V).

  (** pairwise different keys *)
  Fixpoint distinct (l : list K) : Prop :=
    match l with
    | [] => True
    | x :: r => (forall y, In y r -> eqb x y = false) /\ distinct r
    end.

  Lemma eqb_sym_false : forall a b, ok a -> ok b -> eqb a b = false -> eqb b a = false.
  Proof. intros a b Ha Hb H. destruct (eqb b a) eqn:E; auto. apply eqb_sym in E; auto. congruence. Qed.

  Lemma distinct_perm : forall l l', Permutation l l' -> Forall ok l -> distinct l -> distinct l'.
  Proof.
    induction 1; simpl; intros HO HD; auto.
    - destruct HD. inversion HO; subst. split; auto. intros. apply H0. eapply Permutation_in; [apply Permutation_sym|]; eauto.
    - destruct HD as [H1 [H2 H3]]. inversion HO as [|? ? Oy HO']; subst. inversion HO' as [|? ? Ox HO'']; subst.
      split; [|split]; [ | intros; apply H1; now right | assumption].
      intros z [Hz|Hz]; [subst; apply eqb_sym_false; auto; apply H1; now left | auto].
    - apply IHPermutation2; auto. eapply Permutation_Forall; eauto.
  Qed.

  Lemma find_in_distinct : forall l k kv,
      ok k -> Forall ok (map fst l) ->
      distinct (map fst l) -> In kv l -> eqb k (fst kv) = true -> bucket_find k l = Some kv.
  Proof.
    induction l as [|a l IH]; intros k kv Ok HO Hd Hin He; [contradiction|].
    simpl in Hd, HO. destruct Hd as [Hd1 Hd2]. inversion HO as [|? ? Oa HO']; subst.
    unfold HashMap.bucket_find in *. simpl.
    destruct (eqb k (fst a)) eqn:E.
    - destruct Hin as [->|Hin]; auto.
      exfalso.
      assert (Okv : ok (fst kv)) by (rewrite Forall_forall in HO'; apply HO'; now apply in_map).
      assert (eqb (fst a) (fst kv) = true) by (eapply (eqb_trans _ k); auto).
      rewrite Hd1 in H; [discriminate|]. now apply in_map.
    - destruct Hin as [->|Hin]; [congruence|]. now apply IH.
  Qed.

  Lemma find_none_all : forall l k, bucket_find k l = None <-> (forall kv, In kv l -> eqb k (fst kv) = false).
  Proof.
    unfold HashMap.bucket_find. split.
    - intros. eapply find_none in H; eauto.
    - induction l; simpl; intros; auto. rewrite H by now left. apply IHl. intros. apply H. now right.
  Qed.

  Lemma find_some_in : forall l k kv, bucket_find k l = Some kv -> In kv l /\ eqb k (fst kv) = true.
  Proof. unfold HashMap.bucket_find. intros. now apply find_some in H. Qed.

  Lemma bucket_set_none : forall l k v, bucket_set k v l = None <-> bucket_find k l = None.
  Proof.
    unfold HashMap.bucket_find.
    induction l as [|[k' v'] l IH]; simpl; intros; [tauto|].
    destruct (eqb k k'); [split; discriminate|].
    specialize (IH k v). destruct (HashMap.bucket_set K V eqb k v l); [split; [discriminate | intro; apply IH in H; discriminate] | tauto].
  Qed.

  Lemma bucket_set_some : forall l k v l',
      bucket_set k v l = Some l' ->
      exists l1 k' v' l2, l = l1 ++ (k', v') :: l2 /\ l' = l1 ++ (k', v) :: l2 /\ bucket_find k l = Some (k', v').
  Proof.
    unfold HashMap.bucket_find.
    induction l as [|[k' v'] l IH]; simpl; intros; [discriminate|].
    destruct (eqb k k') eqn:E.
    - inversion H; subst. exists [], k', v', l. auto.
    - destruct (HashMap.bucket_set K V eqb k v l) eqn:S; [|discriminate]. inversion H; subst.
      destruct (IH _ _ _ S) as (l1 & k2 & v2 & l2 & -> & -> & F).
      exists ((k', v') :: l1), k2, v2, l2. auto.
  Qed.

  (** * invariant linking a bucket array to the association list it represents *)
  Record Inv (m : hmap) (a : list (K * V)) : Prop := mkInv {
    inv_cap : (1 <= hm_cap m < W64)%N;
    inv_len : length (hm_arr m) = N.to_nat (hm_cap m);
    inv_place : forall i b kv, nth_error (hm_arr m) i = Some b -> In kv b ->
                               N.to_nat (index_for (hash (fst kv)) (hm_cap m)) = i;
    inv_perm : Permutation (concat (hm_arr m)) a;
    inv_dist : distinct (map fst a);
    inv_ok : Forall ok (map fst a);
    inv_total : hm_total m = length a }.

  Lemma slot_in_range : forall m a k, Inv m a -> (slot_of K V hash m k < N.of_nat (length (hm_arr m)))%N.
  Proof.
    intros m a k I. unfold slot_of. rewrite (inv_len _ _ I), N2Nat.id.
    apply index_for_lt, (inv_cap _ _ I).
  Qed.

  Lemma slot_bucket : forall m a k, Inv m a -> exists b, nthN (hm_arr m) (slot_of K V hash m k) = Some b.
  Proof.
    intros m a k I. rewrite nthN_nth_error by (eapply slot_in_range; eauto).
    destruct (nth_error (hm_arr m) (N.to_nat (slot_of K V hash m k))) eqn:E; eauto.
    apply nth_error_None in E. pose proof (slot_in_range m a k I). lia.
  Qed.

  (** looking a key up in its bucket = looking it up in the whole content *)
  Lemma bucket_vs_all : forall m a k b,
      ok k -> Inv m a -> nth_error (hm_arr m) (N.to_nat (slot_of K V hash m k)) = Some b ->
      bucket_find k b = bucket_find k a.
  Proof.
    intros m a k b Ok I Hb.
    destruct (bucket_find k b) as [kv|] eqn:F.
    - apply find_some_in in F. destruct F as [Hin He].
      symmetry. apply find_in_distinct; auto. apply (inv_ok _ _ I). apply (inv_dist _ _ I).
      eapply Permutation_in; [apply (inv_perm _ _ I)|].
      apply in_concat. exists b. split; auto. eapply nth_error_In; eauto.
    - symmetry. apply find_none_all. intros kv Hin.
      destruct (eqb k (fst kv)) eqn:E; auto. exfalso.
      assert (Okv : ok (fst kv)) by (pose proof (inv_ok _ _ I) as HO; rewrite Forall_forall in HO; apply HO; now apply in_map).
      apply (Permutation_in _ (Permutation_sym (inv_perm _ _ I))) in Hin.
      apply in_concat in Hin. destruct Hin as (b' & Hb' & Hkv).
      apply In_nth_error in Hb'. destruct Hb' as [j Hj].
      pose proof (inv_place _ _ I _ _ _ Hj Hkv) as P.
      pose proof (hash_compat _ _ Ok Okv E) as Hh. unfold slot_of in Hb. rewrite Hh, P in Hb.
      assert (b' = b) by congruence. subst b'.
      rewrite find_none_all in F. rewrite (F _ Hkv) in E. discriminate.
  Qed.
  (** * Value *)
  Lemma value_refines : forall m a k, ok k -> Inv m a -> value K V hash eqb m k = Some (assoc_value K V eqb a k).
  Proof.
    intros m a k Ok I. unfold value, assoc_value.
    destruct (slot_bucket m a k I) as [b Hb]. rewrite Hb.
    apply nthN_some in Hb. now rewrite (bucket_vs_all m a k b Ok I Hb).
  Qed.

  (** * array surgery *)
  Lemma arr_split : forall (arr : list (list (K * V))) i b,
      nth_error arr i = Some b ->
      exists A1 A2, arr = A1 ++ b :: A2 /\ length A1 = i /\
                    forall x, upd_nth i x arr = A1 ++ x :: A2.
  Proof.
    intros arr i b H. apply nth_error_split in H. destruct H as (A1 & A2 & -> & <-).
    exists A1, A2. repeat split; auto. intros. apply upd_nth_split.
  Qed.

  Lemma nth_error_middle : forall A (A1 A2 : list A) x j y,
      nth_error (A1 ++ x :: A2) j = Some y ->
      (j = length A1 /\ y = x) \/ (j <> length A1 /\ forall z, nth_error (A1 ++ z :: A2) j = Some y).
  Proof.
    induction A1; simpl; intros.
    - destruct j; simpl in *; [left; split; congruence | right; split; auto].
    - destruct j; simpl in *.
      + right. split; auto.
      + apply IHA1 in H. destruct H as [[-> ->]|[Hn Hz]]; [left; auto | right; split; auto].
  Qed.

  (** replacing the bucket of slot [i] by a bucket whose keys hash to the same slot keeps the
      placement invariant *)
  Lemma place_upd : forall m a i b b',
      Inv m a -> nth_error (hm_arr m) i = Some b ->
      (forall kv, In kv b' -> N.to_nat (index_for (hash (fst kv)) (hm_cap m)) = i) ->
      forall j c kv, nth_error (upd_nth i b' (hm_arr m)) j = Some c -> In kv c ->
                     N.to_nat (index_for (hash (fst kv)) (hm_cap m)) = j.
  Proof.
    intros m a i b b' I Hb Hnew j c kv Hj Hin.
    destruct (arr_split _ _ _ Hb) as (A1 & A2 & Harr & Hlen & Hupd).
    rewrite Hupd in Hj. apply nth_error_middle in Hj. destruct Hj as [[-> ->]|[Hn Hz]].
    - rewrite Hlen. auto.
    - specialize (Hz b). rewrite <- Harr in Hz. eapply (inv_place _ _ I); eauto.
  Qed.

  (** * rehash *)
  Lemma reinsert_fold : forall nc l X Y,
      length X = N.to_nat nc ->
      (forall i b kv, nth_error X i = Some b -> In kv b -> N.to_nat (index_for (hash (fst kv)) nc) = i) ->
      fold_left (reinsert K V hash nc) l (Some X) = Some Y ->
      length Y = N.to_nat nc /\
      (forall i b kv, nth_error Y i = Some b -> In kv b -> N.to_nat (index_for (hash (fst kv)) nc) = i) /\
      Permutation (concat Y) (concat X ++ l).
  Proof.
    induction l as [|kv l IH]; simpl; intros X Y HL HP HF.
    - inversion HF; subst. rewrite app_nil_r. auto.
    - destruct (nthN X (index_for (hash (fst kv)) nc)) as [b|] eqn:Hb;
        [|rewrite fold_reinsert_none in HF; discriminate].
      apply nthN_some in Hb.
      destruct (arr_split _ _ _ Hb) as (A1 & A2 & Harr & Hlen & Hupd).
      apply IH in HF.
      + destruct HF as (L & P & Q). repeat split; auto.
        eapply Permutation_trans; [apply Q|].
        rewrite Hupd, Harr. rewrite !concat_app. simpl. rewrite <- !app_assoc. simpl.
        apply Permutation_app_head. apply Permutation_app_head.
        apply Permutation_middle.
      + rewrite upd_nth_length. auto.
      + intros j c x Hj Hin. rewrite Hupd in Hj. apply nth_error_middle in Hj.
        destruct Hj as [[-> ->]|[Hn Hz]].
        * apply in_app_or in Hin. destruct Hin as [Hin|[<-|[]]].
          -- rewrite Hlen. eapply HP; eauto.
          -- auto.
        * specialize (Hz b). rewrite <- Harr in Hz. eapply HP; eauto.
  Qed.

  Lemma repeat_nil_place : forall n nc i (b : list (K * V)) kv,
      nth_error (repeat [] n) i = Some b -> In kv b -> N.to_nat (index_for (hash (fst kv)) nc) = i.
  Proof.
    intros. apply nth_error_In in H. apply repeat_spec in H. subst. contradiction.
  Qed.

  Lemma rehash_refines : forall m a m',
      Inv m a -> a <> [] -> rehash K V hash need m = Some m' -> Inv m' a.
  Proof.
    intros m a m' I Hne H. unfold rehash in H.
    destruct (need (hm_total m) (hm_cap m)); [|inversion H; subst; auto].
    set (nc := w64 (hm_cap m * 2)) in *.
    destruct (fold_left (reinsert K V hash nc) (concat (hm_arr m)) (Some (repeat [] (N.to_nat nc)))) as [Y|] eqn:F;
      [|discriminate].
    inversion H; subst m'; clear H.
    pose proof F as F'.
    apply reinsert_fold in F'; [|apply repeat_length|apply repeat_nil_place].
    destruct F' as (L & P & Q). rewrite concat_repeat_nil in Q. simpl in Q.
    assert (Hnc : (1 <= nc < W64)%N).
    { split; [|apply N.mod_lt; unfold W64; lia].
      destruct (N.eq_dec nc 0) as [Z|]; [|lia]. exfalso.
      rewrite Z in F. simpl in F.
      destruct (concat (hm_arr m)) as [|x r] eqn:C.
      - pose proof (inv_perm _ _ I) as PP. rewrite C in PP. apply Permutation_nil in PP. auto.
      - simpl in F. unfold nthN in F. simpl in F.
        destruct (index_for (hash (fst x)) 0); simpl in F; rewrite fold_reinsert_none in F; discriminate. }
    constructor; simpl; auto.
    - eapply Permutation_trans; [apply Q | apply (inv_perm _ _ I)].
    - apply (inv_dist _ _ I).
    - apply (inv_ok _ _ I).
    - apply (inv_total _ _ I).
  Qed.

  (** * PutValue *)
  Lemma put_refines : forall m a k v m',
      ok k -> Inv m a -> put K V hash eqb need m k v = Some m' -> Inv m' (assoc_put K V eqb a k v).
  Proof.
    intros m a k v m' Ok I H. unfold put in H.
    destruct (slot_bucket m a k I) as [b Hb]. rewrite Hb in H. apply nthN_some in Hb.
    pose proof (bucket_vs_all m a k b Ok I Hb) as BA.
    destruct (arr_split _ _ _ Hb) as (A1 & A2 & Harr & Hlen & Hupd).
    unfold assoc_put.
    destruct (bucket_set k v b) as [b'|] eqn:S.
    - (* overwrite *)
      inversion H; subst m'; clear H.
      destruct (bucket_set_some _ _ _ _ S) as (l1 & k' & v' & l2 & Eb & Eb' & Fb).
      rewrite Fb in BA.
      destruct (bucket_set k v a) as [a'|] eqn:Sa;
        [|apply bucket_set_none in Sa; congruence].
      destruct (bucket_set_some _ _ _ _ Sa) as (a1 & k2 & v2 & a2 & Ea & Ea' & Fa).
      assert (k2 = k' /\ v2 = v') as [-> ->] by (split; congruence).
      constructor; simpl.
      + apply (inv_cap _ _ I).
      + rewrite upd_nth_length. apply (inv_len _ _ I).
      + eapply place_upd; eauto. intros kv Hin. subst b'.
        assert (exists kv', In kv' b /\ fst kv' = fst kv) as (kv' & Hin' & <-).
        { subst b. apply in_app_or in Hin. destruct Hin as [Hin|[<-|Hin]].
          - exists kv. split; auto. apply in_or_app. now left.
          - exists (k', v'). split; auto. apply in_or_app. right. now left.
          - exists kv. split; auto. apply in_or_app. right. now right. }
        eapply (inv_place _ _ I); eauto.
      + pose proof (inv_perm _ _ I) as P. rewrite Hupd. rewrite Harr in P.
        subst b b' a a'. rewrite concat_app in *. simpl in *.
        rewrite <- !app_assoc in *. simpl in *.
        rewrite app_assoc in *.
        eapply Permutation_replace_middle. exact P.
      + pose proof (inv_dist _ _ I) as D. subst a a'. rewrite map_app in *. simpl in *. exact D.
      + pose proof (inv_ok _ _ I) as D. subst a a'. rewrite map_app in *. simpl in *. exact D.
      + rewrite (inv_total _ _ I). subst a a'. rewrite !app_length. simpl. reflexivity.
    - (* append, total++, rehash *)
      pose proof S as Sb. apply bucket_set_none in Sb. rewrite Sb in BA.
      symmetry in BA. pose proof BA as Sa. apply bucket_set_none with (v := v) in Sa. rewrite Sa.
      eapply rehash_refines; [|destruct a; discriminate|exact H].
      constructor; simpl.
      + apply (inv_cap _ _ I).
      + rewrite upd_nth_length. apply (inv_len _ _ I).
      + eapply place_upd; eauto. intros kv Hin. apply in_app_or in Hin. destruct Hin as [Hin|[<-|[]]].
        * eapply (inv_place _ _ I); eauto.
        * reflexivity.
      + pose proof (inv_perm _ _ I) as P. rewrite Hupd. rewrite Harr in P.
        rewrite concat_app in *. simpl in *. rewrite <- app_assoc. simpl.
        eapply Permutation_trans; [|apply Permutation_cons_append].
        eapply Permutation_trans; [|apply perm_skip, P].
        rewrite app_assoc. eapply Permutation_trans; [apply Permutation_sym, Permutation_middle|].
        rewrite <- app_assoc. apply Permutation_refl.
      + eapply distinct_perm.
        * apply Permutation_map. apply Permutation_cons_append.
        * simpl. constructor; [exact Ok | apply (inv_ok _ _ I)].
        * simpl. split; [|apply (inv_dist _ _ I)].
          intros y Hy. apply in_map_iff in Hy. destruct Hy as (kv & <- & Hin).
          rewrite find_none_all in BA. auto.
      + rewrite map_app. apply Forall_app. split; [apply (inv_ok _ _ I)|]. simpl. constructor; auto.
      + rewrite (inv_total _ _ I). rewrite app_length. simpl. lia.
  Qed.

  (** * totality: no panic as long as the capacity does not wrap around *)
  Definition no_overflow : Prop := forall t c, need t c = true -> (c * 2 < W64)%N.

  Lemma reinsert_total : forall nc l X,
      (1 <= nc < W64)%N -> length X = N.to_nat nc ->
      exists Y, fold_left (reinsert K V hash nc) l (Some X) = Some Y.
  Proof.
    induction l as [|kv l IH]; simpl; intros X Hnc HL; eauto.
    pose proof (index_for_lt (hash (fst kv)) nc Hnc) as Hlt.
    rewrite nthN_nth_error by (rewrite HL, N2Nat.id; auto).
    destruct (nth_error X (N.to_nat (index_for (hash (fst kv)) nc))) eqn:E.
    - apply IH; auto. rewrite upd_nth_length. auto.
    - apply nth_error_None in E. lia.
  Qed.

  Lemma rehash_total : forall m, no_overflow -> (1 <= hm_cap m < W64)%N -> rehash K V hash need m <> None.
  Proof.
    intros m NO Hc. unfold rehash. destruct (need (hm_total m) (hm_cap m)) eqn:E; [|discriminate].
    apply NO in E.
    destruct (reinsert_total (w64 (hm_cap m * 2)) (concat (hm_arr m)) (repeat [] (N.to_nat (w64 (hm_cap m * 2))))) as [Y HY].
    - unfold w64. rewrite N.mod_small by auto. lia.
    - apply repeat_length.
    - rewrite HY. discriminate.
  Qed.

  Lemma put_total : forall m a k v, no_overflow -> Inv m a -> put K V hash eqb need m k v <> None.
  Proof.
    intros m a k v NO I. unfold put.
    destruct (slot_bucket m a k I) as [b Hb]. rewrite Hb.
    destruct (bucket_set k v b); [discriminate|].
    apply rehash_total; auto. simpl. apply (inv_cap _ _ I).
  Qed.

  (** * histories *)
  Definition op_key (o : op K V) : K := match o with OPut k _ => k | OValue k => k end.
  Definition ops_ok (ops : list (op K V)) : Prop := Forall (fun o => ok (op_key o)) ops.

  Lemma run_refines : forall ops m a rs mf,
      ops_ok ops -> Inv m a -> run K V hash eqb need m ops = Some (rs, mf) ->
      rs = fst (run_assoc K V eqb a ops) /\ Inv mf (snd (run_assoc K V eqb a ops)).
  Proof.
    induction ops as [|o ops IH]; simpl; intros m a rs mf HO I H.
    - inversion H; subst. auto.
    - inversion HO as [|? ? Ok HO']; subst. destruct o as [k v|k]; simpl in Ok.
      + destruct (put K V hash eqb need m k v) as [m1|] eqn:P; [|discriminate].
        destruct (run K V hash eqb need m1 ops) as [[rs1 mf1]|] eqn:R; [|discriminate].
        inversion H; subst; clear H.
        eapply put_refines in P; eauto. destruct (IH _ _ _ _ HO' P R) as [E J].
        destruct (run_assoc K V eqb (assoc_put K V eqb a k v) ops). simpl in *. subst. auto.
      + rewrite (value_refines m a k Ok I) in H.
        destruct (run K V hash eqb need m ops) as [[rs1 mf1]|] eqn:R; [|discriminate].
        inversion H; subst; clear H.
        destruct (IH _ _ _ _ HO' I R) as [E J].
        destruct (run_assoc K V eqb a ops). simpl in *. subst. auto.
  Qed.

  Lemma run_total : forall ops m a, ops_ok ops -> no_overflow -> Inv m a -> run K V hash eqb need m ops <> None.
  Proof.
    induction ops as [|o ops IH]; simpl; intros m a HO NO I; [discriminate|].
    inversion HO as [|? ? Ok HO']; subst. destruct o as [k v|k]; simpl in Ok.
    - destruct (put K V hash eqb need m k v) as [m1|] eqn:P; [|eapply put_total in P; eauto].
      eapply put_refines in P; eauto. specialize (IH _ _ HO' NO P).
      destruct (run K V hash eqb need m1 ops) as [[? ?]|]; [discriminate|congruence].
    - rewrite (value_refines m a k Ok I). specialize (IH _ _ HO' NO I).
      destruct (run K V hash eqb need m ops) as [[? ?]|]; [discriminate|congruence].
  Qed.

  (** every uint64 initial capacity: NewHashMap turns 0 into 1 *)
  Lemma inv_new : forall cap, (cap < W64)%N -> Inv (new_hashmap K V cap) [].
  Proof.
    intros cap H. unfold new_hashmap.
    assert (Hc : (1 <= (if (cap =? 0)%N then 1 else cap) < W64)%N).
    { destruct (N.eqb_spec cap 0); [split; [lia | reflexivity] | lia]. }
    constructor; simpl; auto.
    - apply repeat_length.
    - intros. eapply repeat_nil_place; eauto.
    - rewrite concat_repeat_nil. constructor.
  Qed.

  (** * the statements *)
  Theorem hashmap_refines_gen : forall cap ops rs mf,
      (cap < W64)%N -> ops_ok ops ->
      run K V hash eqb need (new_hashmap K V cap) ops = Some (rs, mf) ->
      rs = fst (run_assoc K V eqb [] ops) /\
      Permutation (key_values K V mf) (snd (run_assoc K V eqb [] ops)) /\
      hm_total mf = length (snd (run_assoc K V eqb [] ops)).
  Proof.
    intros cap ops rs mf Hc HO H.
    destruct (run_refines ops _ _ _ _ HO (inv_new cap Hc) H) as [E I].
    split; auto. split; [apply (inv_perm _ _ I) | apply (inv_total _ _ I)].
  Qed.

  Theorem hashmap_total_gen : forall cap ops,
      (cap < W64)%N -> ops_ok ops -> no_overflow ->
      run K V hash eqb need (new_hashmap K V cap) ops <> None.
  Proof. intros. eapply run_total; eauto. now apply inv_new. Qed.
  (** * totality for policies that may fire at any capacity, as long as the number of entries
      stays below a bound (the real load-factor policy: see [need75_upto] below) *)
  Definition no_overflow_upto (B : nat) : Prop :=
    forall t c, t <= B -> need t c = true -> (c * 2 < W64)%N.

  Lemma rehash_total_b : forall B m,
      no_overflow_upto B -> hm_total m <= B -> (1 <= hm_cap m < W64)%N -> rehash K V hash need m <> None.
  Proof.
    intros B m NO HT Hc. unfold rehash. destruct (need (hm_total m) (hm_cap m)) eqn:E; [|discriminate].
    apply NO in E; auto.
    destruct (reinsert_total (w64 (hm_cap m * 2)) (concat (hm_arr m)) (repeat [] (N.to_nat (w64 (hm_cap m * 2))))) as [Y HY].
    - unfold w64. rewrite N.mod_small by auto. lia.
    - apply repeat_length.
    - rewrite HY. discriminate.
  Qed.

  Lemma put_total_b : forall B m a k v,
      no_overflow_upto B -> Inv m a -> S (length a) <= B -> put K V hash eqb need m k v <> None.
  Proof.
    intros B m a k v NO I HB. unfold put.
    destruct (slot_bucket m a k I) as [b Hb]. rewrite Hb.
    destruct (bucket_set k v b); [discriminate|].
    apply (rehash_total_b B); auto; simpl.
    - rewrite (inv_total _ _ I). exact HB.
    - apply (inv_cap _ _ I).
  Qed.

  Lemma assoc_put_length : forall a k v, length (assoc_put K V eqb a k v) <= S (length a).
  Proof.
    intros a k v. unfold assoc_put. destruct (bucket_set k v a) as [a'|] eqn:E.
    - destruct (bucket_set_some _ _ _ _ E) as (l1 & k' & v' & l2 & -> & -> & _).
      rewrite !app_length. simpl. lia.
    - rewrite app_length. simpl. lia.
  Qed.

  Lemma run_total_b : forall B ops m a,
      ops_ok ops -> no_overflow_upto B -> Inv m a -> length a + length ops <= B ->
      run K V hash eqb need m ops <> None.
  Proof.
    induction ops as [|o ops IH]; simpl; intros m a HO NO I HB; [discriminate|].
    inversion HO as [|? ? Ok HO']; subst. destruct o as [k v|k]; simpl in Ok.
    - destruct (put K V hash eqb need m k v) as [m1|] eqn:P;
        [|eapply (put_total_b B) in P; eauto; lia].
      eapply put_refines in P; eauto.
      assert (HB' : length (assoc_put K V eqb a k v) + length ops <= B)
        by (pose proof (assoc_put_length a k v); lia).
      specialize (IH _ _ HO' NO P HB').
      destruct (run K V hash eqb need m1 ops) as [[? ?]|]; [discriminate|congruence].
    - rewrite (value_refines m a k Ok I).
      assert (HB' : length a + length ops <= B) by lia.
      specialize (IH _ _ HO' NO I HB').
      destruct (run K V hash eqb need m ops) as [[? ?]|]; [discriminate|congruence].
  Qed.

  Theorem hashmap_total_bounded_gen : forall B cap ops,
      (cap < W64)%N -> ops_ok ops -> no_overflow_upto B -> length ops <= B ->
      run K V hash eqb need (new_hashmap K V cap) ops <> None.
  Proof.
    intros B cap ops Hc HO NO HB.
    apply (run_total_b B ops _ [] HO NO (inv_new cap Hc)). simpl. exact HB.
  Qed.
End Refine.

(** capacity 0 behaves as capacity 1 (NewHashMap: if size == 0 { size = 1 }) *)
Lemma hashmap_capacity_zero : forall K V, new_hashmap K V 0 = new_hashmap K V 1.
Proof. reflexivity. Qed.

(** the load test of hashmap.go with loadfactor 0.75, "float64(total) >= float64(capacity)*0.75"
    (Model/Compare.v [need75]: capacity*3 <= total*4), never makes the doubling wrap around as
    long as the map holds at most 2^62 entries *)
Definition need75_model (total : nat) (cap : N) : bool := (Z.of_N cap * 3 <=? Z.of_nat total * 4)%Z.

Lemma need75_upto : no_overflow_upto need75_model (2 ^ 62).
Proof.
  intros t c Ht H. unfold need75_model in H. apply Z.leb_le in H.
  assert (Z.of_nat t <= 2 ^ 62)%Z.
  { apply Nat2Z.inj_le in Ht. rewrite Nat2Z.inj_pow in Ht. exact Ht. }
  apply N2Z.inj_lt. rewrite N2Z.inj_mul. change (Z.of_N W64) with (2 ^ 64)%Z. change (Z.of_N 2) with 2%Z.
  assert (2 ^ 64 = 4 * 2 ^ 62)%Z by reflexivity. lia.
Qed.

Lemma le_pow62 : forall n, (N.of_nat n <= 2 ^ 62)%N -> n <= 2 ^ 62.
Proof.
  intros n H. apply Nat2Z.inj_le. rewrite Nat2Z.inj_pow.
  apply N2Z.inj_le in H. rewrite nat_N_Z in H. exact H.
Qed.

(** totality under the real policy: at most 2^62 operations (hence at most 2^62 entries) *)
Theorem hashmap_total_real_policy_gen :
  forall (K V : Type) (hash : K -> N) (eqb : K -> K -> bool) (ok : K -> Prop),
    (forall a b, ok a -> ok b -> eqb a b = true -> eqb b a = true) ->
    (forall a b c, ok a -> ok b -> ok c -> eqb a b = true -> eqb b c = true -> eqb a c = true) ->
    (forall a b, ok a -> ok b -> eqb a b = true -> hash a = hash b) ->
    forall (cap : N) (ops : list (op K V)),
      (cap < W64)%N -> ops_ok K V ok ops -> (N.of_nat (length ops) <= 2 ^ 62)%N ->
      run K V hash eqb need75_model (new_hashmap K V cap) ops <> None.
Proof.
  intros K V hash eqb ok S T C cap ops Hc HO HB.
  apply (hashmap_total_bounded_gen K V hash eqb need75_model ok S T C (2 ^ 62) cap ops Hc HO need75_upto).
  now apply le_pow62.
Qed.
