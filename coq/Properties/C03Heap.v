(** C03, heap level: the pointer structure of /repo/tree (Model/Heap.v) keeps the invariant
    [Good] -- every id referenced exists, neigh/br parallel, adjacency symmetric through the
    SAME edge, the ends of an edge are exactly the two nodes that list it, no node twice in a
    neighbour list, every edge points away from the root (rank), no shared child, every node
    reachable from the root -- and refines the tree model through [abs] (the DumpTree walk). *)
From Coq Require Import String ZArith QArith Bool Arith List.
From GT Require Import Base.UTree Model.Reroot Model.Prune Model.Collapse Model.TreeGen Model.NNI Model.Heap Model.HeapSpec Model.HeapEdit
     Proofs.HeapBase Proofs.HeapRep Proofs.HeapGood Proofs.HeapGoodRep Proofs.HeapOf Proofs.HeapReroot
     Proofs.HeapUnroot Proofs.HeapGraft Proofs.HeapCollapse Proofs.HeapPrune
     Proofs.HeapNocheck Proofs.HeapGraftSq Proofs.HeapPermute Proofs.HeapPruneTotal Proofs.HeapLoops Proofs.HeapRerootL
     Proofs.HeapNNI Proofs.HeapNNIMain
     Model.History Proofs.NNIBase Proofs.HeapCollapseTree Proofs.HeapPaths Proofs.HeapCollapseSq Proofs.HeapNNISq Proofs.HeapNNIUndoSq
     Proofs.HeapPruneTree Proofs.HeapPruneSq Proofs.HeapRotateSq Proofs.HeapLoopsTotal Proofs.HeapHistory
     Model.HeapEdit2 Proofs.HeapCtx Proofs.HeapSortSq Proofs.HeapSingle Proofs.HeapSingleSq.
From GT Require Model.LocalEdit.
From GT Require Import Proofs.HeapEdgesSeq Proofs.HeapEdgesSq Proofs.HeapTipsLoop Proofs.HeapTips Proofs.HeapTipsSq.
From GT Require Spec.Obs.
From GT Require Import Model.HeapBits Proofs.HeapBits.
Import ListNotations.
Local Close Scope Q_scope.
Local Open Scope string_scope.

(** (a) a good heap is a well-formed tree ... *)
Theorem C03Heap_good_is_tree : forall h, Good h -> exists t, abs h = Some t /\ wf t = true.
Proof. exact Good_abs. Qed.
Print Assumptions C03Heap_good_is_tree.

(** ... the clauses of [Good] say exactly "the heap is a labelled tree, oriented from its root" ... *)
Theorem C03Heap_good_iff_rep : forall h, Good h <-> exists lt, Rep h lt.
Proof. exact Good_iff_Rep. Qed.
Print Assumptions C03Heap_good_iff_rep.

(** ... and every well-formed tree is the abstraction of a good heap *)
Theorem C03Heap_heap_of_good : forall t, wf t = true -> Good (heap_of t).
Proof. exact Good_heap_of. Qed.
Print Assumptions C03Heap_heap_of_good.

Theorem C03Heap_abs_heap_of : forall t, wf t = true -> abs (heap_of t) = Some t.
Proof. exact abs_heap_of. Qed.
Print Assumptions C03Heap_abs_heap_of.

(** (b) Tree.Reroot (with ReorderEdges): the invariant is kept -- in particular every edge
    points away from the NEW root -- *)
Theorem C03Heap_reroot_good : forall h n h', Good h -> reroot_heap n h = HOk h' -> Good h' /\ hroot h' = n.
Proof. exact reroot_heap_good. Qed.
Print Assumptions C03Heap_reroot_good.

(** and the heap operation refines [reroot] of Model/Reroot.v, error case included; it never
    panics on a good heap ([n] is the j-th node of Tree.Nodes()) *)
Theorem C03Heap_reroot_refines : forall h t ns j n, Good h -> abs h = Some t ->
  tree_nodes h = HOk ns -> nth_error ns j = Some n ->
  match reroot_heap n h with
  | HOk h' => exists t', reroot t j = Ok t' /\ abs h' = Some t'
  | HErr m => reroot t j = Err m
  | HPanic => False
  end.
Proof. exact reroot_heap_refines. Qed.
Print Assumptions C03Heap_reroot_refines.

Theorem C03Heap_tree_nodes : forall h t, Good h -> abs h = Some t ->
  exists ns, tree_nodes h = HOk ns /\ NoDup ns /\ length ns = length (nodes t) /\
             forall n, In n ns <-> alookup n (hnodes h) <> None.
Proof. exact tree_nodes_good. Qed.
Print Assumptions C03Heap_tree_nodes.

(** (b) Tree.UnRoot: never fails on a good heap, keeps the invariant, refines [unroot] *)
Theorem C03Heap_unroot_total : forall h, Good h -> exists h', unroot_heap h = HOk h'.
Proof. exact unroot_heap_total. Qed.
Print Assumptions C03Heap_unroot_total.

Theorem C03Heap_unroot_good : forall h h', Good h -> unroot_heap h = HOk h' -> Good h'.
Proof. exact unroot_heap_good. Qed.
Print Assumptions C03Heap_unroot_good.

Theorem C03Heap_unroot_square : forall h t h', Good h -> abs h = Some t -> unroot_heap h = HOk h' ->
  abs h' = Some (unroot t).
Proof. exact unroot_heap_square. Qed.
Print Assumptions C03Heap_unroot_square.

(** the two pairwise helpers: ConnectNodes adds one symmetric adjacency through one fresh edge,
    delNeighbor removes exactly one slot *)
Theorem C03Heap_connect_nodes : forall h a b ha hb e h', a <> b ->
  alookup a (hnodes h) = Some ha -> alookup b (hnodes h) = Some hb ->
  length (hneigh ha) = length (hbr ha) -> length (hneigh hb) = length (hbr hb) ->
  connect_nodes a b h = HOk (e, h') ->
  e = hnexte h /\ alookup e (hedges h') = Some (mkHE a b e0) /\
  has_slot h' a b e /\ has_slot h' b a e /\
  (forall n m e', has_slot h n m e' -> has_slot h' n m e') /\
  (forall e', e' <> e -> alookup e' (hedges h') = alookup e' (hedges h)).
Proof. exact connect_nodes_adjacent. Qed.
Print Assumptions C03Heap_connect_nodes.

Theorem C03Heap_del_neighbor : forall h n n2 hn h',
  alookup n (hnodes h) = Some hn -> length (hneigh hn) = length (hbr hn) -> NoDup (hneigh hn) ->
  del_neighbor n n2 h = HOk h' ->
  (forall e, ~ has_slot h' n n2 e) /\
  (forall m e, has_slot h' n m e -> has_slot h n m e) /\
  (forall m e, m <> n2 -> has_slot h n m e -> has_slot h' n m e) /\
  (forall x m e, x <> n -> (has_slot h' x m e <-> has_slot h x m e)) /\
  hedges h' = hedges h.
Proof. exact del_neighbor_removes. Qed.
Print Assumptions C03Heap_del_neighbor.

(** (b) Tree.GraftTipOnEdge (with the creation of the tip node): on any branch of a good heap
    it succeeds and the heap stays good *)
Theorem C03Heap_graft_good : forall h name e, Good h -> alookup e (hedges h) <> None ->
  exists tip ne ne2 nn h', graft_new_tip name e h = HOk (tip, ne, ne2, nn, h') /\ Good h'.
Proof. exact graft_new_tip_good. Qed.
Print Assumptions C03Heap_graft_good.

(** (b) Tree.RemoveEdges, one branch (tip branch / protected root branch / contraction): it
    succeeds and the heap stays good *)
Theorem C03Heap_remove_edge_good : forall rr rt h e, Good h -> alookup e (hedges h) <> None ->
  exists h', remove_edge rr rt e h = HOk h' /\ Good h'.
Proof. exact remove_edge_good. Qed.
Print Assumptions C03Heap_remove_edge_good.

(** (b) Tree.removeTip (all of it: the single-node loop of Case 1, Case 1b, the four orientation
    sub-cases of Case 2 on an inner node or on the root, Case 3): whenever it reports success
    the heap is still good *)
Theorem C03Heap_remove_tip_good : forall h name tip h', Good h ->
  remove_tip_heap name tip h = HOk h' -> Good h'.
Proof. exact remove_tip_heap_good. Qed.
Print Assumptions C03Heap_remove_tip_good.

(** its first step and the body of its single-node loop (the parent forgets the leaf, the leaf
    and its branch leave the heap) never fail on a non-root leaf *)
Theorem C03Heap_drop_leaf_good : forall h x hx q ex, Good h ->
  alookup x (hnodes h) = Some hx -> hneigh hx = [q] -> hbr hx = [ex] -> x <> hroot h ->
  exists h', (do h1 <- del_neighbor q x h; del_node x h1) = HOk h' /\ Good h'.
Proof. exact drop_leaf_good. Qed.
Print Assumptions C03Heap_drop_leaf_good.

(** and removeTip succeeds when the neighbour of the tip keeps at least three neighbours *)
Theorem C03Heap_remove_tip_case3_good : forall h name tip ht q ex hq, Good h ->
  alookup tip (hnodes h) = Some ht -> hneigh ht = [q] -> hbr ht = [ex] -> tip <> hroot h ->
  alookup q (hnodes h) = Some hq -> 4 <= length (hneigh hq) ->
  exists h', remove_tip_heap name tip h = HOk h' /\ Good h'.
Proof. exact remove_tip_case3_good. Qed.
Print Assumptions C03Heap_remove_tip_case3_good.

(** * (c) the invariant is not vacuous, and says more than the dump *)
Definition mk2 (n0 n1 : hnode) (ed : hedge) : heap := mkHeap [(0, n0); (1, n1)] [(1, ed)] 0 2 2.

(** asymmetric adjacency: 0 lists 1, 1 does not list 0.  The dump succeeds (with a tree that is
    not well formed: the child has no parent slot); the heap is not good. *)
Definition h_asym : heap := mk2 (mkHN "r" [] [1] [1]) (mkHN "a" [] [] []) (mkHE 0 1 e0).
Example C03Heap_neg_asymmetric :
  abs h_asym = Some (UNode "r" [] [Some (e0, UNode "a" [] [])]) /\
  wf (UNode "r" [] [Some (e0, UNode "a" [] [])]) = false /\ ~ Good h_asym.
Proof.
  split; [vm_compute; reflexivity|]. split; [vm_compute; reflexivity|].
  intros G. destruct (g_sym _ G 0 1 1) as [hn [E Hin]].
  - eexists. split; [reflexivity|]. left. reflexivity.
  - vm_compute in E. injection E as <-. destruct Hin.
Qed.
Print Assumptions C03Heap_neg_asymmetric.

(** symmetric, but through two different edge objects: the dump itself fails *)
Definition h_two_edges : heap :=
  mkHeap [(0, mkHN "r" [] [1] [1]); (1, mkHN "a" [] [0] [2])] [(1, mkHE 0 1 e0); (2, mkHE 0 1 e0)] 0 2 3.
Example C03Heap_neg_two_edges : abs h_two_edges = None /\ ~ Good h_two_edges.
Proof.
  split; [vm_compute; reflexivity|].
  intros G. destruct (g_sym _ G 0 1 1) as [hn [E Hin]].
  - eexists. split; [reflexivity|]. left. reflexivity.
  - vm_compute in E. injection E as <-. destruct Hin as [Hin|[]]. discriminate.
Qed.
Print Assumptions C03Heap_neg_two_edges.

(** the branch points TOWARDS the root: the dump is a well-formed tree, the heap is not good
    -- the structural dump alone does not see orientation *)
Definition h_flipped : heap := mk2 (mkHN "r" [] [1] [1]) (mkHN "a" [] [0] [1]) (mkHE 1 0 e0).
Example C03Heap_neg_orientation :
  abs h_flipped = Some (UNode "r" [] [Some (e0, UNode "a" [] [None])]) /\
  wf (UNode "r" [] [Some (e0, UNode "a" [] [None])]) = true /\ ~ Good h_flipped.
Proof.
  split; [vm_compute; reflexivity|]. split; [vm_compute; reflexivity|].
  intros G. destruct (g_rank _ G) as [rank [R0 R1]]. specialize (R1 1 (mkHE 1 0 e0) eq_refl).
  cbn in R0, R1. rewrite R0 in R1. discriminate.
Qed.
Print Assumptions C03Heap_neg_orientation.

(** an edge whose ends are not the two nodes that list it: again a well-formed dump *)
Definition h_wrong_ends : heap :=
  mkHeap [(0, mkHN "r" [] [1; 2] [1; 2]); (1, mkHN "a" [] [0] [1]); (2, mkHN "b" [] [0] [2])]
         [(1, mkHE 0 2 e0); (2, mkHE 0 2 e0)] 0 3 3.
Example C03Heap_neg_edge_ends :
  (exists t, abs h_wrong_ends = Some t /\ wf t = true) /\ ~ Good h_wrong_ends.
Proof.
  split; [eexists; split; vm_compute; reflexivity|].
  intros G. destruct (g_ends _ G 0 1 1 (mkHE 0 2 e0)) as [[_ E]|[E _]]; try discriminate.
  - eexists. split; [reflexivity|]. left. reflexivity.
  - reflexivity.
Qed.
Print Assumptions C03Heap_neg_edge_ends.

(** * concrete runs on a 5-tip tree (closed computations) *)
Definition lf (n : string) : utree := UNode n [] [None].
Definition ed (l : Q) : einfo := mkE l nilv nilv [].
Definition eds (l s : Q) : einfo := mkE l s nilv [].
(** ((a:1,b:2)0.5:1,(c:1,d:1)0.75:2,e:3);  and  ((a:1,b:2)0.5:1,(c:0,d:1)0.75:2); *)
Definition hx_start : utree :=
  UNode "" [] [Some (eds 1 (1#2), UNode "" [] [None; Some (ed 1, lf "a"); Some (ed 2, lf "b")]);
               Some (eds 2 (3#4), UNode "" [] [Some (ed 1, lf "c"); None; Some (ed 1, lf "d")]);
               Some (ed 3, lf "e")].
Definition hx_rooted : utree :=
  UNode "" [] [Some (eds 1 (1#2), UNode "" [] [None; Some (ed 1, lf "a"); Some (ed 2, lf "b")]);
               Some (eds 2 (3#4), UNode "" [] [Some (ed 0, lf "c"); None; Some (ed 1, lf "d")])].

Definition abs_is (h : heap) (t : utree) : bool :=
  match abs h with Some t' => utree_eqb t' t | None => false end.

(** Reroot on the heap at the i-th node = reroot on the tree, same error otherwise *)
Definition chk_reroot (t : utree) (i : nat) : bool :=
  match tree_nodes (heap_of t) with
  | HOk ns =>
    match nth_error ns i with
    | Some n =>
      match reroot_heap n (heap_of t), reroot t i with
      | HOk h', Ok t' => abs_is h' t'
      | HErr m, Err m' => String.eqb m m'
      | _, _ => false
      end
    | None => match reroot t i with Err _ => true | _ => false end
    end
  | _ => false
  end.

Example C03Heap_run_abs : abs (heap_of hx_start) = Some hx_start /\ abs (heap_of hx_rooted) = Some hx_rooted.
Proof. vm_compute. split; reflexivity. Qed.
Print Assumptions C03Heap_run_abs.

Example C03Heap_run_reroot :
  forallb (chk_reroot hx_start) (seq 0 9) && forallb (chk_reroot hx_rooted) (seq 0 8) = true.
Proof. vm_compute. reflexivity. Qed.
Print Assumptions C03Heap_run_reroot.

Example C03Heap_run_unroot :
  match unroot_heap (heap_of hx_rooted), unroot_heap (heap_of hx_start) with
  | HOk h1, HOk h2 => abs_is h1 (unroot hx_rooted) && abs_is h2 hx_start
  | _, _ => false
  end = true.
Proof. vm_compute. reflexivity. Qed.
Print Assumptions C03Heap_run_unroot.

(** a history on one heap: reroot at node 4, unroot (no-op: 3 root branches), reroot at node 1,
    reroot back at node 0 -- compared with the same history on the tree *)
Example C03Heap_run_history :
  match reroot_heap 4 (heap_of hx_rooted), reroot hx_rooted 4 with
  | HOk h1, Ok t1 =>
    match unroot_heap h1 with
    | HOk h2 =>
      match tree_nodes h2 with
      | HOk ns =>
        match nth_error ns 3 with
        | Some n =>
          match reroot_heap n h2, reroot (unroot t1) 3 with
          | HOk h3, Ok t3 => abs_is h2 (unroot t1) && abs_is h3 t3
          | _, _ => false
          end
        | None => false
        end
      | _ => false
      end
    | _ => false
    end
  | _, _ => false
  end = true.
Proof. vm_compute. reflexivity. Qed.
Print Assumptions C03Heap_run_history.

(** the three operations whose refinement square is not proved (only [Good]-preservation): the
    heap transformers agree with the tree models of
    Model/Collapse.v, Model/Prune.v and (GraftTipOnEdge) Model/TreeGen.v [graft_node] on every
    branch / tip of three trees, error cases included *)
(** ((a,(b,(c,d)x)y)z,e,f) with decorations *)
Definition hx_deep : utree :=
  UNode "r" [] [Some (eds 1 (1#2), UNode "z" [] [Some (ed 1, lf "a"); None;
                    Some (eds 2 (1#4), UNode "y" [] [None; Some (ed 1, lf "b");
                          Some (eds 3 (3#4), UNode "x" [] [Some (ed 1, lf "c"); Some (ed 2, lf "d"); None])])]);
               Some (ed 3, lf "e"); Some (ed 4, lf "f")].
Definition hx_chain : utree :=
  UNode "" [] [Some (ed 1, lf "a");
               Some (ed 2, UNode "s" [] [None; Some (ed 1, UNode "s2" [] [None; Some (ed 5, lf "b")])]);
               Some (ed 3, lf "c")].
Definition hx_two : utree := UNode "" [] [Some (ed 1, lf "a"); Some (ed 2, lf "b")].
Definition rr_at (t : utree) (i : nat) : utree := match reroot t i with Ok t' => t' | _ => t end.

Definition edge_ids (h : heap) : list nat := match dump h with Some lt => leids lt | None => [] end.

Definition chk_rm_edge (rr rt : bool) (t : utree) (k : nat) : bool :=
  let h := heap_of t in
  match nth_error (edge_ids h) k with
  | Some e => match remove_edge rr rt e h with
              | HOk h' => abs_is h' (remove_edges_idx rr rt [k] t)
              | _ => false
              end
  | None => false
  end.
Definition all_rm_edge (t : utree) : bool :=
  forallb (fun rr => forallb (fun rt => forallb (chk_rm_edge rr rt t) (seq 0 (length (edges t)))) [true; false]) [true; false].

Example C03Heap_run_remove_edge :
  all_rm_edge hx_start && all_rm_edge hx_rooted && all_rm_edge hx_deep &&
  all_rm_edge (rr_at hx_deep 3) && all_rm_edge (rr_at hx_rooted 4) = true.
Proof. vm_compute. reflexivity. Qed.
Print Assumptions C03Heap_run_remove_edge.

Definition tip_id (h : heap) (nm : string) : option nat :=
  match tree_nodes h with
  | HOk ns => find (fun n => match alookup n (hnodes h) with
                             | Some hn => String.eqb (hname hn) nm && Nat.eqb (length (hneigh hn)) 1
                             | None => false end) ns
  | _ => None
  end.
Definition chk_rm_tip (t : utree) (nm : string) : bool :=
  let h := heap_of t in
  match tip_id h nm with
  | Some n => match remove_tip_heap nm n h, remove_tip nm t with
              | HOk h', Ok t' => abs_is h' t'
              | HErr m, Err m' => String.eqb m m'
              | _, _ => false
              end
  | None => false
  end.

Example C03Heap_run_remove_tip :
  forallb (chk_rm_tip hx_start) ["a"; "b"; "c"; "d"; "e"] &&
  forallb (chk_rm_tip hx_rooted) ["a"; "b"; "c"; "d"] &&
  forallb (chk_rm_tip hx_deep) ["a"; "b"; "c"; "d"; "e"; "f"] &&
  forallb (chk_rm_tip (rr_at hx_deep 3)) ["a"; "b"; "c"; "d"; "e"; "f"] &&
  forallb (chk_rm_tip (rr_at hx_rooted 4)) ["a"; "b"; "c"; "d"] &&
  forallb (chk_rm_tip hx_chain) ["a"; "b"; "c"] && forallb (chk_rm_tip hx_two) ["a"; "b"] = true.
Proof. vm_compute. reflexivity. Qed.
Print Assumptions C03Heap_run_remove_tip.

(** GraftTipOnEdge read on trees: [ugrafts] / [ugraft] of Model/HeapSpec.v *)
Definition chk_graft (t : utree) (k : nat) : bool :=
  let h := heap_of t in
  match nth_error (edge_ids h) k, nth_error (ugrafts (lf "new") t) k with
  | Some e, Some t' => match graft_new_tip "new" e h with
                       | HOk (_, _, _, _, h') => abs_is h' t'
                       | _ => false
                       end
  | _, _ => false
  end.

Example C03Heap_run_graft :
  forallb (chk_graft hx_start) (seq 0 7) && forallb (chk_graft hx_deep) (seq 0 9) &&
  forallb (chk_graft (rr_at hx_deep 3)) (seq 0 9) = true.
Proof. vm_compute. reflexivity. Qed.
Print Assumptions C03Heap_run_graft.

(** * second round *)

(** reroot_nocheck = Reroot on a good heap (every node of the heap is in the tree) *)
Theorem C03Heap_reroot_nocheck_eq : forall h n, Good h -> reroot_nocheck_heap n h = reroot_heap n h.
Proof. exact reroot_nocheck_eq. Qed.
Print Assumptions C03Heap_reroot_nocheck_eq.

Theorem C03Heap_reroot_nocheck_good : forall h n h', Good h -> reroot_nocheck_heap n h = HOk h' -> Good h' /\ hroot h' = n.
Proof. exact reroot_nocheck_good. Qed.
Print Assumptions C03Heap_reroot_nocheck_good.

Theorem C03Heap_reroot_nocheck_refines : forall h t ns j n, Good h -> abs h = Some t ->
  tree_nodes h = HOk ns -> nth_error ns j = Some n ->
  match reroot_nocheck_heap n h with
  | HOk h' => exists t', reroot t j = Ok t' /\ abs h' = Some t'
  | HErr m => reroot t j = Err m
  | HPanic => False
  end.
Proof. exact reroot_nocheck_refines. Qed.
Print Assumptions C03Heap_reroot_nocheck_refines.

(** the refinement square of GraftTipOnEdge: grafting a new tip on the k-th branch (Edges()
    order = order of the edge ids in the dump) is [ugraft name k] (Model/HeapSpec.v, built on
    TreeGen.graft_node) on the tree; it never fails *)
Theorem C03Heap_graft_square : forall h t name k e, Good h -> abs h = Some t ->
  (exists lt, dump h = Some lt /\ nth_error (leids lt) k = Some e) ->
  exists tip ne ne2 nn h' t', graft_new_tip name e h = HOk (tip, ne, ne2, nn, h') /\
    Good h' /\ ugraft name k t = Some t' /\ abs h' = Some t'.
Proof. exact graft_new_tip_square. Qed.
Print Assumptions C03Heap_graft_square.

(** permuting the slots of one node -- neigh and br TOGETHER -- keeps the heap good *)
Theorem C03Heap_permute_good : forall h n hn hn', Good h -> alookup n (hnodes h) = Some hn ->
  length (hneigh hn') = length (hbr hn') -> Permutation.Permutation (slots_of hn) (slots_of hn') ->
  Good (set_node h n hn').
Proof. exact Good_permute. Qed.
Print Assumptions C03Heap_permute_good.

Theorem C03Heap_rotate_neighbors_good : forall h n cs h', Good h -> rotate_neighbors_heap n cs h = HOk h' -> Good h'.
Proof. exact rotate_neighbors_good. Qed.
Print Assumptions C03Heap_rotate_neighbors_good.

Theorem C03Heap_rotate_neighbors_total : forall h n cs, Good h -> alookup n (hnodes h) <> None ->
  exists h', rotate_neighbors_heap n cs h = HOk h'.
Proof. exact rotate_neighbors_total. Qed.
Print Assumptions C03Heap_rotate_neighbors_total.

Theorem C03Heap_rotate_internal_nodes_good : forall cs h h', Good h -> rotate_internal_nodes_heap cs h = HOk h' -> Good h'.
Proof. exact rotate_internal_nodes_good. Qed.
Print Assumptions C03Heap_rotate_internal_nodes_good.

(** ... permuting only the neigh array does not: the same swap applied to neigh alone on the
    root of the 5-tip tree gives a heap whose dump fails (a node is reached twice) *)
Example C03Heap_neg_rotate_one_array :
  match rotate_neighbors_heap 0 [0; 0; 1] (heap_of hx_start), rotate_neigh_only 0 [0; 0; 1] (heap_of hx_start) with
  | HOk h1, HOk h2 =>
    abs_is h1 (UNode "" [] (fst (rotate_slots 0 3 [0; 0; 1] (uslots hx_start)))) &&
    match abs h2 with None => true | Some _ => false end
  | _, _ => false
  end = true /\
  forall h2, rotate_neigh_only 0 [0; 0; 1] (heap_of hx_start) = HOk h2 -> ~ Good h2.
Proof.
  split; [vm_compute; reflexivity|]. intros h2 E G. destruct (Good_abs h2 G) as [t [Ha _]].
  revert Ha. injection E as <-. vm_compute. discriminate.
Qed.
Print Assumptions C03Heap_neg_rotate_one_array.

(** removeTip never panics on a good heap: success (good heap) or one of its error messages *)
Theorem C03Heap_remove_tip_total : forall h name tip, Good h -> alookup tip (hnodes h) <> None ->
  (exists h', remove_tip_heap name tip h = HOk h' /\ Good h') \/ (exists m, remove_tip_heap name tip h = HErr m).
Proof. exact remove_tip_heap_spec. Qed.
Print Assumptions C03Heap_remove_tip_total.

(** the loops: RemoveEdges over a list of branches computed beforehand, RemoveTips over the tip
    snapshot *)
Theorem C03Heap_remove_edges_good : forall rr rt es h h', Good h -> remove_edges_heap rr rt es h = HOk h' -> Good h'.
Proof. exact remove_edges_heap_good. Qed.
Print Assumptions C03Heap_remove_edges_good.

Theorem C03Heap_remove_tips_good : forall tips h h', Good h -> remove_tips_heap tips h = HOk h' -> Good h'.
Proof. exact remove_tips_heap_good. Qed.
Print Assumptions C03Heap_remove_tips_good.

(** NNI (tree/rearrange.go): Apply on a proposal newNNI(t, e.Left(), e.Right(), cross) for a
    branch between two nodes of degree 3 -- what NNIRearranger.Rearrange produces -- succeeds and
    keeps the heap good (the central branch is re-oriented exactly when the moved neighbour of
    n1 is its parent); Undo after it succeeds and keeps the heap good *)
Theorem C03Heap_nni_apply_good : forall h n1 n2 cross q hn1 hn2 ec edc, Good h ->
  alookup n1 (hnodes h) = Some hn1 -> alookup n2 (hnodes h) = Some hn2 ->
  In (n2, ec) (slots_of hn1) -> alookup ec (hedges h) = Some edc -> hleft edc = n1 ->
  length (hneigh hn1) = 3 -> length (hneigh hn2) = 3 ->
  new_nni_heap h n1 n2 cross = HOk q ->
  exists h', nni_apply_heap q h = HOk h' /\ Good h'.
Proof. exact nni_apply_good. Qed.
Print Assumptions C03Heap_nni_apply_good.

Theorem C03Heap_nni_apply_undo_good : forall h n1 n2 cross q hn1 hn2 ec edc, Good h ->
  alookup n1 (hnodes h) = Some hn1 -> alookup n2 (hnodes h) = Some hn2 ->
  In (n2, ec) (slots_of hn1) -> alookup ec (hedges h) = Some edc -> hleft edc = n1 ->
  length (hneigh hn1) = 3 -> length (hneigh hn2) = 3 ->
  new_nni_heap h n1 n2 cross = HOk q ->
  exists h' h'', nni_apply_heap q h = HOk h' /\ Good h' /\ nni_undo_heap q h' = HOk h'' /\ Good h''.
Proof. exact nni_apply_undo_good. Qed.
Print Assumptions C03Heap_nni_apply_undo_good.

(** the heap NNI agrees with Model/NNI.v on every proposal of three trees: Apply, then Undo
    (back to the original tree) *)
Definition chk_nni (t : utree) (r : nni) : bool :=
  let h := heap_of t in
  match dump h with
  | Some lt =>
    match lnode_at lt (r_path r) with
    | Some (LNode n1 _ _ _) =>
      match alookup n1 (hnodes h) with
      | Some hn1 =>
        match nth_error (hneigh hn1) (r_k r) with
        | Some n2 =>
          match new_nni_heap h n1 n2 (r_cross r) with
          | HOk q =>
            match nni_apply_heap q h, apply r t with
            | HOk h1, Some t1 =>
              abs_is h1 t1 &&
              match nni_undo_heap q h1, undo r t1 with
              | HOk h2, Some t2 => abs_is h2 t2 && abs_is h2 t
              | _, _ => false
              end
            | _, _ => false
            end
          | _ => false
          end
        | None => false
        end
      | None => false
      end
    | None => false
    end
  | None => false
  end.
Definition all_nni (t : utree) : bool := forallb (chk_nni t) (nni_list t).

Example C03Heap_run_nni :
  all_nni hx_start && all_nni hx_deep && all_nni (rr_at hx_deep 3) && all_nni (rr_at hx_deep 6) && all_nni (rr_at hx_start 4) = true /\
  length (nni_list hx_deep) = 6.
Proof. vm_compute. split; reflexivity. Qed.
Print Assumptions C03Heap_run_nni.

(** * Round 3: refinement squares against the tree models, and histories *)

(** the model of one RemoveEdges step: contracting the k-th branch of Edges() is a local
    rewriting at the upper end of the branch (pure tree fact, links [proc] to one step) *)
Theorem C03Heap_remove_edges_single : forall rr rt k t p j, wf t = true -> nth_error (edge_locs t) k = Some (p, j) ->
  at_path (contract_slot rr rt j) p t = Some (remove_edges_idx rr rt [k] t).
Proof. exact remove_edges_single. Qed.
Print Assumptions C03Heap_remove_edges_single.

(** RemoveEdges on one branch: the square against Model/Collapse.v (always succeeds) *)
Theorem C03Heap_remove_edge_square : forall rr rt h t k e, Good h -> abs h = Some t ->
  (exists lt, dump h = Some lt /\ nth_error (leids lt) k = Some e) ->
  exists h', remove_edge rr rt e h = HOk h' /\ Good h' /\ abs h' = Some (remove_edges_idx rr rt [k] t).
Proof. exact remove_edge_square. Qed.
Print Assumptions C03Heap_remove_edge_square.

(** the loop of RemoveEdges over distinct branches of the tree never fails *)
Theorem C03Heap_remove_edges_total : forall rr rt es h lt, Rep h lt -> NoDup es -> (forall e, In e es -> In e (leids lt)) ->
  exists h', remove_edges_heap rr rt es h = HOk h' /\ Good h'.
Proof. exact remove_edges_heap_total. Qed.
Print Assumptions C03Heap_remove_edges_total.

(** removeTip, the square against Model/Prune.v [remove_tip], error messages included: the
    tip removed is the first tip of Tips() with that name ([find_tip]); the heap function
    succeeds exactly when the model does, with the modelled tree, and otherwise fails with the
    model's message *)
Theorem C03Heap_remove_tip_square : forall nm h t P lt sub, Good h -> abs h = Some t -> dump h = Some lt ->
  find_tip nm t = Some P -> lnode_at lt P = Some sub ->
  match remove_tip nm t with
  | Ok t' => exists h', remove_tip_heap nm (lid sub) h = HOk h' /\ Good h' /\ abs h' = Some t'
  | Err m => remove_tip_heap nm (lid sub) h = HErr m
  end.
Proof. exact remove_tip_square. Qed.
Print Assumptions C03Heap_remove_tip_square.

(** the by-name search of the model is the path-guided removal (pure tree fact) *)
Theorem C03Heap_remove_tip_find : forall nm t,
  match find_tip nm t with
  | None => remove_tip nm t = Err (err_not_tip nm)
  | Some [] => remove_tip nm t = Err err_not_neighbor
  | Some P => exists p j t1, P = (p ++ [j])%list /\ at_path (rm_slot j) p t = Some t1 /\ remove_tip nm t = after_root nm p t1
  end.
Proof. exact remove_tip_find. Qed.
Print Assumptions C03Heap_remove_tip_find.

(** removeTip on the leaf at a path: the square in its path form (any leaf, whatever its name) *)
Theorem C03Heap_remove_tip_path : forall nm h lt p j x nmx cmx t1, Rep h lt ->
  lnode_at lt (p ++ [j])%list = Some (LNode x nmx cmx [None]) -> at_path (rm_slot j) p (erase lt) = Some t1 ->
  match after_root nm p t1 with
  | Ok t' => exists h' lt', remove_tip_heap nm x h = HOk h' /\ Rep h' lt' /\ erase lt' = t'
  | Err m => remove_tip_heap nm x h = HErr m
  end.
Proof. exact remove_tip_heap_path. Qed.
Print Assumptions C03Heap_remove_tip_path.

(** nni.Apply: the square against Model/NNI.v [apply] *)
Theorem C03Heap_nni_apply_square : forall h lt r n1 n2 q hn1 hn2 ec edc sub, Rep h lt ->
  alookup n1 (hnodes h) = Some hn1 -> alookup n2 (hnodes h) = Some hn2 ->
  In (n2, ec) (slots_of hn1) -> alookup ec (hedges h) = Some edc -> hleft edc = n1 ->
  length (hneigh hn1) = 3 -> length (hneigh hn2) = 3 ->
  new_nni_heap h n1 n2 (r_cross r) = HOk q ->
  lnode_at lt (r_path r) = Some sub -> lid sub = n1 ->
  nth_error (hneigh hn1) (r_k r) = Some n2 -> nth_error (hneigh hn2) (r_j r) = Some n1 ->
  exists h' lt', nni_apply_heap q h = HOk h' /\ Rep h' lt' /\ apply r (erase lt) = Some (erase lt').
Proof. exact nni_apply_square. Qed.
Print Assumptions C03Heap_nni_apply_square.

(** nni.Undo after nni.Apply restores every record of the heap ... *)
Theorem C03Heap_nni_apply_undo_id : forall h n1 n2 cross q hn1 hn2 ec edc, Good h ->
  alookup n1 (hnodes h) = Some hn1 -> alookup n2 (hnodes h) = Some hn2 ->
  In (n2, ec) (slots_of hn1) -> alookup ec (hedges h) = Some edc -> hleft edc = n1 ->
  length (hneigh hn1) = 3 -> length (hneigh hn2) = 3 ->
  new_nni_heap h n1 n2 cross = HOk q ->
  exists h' h'', nni_apply_heap q h = HOk h' /\ Good h' /\ nni_undo_heap q h' = HOk h'' /\ same_heap h'' h.
Proof. exact nni_apply_undo_id. Qed.
Print Assumptions C03Heap_nni_apply_undo_id.

(** ... hence the square of Undo on the state Apply leaves (with Proofs/NNIBase.v [undo_apply]) *)
Theorem C03Heap_nni_apply_undo_square : forall h lt r n1 n2 q hn1 hn2 ec edc sub, Rep h lt ->
  alookup n1 (hnodes h) = Some hn1 -> alookup n2 (hnodes h) = Some hn2 ->
  In (n2, ec) (slots_of hn1) -> alookup ec (hedges h) = Some edc -> hleft edc = n1 ->
  length (hneigh hn1) = 3 -> length (hneigh hn2) = 3 ->
  new_nni_heap h n1 n2 (r_cross r) = HOk q ->
  lnode_at lt (r_path r) = Some sub -> lid sub = n1 ->
  nth_error (hneigh hn1) (r_k r) = Some n2 -> nth_error (hneigh hn2) (r_j r) = Some n1 ->
  valid r (erase lt) ->
  exists h' lt' h'', nni_apply_heap q h = HOk h' /\ Rep h' lt' /\ apply r (erase lt) = Some (erase lt') /\
    nni_undo_heap q h' = HOk h'' /\ Rep h'' lt /\ undo r (erase lt') = Some (erase lt).
Proof. exact nni_apply_undo_square. Qed.
Print Assumptions C03Heap_nni_apply_undo_square.

(** RotateInternalNodes: the square against Model/Reroot.v [rotate_all] (always succeeds) *)
Theorem C03Heap_rotate_square : forall h t cs, Good h -> abs h = Some t ->
  exists h', rotate_internal_nodes_heap cs h = HOk h' /\ Good h' /\ abs h' = Some (fst (rotate_all t cs)).
Proof. exact rotate_internal_nodes_square. Qed.
Print Assumptions C03Heap_rotate_square.

(** one step of a heap history *)
Theorem C03Heap_run_hop_square : forall o h t h', Good h -> abs h = Some t -> run_hop_heap o h = HOk h' ->
  Good h' /\ exists t', run_hop_tree o t = Ok t' /\ abs h' = Some t'.
Proof. exact run_hop_square. Qed.
Print Assumptions C03Heap_run_hop_square.

(** any history over {Reroot, reroot_nocheck, UnRoot, GraftTipOnEdge, RemoveEdges(one branch),
    nni.Apply, removeTip(by name), RotateInternalNodes, SortNeighborsByTips, RemoveSingleNodes,
    the k-th NNI proposal applied (and undone), RemoveEdges on a list of branches,
    CollapseShortBranches, CollapseLowSupport}: the heap stays good and represents
    the tree the same history gives on the tree model *)
Theorem C03Heap_history : forall ops h t h', Good h -> abs h = Some t -> run_heap ops h = HOk h' ->
  Good h' /\ exists t', run_tree ops t = Ok t' /\ abs h' = Some t' /\ wf t' = true.
Proof. exact heap_history. Qed.
Print Assumptions C03Heap_history.

(** the alphabet of these histories and Model/History.v agree where they overlap *)
Theorem C03Heap_history_links : forall t,
  (forall i, run_hop_tree (HReroot i) t = run_op (OReroot i) t) /\ run_hop_tree HUnroot t = run_op OUnroot t /\
  (forall cs, run_hop_tree (HRotate cs) t = run_op (ORotate cs) t) /\
  run_hop_tree HSort t = run_op OSort t /\ run_hop_tree HRmSingle t = run_op ORmSingle t /\
  (forall k undo, run_hop_tree (HNni k undo) t = run_op (ONni k undo) t) /\
  (forall l rr rt, run_hop_tree (HCollapseLen l rr rt) t = run_op (OCollapseLen l rr rt) t) /\
  (forall s rr, run_hop_tree (HCollapseSup s rr) t = run_op (OCollapseSup s rr) t).
Proof. intros t. repeat split; reflexivity. Qed.
Print Assumptions C03Heap_history_links.

(** a closed run: a mixed history on the heap of a six-tip tree, against the tree model *)
Example C03Heap_run_mixed_history :
  let ops := [HReroot 3; HRemoveTip "c"; HRotate [0;0;1;0;1;2;0;0;0;1;1;0;2;1]; HGraftTip "N" 2; HRemoveEdge false false 1; HUnroot; HRemoveTip "a"] in
  match run_heap ops (heap_of hx_deep), run_tree ops hx_deep with
  | HOk h', Ok t' => abs_is h' t'
  | _, _ => false
  end = true.
Proof. vm_compute. reflexivity. Qed.
Print Assumptions C03Heap_run_mixed_history.

(** SortNeighborsByTips: the square against Model/Reroot.v [sort_by_tips] (always succeeds) *)
Theorem C03Heap_sort_square : forall h t, Good h -> abs h = Some t ->
  exists h', sort_neighbors_by_tips_heap h = HOk h' /\ Good h' /\ abs h' = Some (sort_by_tips t).
Proof. exact sort_neighbors_square. Qed.
Print Assumptions C03Heap_sort_square.

Example C03Heap_run_sort :
  match sort_neighbors_by_tips_heap (heap_of hx_deep) with
  | HOk h' => abs_is h' (sort_by_tips hx_deep)
  | _ => false
  end = true.
Proof. vm_compute. reflexivity. Qed.
Print Assumptions C03Heap_run_sort.

(** RemoveSingleNodes: the suppression of one node with two neighbours, on a represented heap *)
Theorem C03Heap_rs_suppress_Rep : forall h lt p P0 nmP cmP l1 l2 eP0 eiP i nmi cmi (pfirst : bool) eC eiC C nmC cmC slC, Rep h lt ->
  let sli := if pfirst then [None; Some (eC, eiC, LNode C nmC cmC slC)] else [Some (eC, eiC, LNode C nmC cmC slC); None] in
  In (p, LNode P0 nmP cmP (l1 ++ Some (eP0, eiP, LNode i nmi cmi sli) :: l2)%list) (lsubs None lt) ->
  exists h', rs_suppress i P0 eP0 h = HOk h' /\
    Rep h' (lreplace P0 (LNode P0 nmP cmP ((l1 ++ l2) ++ [Some (eC, LocalEdit.rs_edge eiP eiC, LNode C nmC cmC slC)])%list) lt).
Proof. exact rs_suppress_Rep. Qed.
Print Assumptions C03Heap_rs_suppress_Rep.

(** RemoveSingleNodes: the square against Model/LocalEdit.v [remove_single]: always succeeds
    (the errors that the Go code drops never arise on a good heap) *)
Theorem C03Heap_remove_single_square : forall h t, Good h -> abs h = Some t ->
  exists h', remove_single_nodes_heap h = HOk h' /\ Good h' /\ abs h' = Some (LocalEdit.remove_single t).
Proof. exact remove_single_nodes_square. Qed.
Print Assumptions C03Heap_remove_single_square.

Example C03Heap_run_remove_single :
  forallb (fun i => match remove_single_nodes_heap (heap_of (rr_at hx_chain i)) with
                    | HOk h' => abs_is h' (LocalEdit.remove_single (rr_at hx_chain i))
                    | _ => false
                    end) (seq 0 6) = true.
Proof. vm_compute. reflexivity. Qed.
Print Assumptions C03Heap_run_remove_single.

(** a closed run with the later operations: NNI proposals applied and undone, sorting, a tip
    removal that leaves a single node, RemoveSingleNodes *)
Example C03Heap_run_mixed_history2 :
  let ops := [HNni 3 true; HNni 1 false; HSort; HReroot 5; HNni 2 false; HRemoveTip "d"; HRotate [0;1;0;0;1;1;2;0]; HRmSingle; HNni 0 true] in
  match run_heap ops (heap_of hx_deep), run_tree ops hx_deep with
  | HOk h', Ok t' => abs_is h' t'
  | _, _ => false
  end = true.
Proof. vm_compute. reflexivity. Qed.
Print Assumptions C03Heap_run_mixed_history2.

(** * Round 5 *)

(** RemoveEdges on a list, on labelled trees: the one-pass function of Model/Collapse.v, written
    with a selection by branch id ([lremove]), is the succession of the single contractions
    ([lstep], found by branch id), in Edges() order.  (Positions in Edges() are not simply
    shifted by a contraction: the children of the contracted node go to the END of the
    neighbour array, so later branches change place; branch ids are stable.) *)
Theorem C03Heap_lremove_fold : forall rr rt lt, NoDup (leids lt) -> forall todo done,
  filter (selL (done ++ todo)) (leids lt) = (done ++ todo)%list ->
  lremove rr rt (selL (done ++ todo)) lt = fold_left (fun t e => lstep rr rt e t) todo (lremove rr rt (selL done) lt).
Proof. exact lremove_fold. Qed.
Print Assumptions C03Heap_lremove_fold.

(** adding to the selection a branch that comes after all the selected ones = one more contraction *)
Theorem C03Heap_lremove_last : forall rr rt sel e t, LastT sel e t -> NoDup (leids t) -> sel e = false ->
  lremove rr rt (sel_add sel e) t = lstep rr rt e (lremove rr rt sel t).
Proof. exact lremove_last. Qed.
Print Assumptions C03Heap_lremove_last.

(** the loop of RemoveEdges over the selected branches [es] (in Edges() order): the square
    against [remove_edges] for ANY index-based selection that designates exactly [es] *)
Theorem C03Heap_remove_edges_list_square : forall rr rt selidx es h lt, Rep h lt ->
  filter (selL es) (leids lt) = es ->
  (forall j x e c, nth_error (leids lt) j = Some x -> selidx j e c = selL es x) ->
  exists h', remove_edges_heap rr rt es h = HOk h' /\ Good h' /\ abs h' = Some (remove_edges rr rt selidx (erase lt)).
Proof. exact remove_edges_heap_square. Qed.
Print Assumptions C03Heap_remove_edges_list_square.

Theorem C03Heap_remove_edges_idx_square : forall rr rt idx h t, Good h -> abs h = Some t ->
  exists lt h', dump h = Some lt /\ remove_edges_heap rr rt (ids_at idx (leids lt)) h = HOk h' /\ Good h' /\
    abs h' = Some (remove_edges_idx rr rt idx t).
Proof. exact remove_edges_idx_heap_square. Qed.
Print Assumptions C03Heap_remove_edges_idx_square.

(** closed runs: every pair of positions of two trees, both flags; and a history with lists *)
Definition chk_edges_list (t : utree) (rr rt : bool) (idx : list nat) : bool :=
  match run_hop_heap (HRemoveEdges rr rt idx) (heap_of t) with
  | HOk h' => abs_is h' (remove_edges_idx rr rt idx t)
  | _ => false
  end.
Example C03Heap_run_remove_edges_list :
  forallb (fun t => forallb (fun i => forallb (fun j => chk_edges_list t false false [i; j] && chk_edges_list t true true [j; i]) (seq 0 9)) (seq 0 9))
          [hx_deep; rr_at hx_deep 3; hx_chain] = true /\
  chk_edges_list hx_deep true false [0; 1; 2; 3; 4; 5; 6; 7; 8] = true /\
  let ops := [HRemoveEdges false false [2; 5]; HReroot 1; HRemoveEdges true true [0; 1; 3]; HSort] in
  match run_heap ops (heap_of hx_deep), run_tree ops hx_deep with
  | HOk h', Ok t' => abs_is h' t'
  | _, _ => false
  end = true.
Proof. vm_compute. repeat split; reflexivity. Qed.
Print Assumptions C03Heap_run_remove_edges_list.

(** the same for a selection on the data of the branches: CollapseShortBranches and
    CollapseLowSupport (the loop over Edges() that builds the list, then RemoveEdges) *)
Theorem C03Heap_remove_edges_where_square : forall rr rt (g : einfo -> bool) h t, Good h -> abs h = Some t ->
  exists lt h', dump h = Some lt /\ remove_edges_heap rr rt (ids_where g lt) h = HOk h' /\ Good h' /\
    abs h' = Some (remove_edges rr rt (fun _ e _ => g e) t).
Proof. exact remove_edges_where_square. Qed.
Print Assumptions C03Heap_remove_edges_where_square.

Example C03Heap_run_collapse :
  forallb (fun ops => match run_heap ops (heap_of hx_deep), run_tree ops hx_deep with
                      | HOk h', Ok t' => abs_is h' t'
                      | _, _ => false
                      end)
          [[HCollapseLen 1 false false]; [HCollapseLen 2 true true]; [HCollapseSup (1#2) false]; [HCollapseSup 1 true];
           [HReroot 1; HCollapseLen 1 true false; HCollapseSup 1 false; HRmSingle; HSort]] = true /\
  (* the selections are not empty *)
  ids_where (sel_len 1) (match dump (heap_of hx_deep) with Some lt => lt | None => LNode 0 "" [] [] end) <> [] /\
  ids_where (sel_sup 1) (match dump (heap_of hx_deep) with Some lt => lt | None => LNode 0 "" [] [] end) <> [].
Proof. vm_compute. repeat split; try reflexivity; discriminate. Qed.
Print Assumptions C03Heap_run_collapse.

(** the by-pointer loop of Tree.RemoveTips (with its per-tip check `len(tip.neigh) != 1`) keeps
    the heap good; on the test trees it agrees with the by-name loop of Model/Prune.v, error
    messages included (closed runs; the general square is not proved) *)
Theorem C03Heap_remove_tips_by_pointer_good : forall revert names h h', Good h ->
  remove_tips_by_pointer_heap revert names h = HOk h' -> Good h'.
Proof. exact remove_tips_by_pointer_heap_good. Qed.
Print Assumptions C03Heap_remove_tips_by_pointer_good.

Definition chk_tips_loop (t : utree) (revert : bool) (names : list string) : bool :=
  match remove_tips_by_pointer_heap revert names (heap_of t), remove_loop revert names (tip_names t) t with
  | HOk h', Ok t' => abs_is h' t'
  | HErr m, Err m' => String.eqb m m'
  | _, _ => false
  end.
Example C03Heap_run_remove_tips_loop :
  forallb (fun t => forallb (fun p => chk_tips_loop t (fst p) (snd p))
             [(false, ["a"]); (false, ["a"; "c"; "e"]); (true, ["a"; "b"; "c"]); (false, ["a"; "b"; "c"; "d"]);
              (true, ["f"]); (false, ["a"; "b"; "c"; "d"; "e"; "f"]); (true, []); (false, ["c"; "d"]); (false, ["zz"])])
          [hx_deep; rr_at hx_deep 1; rr_at hx_deep 3; hx_chain; hx_two] = true.
Proof. vm_compute. reflexivity. Qed.
Print Assumptions C03Heap_run_remove_tips_loop.

(** * after the repair of nni.Undo (e2.Right() == n2 || e1.Right() == n1) *)

(** Undo keeps ANY good heap good, whatever the orientation of the three branches, i.e. wherever
    the root is -- in particular after Apply followed by any re-rooting *)
Theorem C03Heap_nni_undo_good_any : forall h q hx hy hxm hym ec e1 e2 edc ed1 ed2,
  let x := q_n1 q in let y := q_n2 q in let ym := q_n12 q in
  let xm := if q_cross q then q_n21 q else q_n22 q in
  Good h ->
  alookup x (hnodes h) = Some hx -> alookup y (hnodes h) = Some hy ->
  alookup xm (hnodes h) = Some hxm -> alookup ym (hnodes h) = Some hym ->
  In (y, ec) (slots_of hx) -> alookup ec (hedges h) = Some edc ->
  In (xm, e1) (slots_of hx) -> xm <> y -> alookup e1 (hedges h) = Some ed1 ->
  In (ym, e2) (slots_of hy) -> ym <> x -> alookup e2 (hedges h) = Some ed2 ->
  exists h', nni_undo_heap q h = HOk h' /\ Good h'.
Proof. exact nni_undo_good_any. Qed.
Print Assumptions C03Heap_nni_undo_good_any.

(** closed runs: every proposal of three trees, Apply, re-root at EVERY node, Undo: the result
    represents the original tree re-rooted at the same node (the general statement about the
    abstraction is not proved) *)
Definition abs_same (h1 h2 : heap) : bool := match abs h1, abs h2 with Some a, Some b => utree_eqb a b | _, _ => false end.
Definition chk_nni_rr (t : utree) (r : nni) : bool :=
  let h := heap_of t in
  match dump h with
  | Some lt =>
    match lnode_at lt (r_path r) with
    | Some (LNode n1 _ _ _) =>
      match alookup n1 (hnodes h) with
      | Some hn1 =>
        match nth_error (hneigh hn1) (r_k r) with
        | Some n2 =>
          match new_nni_heap h n1 n2 (r_cross r) with
          | HOk q =>
            match nni_apply_heap q h with
            | HOk h1 =>
              forallb (fun n => match reroot_heap n h1, reroot_heap n h with
                                | HOk h2, HOk hr => match nni_undo_heap q h2 with HOk h3 => abs_same h3 hr | _ => false end
                                | HErr _, HErr _ => true
                                | _, _ => false end) (lids lt)
            | _ => false
            end
          | _ => false
          end
        | None => false
        end
      | None => false
      end
    | None => false
    end
  | None => false
  end.

Example C03Heap_run_nni_reroot_undo :
  forallb (chk_nni_rr hx_deep) (nni_list hx_deep) && forallb (chk_nni_rr hx_start) (nni_list hx_start) &&
  forallb (chk_nni_rr (rr_at hx_deep 3)) (nni_list (rr_at hx_deep 3)) = true.
Proof. vm_compute. reflexivity. Qed.
Print Assumptions C03Heap_run_nni_reroot_undo.

(** * Round 7 *)

(** the by-pointer loop of Tree.RemoveTips (Tips() snapshot, per-tip check, removeTip on the
    pointer) against the by-name loop of Model/Prune.v, error messages included, for the trees
    of Properties/C06.v: no single node, a root that is not a tip, distinct tip names *)
Theorem C03Heap_remove_tips_by_pointer_square : forall revert names h t, Good h -> abs h = Some t ->
  no_single t = true -> degree t <> 1 -> NoDup (Obs.leaves t) ->
  match remove_loop revert names (tip_names t) t with
  | Ok t' => exists h', remove_tips_by_pointer_heap revert names h = HOk h' /\ Good h' /\ abs h' = Some t'
  | Err m => remove_tips_by_pointer_heap revert names h = HErr m
  end.
Proof. exact remove_tips_by_pointer_square. Qed.
Print Assumptions C03Heap_remove_tips_by_pointer_square.

(** ... and against Tree.RemoveTips as a whole ([remove_tips]: the loop, then UpdateTipIndex) *)
Theorem C03Heap_remove_tips_square : forall revert names h t, Good h -> abs h = Some t ->
  no_single t = true -> degree t <> 1 -> NoDup (Obs.leaves t) ->
  match remove_tips revert names t with
  | Ok t' => exists h', remove_tips_by_pointer_heap revert names h = HOk h' /\ Good h' /\ abs h' = Some t'
  | Err m => remove_tips_by_pointer_heap revert names h = HErr m
  end.
Proof. exact remove_tips_by_pointer_square'. Qed.
Print Assumptions C03Heap_remove_tips_square.

(** one removeTip keeps the other tips, with their ids and names (or reduces the tree to one of
    them, which then has no neighbour) *)
Theorem C03Heap_remove_tip_keeps : forall nm h lt p j x nmx cmx h', Rep h lt -> no_single (erase lt) = true ->
  lnode_at lt (p ++ [j])%list = Some (LNode x nmx cmx [None]) -> remove_tip_heap nm x h = HOk h' ->
  exists lt', Rep h' lt' /\
    forall e, In e (ltips lt) -> fst e <> x -> fst e <> lid lt -> In e (ltips lt') \/ exists cm, lt' = LNode (fst e) (snd e) cm [].
Proof. exact remove_tip_heap_keeps. Qed.
Print Assumptions C03Heap_remove_tip_keeps.

(** the hypotheses hold on the test trees (the runs are in C03Heap_run_remove_tips_loop) *)
Definition nodup_strings (l : list string) : bool :=
  (fix go (l : list string) : bool := match l with [] => true | a :: r => negb (existsb (String.eqb a) r) && go r end) l.
Example C03Heap_run_remove_tips_hyps :
  forallb (fun t => wf t && no_single t && negb (Nat.eqb (degree t) 1) && nodup_strings (Obs.leaves t))
          [hx_deep; rr_at hx_deep 1; rr_at hx_deep 3; hx_start] = true /\
  forallb (fun t => forallb (fun p => chk_tips_loop t (fst p) (snd p))
             [(false, ["a"; "c"]); (true, ["a"; "b"]); (false, ["a"; "b"; "c"; "d"; "e"]); (true, [])])
          [hx_deep; rr_at hx_deep 1; rr_at hx_deep 3; hx_start] = true.
Proof. vm_compute. split; reflexivity. Qed.
Print Assumptions C03Heap_run_remove_tips_hyps.

(** bitsets (Edge.bitset) as a layer over the store (Model/HeapBits.v): ClearBitSets and
    UpdateBitSet of one tree write only the bitsets of its own branches: the structure of the
    store and the bitsets of any other tree of the same store (e.g. the tree a clone was made
    from) are untouched *)
Theorem C03Heap_clear_bits_frame : forall len es b x, ~ In x es -> clear_bits len es b x = b x.
Proof. exact clear_bits_frame. Qed.
Print Assumptions C03Heap_clear_bits_frame.

Theorem C03Heap_update_bits_frame : forall rows b b' x, update_bits rows b = Some b' -> ~ In x (map fst rows) -> b' x = b x.
Proof. exact update_bits_frame. Qed.
Print Assumptions C03Heap_update_bits_frame.

Theorem C03Heap_reindex_other_tree_untouched : forall r len idx bh bh1 bh2 lt lt2 r2,
  dump_at (fst bh) r = Some lt -> dump_at (fst bh) r2 = Some lt2 ->
  (forall x, In x (leids lt) -> ~ In x (leids lt2)) ->
  clear_bitsets_at r len bh = HOk bh1 -> update_bitsets_at r idx bh1 = HOk bh2 ->
  fst bh2 = fst bh /\ dump_at (fst bh2) r2 = Some lt2 /\ forall x, In x (leids lt2) -> snd bh2 x = snd bh x.
Proof. exact reindex_other_tree_untouched. Qed.
Print Assumptions C03Heap_reindex_other_tree_untouched.

(** a store with two trees: the heap of [hx_deep] and, at ids 100.., the cherry (u,v) *)
Definition two_tree_store : heap :=
  let h := heap_of hx_deep in
  mkHeap (hnodes h ++ [(100, mkHN "" [] [101; 102] [100; 101]); (101, mkHN "u" [] [100] [100]); (102, mkHN "v" [] [100] [101])])%list
         (hedges h ++ [(100, mkHE 100 101 e0); (101, mkHE 100 102 e0)])%list (hroot h) 103 102.
Definition bits_eqb (a b : option bitset) : bool :=
  match a, b with
  | Some x, Some y => Nat.eqb (length x) (length y) && forallb (fun p => Bool.eqb (fst p) (snd p)) (combine x y)
  | None, None => true
  | _, _ => false
  end.
Example C03Heap_run_bitsets :
  match dump_at two_tree_store 0, dump_at two_tree_store 100 with
  | Some lt1, Some lt2 =>
    match clear_bitsets_at 0 6 (two_tree_store, fun _ => None) with
    | HOk b1 =>
      match update_bitsets_at 0 ["a"; "b"; "c"; "d"; "e"; "f"] b1 with
      | HOk b2 =>
        match clear_bitsets_at 100 2 b2 with
        | HOk b3 =>
          match update_bitsets_at 100 ["u"; "v"] b3 with
          | HOk b4 =>
            (* the two trees have no branch in common; the first tree's bitsets are not nil, and are the
               same after the second tree was re-indexed; the second tree's bitsets are as expected *)
            forallb (fun x => negb (existsb (Nat.eqb x) (leids lt2))) (leids lt1) &&
            forallb (fun x => match snd b2 x with Some v => existsb (fun z => z) v | None => false end) (leids lt1) &&
            forallb (fun x => bits_eqb (snd b4 x) (snd b2 x)) (leids lt1) &&
            bits_eqb (snd b4 100) (Some [true; false]) && bits_eqb (snd b4 101) (Some [false; true]) &&
            (* and updating without clearing first is the Go error *)
            match update_bitsets_at 100 ["u"; "v"] b2 with HErr _ => true | _ => false end
          | _ => false end
        | _ => false end
      | _ => false end
    | _ => false end
  | _, _ => false
  end = true.
Proof. vm_compute. reflexivity. Qed.
Print Assumptions C03Heap_run_bitsets.

(** * after the repair of nni.Apply (e1.Right() == n1 || e2.Right() == n2) *)

(** Apply keeps ANY good heap good, whatever the orientation of the three branches (wherever the
    root is, in particular after any re-rooting between newNNI and Apply) *)
Theorem C03Heap_nni_apply_good_any : forall h q hx hy hxm hym ec e1 e2 edc ed1 ed2,
  let x := q_n1 q in let y := q_n2 q in let xm := q_n12 q in
  let ym := if q_cross q then q_n21 q else q_n22 q in
  Good h ->
  alookup x (hnodes h) = Some hx -> alookup y (hnodes h) = Some hy ->
  alookup xm (hnodes h) = Some hxm -> alookup ym (hnodes h) = Some hym ->
  In (y, ec) (slots_of hx) -> alookup ec (hedges h) = Some edc ->
  In (xm, e1) (slots_of hx) -> xm <> y -> alookup e1 (hedges h) = Some ed1 ->
  In (ym, e2) (slots_of hy) -> ym <> x -> alookup e2 (hedges h) = Some ed2 ->
  exists h', nni_apply_heap q h = HOk h' /\ Good h'.
Proof. exact nni_apply_good_any. Qed.
Print Assumptions C03Heap_nni_apply_good_any.

(** closed runs: every proposal of three trees (nni objects made before), re-root at EVERY node,
    Apply: the result represents the neighbour tree re-rooted at the same node *)
Definition chk_nni_rr_apply (t : utree) (r : nni) : bool :=
  let h := heap_of t in
  match dump h with
  | Some lt =>
    match lnode_at lt (r_path r) with
    | Some (LNode n1 _ _ _) =>
      match alookup n1 (hnodes h) with
      | Some hn1 =>
        match nth_error (hneigh hn1) (r_k r) with
        | Some n2 =>
          match new_nni_heap h n1 n2 (r_cross r) with
          | HOk q =>
            match nni_apply_heap q h with
            | HOk ha =>
              forallb (fun n => match reroot_heap n h, reroot_heap n ha with
                                | HOk hr, HOk har => match nni_apply_heap q hr with HOk h1 => abs_same h1 har | _ => false end
                                | HErr _, HErr _ => true
                                | _, _ => false end) (lids lt)
            | _ => false
            end
          | _ => false
          end
        | None => false
        end
      | None => false
      end
    | None => false
    end
  | None => false
  end.

Example C03Heap_run_nni_reroot_apply :
  forallb (chk_nni_rr_apply hx_deep) (nni_list hx_deep) && forallb (chk_nni_rr_apply hx_start) (nni_list hx_start) &&
  forallb (chk_nni_rr_apply (rr_at hx_deep 3)) (nni_list (rr_at hx_deep 3)) = true.
Proof. vm_compute. reflexivity. Qed.
Print Assumptions C03Heap_run_nni_reroot_apply.
