(** C03, heap level: the pointer structure of /repo/tree (Model/Heap.v) keeps the invariant
    [Good] -- every id referenced exists, neigh/br parallel, adjacency symmetric through the
    SAME edge, the ends of an edge are exactly the two nodes that list it, no node twice in a
    neighbour list, every edge points away from the root (rank), no shared child, every node
    reachable from the root -- and refines the tree model through [abs] (the DumpTree walk). *)
From Coq Require Import String ZArith QArith Bool Arith List.
From GT Require Import Base.UTree Model.Reroot Model.Heap
     Proofs.HeapBase Proofs.HeapRep Proofs.HeapGood Proofs.HeapGoodRep Proofs.HeapOf Proofs.HeapReroot.
Import ListNotations.
Local Close Scope Q_scope.
Local Open Scope string_scope.

(** (a) a good heap is a well-formed tree ... *)
Theorem C03Heap_good_is_tree : forall h, Good h -> exists t, abs h = Some t /\ wf t = true.
Proof. exact Good_abs. Qed.
Print Assumptions C03Heap_good_is_tree.

(** ... the clauses of [Good] say exactly "the heap is a labelled tree, oriented from its root" ... *)
Theorem C03Heap_good_iff_rep : forall h, Good h <-> exists lt, Rep h lt.
Proof. exact Good_iff_Rep. Qed.
Print Assumptions C03Heap_good_iff_rep.

(** ... and every well-formed tree is the abstraction of a good heap *)
Theorem C03Heap_heap_of_good : forall t, wf t = true -> Good (heap_of t).
Proof. exact Good_heap_of. Qed.
Print Assumptions C03Heap_heap_of_good.

Theorem C03Heap_abs_heap_of : forall t, wf t = true -> abs (heap_of t) = Some t.
Proof. exact abs_heap_of. Qed.
Print Assumptions C03Heap_abs_heap_of.

(** (b) Tree.Reroot (with ReorderEdges): the invariant is kept -- in particular every edge
    points away from the NEW root -- *)
Theorem C03Heap_reroot_good : forall h n h', Good h -> reroot_heap n h = HOk h' -> Good h' /\ hroot h' = n.
Proof. exact reroot_heap_good. Qed.
Print Assumptions C03Heap_reroot_good.

(** and the heap operation refines [reroot] of Model/Reroot.v, error case included; it never
    panics on a good heap ([n] is the j-th node of Tree.Nodes()) *)
Theorem C03Heap_reroot_refines : forall h t ns j n, Good h -> abs h = Some t ->
  tree_nodes h = HOk ns -> nth_error ns j = Some n ->
  match reroot_heap n h with
  | HOk h' => exists t', reroot t j = Ok t' /\ abs h' = Some t'
  | HErr m => reroot t j = Err m
  | HPanic => False
  end.
Proof. exact reroot_heap_refines. Qed.
Print Assumptions C03Heap_reroot_refines.

Theorem C03Heap_tree_nodes : forall h t, Good h -> abs h = Some t ->
  exists ns, tree_nodes h = HOk ns /\ NoDup ns /\ length ns = length (nodes t) /\
             forall n, In n ns <-> alookup n (hnodes h) <> None.
Proof. exact tree_nodes_good. Qed.
Print Assumptions C03Heap_tree_nodes.
