(** C07, companion: rooted trees.  [rooted_dom t]: well formed, the root has exactly two
    neighbours which are not both tips, no single-child node, distinct tip names.
    What [usplits] is on such a tree, and: the oracle functions of the judge accept the model's
    output for the commands' default flags; removeRoot = true only matters when a root branch is
    a selected inner branch.  Relies on C08's [CompareDupfree.unrooted_dupfree] (applied to the
    tree re-hung on an inner root child). *)
From Coq Require Import String ZArith QArith Bool Arith List.
From GT Require Import Base.UTree Spec.Obs Spec.Contract Model.Reroot Model.Collapse
     Proofs.CollapseBase Proofs.CollapseExact Proofs.CollapseOracleFull Proofs.RootedUSplits Proofs.RootedOracle.
Import ListNotations.
Local Close Scope Q_scope.

(** the two root branches share one bipartition and are merged (length [merge_len], larger
    support); every other branch contributes its own split, unmerged *)
Theorem C07_rooted_usplits :
  forall n cm e1 e2 c1 c2,
  wf (UNode n cm [Some (e1, c1); Some (e2, c2)]) = true ->
  no_single (UNode n cm [Some (e1, c1); Some (e2, c2)]) = true ->
  NoDup (leaves (UNode n cm [Some (e1, c1); Some (e2, c2)])) ->
  is_tip c1 = false \/ is_tip c2 = false ->
  usplits (UNode n cm [Some (e1, c1); Some (e2, c2)]) =
  root_split n cm e1 e2 c1 c2
  :: map (csplit (tipset (UNode n cm [Some (e1, c1); Some (e2, c2)]))) (branches c1)
  ++ map (csplit (tipset (UNode n cm [Some (e1, c1); Some (e2, c2)]))) (branches c2).
Proof. exact rooted_usplits. Qed.
Print Assumptions C07_rooted_usplits.

Theorem C07_rooted_keys_distinct :
  forall n cm e1 e2 c1 c2,
  wf (UNode n cm [Some (e1, c1); Some (e2, c2)]) = true ->
  no_single (UNode n cm [Some (e1, c1); Some (e2, c2)]) = true ->
  NoDup (leaves (UNode n cm [Some (e1, c1); Some (e2, c2)])) ->
  is_tip c1 = false \/ is_tip c2 = false ->
  NoDup (map (fun p => canon_side (tipset (UNode n cm [Some (e1, c1); Some (e2, c2)])) (sset (leaves (snd p))))
             ((e1, c1) :: branches c1 ++ branches c2)).
Proof. exact rooted_keys_nodup. Qed.
Print Assumptions C07_rooted_keys_distinct.

(** default flags: the judge's oracle accepts the model's output *)
Theorem C07_rooted_oracle_accepts_collapse_len :
  forall l t, rooted_dom t -> collapse_ok (CLen l) t (collapse_len l false false t) = None.
Proof. exact rooted_collapse_len_oracle. Qed.
Print Assumptions C07_rooted_oracle_accepts_collapse_len.

Theorem C07_rooted_oracle_accepts_collapse_sup :
  forall s t, rooted_dom t -> collapse_ok (CSup s) t (collapse_sup s false t) = None.
Proof. exact rooted_collapse_sup_oracle. Qed.
Print Assumptions C07_rooted_oracle_accepts_collapse_sup.

Theorem C07_rooted_oracle_accepts_collapse_depth :
  forall mn mx t, rooted_dom t ->
  exists g, collapse_depth mn mx false false t = Ok g /\ collapse_ok (CDepth mn mx) t g = None.
Proof. exact rooted_collapse_depth_oracle. Qed.
Print Assumptions C07_rooted_oracle_accepts_collapse_depth.

Theorem C07_rooted_oracle_accepts_resolve :
  forall t cs, rooted_dom t -> resolve_ok t (resolve t cs) = None.
Proof. exact rooted_resolve_oracle_accepts. Qed.
Print Assumptions C07_rooted_oracle_accepts_resolve.

(** removeRoot = true gives the same tree as the default unless a root branch is a selected
    inner branch (then that branch is contracted like any other: C07_collapse_exact_removeRoot,
    and the judge only checks well-formedness and the tip set: C07_collapse_wf, C07_collapse_tips) *)
Theorem C07_rooted_removeRoot_same_when_root_branches_stay :
  forall rt s n cm e1 c1 e2 c2,
  wf (UNode n cm [Some (e1, c1); Some (e2, c2)]) = true ->
  no_single (UNode n cm [Some (e1, c1); Some (e2, c2)]) = true ->
  stays s (e1, c1) = true -> stays s (e2, c2) = true ->
  remove_edges true rt (fun _ e c => s e c) (UNode n cm [Some (e1, c1); Some (e2, c2)]) =
  remove_edges false rt (fun _ e c => s e c) (UNode n cm [Some (e1, c1); Some (e2, c2)]).
Proof. exact remove_edges_rooted_rr. Qed.
Print Assumptions C07_rooted_removeRoot_same_when_root_branches_stay.

(** the domain is inhabited: ((a:1,b:1)0.9:2,(c:1,d:1,e:1)0.3:0) *)
Local Open Scope string_scope.
Definition rt_tip (n : string) : slot := Some (mkE 1%Q nilv nilv [], UNode n [] [None]).
Definition rt_ex : utree :=
  UNode "" [] [Some (mkE 2 (9#10) nilv [], UNode "" [] [None; rt_tip "a"; rt_tip "b"]);
               Some (mkE 0 (3#10) nilv [], UNode "" [] [None; rt_tip "c"; rt_tip "d"; rt_tip "e"])]%Q.
Example C07_rooted_dom_inhabited :
  rooted_dom rt_ex /\ length (usplits rt_ex) = 6 /\
  collapse_ok (CLen 0%Q) rt_ex (collapse_len 0%Q false false rt_ex) = None.
Proof.
  split; [|split; vm_compute; reflexivity].
  unfold rooted_dom. split; [reflexivity|]. split; [reflexivity|]. split.
  - vm_compute. repeat constructor; simpl; intuition discriminate.
  - do 6 eexists. split; [reflexivity|]. left. reflexivity.
Qed.
Print Assumptions C07_rooted_dom_inhabited.

(** removeRoot = true when a root branch IS a selected inner branch: the result has no two branches
    with the same bipartition, [usplits] lists one split per branch (nothing is merged), and the
    branches are exactly the staying ones with their data *)
Theorem C07_rooted_removeRoot_usplits :
  forall s n cm e1 c1 e2 c2,
  wf (UNode n cm [Some (e1, c1); Some (e2, c2)]) = true ->
  no_single (UNode n cm [Some (e1, c1); Some (e2, c2)]) = true ->
  NoDup (leaves (UNode n cm [Some (e1, c1); Some (e2, c2)])) ->
  is_tip c1 = false \/ is_tip c2 = false ->
  stays s (e1, c1) = false \/ stays s (e2, c2) = false ->
  let t := UNode n cm [Some (e1, c1); Some (e2, c2)] in
  let g := remove_edges true false (fun _ e c => s e c) t in
  usplits g = map (csplit (tipset t)) (branches g) /\
  Proofs.CollapseSplits.veq (map Proofs.CollapseSplits.view (branches g))
                            (map Proofs.CollapseSplits.view (filter (stays s) (branches t))).
Proof. exact rooted_rr_usplits. Qed.
Print Assumptions C07_rooted_removeRoot_usplits.
