(** C06, companion: the tip file of `gotree prune -f` (Model/TipFile.v).  The list of names obtained
    from the file does not depend on the layout: any grouping of the names into comma separated
    lines (one name per line ... all names on one line) parses to the same list, and a long line
    is the same however the buffered reader cuts it.  (The model is tied to the code by the CLI
    stream of driver/props/c06.py: every layout, lines of 4 KB, 64 KB, 200 KB.) *)
From Coq Require Import String Ascii Bool Arith List.
From GT Require Import Model.TipFile Proofs.TipFile.
Import ListNotations.
Local Open Scope string_scope.

Theorem C06_tipfile_layout_independent :
  forall c (groups : list (list string)),
  (forall g, In g groups -> g <> []) ->
  (forall g x, In g groups -> In x g -> has_char c x = false) ->
  parse_lines c (map (join c) groups) = concat groups.
Proof. exact parse_layout_independent. Qed.
Print Assumptions C06_tipfile_layout_independent.

Theorem C06_tipfile_any_two_layouts :
  forall c (g1 g2 : list (list string)),
  (forall g, In g g1 -> g <> []) -> (forall g, In g g2 -> g <> []) ->
  (forall g x, In g g1 -> In x g -> has_char c x = false) ->
  (forall g x, In g g2 -> In x g -> has_char c x = false) ->
  concat g1 = concat g2 ->
  parse_lines c (map (join c) g1) = parse_lines c (map (join c) g2).
Proof. exact parse_any_two_layouts. Qed.
Print Assumptions C06_tipfile_any_two_layouts.

Theorem C06_tipfile_long_line_cut :
  forall x y z, readln [x ++ y; z] = readln [x; y ++ z].
Proof. exact readln_two_cuts. Qed.
Print Assumptions C06_tipfile_long_line_cut.

Example C06_tipfile_example :
  parse_lines "," ["t1,t2"; "t3"; ""; "t4,t5,t6"] = ["t1"; "t2"; "t3"; ""; "t4"; "t5"; "t6"] /\
  parse_lines "," ["t1"; "t2"; "t3"; ""; "t4"; "t5"; "t6"] = ["t1"; "t2"; "t3"; ""; "t4"; "t5"; "t6"].
Proof. exact parse_example. Qed.
Print Assumptions C06_tipfile_example.
