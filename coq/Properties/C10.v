(** C10: bootstrap supports equal their definitions (FBP and TBE).

    Model: Model/Support.v ([fbp], [tbe]: what support.FBP / support.TBE leave in the reference
    tree, sequential semantics).  Definitions: Spec/Support.v ([fbp_spec], [delta], [tbe_spec]).
    [fbp_val ref boots c] / [tbe_val ref boots c] are the values the model gives to the branch
    above [c] ([fbp_closed], [tbe_closed]); [domain ref boots]: well-formed trees (root of degree
    >= 2), distinct tip names, every bootstrap tree on the taxa of the reference;
    [topo_depth ref c] is p, the size of the light side.

    Statements of the property that are false of the code as it is are kept as [_refuted]
    with their witness: a rooted reference whose root has a tip child (the other root branch
    is an inner branch with p = 1). *)
From Coq Require Import String NArith ZArith QArith Bool Arith Permutation List.
From GT Require Import Base.UTree Spec.Obs Spec.Support Model.Support
     Proofs.SupportBase Proofs.SupportMTD Proofs.SupportClosed Proofs.SupportSpec Proofs.SupportDomain
     Proofs.SupportInvariance Proofs.SupportReroot Model.EdgeIndex Proofs.SupportIndex
     Spec.SupportW Model.SupportW Proofs.SupportW Model.SupportFamily Proofs.SupportFamily.
From GT Require Model.Index Proofs.IndexSplit.
Import ListNotations.
Local Close Scope Q_scope.
Local Open Scope string_scope.

(** * (i) the post-order recursion computes the transfer index *)
Theorem min_transfer_dist_spec :
  forall (ref boot : utree) (e : einfo) (c : utree),
    Proofs.SupportBase.good ref -> Proofs.SupportBase.good boot ->
    (forall x, In x (leaves ref) <-> In x (leaves boot)) ->
    In (e, c) (edges ref) ->
    min_transfer_dist (length (tips ref)) (topo_depth ref c) (ntax_right c) (below c) false boot
    = delta (leaves ref) (light (leaves ref) (leaves c)) boot.
Proof. exact min_transfer_dist_delta_good. Qed.
Print Assumptions min_transfer_dist_spec.

(** p >= 1 for every branch of a good tree *)
Theorem light_side_nonempty :
  forall ref e c, Proofs.SupportBase.good ref -> In (e, c) (edges ref) -> 1 <= topo_depth ref c.
Proof. exact topo_depth_pos. Qed.
Print Assumptions light_side_nonempty.

(** the variant TBE runs (early stop at distance 1, only called when the index lookup failed) *)
Theorem min_transfer_dist_absent_spec :
  forall (ref boot : utree) (e : einfo) (c : utree),
    Proofs.SupportBase.good ref -> Proofs.SupportBase.good boot ->
    (forall x, In x (leaves ref) <-> In x (leaves boot)) ->
    In (e, c) (edges ref) ->
    2 <= topo_depth ref c ->
    1 <= delta (leaves ref) (light (leaves ref) (leaves c)) boot ->
    min_transfer_dist (length (tips ref)) (topo_depth ref c) (ntax_right c) (below c) true boot
    = delta (leaves ref) (light (leaves ref) (leaves c)) boot.
Proof. exact min_transfer_dist_absent_delta. Qed.
Print Assumptions min_transfer_dist_absent_spec.

(** per tree, what TBE adds to the branch (0 when the index has the split, else the recursion)
    is the transfer index *)
Theorem tree_dist_spec :
  forall (ref boot : utree) (e : einfo) (c : utree),
    Proofs.SupportBase.good ref -> Proofs.SupportBase.good boot ->
    (forall x, In x (leaves ref) <-> In x (leaves boot)) ->
    In (e, c) (edges ref) ->
    2 <= topo_depth ref c ->
    tree_dist ref c boot = delta (leaves ref) (light (leaves ref) (leaves c)) boot.
Proof. exact tree_dist_delta. Qed.
Print Assumptions tree_dist_spec.

(** * what the two functions leave in the reference tree *)
Theorem fbp_result :
  forall ref boots,
    taxa_ok ref boots = true ->
    fbp ref boots
    = mkOut "" (map (fun ec => if is_tip (snd ec) then (true, esup (fst ec))
                               else (false, fbp_val ref boots (snd ec))) (edges ref)).
Proof. exact fbp_closed. Qed.
Print Assumptions fbp_result.

Theorem tbe_result :
  forall ref boots,
    taxa_ok ref boots = true ->
    tbe ref boots
    = mkOut "" (map (fun ec => (is_tip (snd ec), tbe_val ref boots (snd ec))) (edges ref)).
Proof. exact tbe_closed. Qed.
Print Assumptions tbe_result.

Theorem domain_is_accepted : forall ref boots, domain ref boots -> taxa_ok ref boots = true.
Proof. exact domain_taxa_ok. Qed.
Print Assumptions domain_is_accepted.

(** * (iii) the model's supports are the definitions *)
Theorem fbp_model_is_spec :
  forall (ref : utree) (boots : list utree) (e : einfo) (c : utree),
    domain ref boots -> In (e, c) (edges ref) -> 2 <= topo_depth ref c ->
    fbp_val ref boots c = fbp_spec (leaves ref) (leaves c) boots.
Proof. exact fbp_model_spec. Qed.
Print Assumptions fbp_model_is_spec.

Theorem tbe_model_is_spec :
  forall (ref : utree) (boots : list utree) (e : einfo) (c : utree),
    domain ref boots -> In (e, c) (edges ref) -> 2 <= topo_depth ref c -> boots <> [] ->
    tbe_val ref boots c = tbe_spec (leaves ref) (leaves c) boots.
Proof. exact tbe_model_spec. Qed.
Print Assumptions tbe_model_is_spec.

(** false for an inner branch with p = 1 *)
Theorem fbp_model_is_spec_refuted :
  exists ref boots e c,
    domain ref boots /\ In (e, c) (edges ref) /\ is_tip c = false /\
    (fbp_spec (leaves ref) (leaves c) boots == 1)%Q /\ (fbp_val ref boots c == 0)%Q /\
    In (false, (0 / 1)%Q) (osup (fbp ref boots)).
Proof. exact fbp_model_spec_refuted. Qed.
Print Assumptions fbp_model_is_spec_refuted.

(** * (ii) ranges and order of the two supports *)
Theorem fbp_in_unit_interval :
  forall ref boots c, boots <> [] -> (0 <= fbp_val ref boots c /\ fbp_val ref boots c <= 1)%Q.
Proof. exact fbp_val_bounds. Qed.
Print Assumptions fbp_in_unit_interval.

Theorem tbe_in_unit_interval :
  forall ref boots c,
    boots <> [] -> 2 <= topo_depth ref c -> (0 <= tbe_val ref boots c /\ tbe_val ref boots c <= 1)%Q.
Proof. exact tbe_val_bounds. Qed.
Print Assumptions tbe_in_unit_interval.

(** false for an inner branch with p = 1: it keeps NIL_SUPPORT *)
Theorem tbe_in_unit_interval_refuted :
  exists ref boots e c,
    domain ref boots /\ In (e, c) (edges ref) /\ is_tip c = false /\
    delta (leaves ref) (light (leaves ref) (leaves c)) w_boot = 0 /\
    (tbe_val ref boots c == -1)%Q /\ ~ (0 <= tbe_val ref boots c)%Q /\
    In (false, nilv) (osup (tbe ref boots)).
Proof. exact tbe_bounds_refuted. Qed.
Print Assumptions tbe_in_unit_interval_refuted.

Theorem tbe_at_least_fbp :
  forall (ref : utree) (boots : list utree) (e : einfo) (c : utree),
    domain ref boots -> In (e, c) (edges ref) -> 2 <= topo_depth ref c -> boots <> [] ->
    (fbp_val ref boots c <= tbe_val ref boots c)%Q.
Proof. exact tbe_ge_fbp. Qed.
Print Assumptions tbe_at_least_fbp.

Theorem tbe_is_one_iff_fbp_is_one :
  forall (ref : utree) (boots : list utree) (e : einfo) (c : utree),
    domain ref boots -> In (e, c) (edges ref) -> 2 <= topo_depth ref c -> boots <> [] ->
    (tbe_val ref boots c == 1 <-> fbp_val ref boots c == 1)%Q.
Proof. exact tbe_one_iff_fbp_one. Qed.
Print Assumptions tbe_is_one_iff_fbp_is_one.

Theorem support_one_iff_split_everywhere :
  forall (ref : utree) (boots : list utree) (e : einfo) (c : utree),
    domain ref boots -> In (e, c) (edges ref) -> 2 <= topo_depth ref c -> boots <> [] ->
    ((fbp_val ref boots c == 1)%Q <->
     forall b, In b boots -> has_split (leaves ref) (leaves c) b = true).
Proof. exact fbp_one_iff_all. Qed.
Print Assumptions support_one_iff_split_everywhere.

(** * (iv) the order of the bootstrap trees is irrelevant *)
Theorem fbp_bootstrap_order :
  forall ref boots boots',
    taxa_ok ref boots = true -> Permutation boots boots' -> fbp ref boots = fbp ref boots'.
Proof. exact fbp_perm. Qed.
Print Assumptions fbp_bootstrap_order.

Theorem tbe_bootstrap_order :
  forall ref boots boots',
    taxa_ok ref boots = true -> Permutation boots boots' -> tbe ref boots = tbe ref boots'.
Proof. exact tbe_perm. Qed.
Print Assumptions tbe_bootstrap_order.

(** * ... and so are the rooting and the child order of every tree *)
(** [rearranged t t']: [t'] is obtained from [t] by re-rooting (Model.Reroot.reroot), by any
    reordering of the children of its nodes ([tperm]: RotateInternalNodes, SortNeighborsByTips),
    by unrooting a rooted tree, or by a succession of such steps. *)
Theorem fbp_rooting_of_bootstrap_trees :
  forall ref boots boots' e c,
    domain ref boots -> Forall2 rearranged boots boots' ->
    In (e, c) (edges ref) -> 2 <= topo_depth ref c ->
    fbp_val ref boots c = fbp_val ref boots' c.
Proof. exact fbp_bootstrap_rooting. Qed.
Print Assumptions fbp_rooting_of_bootstrap_trees.

Theorem tbe_rooting_of_bootstrap_trees :
  forall ref boots boots' e c,
    domain ref boots -> Forall2 rearranged boots boots' ->
    In (e, c) (edges ref) -> 2 <= topo_depth ref c -> boots <> [] ->
    tbe_val ref boots c = tbe_val ref boots' c.
Proof. exact tbe_bootstrap_rooting. Qed.
Print Assumptions tbe_rooting_of_bootstrap_trees.

(** the branch of the rearranged reference that defines the same bipartition gets the same
    supports *)
Theorem rooting_of_reference :
  forall ref ref' boots e c e' c',
    domain ref boots -> rearranged ref ref' ->
    In (e, c) (edges ref) -> In (e', c') (edges ref') ->
    Spec.Support.same_split (leaves ref) (leaves c) (leaves c') = true ->
    2 <= topo_depth ref c -> 2 <= topo_depth ref' c' -> boots <> [] ->
    fbp_val ref boots c = fbp_val ref' boots c' /\ tbe_val ref boots c = tbe_val ref' boots c'.
Proof. exact reference_rooting. Qed.
Print Assumptions rooting_of_reference.

(** the definitions themselves only depend on the bipartitions of the trees *)
Theorem definitions_see_bipartitions_only :
  forall X A boots boots',
    Forall2 (same_bips X) boots boots' ->
    fbp_spec X A boots = fbp_spec X A boots' /\ tbe_spec X A boots = tbe_spec X A boots'.
Proof. exact specs_bips. Qed.
Print Assumptions definitions_see_bipartitions_only.

(** * tip branches receive no support *)
Theorem tip_branches_get_no_support :
  forall ref boots e c,
    taxa_ok ref boots = true -> In (e, c) (edges ref) -> is_tip c = true ->
    In (true, esup e) (osup (fbp ref boots)) /\ In (true, nilv) (osup (tbe ref boots)).
Proof. exact tips_no_support. Qed.
Print Assumptions tip_branches_get_no_support.

(** * collections on other taxa are refused, the others accepted *)
Theorem other_taxa_rejected :
  forall ref boots,
    Proofs.SupportBase.good ref -> Forall Proofs.SupportBase.good boots ->
    (exists b, In b boots /\ ~ same_taxa_p ref b) ->
    oerr (fbp ref boots) <> "" /\ oerr (tbe ref boots) <> "".
Proof. exact foreign_taxa_rejected. Qed.
Print Assumptions other_taxa_rejected.

Theorem same_taxa_not_rejected :
  forall ref boots, domain ref boots -> oerr (fbp ref boots) = "" /\ oerr (tbe ref boots) = "".
Proof. exact same_taxa_accepted. Qed.
Print Assumptions same_taxa_not_rejected.

(** * the edge index is a set of bipartitions
    [index_has] of the model against the hash map of tree/edgeindex.go + hashmap/hashmap.go as
    modelled for C04 (bucket array, FNV hash codes of tip names, rehash): any capacity, any resize
    policy.  [puts]: the PutEdgeValue calls (keys = rows of the kept branches of the bootstrap
    tree), then one Value call with the row of a reference branch. *)
Theorem fbp_edge_index_is_a_set_of_bipartitions :
  forall need cap ref boot puts q ecq rs mf,
    Proofs.SupportBase.good ref -> Proofs.SupportBase.good boot -> Permutation (leaves ref) (leaves boot) ->
    (cap < Model.Index.W64)%N ->
    (forall p, In p puts -> exists ec, Proofs.IndexSplit.branch_row boot ec (ek_row (fst (fst p))) /\ negb (is_tip (snd ec)) = true) ->
    (forall ec, In ec (edges boot) -> negb (is_tip (snd ec)) = true ->
                exists p, In p puts /\ Proofs.IndexSplit.branch_row boot ec (ek_row (fst (fst p)))) ->
    Proofs.IndexSplit.branch_row ref ecq (ek_row q) ->
    ei_run need (new_edge_index cap) (map put_op puts ++ [EIValue q])%list = Some (rs, mf) ->
    exists r, rs = (map (fun _ => EIOk) puts ++ [EIVal r])%list /\
              (r <> None <-> index_has (tip_names ref) (fbp_index boot) (below (snd ecq)) = true).
Proof. exact fbp_index_lookup. Qed.
Print Assumptions fbp_edge_index_is_a_set_of_bipartitions.

Theorem tbe_edge_index_is_a_set_of_bipartitions :
  forall need cap ref boot puts q ecq rs mf,
    Proofs.SupportBase.good ref -> Proofs.SupportBase.good boot -> Permutation (leaves ref) (leaves boot) ->
    (cap < Model.Index.W64)%N ->
    (forall p, In p puts -> exists ec, Proofs.IndexSplit.branch_row boot ec (ek_row (fst (fst p)))) ->
    (forall ec, In ec (edges boot) -> exists p, In p puts /\ Proofs.IndexSplit.branch_row boot ec (ek_row (fst (fst p)))) ->
    Proofs.IndexSplit.branch_row ref ecq (ek_row q) ->
    ei_run need (new_edge_index cap) (map put_op puts ++ [EIValue q])%list = Some (rs, mf) ->
    exists r, rs = (map (fun _ => EIOk) puts ++ [EIVal r])%list /\
              (r <> None <-> index_has (tip_names ref) (tbe_index boot) (below (snd ecq)) = true).
Proof. exact tbe_index_lookup. Qed.
Print Assumptions tbe_edge_index_is_a_set_of_bipartitions.

(** * repetition = multiplicity
    a collection given as (k, T) pairs (k consecutive copies of T): the closed forms the judge
    evaluates for collections of thousands of trees are the model / the definitions on the
    expanded list *)
Theorem fbp_with_multiplicities :
  forall ref w,
    oerr (fbp ref (expand w)) = oerr (fbp_w ref w) /\
    (oerr (fbp_w ref w) = "" -> fbp ref (expand w) = fbp_w ref w).
Proof. exact fbp_expand. Qed.
Print Assumptions fbp_with_multiplicities.

Theorem tbe_with_multiplicities :
  forall ref w,
    oerr (tbe ref (expand w)) = oerr (tbe_w ref w) /\
    (oerr (tbe_w ref w) = "" -> tbe ref (expand w) = tbe_w ref w).
Proof. exact tbe_expand. Qed.
Print Assumptions tbe_with_multiplicities.

Theorem fbp_spec_with_multiplicities :
  forall X A w, fbp_spec X A (expand w) = fbp_spec_w X A w.
Proof. exact fbp_spec_expand. Qed.
Print Assumptions fbp_spec_with_multiplicities.

Theorem tbe_spec_with_multiplicities :
  forall X A w, tbe_spec X A (expand w) = tbe_spec_w X A w.
Proof. exact tbe_spec_expand. Qed.
Print Assumptions tbe_spec_with_multiplicities.

Theorem progress_with_multiplicities :
  forall ref w, n_processed ref (expand w) = wn_processed ref w.
Proof. exact n_processed_expand. Qed.
Print Assumptions progress_with_multiplicities.

(** * rejection at full strength: duplicated tip names *)
Theorem reference_with_duplicated_names_rejected :
  forall ref boots,
    has_dup (tip_names ref) = true ->
    oerr (fbp ref boots) = dup_msg /\ oerr (tbe ref boots) = dup_msg.
Proof. exact dup_reference_rejected. Qed.
Print Assumptions reference_with_duplicated_names_rejected.

(** any bootstrap tree (well-formed, root of degree >= 2) that is not a tree with distinct names on
    the taxa of the reference makes both functions return an error, wherever it stands *)
Theorem bad_bootstrap_tree_is_rejected :
  forall ref boots b,
    Proofs.SupportBase.good ref -> In b boots -> wf b = true -> 2 <= degree b ->
    ~ (NoDup (leaves b) /\ same_taxa_p ref b) ->
    oerr (fbp ref boots) <> "" /\ oerr (tbe ref boots) <> "".
Proof. exact bad_bootstrap_tree_rejected. Qed.
Print Assumptions bad_bootstrap_tree_is_rejected.

Example duplicated_names_example :
  wf w_boot_dup = true /\ 2 <= degree w_boot_dup /\ ~ NoDup (leaves w_boot_dup) /\
  oerr (fbp w_ref [w_boot; w_boot_dup]) = dup_msg /\ oerr (tbe w_ref [w_boot; w_boot_dup]) = dup_msg.
Proof. exact w_dup_example. Qed.
Print Assumptions duplicated_names_example.

(** * the 'family' cases: (((a,b),(c,d)),(e,f),H) against ((H,(c,e)),(a,f),(b,d))
    for ANY common clade H on at least 8 taxa: light sides and transfer indexes of the eleven
    reference branches outside H, in the definition and in the model (so the values the judge
    computes on the 12-taxon member are those of the 65543-taxon trees the worker runs) *)
Theorem family_definition :
  forall H, NoDup (leaves H) -> (forall x, In x (leaves H) -> ~ In x Sm) ->
            8 <= length (leaves H) ->
    map (fun ec => (length (light (Sm ++ leaves H) (leaves (snd ec))),
                    delta (Sm ++ leaves H) (light (Sm ++ leaves H) (leaves (snd ec))) (fam_boot_of H)))
        (firstn 11 (edges (fam_ref_of H)))
    = fam_expected.
Proof. exact family_spec. Qed.
Print Assumptions family_definition.

Theorem family_in_the_model :
  forall H, wf_sub H = true -> NoDup (leaves H) -> (forall x, In x (leaves H) -> ~ In x Sm) ->
            8 <= length (leaves H) ->
    map (fun ec => (topo_depth (fam_ref_of H) (snd ec),
                    min_transfer_dist (length (tips (fam_ref_of H))) (topo_depth (fam_ref_of H) (snd ec))
                                      (ntax_right (snd ec)) (below (snd ec)) false (fam_boot_of H)))
        (firstn 11 (edges (fam_ref_of H)))
    = fam_expected.
Proof. exact family_model. Qed.
Print Assumptions family_in_the_model.

Theorem family_in_the_model_absent :
  forall H, wf_sub H = true -> NoDup (leaves H) -> (forall x, In x (leaves H) -> ~ In x Sm) ->
            8 <= length (leaves H) ->
    forall i e c p v,
      nth_error (firstn 11 (edges (fam_ref_of H))) i = Some (e, c) -> nth_error fam_expected i = Some (p, v) ->
      2 <= p -> 1 <= v ->
      topo_depth (fam_ref_of H) c = p /\
      min_transfer_dist (length (tips (fam_ref_of H))) (topo_depth (fam_ref_of H) c) (ntax_right c) (below c)
                        true (fam_boot_of H) = v.
Proof. exact family_model_absent. Qed.
Print Assumptions family_in_the_model_absent.

Example family_member_of_the_judge :
  wf_sub fam_H = true /\ NoDup (leaves fam_H) /\ (forall x, In x (leaves fam_H) -> ~ In x Sm) /\
  8 <= length (leaves fam_H).
Proof. exact fam_H_ok. Qed.
Print Assumptions family_member_of_the_judge.

(** * the hypotheses are satisfiable *)
Example domain_inhabited : domain w_ref [w_boot].
Proof. exact w_domain. Qed.
Print Assumptions domain_inhabited.

Example branch_hypotheses_inhabited :
  exists e c, In (e, c) (edges w_ref) /\ 2 <= topo_depth w_ref c /\ [w_boot] <> [].
Proof. exact w_deep_branch. Qed.
Print Assumptions branch_hypotheses_inhabited.
