(** C18, second batch of statements (proofs in Proofs/MapOrderMore.v): any correct sort after a
    collect, sorted key/value emission, map-to-map transfer loops (safe exactly when the key
    function is injective), commutative-monoid accumulation, prefix stability of the seeded
    choice vector. *)
From Coq Require Import String Bool Arith ZArith NArith List Permutation Sorted.
From GT Require Import Proofs.MapOrder Proofs.MapOrderMore Model.Rand.
Import ListNotations.

(** 1. collect-then-sort, for ANY sort function that returns a sorted permutation *)
Theorem C18_any_sort_after_collect :
  forall sort : list string -> list string,
  (forall l, Permutation l (sort l)) -> (forall l, StronglySorted sle (sort l)) ->
  forall keys keys', Permutation keys keys' -> sort keys = sort keys'.
Proof. exact any_sort_order_independent. Qed.
Print Assumptions C18_any_sort_after_collect.

Theorem C18_collect_then_mergesort :
  forall keys keys', Permutation keys keys' -> msort keys = msort keys'.
Proof. exact collect_then_mergesort_order_independent. Qed.
Print Assumptions C18_collect_then_mergesort.

Theorem C18_mergesort_is_model_sort : forall keys, msort keys = ssort keys.
Proof. exact mergesort_is_ssort. Qed.
Print Assumptions C18_mergesort_is_model_sort.

Theorem C18_sorted_emission :
  forall (V : Type) (kvs kvs' : list (string * V)),
  NoDup (map fst kvs) -> Permutation kvs kvs' -> emit_sorted kvs = emit_sorted kvs'.
Proof. exact @emit_sorted_order_independent. Qed.
Print Assumptions C18_sorted_emission.

Example C18_sorted_emission_example :
  emit_sorted [("t2", 2); ("t10", 10); ("a", 0)]%string = [("a", Some 0); ("t10", Some 10); ("t2", Some 2)]%string
  /\ emit_sorted [("a", 0); ("t2", 2); ("t10", 10)]%string = [("a", Some 0); ("t10", Some 10); ("t2", Some 2)]%string.
Proof. vm_compute. split; reflexivity. Qed.
Print Assumptions C18_sorted_emission_example.

(** 2. map-to-map transfer loops *)
Theorem C18_transfer_injective :
  forall (V W : Type) (f : string -> string) (g : V -> W) (dst : fmap W) kvs kvs',
  (forall a b, In a (map fst kvs) -> In b (map fst kvs) -> f a = f b -> a = b) ->
  NoDup (map fst kvs) -> Permutation kvs kvs' ->
  feq (fold_left (transfer f g) kvs dst) (fold_left (transfer f g) kvs' dst).
Proof. exact @transfer_order_independent. Qed.
Print Assumptions C18_transfer_injective.

Theorem C18_transfer_noninjective_refuted :
  exists (f : string -> string) (kvs kvs' : list (string * nat)) (dst : fmap nat),
    NoDup (map fst kvs) /\ Permutation kvs kvs' /\
    ~ feq (fold_left (transfer f (fun v => v)) kvs dst) (fold_left (transfer f (fun v => v)) kvs' dst).
Proof. exact transfer_noninjective_refuted. Qed.
Print Assumptions C18_transfer_noninjective_refuted.

Example C18_transfer_example :
  let f := fun k => String.append "x_" k in
  fold_left (transfer f S) [("a", 1); ("b", 2)]%string (fun _ => None) "x_b"%string = Some 3 /\
  fold_left (transfer f S) [("b", 2); ("a", 1)]%string (fun _ => None) "x_b"%string = Some 3.
Proof. vm_compute. split; reflexivity. Qed.
Print Assumptions C18_transfer_example.

(** 3. commutative-monoid accumulation over the values *)
Theorem C18_commutative_monoid_fold :
  forall (K A : Type) (op : A -> A -> A),
  (forall a b c, op (op a b) c = op a (op b c)) -> (forall a b, op a b = op b a) ->
  forall (kvs kvs' : list (K * A)) e, Permutation kvs kvs' ->
  fold_left op (map snd kvs) e = fold_left op (map snd kvs') e.
Proof. exact @comm_fold_order_independent. Qed.
Print Assumptions C18_commutative_monoid_fold.

Theorem C18_sum_Z :
  forall (K : Type) (kvs kvs' : list (K * Z)) e, Permutation kvs kvs' ->
  fold_left Z.add (map snd kvs) e = fold_left Z.add (map snd kvs') e.
Proof. exact @sum_Z_order_independent. Qed.
Print Assumptions C18_sum_Z.

Theorem C18_max_Z :
  forall (K : Type) (kvs kvs' : list (K * Z)) e, Permutation kvs kvs' ->
  fold_left Z.max (map snd kvs) e = fold_left Z.max (map snd kvs') e.
Proof. exact @max_Z_order_independent. Qed.
Print Assumptions C18_max_Z.

Theorem C18_count :
  forall (K : Type) (kvs kvs' : list (K * nat)) e, Permutation kvs kvs' ->
  fold_left Nat.add (map snd kvs) e = fold_left Nat.add (map snd kvs') e.
Proof. exact @count_order_independent. Qed.
Print Assumptions C18_count.

Theorem C18_nonassociative_fold_refuted :
  (forall a b, rmean a b = rmean b a) /\
  exists (kvs kvs' : list (nat * Z)) e, Permutation kvs kvs' /\
    fold_left rmean (map snd kvs) e <> fold_left rmean (map snd kvs') e.
Proof. exact nonassociative_fold_refuted. Qed.
Print Assumptions C18_nonassociative_fold_refuted.

Example C18_fold_example :
  fold_left Z.max (map snd [("a", 3); ("b", 9); ("c", 4)]%string%Z) 0%Z = 9%Z /\
  fold_left Z.max (map snd [("c", 4); ("a", 3); ("b", 9)]%string%Z) 0%Z = 9%Z.
Proof. vm_compute. split; reflexivity. Qed.
Print Assumptions C18_fold_example.

(** 4. the choice vector of the seeded generator *)
Theorem C18_draws_app :
  forall b1 b2 raw,
  draws (b1 ++ b2) raw =
  match draws b1 raw with
  | Some (v1, r1) => match draws b2 r1 with Some (v2, r2) => Some (v1 ++ v2, r2) | None => None end
  | None => None
  end.
Proof. exact draws_app. Qed.
Print Assumptions C18_draws_app.

Theorem C18_draws_prefix_stable :
  forall b1 b2 raw vs r,
  draws (b1 ++ b2) raw = Some (vs, r) ->
  exists r1, draws b1 raw = Some (firstn (length b1) vs, r1) /\ draws b2 r1 = Some (skipn (length b1) vs, r).
Proof. exact draws_prefix_stable. Qed.
Print Assumptions C18_draws_prefix_stable.

Example C18_draws_example :
  draws [4; 3] [4294967296 * 7; 4294967296 * 5; 9]%N = Some ([3; 2], [9%N]) /\
  draws [4] [4294967296 * 7; 4294967296 * 5; 9]%N = Some ([3], [4294967296 * 5; 9]%N).
Proof. vm_compute. split; reflexivity. Qed.
Print Assumptions C18_draws_example.
