(** C16: tree generators return valid trees of the requested size and shape.
    Statements about the model Model/TreeGen.v (RandomUniformBinaryTree, RandomYuleBinaryTree,
    RandomCaterpillarBinaryTree, RandomBalancedBinaryTree, StarTree, AllTopologies), for EVERY
    choice vector within the bounds of the successive rand.Intn calls, every list of
    gostats.Exp values and every size; proofs in Proofs/TreeGen*.v.
    Vocabulary: [good_tree rooted n t] (Proofs/TreeGenMain.v) = well-formed, binary with the
    requested root degree, requested rootedness, leaves a permutation of Tip0..Tip(n-1), pairwise
    distinct, and equal to Go's Tips(); shapes in Spec/GenShape.v; [in_bounds] in Spec/Counting.v.
    "Indexes ready": [indexes_ready t] (Proofs/TreeGenIndex.v) = the model of ReinitIndexes
    (Model/Index.v, C04) returns tables on t and they describe t; Judge/C16.v compares Go's tip
    index, tip ids and bitsets with those tables computed on the model tree. *)
From Coq Require Import String ZArith QArith Bool Arith List Permutation.
From GT Require Import Base.UTree Spec.Obs Spec.GenShape Spec.Counting Model.Reroot Model.Rand2 Model.TreeGen
     Proofs.TreeGenNames Proofs.TreeGenMain Proofs.TreeGenLens Proofs.TreeGenCat Proofs.TreeGenBal
     Proofs.TreeGenBal2 Proofs.TreeGenTopo Proofs.TreeGenTopo2
     Model.Index Proofs.IndexBase Proofs.IndexTree Proofs.TreeGenIndex Proofs.TreeGenPlanted Proofs.Rand2Float Proofs.StretchFive Proofs.TreeGenComplete.
Import ListNotations.
Local Close Scope Q_scope.

(** * tip names are pairwise distinct *)
Theorem C16_tip_name_injective : forall a b, tip_name a = tip_name b -> a = b.
Proof. exact tip_name_inj. Qed.
Print Assumptions C16_tip_name_injective.

(** * RandomUniformBinaryTree *)
Theorem C16_uniform :
  forall n rooted cs ls, 3 <= n -> in_bounds cs (uniform_bounds n rooted) ->
    exists t, uniform_tree n rooted cs ls = GOk t /\ good_tree rooted n t.
Proof. exact uniform_tree_ok. Qed.
Print Assumptions C16_uniform.

Theorem C16_uniform_lengths :
  forall n rooted cs ls t, 3 <= n -> in_bounds cs (uniform_bounds n rooted) ->
    length ls = plan_floats (uniform_plan n rooted) -> Forall nonneg ls ->
    uniform_tree n rooted cs ls = GOk t -> lens_nonneg t = true.
Proof. exact uniform_tree_lens. Qed.
Print Assumptions C16_uniform_lengths.

Theorem C16_uniform_below_minimum :
  forall n rooted cs ls, n < 3 -> exists msg, uniform_tree n rooted cs ls = GErr msg.
Proof. exact uniform_tree_small. Qed.
Print Assumptions C16_uniform_below_minimum.

(** * RandomYuleBinaryTree *)
Theorem C16_yule :
  forall n rooted cs ls, 3 <= n -> in_bounds cs (yule_bounds n rooted) ->
    exists t, yule_tree n rooted cs ls = GOk t /\ good_tree rooted n t.
Proof. exact yule_tree_ok. Qed.
Print Assumptions C16_yule.

Theorem C16_yule_lengths :
  forall n rooted cs ls t, 3 <= n -> in_bounds cs (yule_bounds n rooted) ->
    length ls = plan_floats (yule_plan n rooted) -> Forall nonneg ls ->
    yule_tree n rooted cs ls = GOk t -> lens_nonneg t = true.
Proof. exact yule_tree_lens. Qed.
Print Assumptions C16_yule_lengths.

Theorem C16_yule_below_minimum :
  forall n rooted cs ls, n < 3 -> exists msg, yule_tree n rooted cs ls = GErr msg.
Proof. exact yule_tree_small. Qed.
Print Assumptions C16_yule_below_minimum.

(** * RandomCaterpillarBinaryTree *)
Theorem C16_caterpillar :
  forall n rooted ls, 3 <= n -> exists t, caterpillar_tree n rooted ls = GOk t /\ good_tree rooted n t.
Proof. exact caterpillar_tree_ok. Qed.
Print Assumptions C16_caterpillar.

Theorem C16_caterpillar_shape :
  forall n rooted ls, 3 <= n -> exists t, caterpillar_tree n rooted ls = GOk t /\ caterpillar t = true.
Proof. exact caterpillar_tree_shape. Qed.
Print Assumptions C16_caterpillar_shape.

Theorem C16_caterpillar_lengths :
  forall n rooted ls t, 3 <= n -> length ls = plan_floats (caterpillar_plan n rooted) -> Forall nonneg ls ->
    caterpillar_tree n rooted ls = GOk t -> lens_nonneg t = true.
Proof. exact caterpillar_tree_lens. Qed.
Print Assumptions C16_caterpillar_lengths.

Theorem C16_caterpillar_below_minimum :
  forall n rooted ls, n < 3 -> exists msg, caterpillar_tree n rooted ls = GErr msg.
Proof. exact caterpillar_tree_small. Qed.
Print Assumptions C16_caterpillar_below_minimum.

(** two tips unrooted: a clean rejection by the size test *)
Theorem C16_unrooted_two_tips_rejected :
  forall cs ls, uniform_tree 2 false cs ls = GErr err_lt3u /\ yule_tree 2 false cs ls = GErr err_lt3u /\
                caterpillar_tree 2 false ls = GErr err_lt3u.
Proof. exact unrooted_two_tips_rejected. Qed.
Print Assumptions C16_unrooted_two_tips_rejected.

(** * RandomBalancedBinaryTree *)
Theorem C16_balanced_rooted :
  forall d ls, 1 <= d ->
    exists t, balanced_tree d true ls = GOk t /\ good_tree true (2 ^ d) t /\
              balanced true d t = true /\ leaves t = map tip_name (seq 0 (2 ^ d)).
Proof. exact balanced_tree_rooted_ok. Qed.
Print Assumptions C16_balanced_rooted.

Theorem C16_balanced_unrooted :
  forall d ls, 2 <= d ->
    exists t, balanced_tree d false ls = GOk t /\ good_tree false (2 ^ d) t /\
              balanced false d t = true /\ leaves t = map tip_name (seq 0 (2 ^ d)).
Proof. exact balanced_tree_unrooted_ok. Qed.
Print Assumptions C16_balanced_unrooted.

Theorem C16_balanced_rooted_lengths :
  forall d ls t, 1 <= d -> Forall nonneg ls -> length ls = plan_floats (balanced_plan d true) ->
    balanced_tree d true ls = GOk t -> lens_nonneg t = true.
Proof. exact balanced_tree_rooted_lens. Qed.
Print Assumptions C16_balanced_rooted_lengths.

Theorem C16_balanced_unrooted_lengths :
  forall d ls t, 2 <= d -> Forall nonneg ls -> length ls = plan_floats (balanced_plan d false) ->
    balanced_tree d false ls = GOk t -> lens_nonneg t = true.
Proof. exact balanced_tree_unrooted_lens. Qed.
Print Assumptions C16_balanced_unrooted_lengths.

Theorem C16_balanced_below_minimum :
  forall rooted ls, exists msg, balanced_tree 0 rooted ls = GErr msg.
Proof. exact balanced_tree_small. Qed.
Print Assumptions C16_balanced_below_minimum.

(** depth 1 unrooted (two tips) is below the minimum of the unrooted generator *)
Theorem C16_balanced_depth1_unrooted_rejected :
  forall ls, exists msg, balanced_tree 1 false ls = GErr msg.
Proof. exact balanced_depth1_unrooted. Qed.
Print Assumptions C16_balanced_depth1_unrooted_rejected.

(** * StarTree *)
Theorem C16_star :
  forall n, 2 <= n ->
    exists t, star_tree n = GOk t /\ wf t = true /\ star t = true /\ degree t = n /\
              leaves t = map tip_name (seq 0 n) /\ NoDup (leaves t) /\ lens_nonneg t = true.
Proof. exact star_tree_ok. Qed.
Print Assumptions C16_star.

Theorem C16_star_from_names :
  forall names, 2 <= length names ->
    exists t, star_tree_from_name names = GOk t /\ wf t = true /\ star t = true /\
              degree t = length names /\ leaves t = names /\ lens_nonneg t = true.
Proof. exact star_of_ok. Qed.
Print Assumptions C16_star_from_names.

Theorem C16_star_below_minimum : forall n, n < 2 -> exists msg, star_tree n = GErr msg.
Proof. exact star_tree_small. Qed.
Print Assumptions C16_star_below_minimum.

(** * AllTopologies: (2n-5)!! unrooted / (2n-3)!! rooted trees, each a binary tree on the requested
    tips (rooted topologies are "planted": an unnamed root with one neighbour above the real
    root), pairwise distinct as labelled topologies ([topo_key]: the set of clades, resp. of
    bipartitions); hence every labelled binary topology occurs exactly once. *)
Theorem C16_topologies_unrooted_count :
  forall n, 3 <= n -> exists ts, all_topologies n false [] = Ok ts /\ length ts = n_unrooted n.
Proof. exact all_topologies_unrooted_length. Qed.
Print Assumptions C16_topologies_unrooted_count.

Theorem C16_topologies_rooted_count :
  forall n, 2 <= n -> exists ts, all_topologies n true [] = Ok ts /\ length ts = n_rooted n.
Proof. exact all_topologies_rooted_length. Qed.
Print Assumptions C16_topologies_rooted_count.

Theorem C16_topologies_unrooted_trees :
  forall n ts, 3 <= n -> all_topologies n false [] = Ok ts ->
    Forall (fun t => wf t = true /\ binary false t = true /\
                     Permutation (leaves t) (map (fun k => topo_name [] k) (seq 0 n))) ts.
Proof. exact all_topologies_unrooted_trees. Qed.
Print Assumptions C16_topologies_unrooted_trees.

Theorem C16_topologies_rooted_trees :
  forall n ts, 2 <= n -> all_topologies n true [] = Ok ts ->
    Forall (fun t => wf t = true /\ planted t = true /\
                     Permutation (leaves t) (map (fun k => topo_name [] k) (seq 0 n))) ts.
Proof. exact all_topologies_rooted_trees. Qed.
Print Assumptions C16_topologies_rooted_trees.

Theorem C16_topologies_unrooted_distinct :
  forall n ts, 3 <= n -> all_topologies n false [] = Ok ts -> NoDup (map (topo_key false) ts).
Proof. exact all_topologies_unrooted_distinct. Qed.
Print Assumptions C16_topologies_unrooted_distinct.

Theorem C16_topologies_rooted_distinct :
  forall n ts, 2 <= n -> all_topologies n true [] = Ok ts -> NoDup (map (topo_key true) ts).
Proof. exact all_topologies_rooted_distinct. Qed.
Print Assumptions C16_topologies_rooted_distinct.

(** with tip names given by the caller (pairwise distinct) *)
Theorem C16_topologies_unrooted_distinct_given :
  forall n names ts, 3 <= n -> length names = n -> NoDup names ->
    all_topologies n false names = Ok ts -> NoDup (map (topo_key false) ts).
Proof. exact all_topologies_unrooted_distinct_given. Qed.
Print Assumptions C16_topologies_unrooted_distinct_given.

Theorem C16_topologies_rooted_distinct_given :
  forall n names ts, 2 <= n -> length names = n -> NoDup names ->
    all_topologies n true names = Ok ts -> NoDup (map (topo_key true) ts).
Proof. exact all_topologies_rooted_distinct_given. Qed.
Print Assumptions C16_topologies_rooted_distinct_given.

Theorem C16_topologies_tip_names_distinct : forall a b, topo_name [] a = topo_name [] b -> a = b.
Proof. exact topo_name_inj. Qed.
Print Assumptions C16_topologies_tip_names_distinct.

Theorem C16_topologies_unrooted_below_minimum :
  forall n names, n < 3 -> exists m, all_topologies n false names = Err m.
Proof. exact all_topologies_unrooted_err. Qed.
Print Assumptions C16_topologies_unrooted_below_minimum.

Theorem C16_topologies_rooted_below_minimum :
  forall n names, n < 2 -> exists m, all_topologies n true names = Err m.
Proof. exact all_topologies_rooted_err. Qed.
Print Assumptions C16_topologies_rooted_below_minimum.

(** * indexes ready for use: on every generated tree the model of ReinitIndexes (C04) succeeds,
    tip ids are the ranks of the tip names, every branch row (bitset, counts, partial hashes)
    describes its branch *)
Theorem C16_good_tree_indexes_ready :
  forall rooted n t, good_tree rooted n t -> indexes_ready t.
Proof. exact good_tree_indexes_ready. Qed.
Print Assumptions C16_good_tree_indexes_ready.

Theorem C16_uniform_indexes :
  forall n rooted cs ls, 3 <= n -> in_bounds cs (uniform_bounds n rooted) ->
    exists t, uniform_tree n rooted cs ls = GOk t /\ indexes_ready t.
Proof. exact uniform_tree_indexes. Qed.
Print Assumptions C16_uniform_indexes.

Theorem C16_yule_indexes :
  forall n rooted cs ls, 3 <= n -> in_bounds cs (yule_bounds n rooted) ->
    exists t, yule_tree n rooted cs ls = GOk t /\ indexes_ready t.
Proof. exact yule_tree_indexes. Qed.
Print Assumptions C16_yule_indexes.

Theorem C16_caterpillar_indexes :
  forall n rooted ls, 3 <= n -> exists t, caterpillar_tree n rooted ls = GOk t /\ indexes_ready t.
Proof. exact caterpillar_tree_indexes. Qed.
Print Assumptions C16_caterpillar_indexes.

Theorem C16_balanced_indexes :
  forall d (rooted : bool) ls, (if rooted then 1 else 2) <= d ->
    exists t, balanced_tree d rooted ls = GOk t /\ indexes_ready t.
Proof. exact balanced_tree_indexes. Qed.
Print Assumptions C16_balanced_indexes.

Theorem C16_star_indexes : forall n, 2 <= n -> exists t, star_tree n = GOk t /\ indexes_ready t.
Proof. exact star_tree_indexes. Qed.
Print Assumptions C16_star_indexes.

Theorem C16_star_from_names_indexes :
  forall names, 2 <= length names -> NoDup names ->
    exists t, star_tree_from_name names = GOk t /\ indexes_ready t.
Proof. exact star_from_names_indexes. Qed.
Print Assumptions C16_star_from_names_indexes.

(** * what rooted AllTopologies returns exactly: planted trees -- an unnamed root, one branch
    without length, an unnamed node whose neighbours are the root (first) and two children.
    Dropping the planted root ([unplant]) gives the (2n-3)!! rooted binary trees, pairwise
    distinct as labelled rooted topologies, same leaves and same key as the planted ones *)
Theorem C16_topologies_rooted_shape :
  forall n names ts, 2 <= n -> all_topologies n true names = Ok ts ->
    Forall (fun t => exists a b,
              t = UNode EmptyString [] [Some (eL nilv, UNode EmptyString [] [None; Some a; Some b])]) ts.
Proof. exact all_topologies_rooted_shape_names. Qed.
Print Assumptions C16_topologies_rooted_shape.

Theorem C16_unplant :
  forall t, wf t = true -> planted t = true ->
    exists r, unplant t = Some r /\ wf r = true /\ binary true r = true /\
              leaves r = leaves t /\ topo_key true r = topo_key true t.
Proof. exact unplant_spec. Qed.
Print Assumptions C16_unplant.

Theorem C16_topologies_rooted_unplanted :
  forall n ts, 2 <= n -> all_topologies n true [] = Ok ts ->
    exists rs, map unplant ts = map Some rs /\ length rs = n_rooted n /\
      Forall (fun r => wf r = true /\ binary true r = true /\ UTree.rooted r = true /\
                       Permutation (leaves r) (map (fun k => topo_name [] k) (seq 0 n))) rs /\
      NoDup (map (topo_key true) rs).
Proof. exact all_topologies_rooted_unplanted. Qed.
Print Assumptions C16_topologies_rooted_unplanted.

(** * rand.Float64 on the raw stream (used by the correspondence): the 512 largest values are
    skipped (retry), any other value is consumed *)
Theorem C16_float64_retry :
  forall x r, N.eqb (round53 x) two63 = true -> float64 (x :: r) = float64 r.
Proof. exact float64_retry. Qed.
Print Assumptions C16_float64_retry.

Theorem C16_float64_take :
  forall x r, N.eqb (round53 x) two63 = false -> float64 (x :: r) = Some (f64_of_int63 x, r).
Proof. exact float64_take. Qed.
Print Assumptions C16_float64_take.

Theorem C16_float64_retry_threshold :
  N.eqb (round53 (two63 - 512)) two63 = true /\ N.eqb (round53 (two63 - 1)) two63 = true /\
  N.eqb (round53 (two63 - 513)) two63 = false.
Proof. exact retry_threshold. Qed.
Print Assumptions C16_float64_retry_threshold.

(** * the enumerator with caller-supplied tip names: the tips of every tree are exactly the given names *)
Theorem C16_topologies_unrooted_given_names :
  forall n names ts, 3 <= n -> length names = n -> all_topologies n false names = Ok ts ->
    Forall (fun t => wf t = true /\ binary false t = true /\ Permutation (leaves t) names) ts.
Proof. exact all_topologies_unrooted_given_names. Qed.
Print Assumptions C16_topologies_unrooted_given_names.

Theorem C16_topologies_rooted_given_names :
  forall n names ts, 2 <= n -> length names = n -> all_topologies n true names = Ok ts ->
    Forall (fun t => wf t = true /\ planted t = true /\ Permutation (leaves t) names) ts.
Proof. exact all_topologies_rooted_given_names. Qed.
Print Assumptions C16_topologies_rooted_given_names.

(** * the hypotheses are satisfiable (instances computed by vm_compute) *)
Example C16_example_uniform_bounds :
  in_bounds [0; 2; 4] (uniform_bounds 5 false) /\ in_bounds [1; 3; 5] (uniform_bounds 5 true) /\
  in_bounds [1; 2; 3] (yule_bounds 5 true).
Proof. vm_compute. repeat split; repeat constructor. Qed.
Print Assumptions C16_example_uniform_bounds.

Example C16_example_uniform_tree :
  exists t, uniform_tree 5 false [0; 2; 4] [] = GOk t /\ binary false t = true /\
            ssort (leaves t) = map tip_name (seq 0 5).
Proof. eexists. vm_compute. repeat split. Qed.
Print Assumptions C16_example_uniform_tree.

Example C16_example_caterpillar :
  exists t, caterpillar_tree 6 true [] = GOk t /\ caterpillar t = true /\ binary true t = true.
Proof. eexists. vm_compute. repeat split. Qed.
Print Assumptions C16_example_caterpillar.

Example C16_example_balanced :
  exists t, balanced_tree 3 false [] = GOk t /\ balanced false 3 t = true /\ length (leaves t) = 8.
Proof. eexists. vm_compute. repeat split. Qed.
Print Assumptions C16_example_balanced.

Example C16_example_topologies :
  (exists ts, all_topologies 5 false [] = Ok ts /\ length ts = 15) /\
  (exists ts, all_topologies 4 true ["a"; "b"; "c"; "d"]%string = Ok ts /\ length ts = 15).
Proof. split; eexists; vm_compute; split; reflexivity. Qed.
Print Assumptions C16_example_topologies.

(** * completeness of the enumerator, against the tree type itself: EVERY well-formed binary tree on
    the given (pairwise distinct) names has the key of an enumerated tree -- with NoDup of the keys,
    every labelled binary topology occurs exactly once; the double-factorial count is then a
    consequence, not a presupposition *)
Theorem C16_topologies_unrooted_complete :
  forall n names ts t, 3 <= n -> length names = n -> NoDup names ->
    all_topologies n false names = Ok ts ->
    wf t = true -> binary false t = true -> Permutation (leaves t) names ->
    In (topo_key false t) (map (topo_key false) ts).
Proof. exact all_topologies_unrooted_complete. Qed.
Print Assumptions C16_topologies_unrooted_complete.

Theorem C16_topologies_rooted_complete :
  forall n names ts t, 2 <= n -> length names = n -> NoDup names ->
    all_topologies n true names = Ok ts ->
    wf t = true -> binary true t = true -> Permutation (leaves t) names ->
    In (topo_key true t) (map (topo_key true) ts).
Proof. exact all_topologies_rooted_complete. Qed.
Print Assumptions C16_topologies_rooted_complete.

(** * rounds 5-7 judge clauses *)
From GT Require Import Proofs.StretchSix.

(** sizes below the minimum are errors; stated over Z (Go's int; the model's size is Z.to_nat n), so in
    particular for every negative size *)
Theorem C16_below_minimum_Z :
  forall (z : Z) rooted cs ls names,
  ((z < 3)%Z -> (exists m, uniform_tree (Z.to_nat z) rooted cs ls = GErr m) /\
                (exists m, yule_tree (Z.to_nat z) rooted cs ls = GErr m) /\
                (exists m, caterpillar_tree (Z.to_nat z) rooted ls = GErr m)) /\
  ((z < 1)%Z -> exists m, balanced_tree (Z.to_nat z) rooted ls = GErr m) /\
  ((z < 2)%Z -> (exists m, balanced_tree (Z.to_nat z) false ls = GErr m) /\
                (exists m, star_tree (Z.to_nat z) = GErr m) /\
                (exists m, all_topologies (Z.to_nat z) true names = Err m)) /\
  ((z < 3)%Z -> exists m, all_topologies (Z.to_nat z) false names = Err m).
Proof. exact generators_below_minimum_Z. Qed.
Print Assumptions C16_below_minimum_Z.

(** AllTopologies: a number of names different from the requested number of tips is an error *)
Theorem C16_topologies_names_mismatch :
  forall n rooted names, names <> [] -> length names <> n -> exists m, all_topologies n rooted names = Err m.
Proof. exact all_topologies_names_err. Qed.
Print Assumptions C16_topologies_names_mismatch.

(** StarTreeFromTree: the star on exactly the tips of the source tree (TipEdges order), indexes ready *)
Theorem C16_star_from_tree :
  forall t, 2 <= length (tip_edges t) ->
    exists s, star_tree_from_tree t = GOk s /\ wf s = true /\ star s = true /\
              degree s = length (tip_edges t) /\ leaves s = src_names t.
Proof. exact star_tree_from_tree_ok. Qed.
Print Assumptions C16_star_from_tree.

Theorem C16_star_from_tree_indexes :
  forall t, 2 <= length (tip_edges t) -> NoDup (src_names t) ->
    exists s, star_tree_from_tree t = GOk s /\ leaves s = src_names t /\ indexes_ready s.
Proof. exact star_tree_from_tree_indexes. Qed.
Print Assumptions C16_star_from_tree_indexes.

Theorem C16_star_from_tree_below_minimum :
  forall t, length (tip_edges t) < 2 -> exists m, star_tree_from_tree t = GErr m.
Proof. exact star_tree_from_tree_small. Qed.
Print Assumptions C16_star_from_tree_below_minimum.

Example C16_example_negative_and_star_from_tree :
  (exists m, uniform_tree (Z.to_nat (-5)) false [] [] = GErr m) /\
  (exists m, all_topologies 4 false ["a"; "b"]%string = Err m) /\
  (let t := UNode EmptyString [] [Some (e0, UNode "d" [] [None]); Some (e0, UNode "b" [] [None]);
                                 Some (e0, UNode "a" [] [None])]%string in
   2 <= length (tip_edges t) /\ NoDup (src_names t) /\ src_names t = ["d"; "b"; "a"]%string).
Proof.
  split; [eexists; reflexivity|]. split; [eexists; reflexivity|].
  vm_compute. repeat split; auto. repeat constructor; simpl; intuition discriminate.
Qed.
Print Assumptions C16_example_negative_and_star_from_tree.
