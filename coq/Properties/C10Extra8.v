(** C10, round 8: statements added to Properties/C10.v.

    1. [depth_two_is_nontrivial_split]: the hypothesis [2 <= topo_depth ref c] of the C10
       theorems says exactly that the branch defines a non-trivial bipartition (both sides have
       at least two taxa); the only other inner branches are those of the recorded finding
       (root branch beside a tip, Properties/C10.v [fbp_model_is_spec_refuted]) and branches
       below unary nodes.
    2. [annotated_trees_meet_the_definitions]: all the clauses about one branch at once, on the
       annotated trees (position of the branch in Edges() order): no error, Felsenstein support =
       fraction, transfer support = 1 - mean/(p-1), 0 <= FBP <= TBE <= 1, TBE = 1 iff the split is
       in every bootstrap tree.
    3. [tbe_workers_leave_the_sequential_fields] / [tbe_fields_independent_of_workers]: TBE's inner
       pool of `cpu` workers over the reference branches (Model/C10Extra8.v, an instance of the
       cell pool of Model/PoolCells.v whose steps are tied to the code by C11) leaves, for every
       interleaving, number of workers and channel capacity, the support fields of the sequential
       loop [Model.Support.tbe_step] the C10 theorems are about. *)
From Coq Require Import String NArith ZArith QArith Bool Arith Permutation List.
From GT Require Import Base.UTree Spec.Obs Spec.Support Model.Support
     Proofs.SupportBase Proofs.SupportClosed Proofs.SupportSpec Proofs.SupportDomain
     Model.Pool Model.PoolCells Model.C10Extra8 Proofs.C10Extra8.
Import ListNotations.
Local Close Scope Q_scope.
Local Open Scope string_scope.

Theorem depth_two_is_nontrivial_split :
  forall ref e c,
    Proofs.SupportBase.good ref -> In (e, c) (edges ref) ->
    (2 <= topo_depth ref c <->
     2 <= length (leaves c) /\ 2 <= length (leaves ref) - length (leaves c)).
Proof. exact depth_two_iff. Qed.
Print Assumptions depth_two_is_nontrivial_split.

Theorem depth_two_is_an_inner_branch :
  forall ref c, 2 <= topo_depth ref c -> is_tip c = false.
Proof. exact depth_two_not_tip. Qed.
Print Assumptions depth_two_is_an_inner_branch.

Theorem annotated_trees_meet_the_definitions :
  forall ref boots e c,
    domain ref boots -> boots <> [] -> In (e, c) (edges ref) ->
    2 <= length (leaves c) -> 2 <= length (leaves ref) - length (leaves c) ->
    exists f t : Q,
      In ((e, c), (false, f)) (combine (edges ref) (osup (fbp ref boots))) /\
      In ((e, c), (false, t)) (combine (edges ref) (osup (tbe ref boots))) /\
      oerr (fbp ref boots) = "" /\ oerr (tbe ref boots) = "" /\
      f = fbp_spec (leaves ref) (leaves c) boots /\
      t = tbe_spec (leaves ref) (leaves c) boots /\
      (0 <= f)%Q /\ (f <= t)%Q /\ (t <= 1)%Q /\
      ((t == 1)%Q <-> forall b, In b boots -> has_split (leaves ref) (leaves c) b = true).
Proof. exact annotated_meets_definitions. Qed.
Print Assumptions annotated_trees_meet_the_definitions.

Theorem tbe_workers_leave_the_sequential_fields :
  forall ref X ntips b es acc cj n sched,
    length acc = length es -> 1 <= n ->
    let s := tbe_pool_run ref X ntips b es acc cj n sched in
    cfinished tbe_job (option nat) unit s = true ->
    tbe_pool_fields es s = tbe_step ref X ntips es acc b.
Proof. exact tbe_pool_is_step. Qed.
Print Assumptions tbe_workers_leave_the_sequential_fields.

Theorem tbe_fields_independent_of_workers :
  forall ref X ntips b es acc cj1 n1 sched1 cj2 n2 sched2,
    length acc = length es -> 1 <= n1 -> 1 <= n2 ->
    let s1 := tbe_pool_run ref X ntips b es acc cj1 n1 sched1 in
    let s2 := tbe_pool_run ref X ntips b es acc cj2 n2 sched2 in
    cfinished tbe_job (option nat) unit s1 = true ->
    cfinished tbe_job (option nat) unit s2 = true ->
    tbe_pool_fields es s1 = tbe_pool_fields es s2.
Proof. exact tbe_pool_two_runs. Qed.
Print Assumptions tbe_fields_independent_of_workers.

(** * the short-cuts of TBE are the plain traversal
    [min_transfer_dist ... false]: the full post-order traversal (no early stop), the variant
    MinTransferDist runs when the moved-taxa options are set; [tree_dist]: what TBE adds for one
    tree with the index short-cut (0 on a hit) and the early stop at distance 1. *)
Theorem tbe_short_cuts_are_the_full_traversal :
  forall ref boot e c,
    Proofs.SupportBase.good ref -> Proofs.SupportBase.good boot -> same_taxa_p ref boot ->
    In (e, c) (edges ref) -> 2 <= topo_depth ref c ->
    tree_dist ref c boot
    = min_transfer_dist (length (tips ref)) (topo_depth ref c) (ntax_right c) (below c) false boot.
Proof. exact tree_dist_is_full_traversal. Qed.
Print Assumptions tbe_short_cuts_are_the_full_traversal.

Theorem tbe_early_stop_is_the_full_traversal :
  forall ref boot e c,
    Proofs.SupportBase.good ref -> Proofs.SupportBase.good boot -> same_taxa_p ref boot ->
    In (e, c) (edges ref) -> 2 <= topo_depth ref c ->
    index_has (tip_names ref) (tbe_index boot) (below c) = false ->
    min_transfer_dist (length (tips ref)) (topo_depth ref c) (ntax_right c) (below c) true boot
    = min_transfer_dist (length (tips ref)) (topo_depth ref c) (ntax_right c) (below c) false boot.
Proof. exact early_stop_is_full_traversal. Qed.
Print Assumptions tbe_early_stop_is_the_full_traversal.

Example short_cut_example :
  index_has (tip_names x8_ref) (tbe_index x8_boot1) (below x8_c) = false /\
  2 <= topo_depth x8_ref x8_c /\
  min_transfer_dist (length (tips x8_ref)) (topo_depth x8_ref x8_c) (ntax_right x8_c) (below x8_c)
                    true x8_boot1 = 1 /\
  tree_dist x8_ref x8_c x8_boot2 = 0.
Proof. exact x8_short_cut_example. Qed.
Print Assumptions short_cut_example.

(** * which inner branches the theorems with [2 <= topo_depth ref c] leave out
    [2 <= length (kids c)]: the lower node of the branch has at least two children.  Such a
    branch with p <= 1 has a single taxon on its other side (trivial bipartition): the class of
    the recorded finding C10-root-branch-beside-tip ([fbp_model_is_spec_refuted],
    [tbe_in_unit_interval_refuted] in Properties/C10.v hold the witness). *)
Theorem left_out_inner_branch_is_trivial_split :
  forall ref e c,
    Proofs.SupportBase.good ref -> In (e, c) (edges ref) -> 2 <= length (kids c) ->
    topo_depth ref c <= 1 ->
    length (leaves ref) = S (length (leaves c)).
Proof. exact left_out_branch_is_trivial. Qed.
Print Assumptions left_out_inner_branch_is_trivial_split.

Example left_out_example :
  Proofs.SupportBase.good w_ref /\ In (e0, w_inner) (edges w_ref) /\ 2 <= length (kids w_inner) /\
  topo_depth w_ref w_inner <= 1.
Proof. exact x8_left_out_example. Qed.
Print Assumptions left_out_example.

(** * the hypotheses are satisfiable *)
(** 5 taxa, two bootstrap trees, the branch above (d,e): in one tree only; both supports 1/2 *)
Example annotated_example :
  domain x8_ref [x8_boot1; x8_boot2] /\ [x8_boot1; x8_boot2] <> [] /\
  In (e0, x8_c) (edges x8_ref) /\
  2 <= length (leaves x8_c) /\ 2 <= length (leaves x8_ref) - length (leaves x8_c) /\
  (fbp_spec (leaves x8_ref) (leaves x8_c) [x8_boot1; x8_boot2] == 1 # 2)%Q /\
  (tbe_spec (leaves x8_ref) (leaves x8_c) [x8_boot1; x8_boot2] == 1 # 2)%Q /\
  In ((e0, x8_c), (false, (1 # 2)%Q))
     (combine (edges x8_ref) (osup (tbe x8_ref [x8_boot1; x8_boot2]))).
Proof. exact x8_example. Qed.
Print Assumptions annotated_example.

(** 6 branches, 2 workers, capacity 2: the schedule ends with every worker exited and the
    fields changed *)
Example pool_example :
  let es := edges w_ref in
  let acc := map (fun _ : einfo * utree => @None nat) es in
  let s := tbe_pool_run w_ref (tip_names w_ref) (length (tips w_ref)) w_boot es acc 2 2 x8_sched in
  length acc = length es /\ cfinished tbe_job (option nat) unit s = true /\
  length es = 6 /\ tbe_pool_fields es s <> acc.
Proof. exact x8_pool_example. Qed.
Print Assumptions pool_example.
