(** C06, companion: the name table after RemoveTips, including the call that removes nothing, and
    the refusals of one removal on trees with single-child inner nodes.
    - The table the model holds after a successful call ([tip_index_after orig t']) does not depend
      on the table [orig] that was there before (stale after SetName / a graft, or absent): it lists
      exactly the tips of the result.
    - A call that selects no tip (no listed name is a tip; or, with -r, every tip is listed)
      succeeds and returns the tree itself, whether or not the tree has single-child nodes; the
      look-ups ExistsTip / TipNode / TipIndex then answer T for exactly the tips of the tree and
      NbTips is their number: the look-ups clause of Judge/C06.v accepts that.
    - One removeTip on any well-formed tree with distinct tip names (single-child nodes allowed)
      is refused only when the name is not a tip, or when the tip (alone or below a chain of
      single-child nodes) hangs on a root with exactly two other children, each a tip or a
      single-child node. *)
From Coq Require Import String ZArith QArith Bool Arith List Permutation.
From GT Require Import Base.UTree Spec.Obs Model.Reroot Model.Prune Proofs.Prune Proofs.OracleSets
     Proofs.PruneNoop Proofs.PruneRefuse Judge.C06.
Import ListNotations.
Local Close Scope Q_scope.
Local Open Scope string_scope.

Theorem C06_table_after_any_success :
  forall revert names t t' orig,
  wf t = true -> no_single t = true -> 2 <= degree t -> NoDup (leaves t) ->
  remove_tips revert names t = Ok t' -> 2 <= length (leaves t') ->
  Permutation (tip_index_after orig t') (leaves t') /\ NoDup (tip_index_after orig t') /\
  Permutation (leaves t') (filter (kept revert names) (leaves t)).
Proof. exact table_after_success_strict. Qed.
Print Assumptions C06_table_after_any_success.

(** without the proviso "no single-child node", as long as the new root keeps two neighbours *)
Theorem C06_table_after_any_success_general :
  forall revert names t t' orig,
  wf t = true -> 2 <= degree t -> NoDup (leaves t) ->
  filter (kept revert names) (leaves t) <> [] ->
  remove_tips revert names t = Ok t' -> 2 <= degree t' ->
  tip_index_after orig t' = leaves t' /\ NoDup (leaves t') /\
  Permutation (leaves t') (filter (kept revert names) (leaves t)).
Proof. exact table_after_success. Qed.
Print Assumptions C06_table_after_any_success_general.

Theorem C06_noop_prune_succeeds_unchanged :
  forall revert names t,
  wf t = true -> 2 <= degree t -> NoDup (leaves t) ->
  (forall x, In x (leaves t) -> selected revert names x = false) ->
  remove_tips revert names t = Ok t.
Proof. exact noop_prune. Qed.
Print Assumptions C06_noop_prune_succeeds_unchanged.

Theorem C06_noop_absent_names :
  forall names t, wf t = true -> 2 <= degree t -> NoDup (leaves t) ->
  (forall x, In x (leaves t) -> ~ In x names) -> remove_tips false names t = Ok t.
Proof. exact noop_absent. Qed.
Print Assumptions C06_noop_absent_names.

Theorem C06_noop_keep_all :
  forall names t, wf t = true -> 2 <= degree t -> NoDup (leaves t) ->
  (forall x, In x (leaves t) -> In x names) -> remove_tips true names t = Ok t.
Proof. exact noop_keep_all. Qed.
Print Assumptions C06_noop_keep_all.

Theorem C06_noop_lookups :
  forall orig t nm, wf t = true -> 2 <= degree t ->
  expect_lookup (tip_index_after orig t) t nm =
  if smem nm (leaves t) then mkLookup nm "T" "T" "T" else mkLookup nm "F" "F" "F".
Proof. exact noop_lookups. Qed.
Print Assumptions C06_noop_lookups.

Theorem C06_noop_lookups_accepted :
  forall orig t ls, wf t = true -> 2 <= degree t ->
  Forall (fun l => l = if smem (lname l) (leaves t) then mkLookup (lname l) "T" "T" "T" else mkLookup (lname l) "F" "F" "F") ls ->
  lookups_against (tip_index_after orig t) t ls (Z.of_nat (length (leaves t))) = None.
Proof. exact noop_lookups_accepted. Qed.
Print Assumptions C06_noop_lookups_accepted.

(** one removal, any well-formed tree with distinct tip names *)
Theorem C06_remove_tip_refusals_general :
  forall nm t, wf t = true -> 2 <= degree t -> NoDup (leaves t) ->
  (exists t', remove_tip nm t = Ok t') \/
  (remove_tip nm t = Err (err_not_tip nm) /\ ~ In nm (leaves t)) \/
  (exists m, remove_tip nm t = Err m /\ root_stuck nm t m).
Proof. exact remove_tip_cases_g. Qed.
Print Assumptions C06_remove_tip_refusals_general.

(** * non-vacuity *)
Definition np (n : string) : slot := Some (mkE 1%Q nilv nilv [], UNode n [] [None]).
(** (a,(b)x,c,d): a single-child node x; after SetName(a -> r9) without reindexing the stale table
    would still hold "a" *)
Definition nt : utree := UNode "" [] [np "r9"; Some (mkE 2%Q nilv nilv [], UNode "x" [] [None; np "b"]); np "c"; np "d"].
Example C06_noop_example :
  remove_tips false ["zz"; "a"] nt = Ok nt /\ remove_tips true ["r9"; "b"; "c"; "d"; "zz"] nt = Ok nt /\
  no_single nt = false /\
  expect_lookup (tip_index_after ["a"; "b"; "c"; "d"] nt) nt "r9" = mkLookup "r9" "T" "T" "T" /\
  expect_lookup (tip_index_after ["a"; "b"; "c"; "d"] nt) nt "a" = mkLookup "a" "F" "F" "F" /\
  (* what a stale table would answer: rejected by the clause *)
  lookups_against (tip_index_after ["a"; "b"; "c"; "d"] nt) nt [expect_lookup ["a"; "b"; "c"; "d"] nt "r9"] 4%Z <> None.
Proof. vm_compute. repeat split; try reflexivity. discriminate. Qed.
Print Assumptions C06_noop_example.

(** (((a,b)y)x,c,d) - c: "no new root" although a, b, d would remain; ((a)x,b,c) - a: two tips *)
Definition r3 : utree :=
  UNode "" [] [Some (mkE 2%Q nilv nilv [], UNode "x" [] [None; Some (mkE 3%Q nilv nilv [], UNode "y" [] [None; np "a"; np "b"])]); np "c"; np "d"].
Definition r1 : utree := UNode "" [] [Some (mkE 2%Q nilv nilv [], UNode "x" [] [None; np "a"]); np "b"; np "c"].
Example C06_refusal_examples :
  remove_tip "c" r3 = Err (err_no_root "c") /\ root_stuck "c" r3 (err_no_root "c") /\
  remove_tip "a" r1 = Err (err_two_tips "a") /\ root_stuck "a" r1 (err_two_tips "a").
Proof.
  split; [reflexivity|]. split.
  - unfold root_stuck, r3. simpl uslots. eexists [_], _, _, [_], _, _, _, _. repeat split; try reflexivity; vm_compute; auto.
  - split; [reflexivity|]. unfold root_stuck, r1. simpl uslots.
    eexists [], _, _, [_; _], _, _, _, _. repeat split; try reflexivity; vm_compute; auto.
Qed.
Print Assumptions C06_refusal_examples.
