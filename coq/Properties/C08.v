(** C08: tree comparison counts are exact set differences of splits.
    Statements about the model Model/Compare.v ([compare] = tree.Compare with cpus = 1 over an
    association-list index; the judge checks on every case that the model over the real hash
    index gives the same record), for all pairs of trees of the domain; proofs in
    Proofs/Compare{Base,Tree,Main,Cor,Domain,Dupfree,Weighted,All,Ident}.v (on top of Proofs/IndexTree.v,
    Proofs/IndexSplit.v of C04 and Proofs/Splits.v of C05).
    Vocabulary: Spec/Obs.v ([usplits], [branch_splits]), Spec/CompareSpec.v ([split_list] = the
    splits of a tree with or without the tip branches, [spec_counts] = sizes of S1\S2, S1/\S2,
    S2\S1, [spec_identical] = both 'only' sizes are zero, [spec_w_*] = the weighted terms).
    Domain: [good t] (Proofs/IndexSplit.v) = well formed, root of degree >= 2, pairwise distinct
    tip names; [dupfree t] = the branches define pairwise distinct bipartitions; [tipflags t] =
    a branch is a tip branch exactly when its bipartition is trivial.  [unrooted_dupfree] /
    [unrooted_tipflags] derive the last two from: root of degree >= 3 and no node with a single
    child. *)
From Coq Require Import String NArith ZArith QArith Bool Arith List Permutation.
From GT Require Import Base.UTree Spec.Obs Spec.CompareSpec Spec.Unrooted Model.Reroot Model.Index Model.EdgeIndex Model.Compare
     Proofs.IndexSplit Proofs.CompareBase Proofs.CompareTree Proofs.CompareMain Proofs.CompareCor
     Proofs.CompareDomain Proofs.CompareDupfree Proofs.CompareWeighted Proofs.CompareAll Proofs.CompareIdent Proofs.CompareBridge Proofs.CompareCommon Proofs.CompareTotal Proofs.CompareReject Proofs.CompareThreeCall.
Import ListNotations.
Local Close Scope Q_scope.

(** * counts and identity *)
Theorem C08_compare_counts :
  forall tips t1 t2,
    good t1 -> good t2 -> Permutation (leaves t1) (leaves t2) ->
    dupfree t1 -> dupfree t2 -> tipflags t1 -> tipflags t2 ->
    compare tips false t1 t2 =
    Some (Ok (mkBS (Z.of_nat (c_only1 (spec_counts tips t1 t2)))
                   (Z.of_nat (c_only2 (spec_counts tips t1 t2)))
                   (Z.of_nat (c_both (spec_counts tips t1 t2)))
                   (spec_identical tips t1 t2) EmptyString)).
Proof. exact compare_counts. Qed.
Print Assumptions C08_compare_counts.

(** * the domain of the property: [unrooted t] = good, root of degree >= 3, no node with a single
    child.  There the two side conditions hold, and the statement reads: *)
Theorem C08_unrooted_dupfree : forall t, unrooted t -> dupfree t.
Proof. exact unrooted_dupfree. Qed.
Print Assumptions C08_unrooted_dupfree.

Theorem C08_unrooted_tipflags : forall t, unrooted t -> tipflags t.
Proof. exact unrooted_tipflags. Qed.
Print Assumptions C08_unrooted_tipflags.

Theorem C08_compare_counts_unrooted :
  forall tips t1 t2,
    unrooted t1 -> unrooted t2 -> Permutation (leaves t1) (leaves t2) ->
    compare tips false t1 t2 =
    Some (Ok (mkBS (Z.of_nat (c_only1 (spec_counts tips t1 t2)))
                   (Z.of_nat (c_only2 (spec_counts tips t1 t2)))
                   (Z.of_nat (c_both (spec_counts tips t1 t2)))
                   (spec_identical tips t1 t2) EmptyString)).
Proof. exact compare_counts_unrooted. Qed.
Print Assumptions C08_compare_counts_unrooted.

(** the hypotheses are satisfiable: ((a,b),c,d) and (a,b,c,d) are in the domain *)
Example C08_domain_inhabited : unrooted wit_ref /\ unrooted wit_star /\ Permutation (leaves wit_ref) (leaves wit_star).
Proof. exact domain_inhabited. Qed.
Print Assumptions C08_domain_inhabited.

(** * swapping the trees swaps the counts *)
Theorem C08_compare_swap :
  forall tips t1 t2 r,
    good t1 -> good t2 -> Permutation (leaves t1) (leaves t2) ->
    dupfree t1 -> dupfree t2 -> tipflags t1 -> tipflags t2 ->
    compare tips false t1 t2 = Some (Ok r) ->
    compare tips false t2 t1 = Some (Ok (mkBS (bs_tree2 r) (bs_tree1 r) (bs_common r) (bs_same r) (bs_err r))).
Proof. exact compare_swap. Qed.
Print Assumptions C08_compare_swap.

(** * the record does not depend on the rooting or on the order of the children *)
Theorem C08_compare_invariant :
  forall tips t1 t1' t2 t2',
    good t1 -> good t2 -> Permutation (leaves t1) (leaves t2) ->
    dupfree t1 -> dupfree t2 -> tipflags t1 -> tipflags t2 ->
    good t1' -> good t2' ->
    tipset t1' = tipset t1 -> tipset t2' = tipset t2 ->
    Permutation (branch_splits (tipset t1') t1') (branch_splits (tipset t1) t1) ->
    Permutation (branch_splits (tipset t2') t2') (branch_splits (tipset t2) t2) ->
    Permutation (leaves t1') (leaves t2') ->
    compare tips false t1' t2' = compare tips false t1 t2.
Proof. exact compare_invariant. Qed.
Print Assumptions C08_compare_invariant.

Theorem C08_compare_reroot :
  forall tips t1 i t1' t2,
    good t1 -> good t2 -> Permutation (leaves t1) (leaves t2) ->
    dupfree t1 -> dupfree t2 -> tipflags t1 -> tipflags t2 ->
    reroot t1 i = Ok t1' -> good t1' ->
    compare tips false t1' t2 = compare tips false t1 t2.
Proof. exact compare_reroot_ref. Qed.
Print Assumptions C08_compare_reroot.

Theorem C08_compare_tperm :
  forall tips t1 t1' t2,
    good t1 -> good t2 -> Permutation (leaves t1) (leaves t2) ->
    dupfree t1 -> dupfree t2 -> tipflags t1 -> tipflags t2 ->
    tperm t1 t1' -> good t1' ->
    compare tips false t1' t2 = compare tips false t1 t2.
Proof. exact compare_tperm_ref. Qed.
Print Assumptions C08_compare_tperm.

(** * the identical-only shortcut: for ANY two trees the Sametree flag and the error are those of
    the full comparison; on the domain, Sametree = "both 'only' counts are zero" *)
Theorem C08_compare_ident_same :
  forall tips t1 t2 r,
    compare tips false t1 t2 = Some (Ok r) ->
    exists r', compare tips true t1 t2 = Some (Ok r') /\ bs_same r' = bs_same r /\ bs_err r' = bs_err r.
Proof. exact compare_ident_same. Qed.
Print Assumptions C08_compare_ident_same.

Theorem C08_compare_ident_identical :
  forall tips t1 t2,
    good t1 -> good t2 -> Permutation (leaves t1) (leaves t2) ->
    dupfree t1 -> dupfree t2 -> tipflags t1 -> tipflags t2 ->
    exists r', compare tips true t1 t2 = Some (Ok r') /\
               bs_same r' = spec_identical tips t1 t2 /\ bs_err r' = EmptyString.
Proof. exact compare_ident_identical. Qed.
Print Assumptions C08_compare_ident_identical.

(** * with weights: the three lists are the lengths of the splits only in the reference, only in the
    compared tree, and (reference length - compared length) of the shared splits, in the order of
    the branches of the tree they come from; Sametree iff the first two are empty and every
    difference is zero *)
Theorem C08_compare_weighted_terms :
  forall tips t1 t2,
    good t1 -> good t2 -> Permutation (leaves t1) (leaves t2) ->
    dupfree t1 -> dupfree t2 -> tipflags t1 -> tipflags t2 ->
    compare_weighted tips false t1 t2 =
    Some (Ok (mkWS (spec_w_only1 tips t1 t2) (spec_w_only2 tips t1 t2) (spec_w_common tips t1 t2)
                   (Nat.eqb (length (spec_w_only1 tips t1 t2)) 0 && Nat.eqb (length (spec_w_only2 tips t1 t2)) 0
                    && all_zero (spec_w_common tips t1 t2))
                   EmptyString)).
Proof. exact compare_weighted_terms. Qed.
Print Assumptions C08_compare_weighted_terms.

Theorem C08_compare_weighted_unrooted :
  forall tips t1 t2,
    unrooted t1 -> unrooted t2 -> Permutation (leaves t1) (leaves t2) ->
    compare_weighted tips false t1 t2 =
    Some (Ok (mkWS (spec_w_only1 tips t1 t2) (spec_w_only2 tips t1 t2) (spec_w_common tips t1 t2)
                   (Nat.eqb (length (spec_w_only1 tips t1 t2)) 0 && Nat.eqb (length (spec_w_only2 tips t1 t2)) 0
                    && all_zero (spec_w_common tips t1 t2))
                   EmptyString)).
Proof. exact compare_weighted_unrooted. Qed.
Print Assumptions C08_compare_weighted_unrooted.

(** * trees on different taxa are rejected: the record carries an error *)
Theorem C08_compare_different_taxa :
  forall tips ident t1 t2,
    good t1 -> good t2 -> ~ (forall x, In x (leaves t1) <-> In x (leaves t2)) ->
    exists r, compare tips ident t1 t2 = Some (Ok r) /\ bs_err r <> EmptyString.
Proof. exact compare_different_taxa. Qed.
Print Assumptions C08_compare_different_taxa.

(** * the identity test of the code before the fix eda8b7a is refuted: a strict contraction of the
    reference was reported identical *)
Theorem C08_sametree_old_refuted :
  exists t1 t2, compare_old_same false t1 t2 = Some true /\ spec_identical false t1 t2 = false.
Proof. exact sametree_old_refuted. Qed.
Print Assumptions C08_sametree_old_refuted.

Example C08_sametree_witness_fixed :
  compare false false wit_ref wit_star = Some (Ok (mkBS 1 0 0 false EmptyString)).
Proof. exact sametree_witness_fixed. Qed.
Print Assumptions C08_sametree_witness_fixed.

(** * bridge: the model over the real hash index (Model/EdgeIndex.v over Model/HashMap.v, the
    instance the judge compares with the Go records) returns what the association-list model
    returns, for good trees on one taxon set (C04: Proofs/EdgeIndex.v [ei_put_ref], [ei_value_ref]).
    Conditional on the hash-index model returning ([None] = run-time panic, excluded by C04 under
    its no-overflow condition); sizes below 2^64. *)
Theorem C08_compare_hm_refines :
  forall tips ident t1 t2 r,
    good t1 -> good t2 -> Permutation (leaves t1) (leaves t2) ->
    (N.of_nat (length (branch_keys 0 t1) * 2) < W64)%N ->
    compare_hm tips ident t1 t2 = Some r -> compare tips ident t1 t2 = Some r.
Proof. exact compare_hm_refines. Qed.
Print Assumptions C08_compare_hm_refines.

Theorem C08_compare_weighted_hm_refines :
  forall tips ident t1 t2 r,
    good t1 -> good t2 -> Permutation (leaves t1) (leaves t2) ->
    (N.of_nat (length (branch_keys 0 t1) * 2) < W64)%N ->
    (N.of_nat (length (branch_keys 1 t2) * 2) < W64)%N ->
    compare_weighted_hm tips ident t1 t2 = Some r -> compare_weighted tips ident t1 t2 = Some r.
Proof. exact compare_weighted_hm_refines. Qed.
Print Assumptions C08_compare_weighted_hm_refines.

Theorem C08_compare_hm_counts_unrooted :
  forall tips t1 t2 r,
    unrooted t1 -> unrooted t2 -> Permutation (leaves t1) (leaves t2) ->
    (N.of_nat (length (branch_keys 0 t1) * 2) < W64)%N ->
    compare_hm tips false t1 t2 = Some r ->
    r = Ok (mkBS (Z.of_nat (c_only1 (spec_counts tips t1 t2))) (Z.of_nat (c_only2 (spec_counts tips t1 t2)))
                 (Z.of_nat (c_both (spec_counts tips t1 t2))) (spec_identical tips t1 t2) EmptyString).
Proof. exact compare_hm_counts_unrooted. Qed.
Print Assumptions C08_compare_hm_counts_unrooted.

Theorem C08_compare_weighted_hm_unrooted :
  forall tips t1 t2 r,
    unrooted t1 -> unrooted t2 -> Permutation (leaves t1) (leaves t2) ->
    (N.of_nat (length (branch_keys 0 t1) * 2) < W64)%N ->
    (N.of_nat (length (branch_keys 1 t2) * 2) < W64)%N ->
    compare_weighted_hm tips false t1 t2 = Some r ->
    r = Ok (mkWS (spec_w_only1 tips t1 t2) (spec_w_only2 tips t1 t2) (spec_w_common tips t1 t2)
                 (Nat.eqb (length (spec_w_only1 tips t1 t2)) 0 && Nat.eqb (length (spec_w_only2 tips t1 t2)) 0
                  && all_zero (spec_w_common tips t1 t2)) EmptyString).
Proof. exact compare_weighted_hm_unrooted. Qed.
Print Assumptions C08_compare_weighted_hm_unrooted.

(** * the pairwise variant by linear search (Tree.CommonEdges / Edge.FindEdge, which returns the
    receiver): (|S1 \ S2|, |S1 /\ S2|), never an error on the domain; uses C04's closed form of the
    loop (Proofs/IndexCommon.v [common_edges_spec]) *)
Theorem C08_common_edges_counts :
  forall te t1 t2,
    good t1 -> good t2 -> Permutation (leaves t1) (leaves t2) ->
    dupfree t1 -> dupfree t2 -> tipflags t1 -> tipflags t2 ->
    common_edges te t1 t2 =
    Ok (Z.of_nat (c_only1 (spec_counts te t1 t2)), Z.of_nat (c_both (spec_counts te t1 t2))).
Proof. exact common_edges_counts. Qed.
Print Assumptions C08_common_edges_counts.

(** * totality: with the 0.75 load policy the capacity of the hash index stays below
    max(initial capacity, 3 * number of entries), so the hash-index model never reaches the
    out-of-array panic for trees of fewer than 2^58 branches ([small_tree]); the hash-index
    instances then EQUAL the association-list instances, and every theorem above is a statement
    about the model that mirrors the real index *)
Theorem C08_compare_hm_eq :
  forall tips ident t1 t2,
    good t1 -> good t2 -> Permutation (leaves t1) (leaves t2) -> small_tree t1 ->
    compare_hm tips ident t1 t2 = compare tips ident t1 t2.
Proof. exact compare_hm_eq. Qed.
Print Assumptions C08_compare_hm_eq.

Theorem C08_compare_weighted_hm_eq :
  forall tips ident t1 t2,
    good t1 -> good t2 -> Permutation (leaves t1) (leaves t2) -> small_tree t1 -> small_tree t2 ->
    compare_weighted_hm tips ident t1 t2 = compare_weighted tips ident t1 t2.
Proof. exact compare_weighted_hm_eq. Qed.
Print Assumptions C08_compare_weighted_hm_eq.

(** * the rejection clause at full strength: for ANY two well-formed trees (root of degree >= 2) the
    record of Compare / CompareWeighted carries no error EXACTLY when the taxon MULTISETS are the
    same (distinct names in each tree, the same names); a duplicated name in the compared tree is
    reported in the record, in the reference it makes the call fail; CommonEdges refuses other taxa *)
Theorem C08_compare_accepts_iff :
  forall tips ident t1 t2,
    wf t1 = true -> 2 <= degree t1 -> wf t2 = true -> 2 <= degree t2 ->
    ((exists r, compare tips ident t1 t2 = Some (Ok r) /\ bs_err r = EmptyString) <->
     (NoDup (leaves t1) /\ NoDup (leaves t2) /\ Permutation (leaves t1) (leaves t2))).
Proof. exact compare_accepts_iff. Qed.
Print Assumptions C08_compare_accepts_iff.

Theorem C08_compare_weighted_accepts_iff :
  forall tips ident t1 t2,
    wf t1 = true -> 2 <= degree t1 -> wf t2 = true -> 2 <= degree t2 ->
    ((exists r, compare_weighted tips ident t1 t2 = Some (Ok r) /\ ws_err r = EmptyString) <->
     (NoDup (leaves t1) /\ NoDup (leaves t2) /\ Permutation (leaves t1) (leaves t2))).
Proof. exact compare_weighted_accepts_iff. Qed.
Print Assumptions C08_compare_weighted_accepts_iff.

Theorem C08_compare_dup_reference :
  forall tips ident t1 t2,
    wf t1 = true -> 2 <= degree t1 -> ~ NoDup (leaves t1) -> compare tips ident t1 t2 = Some (Err dup_msg).
Proof. exact compare_dup_reference. Qed.
Print Assumptions C08_compare_dup_reference.

Theorem C08_compare_dup_compared :
  forall tips ident t1 t2,
    good t1 -> wf t2 = true -> 2 <= degree t2 -> ~ NoDup (leaves t2) ->
    exists r, compare tips ident t1 t2 = Some (Ok r) /\ bs_err r = dup_msg.
Proof. exact compare_dup_compared. Qed.
Print Assumptions C08_compare_dup_compared.

Theorem C08_common_edges_different_taxa :
  forall te t1 t2,
    good t1 -> good t2 -> ~ (forall x, In x (leaves t1) <-> In x (leaves t2)) ->
    exists m, common_edges te t1 t2 = Err m.
Proof. exact common_edges_different_taxa. Qed.
Print Assumptions C08_common_edges_different_taxa.

Example C08_reject_examples :
  compare false false wit_ref wit_dup = Some (Ok (mkBS 1 0 0 false dup_msg)) /\
  compare false false wit_dup wit_ref = Some (Err dup_msg) /\
  (exists r, compare false false wit_ref wit_other = Some (Ok r) /\ bs_err r = "Trees do not have the same tip names"%string) /\
  (exists r, compare false false wit_ref wit_star = Some (Ok r) /\ bs_err r = EmptyString).
Proof. exact reject_examples. Qed.
Print Assumptions C08_reject_examples.

(** * CommonEdges after the documented three-call preparation (hash codes left at zero) counts as
    after ReinitIndexes *)
Theorem C08_common_edges_three_call :
  forall te t1 t2,
    good t1 -> good t2 -> Permutation (leaves t1) (leaves t2) ->
    common_edges_loop te (map zero_hash (rows t1)) (map zero_hash (rows t2)) 0%Z 0%Z =
    common_edges_loop te (rows t1) (rows t2) 0%Z 0%Z.
Proof. exact common_edges_three_call. Qed.
Print Assumptions C08_common_edges_three_call.
