(** C06, companion: pre-histories and the multi-tree command.
    - RemoveTips never reads the tip-name table it finds (it only rebuilds it at the end): whatever the
      table was - empty, stale after GraftTipOnEdge or Node.SetName, left by an earlier RemoveTips,
      copied by Clone - the pruned tree and the table afterwards are the same.  This is why the judge
      may take the tree dumped just before the call as the input.
    - `gotree prune` on a file of trees prunes every tree on its own (with -c the list of names is
      computed for every tree): every output tree is accepted by the oracle of Judge/C06.v with
      respect to ITS input tree. *)
From Coq Require Import String ZArith QArith Bool Arith List.
From GT Require Import Base.UTree Spec.Obs Spec.Induced Model.Reroot Model.Prune Model.PruneCmd Proofs.Prune Proofs.PruneCmd.
Import ListNotations.
Local Close Scope Q_scope.
Local Open Scope string_scope.

Theorem C06_index_irrelevant :
  forall idx idx' revert names t,
  remove_tips_indexed idx revert names t = remove_tips_indexed idx' revert names t.
Proof. exact remove_tips_index_irrelevant. Qed.
Print Assumptions C06_index_irrelevant.

Theorem C06_indexed_is_remove_tips :
  forall idx revert names t t' idx1,
  remove_tips_indexed idx revert names t = Ok (t', idx1) ->
  remove_tips revert names t = Ok t' /\ idx1 = tip_names t'.
Proof. exact remove_tips_indexed_tree. Qed.
Print Assumptions C06_indexed_is_remove_tips.

Theorem C06_multi_tree_each :
  forall revert names ts outs,
  prune_file revert names ts = Ok outs ->
  Forall2 (fun t t' => remove_tips revert names t = Ok t') ts outs.
Proof. exact prune_file_each. Qed.
Print Assumptions C06_multi_tree_each.

Theorem C06_multi_tree_oracle :
  forall revert names ts outs,
  Forall dom ts -> prune_file revert names ts = Ok outs -> Forall2 (accepted revert names) ts outs.
Proof. exact prune_file_oracle. Qed.
Print Assumptions C06_multi_tree_oracle.

Theorem C06_multi_tree_comp_oracle :
  forall revert comp ts outs,
  Forall dom ts -> prune_file_comp revert comp ts = Ok outs ->
  Forall2 (fun t t' => accepted revert (specific_tips t comp) t t') ts outs.
Proof. exact prune_file_comp_oracle. Qed.
Print Assumptions C06_multi_tree_comp_oracle.

(** with -c the tips that remain in a tree are its tips that are also tips of the compared tree *)
Theorem C06_comp_keeps_common_tips :
  forall t comp x, wf t = true -> 2 <= degree t -> In x (leaves t) ->
  kept false (specific_tips t comp) x = name_in x (tip_names comp).
Proof. exact comp_kept. Qed.
Print Assumptions C06_comp_keeps_common_tips.

(** non-vacuity: two trees with different tip sets against one compared tree *)
Definition ctip (n : string) : slot := Some (mkE 1%Q nilv nilv [], UNode n [] [None]).
Definition ct1 : utree := UNode "" [] [ctip "a"; ctip "b"; ctip "c"; ctip "d"].
Definition ct2 : utree := UNode "" [] [ctip "a"; ctip "b"; ctip "c"; ctip "e"; ctip "f"].
Definition ccomp : utree := UNode "" [] [ctip "a"; ctip "b"; ctip "c"; ctip "z"].
Example C06_multi_tree_example :
  dom ct1 /\ dom ct2 /\
  exists o1 o2, prune_file_comp false ccomp [ct1; ct2] = Ok [o1; o2] /\
                leaves o1 = ["a"; "b"; "c"] /\ leaves o2 = ["a"; "b"; "c"].
Proof.
  split; [|split].
  - unfold dom. repeat split; try reflexivity; vm_compute; auto. repeat constructor; simpl; intuition discriminate.
  - unfold dom. repeat split; try reflexivity; vm_compute; auto. repeat constructor; simpl; intuition discriminate.
  - do 2 eexists. split; vm_compute; [reflexivity|split; reflexivity].
Qed.
Print Assumptions C06_multi_tree_example.
