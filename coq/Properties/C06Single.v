(** C06, companion: outside the proviso.  What RemoveTips (the model, which agrees with the Go
    code on these very inputs: see the run recorded in the report) does on the smallest trees WITH
    a single-child inner node.  These trees violate the hypothesis [no_single t] of the C06
    theorems; the examples show that the hypothesis cannot be dropped:
    - a single-child chain above a removed tip is deleted (Case 1 of removeTip);
    - a single-child node elsewhere is kept: "no single-child node is left" fails for the result;
    - a refusal can happen although three tips would remain;
    - the new root can be left with one neighbour, and then an inner node's name enters the
      tip-name table.
    Also: the name look-ups as functions of the table (theorems, inside the proviso). *)
From Coq Require Import String ZArith QArith Bool Arith List Permutation.
From GT Require Import Base.UTree Spec.Obs Spec.Induced Spec.Unrooted Model.Reroot Model.Prune Proofs.PruneBase Proofs.Prune Proofs.PruneSplits
     Proofs.PruneLookup Proofs.PruneGen Proofs.PruneGenRoot Judge.C06.
Import ListNotations.
Local Close Scope Q_scope.
Local Open Scope string_scope.

(** * look-ups by name (inside the proviso) *)
(** ExistsTip / TipNode / TipIndex, as functions of the table the model computes, answer exactly
    "nm is one of the kept tips" *)
Theorem C06_lookups_say_kept :
  forall revert names t t' nm,
  wf t = true -> no_single t = true -> 2 <= degree t -> NoDup (leaves t) ->
  remove_tips revert names t = Ok t' -> 2 <= length (leaves t') ->
  expect_lookup (tip_index_after (tip_names t) t') t' nm =
  if is_kept revert names t nm then mkLookup nm "T" "T" "T" else mkLookup nm "F" "F" "F".
Proof. exact lookups_say_kept. Qed.
Print Assumptions C06_lookups_say_kept.

(** * trees with a single-child inner node *)
Definition tp (n : string) (l : Q) : slot := Some (mkE l nilv nilv [], UNode n [] [None]).
Definition nd (n : string) (l : Q) (sl : list slot) : slot := Some (mkE l nilv nilv [], UNode n [] (None :: sl)).

(** ((a)x,b,c,d) *)
Definition s2 : utree := UNode "" [] [nd "x" 2 [tp "a" 1]; tp "b" 1; tp "c" 1; tp "d" 1]%Q.
(** (((a,b)y)x,c,d) *)
Definition s3 : utree := UNode "" [] [nd "x" 2 [nd "y" 3 [tp "a" 1; tp "b" 1]]; tp "c" 1; tp "d" 1]%Q.
(** ((a)x,b,c) *)
Definition s1 : utree := UNode "" [] [nd "x" 2 [tp "a" 1]; tp "b" 1; tp "c" 1]%Q.
(** (a,((b,c)y)x) *)
Definition s5 : utree := UNode "" [] [tp "a" 1; nd "x" 2 [nd "y" 3 [tp "b" 1; tp "c" 1]]]%Q.
(** (((a)z)x,b,c,d) *)
Definition s7 : utree := UNode "" [] [nd "x" 2 [nd "z" 3 [tp "a" 1]]; tp "b" 1; tp "c" 1; tp "d" 1]%Q.

Example C06_single_inputs_violate_proviso :
  no_single s1 = false /\ no_single s2 = false /\ no_single s3 = false /\ no_single s5 = false /\ no_single s7 = false /\
  wf s1 = true /\ wf s2 = true /\ wf s3 = true /\ wf s5 = true /\ wf s7 = true.
Proof. vm_compute. repeat split; reflexivity. Qed.
Print Assumptions C06_single_inputs_violate_proviso.

(** the chain above the removed tip disappears: ((a)x,b,c,d) - a = (b,c,d), (((a)z)x,b,c,d) - a = (b,c,d) *)
Example C06_single_chain_deleted :
  remove_tips false ["a"] s2 = Ok (UNode "" [] [tp "b" 1; tp "c" 1; tp "d" 1]%Q) /\
  remove_tips false ["a"] s7 = Ok (UNode "" [] [tp "b" 1; tp "c" 1; tp "d" 1]%Q).
Proof. vm_compute. split; reflexivity. Qed.
Print Assumptions C06_single_chain_deleted.

(** a single-child node elsewhere stays: the result still has one *)
Example C06_single_node_left_behind :
  (exists t', remove_tips false ["b"] s2 = Ok t' /\ no_single t' = false /\ leaves t' = ["a"; "c"; "d"]) /\
  (exists t', remove_tips false ["a"] s3 = Ok t' /\ no_single t' = false /\ leaves t' = ["b"; "c"; "d"] /\
              t' = UNode "" [] [nd "x" 2 [tp "b" 4]; tp "c" 1; tp "d" 1]%Q).
Proof.
  split; eexists; vm_compute; repeat split; reflexivity.
Qed.
Print Assumptions C06_single_node_left_behind.

(** a refusal although three tips (a, b, d) would remain: the root is left with a single-child
    node and a tip, neither can become the root *)
Example C06_single_refusal_with_three_left :
  remove_tips false ["c"] s3 = Err (err_no_root "c") /\
  length (filter (kept false ["c"]) (leaves s3)) = 3.
Proof. vm_compute. split; reflexivity. Qed.
Print Assumptions C06_single_refusal_with_three_left.

Example C06_single_other_refusals :
  remove_tips false ["a"] s1 = Err (err_two_tips "a") /\
  remove_tips false ["b"] s1 = Err (err_no_root "b") /\
  remove_tips false ["a"; "b"] s2 = Err (err_two_tips "b").
Proof. vm_compute. repeat split; reflexivity. Qed.
Print Assumptions C06_single_other_refusals.

(** the new root keeps one neighbour, is listed by Tips(), and its name enters the tip-name table *)
Example C06_single_root_becomes_tip :
  exists t', remove_tips false ["a"] s5 = Ok t' /\ degree t' = 1 /\ uname t' = "x" /\
             leaves t' = ["b"; "c"] /\ tip_index_after (tip_names s5) t' = ["x"; "b"; "c"].
Proof. eexists. vm_compute. repeat split; reflexivity. Qed.
Print Assumptions C06_single_root_becomes_tip.

(** * theorems without the proviso *)
(** RemoveTips on ANY well-formed tree with distinct tip names (single-child inner nodes allowed),
    when it succeeds and at least one tip remains: exact tip set, unchanged path lengths, and no
    single-child node is created ([SCroot]: the leaf sets below the single-child nodes; [msub]:
    multiset inclusion; [fcl k]: every leaf set restricted to the kept tips, empty ones dropped) *)
Theorem C06_single_general :
  forall revert names t t',
  wf t = true -> 2 <= degree t -> NoDup (leaves t) ->
  filter (kept revert names) (leaves t) <> [] ->
  remove_tips revert names t = Ok t' ->
  wf t' = true /\
  Permutation (leaves t') (filter (kept revert names) (leaves t)) /\
  dists_equiv (pairdists len0 t') (fP (kept revert names) (pairdists len0 t)) /\
  msub (SCroot t') (fcl (kept revert names) (SCroot t)).
Proof. exact remove_tips_okg. Qed.
Print Assumptions C06_single_general.

(** the clauses Judge/C06.v checks on inputs with single-child nodes hold for the model's output *)
Theorem C06_oracle_accepts_model_single :
  forall revert names t t',
  wf t = true -> 2 <= degree t -> NoDup (leaves t) ->
  filter (kept revert names) (leaves t) <> [] ->
  remove_tips revert names t = Ok t' ->
  let R := ssort (filter (kept revert names) (leaves t)) in
  wf t' = true /\ induced_tips t' R = true /\ singles_not_created t t' R = true /\ induced_dists t t' R = true.
Proof. exact remove_tips_oracle_single. Qed.
Print Assumptions C06_oracle_accepts_model_single.

(** non-vacuity: (((a,b)y)x,c,d) - a keeps the single-child node x (allowed: it was there), creates none *)
Example C06_single_oracle_example :
  exists t', remove_tips false ["a"] s3 = Ok t' /\
             singles_not_created s3 t' ["b"; "c"; "d"] = true /\ no_single t' = false.
Proof. eexists. vm_compute. repeat split; reflexivity. Qed.
Print Assumptions C06_single_oracle_example.
