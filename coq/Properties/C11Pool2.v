(** C11, concurrency part, second round: the three modelling caveats of C11Pool.v removed.
    1. Model/Pool2.v — the pool with a BOUNDED job channel (capacity cj, 0 = unbuffered
       rendez-vous), a bounded/unbuffered RESULT channel (capacity cr), the closer goroutine
       (wg.Wait(); close) and the caller that ranges over the results.
       Agents of a schedule: 0 producer, 1 closer, 2 caller, i+3 worker i.
    2. Model/PoolCells.v — TBE's inner pool: workers update per-branch cells non-atomically and a
       mutex-protected accumulator.
    3. Model/RWLock.v — hashmap's RWMutex discipline.
    Every theorem: for every schedule, every capacity, every number of workers / threads. *)
From Coq Require Import Bool Arith List Permutation.
From GT Require Import Model.Pool Model.Pool2 Model.PoolCells Model.RWLock.
From GT Require Import Proofs.Pool Proofs.Pool2 Proofs.Pool2Live Proofs.PoolCells Proofs.RWLock Proofs.Pool2Main.
Import ListNotations.

Local Arguments run {job res err}.
Local Arguments init {job res err}.
Local Arguments busy_jobs {job res err} s.
Local Arguments is_exited {job} w.
Local Arguments pending2 {job res err} s.
Local Arguments closed2 {job res err} s.
Local Arguments queue2 {job res err} s.
Local Arguments ws2 {job res err} s.
Local Arguments rchan {job res err} s.
Local Arguments closed_out {job res err} s.
Local Arguments recvd {job res err} s.
Local Arguments caller_done {job res err} s.
Local Arguments errs2 {job res err} s.
Local Arguments run2 {job res err}.
Local Arguments init2 {job res err}.
Local Arguments abs {job res err}.
Local Arguments cws {job val acc} _.
Local Arguments cells {job val acc} _.
Local Arguments accu {job val acc} _.
Local Arguments crun {job val acc}.
Local Arguments cinit {job val acc}.
Local Arguments cfinished {job val acc} _.
Local Arguments seq_cells {job val}.
Local Arguments seq_accu {job acc}.
Local Arguments threads {key val mp} _.
Local Arguments readers {key val mp} _.
Local Arguments writer {key val mp} _.
Local Arguments themap {key val mp} _.
Local Arguments torn {key val mp} _.
Local Arguments rlog {key val mp} _.
Local Arguments rwrun {key val mp}.
Local Arguments rwinit {key val mp}.
Local Arguments quiescent {key val mp}.
Local Arguments seq_exec {key val mp}.
Local Arguments proj {key val}.

(** * 1. bounded channels, closer, caller *)

(** simulation: forgetting the result channel, every run of Pool2 is a run of the unbounded
    pool of Model/Pool.v (blocked steps dropped, a rendez-vous = two steps): all universally
    quantified theorems of C11Pool.v hold for Pool2 *)
Theorem pool2_simulated_by_pool :
  forall (job res err : Type) (f : job -> res) (fails : job -> bool) (e_of : job -> err)
         (on_fail : fail_mode) (done_on_exit : bool) (cj cr : nat)
         (jobs : list job) (n : nat) (sched : list nat),
    exists sched1,
      abs (run2 f fails e_of on_fail done_on_exit cj cr sched (init2 jobs n))
      = run f fails e_of on_fail done_on_exit sched1 (init jobs n).
Proof. exact pool2_simulates. Qed.
Print Assumptions pool2_simulated_by_pool.

(** the buffers never exceed their capacities; the result channel is closed only after every
    worker has signalled Done; the caller's loop ends only on a closed, empty channel *)
Theorem pool2_channel_discipline :
  forall (job res err : Type) (f : job -> res) (fails : job -> bool) (e_of : job -> err)
         (on_fail : fail_mode) (done_on_exit : bool) (cj cr : nat)
         (jobs : list job) (n : nat) (sched : list nat),
    let s := run2 f fails e_of on_fail done_on_exit cj cr sched (init2 jobs n) in
    length (queue2 s) <= cj /\ length (rchan s) <= cr
    /\ (closed_out s = true -> forallb is_exited (ws2 s) = true)
    /\ (caller_done s = true -> closed_out s = true /\ rchan s = []).
Proof. exact pool2_channels. Qed.
Print Assumptions pool2_channel_discipline.

Theorem pool2_conservation_jobs :
  forall (job res err : Type) (f : job -> res) (fails : job -> bool) (e_of : job -> err)
         (on_fail : fail_mode) (done_on_exit : bool) (cj cr : nat)
         (jobs : list job) (n : nat) (sched : list nat),
    let s := run2 f fails e_of on_fail done_on_exit cj cr sched (init2 jobs n) in
    exists processed,
      Permutation jobs (pending2 s ++ queue2 s ++ busy_jobs (abs s) ++ processed)
      /\ recvd s ++ rchan s = match on_fail with
                              | Continue => map f processed
                              | Stop => map f (filter (fun j => negb (fails j)) processed)
                              end
      /\ errs2 s = map e_of (filter fails processed).
Proof. exact pool2_conservation. Qed.
Print Assumptions pool2_conservation_jobs.

(** when the caller's loop has ended it holds exactly the results of all jobs *)
Theorem pool2_results_schedule_independent :
  forall (job res err : Type) (f : job -> res) (fails : job -> bool) (e_of : job -> err)
         (on_fail : fail_mode) (done_on_exit : bool) (cj cr : nat)
         (jobs : list job) (n : nat) (sched : list nat),
    on_fail = Continue \/ (forall j, In j jobs -> fails j = false) -> 1 <= n ->
    let s := run2 f fails e_of on_fail done_on_exit cj cr sched (init2 jobs n) in
    caller_done s = true -> Permutation (recvd s) (map f jobs).
Proof. exact pool2_results. Qed.
Print Assumptions pool2_results_schedule_independent.

Theorem pool2_results_any_two_runs :
  forall (job res err : Type) (f : job -> res) (fails : job -> bool) (e_of : job -> err)
         (on_fail : fail_mode) (done_on_exit : bool) (jobs : list job)
         (cj1 cr1 n1 : nat) (sched1 : list nat) (cj2 cr2 n2 : nat) (sched2 : list nat),
    on_fail = Continue \/ (forall j, In j jobs -> fails j = false) -> 1 <= n1 -> 1 <= n2 ->
    let s1 := run2 f fails e_of on_fail done_on_exit cj1 cr1 sched1 (init2 jobs n1) in
    let s2 := run2 f fails e_of on_fail done_on_exit cj2 cr2 sched2 (init2 jobs n2) in
    caller_done s1 = true -> caller_done s2 = true -> Permutation (recvd s1) (recvd s2).
Proof. exact pool2_results_two_runs. Qed.
Print Assumptions pool2_results_any_two_runs.

Theorem pool2_errors_reach_the_caller :
  forall (job res err : Type) (f : job -> res) (fails : job -> bool) (e_of : job -> err)
         (on_fail : fail_mode) (done_on_exit : bool) (cj cr : nat)
         (jobs : list job) (n : nat) (sched : list nat),
    1 <= n ->
    let s := run2 f fails e_of on_fail done_on_exit cj cr sched (init2 jobs n) in
    caller_done s = true -> (exists j, In j jobs /\ fails j = true) -> errs2 s <> [].
Proof. exact pool2_errors_reach_caller. Qed.
Print Assumptions pool2_errors_reach_the_caller.

Theorem pool2_errors_all_reported_continue :
  forall (job res err : Type) (f : job -> res) (fails : job -> bool) (e_of : job -> err)
         (done_on_exit : bool) (cj cr : nat) (jobs : list job) (n : nat) (sched : list nat),
    1 <= n ->
    let s := run2 f fails e_of Continue done_on_exit cj cr sched (init2 jobs n) in
    caller_done s = true -> Permutation (errs2 s) (map e_of (filter fails jobs)).
Proof. exact pool2_errors_all_reported. Qed.
Print Assumptions pool2_errors_all_reported_continue.

(** deadlock freedom: from every reachable state some continuation lets the caller finish,
    whatever the capacities (unbuffered included) *)
Theorem pool2_deadlock_free :
  forall (job res err : Type) (f : job -> res) (fails : job -> bool) (e_of : job -> err)
         (on_fail : fail_mode) (cj cr : nat) (jobs : list job) (n : nat) (sched : list nat),
    exists cont,
      caller_done (run2 f fails e_of on_fail true cj cr cont
                     (run2 f fails e_of on_fail true cj cr sched (init2 jobs n))) = true.
Proof. exact pool2_deadlock_free_done. Qed.
Print Assumptions pool2_deadlock_free.

Theorem pool2_deadlock_free_continue_mode :
  forall (job res err : Type) (f : job -> res) (fails : job -> bool) (e_of : job -> err)
         (done_on_exit : bool) (cj cr : nat) (jobs : list job) (n : nat) (sched : list nat),
    exists cont,
      caller_done (run2 f fails e_of Continue done_on_exit cj cr cont
                     (run2 f fails e_of Continue done_on_exit cj cr sched (init2 jobs n))) = true.
Proof. exact pool2_deadlock_free_continue. Qed.
Print Assumptions pool2_deadlock_free_continue_mode.

(** the defect (Stop, a return path without Done) is a hang of the CALLER: once a worker is
    Dead no continuation ends the caller's loop *)
Theorem pool2_dead_worker_hangs_the_caller :
  forall (job res err : Type) (f : job -> res) (fails : job -> bool) (e_of : job -> err)
         (cj cr : nat) (jobs : list job) (n : nat) (sched : list nat),
    let s := run2 f fails e_of Stop false cj cr sched (init2 jobs n) in
    In Dead (ws2 s) -> forall cont,
    caller_done (run2 f fails e_of Stop false cj cr cont s) = false.
Proof. exact pool2_dead_worker_hangs_caller. Qed.
Print Assumptions pool2_dead_worker_hangs_the_caller.

(** the Stop-mode subtlety, with Done on every path: a goroutine LEAK, not a hang.
    In a reachable state where all workers have returned and the producer still holds a job it
    cannot send (buffer full / nobody to rendez-vous with): in EVERY continuation the producer
    stays where it is and the job channel is never closed; in SOME continuation (wg.Wait()
    returns, the closer closes, the caller drains) the caller finishes *)
Theorem pool2_producer_leak_is_not_a_hang :
  forall (job res err : Type) (f : job -> res) (fails : job -> bool) (e_of : job -> err)
         (on_fail : fail_mode) (cj cr : nat) (jobs : list job) (n : nat) (sched : list nat),
    let s := run2 f fails e_of on_fail true cj cr sched (init2 jobs n) in
    forallb is_exited (ws2 s) = true -> pending2 s <> [] -> cj <= length (queue2 s) ->
    (forall cont, let s' := run2 f fails e_of on_fail true cj cr cont s in
                  pending2 s' = pending2 s /\ closed2 s' = false)
    /\ (exists cont, caller_done (run2 f fails e_of on_fail true cj cr cont s) = true).
Proof. exact pool2_leak_not_hang. Qed.
Print Assumptions pool2_producer_leak_is_not_a_hang.

(** it is unavoidable when every job is erroneous and there are more jobs than workers plus
    buffer slots: under EVERY schedule the producer never finishes, the caller always can *)
Theorem pool2_stop_mode_leak_unavoidable :
  forall (job res err : Type) (f : job -> res) (fails : job -> bool) (e_of : job -> err)
         (cj cr : nat) (jobs : list job) (n : nat) (sched : list nat),
    (forall j, In j jobs -> fails j = true) -> n + cj < length jobs ->
    let s := run2 f fails e_of Stop true cj cr sched (init2 jobs n) in
    (pending2 s <> [] /\ closed2 s = false)
    /\ (exists cont, caller_done (run2 f fails e_of Stop true cj cr cont s) = true).
Proof. exact pool2_stop_leak_unavoidable. Qed.
Print Assumptions pool2_stop_mode_leak_unavoidable.

(** and reachable in two steps: unbuffered job channel, one worker, first job erroneous *)
Theorem pool2_stop_mode_leak_reachable :
  forall (job res err : Type) (f : job -> res) (fails : job -> bool) (e_of : job -> err)
         (cr : nat) (j1 j2 : job) (rest : list job),
    fails j1 = true ->
    let s := run2 f fails e_of Stop true 0 cr [3; 3] (init2 (j1 :: j2 :: rest) 1) in
    forallb is_exited (ws2 s) = true /\ pending2 s = j2 :: rest /\ queue2 s = []
    /\ closed2 s = false /\ errs2 s = [e_of j1].
Proof. exact pool2_stop_leak_witness. Qed.
Print Assumptions pool2_stop_mode_leak_reachable.

(** * 2. TBE's inner pool: the shared memory after wg.Wait() is that of the sequential loop *)

Theorem cells_final_memory_is_sequential :
  forall (job val acc : Type) (cell : job -> nat) (upd : job -> val -> val)
         (contrib : job -> acc) (op : acc -> acc -> acc) (cj : nat)
         (jobs : list job) (n : nat) (c0 : nat -> val) (a0 : acc) (sched : list nat),
    NoDup (map cell jobs) ->
    (forall a b c, op (op a b) c = op a (op b c)) -> (forall a b, op a b = op b a) ->
    1 <= n ->
    let s := crun cell upd contrib op cj sched (cinit jobs n c0 a0) in
    cfinished s = true ->
    (forall c, cells s c = seq_cells cell upd jobs c0 c) /\ accu s = seq_accu contrib op jobs a0.
Proof. exact cells_final_memory. Qed.
Print Assumptions cells_final_memory_is_sequential.

Theorem cells_schedule_independent :
  forall (job val acc : Type) (cell : job -> nat) (upd : job -> val -> val)
         (contrib : job -> acc) (op : acc -> acc -> acc)
         (jobs : list job) (c0 : nat -> val) (a0 : acc)
         (cj1 n1 : nat) (sched1 : list nat) (cj2 n2 : nat) (sched2 : list nat),
    NoDup (map cell jobs) ->
    (forall a b c, op (op a b) c = op a (op b c)) -> (forall a b, op a b = op b a) ->
    1 <= n1 -> 1 <= n2 ->
    let s1 := crun cell upd contrib op cj1 sched1 (cinit jobs n1 c0 a0) in
    let s2 := crun cell upd contrib op cj2 sched2 (cinit jobs n2 c0 a0) in
    cfinished s1 = true -> cfinished s2 = true ->
    (forall c, cells s1 c = cells s2 c) /\ accu s1 = accu s2.
Proof. exact cells_two_runs. Qed.
Print Assumptions cells_schedule_independent.

(** * 3. hashmap's RWMutex *)

(** linearizability at the granularity of whole operations: some sequential history [h] of
    (thread, operation) yields the same map and the same values returned, in the same real-time
    order; [h] takes each thread's operations in program order, a prefix of its program, all of
    it once every thread has finished *)
Theorem rw_operations_linearizable :
  forall (key val mp : Type) (get : mp -> key -> option val) (put : mp -> key -> val -> mp)
         (garbage : option val) (progs : list (list (op key val))) (m0 : mp) (sched : list nat),
    let s := rwrun get put garbage sched (rwinit progs m0) in
    exists h,
      seq_exec get put h m0 = (themap s, rlog s)
      /\ (forall t p, nth_error progs t = Some p -> exists rest, p = proj t h ++ rest)
      /\ (forall t o, In (t, o) h -> exists p, nth_error progs t = Some p /\ In o p)
      /\ (quiescent s = true -> forall t p, nth_error progs t = Some p -> proj t h = p).
Proof. exact rw_linearizable. Qed.
Print Assumptions rw_operations_linearizable.

Theorem rw_lock_mutual_exclusion :
  forall (key val mp : Type) (get : mp -> key -> option val) (put : mp -> key -> val -> mp)
         (garbage : option val) (progs : list (list (op key val))) (m0 : mp) (sched : list nat),
    let s := rwrun get put garbage sched (rwinit progs m0) in
    let holdsR th := match ph th with PR | PRd => true | _ => false end in
    let holdsW th := match ph th with PW | PWt | PWd => true | _ => false end in
    readers s = length (filter holdsR (threads s))
    /\ length (filter holdsW (threads s)) = (if writer s then 1 else 0)
    /\ (writer s = true -> readers s = 0)
    /\ (torn s = true -> writer s = true).
Proof. exact rw_mutual_exclusion. Qed.
Print Assumptions rw_lock_mutual_exclusion.

Theorem rw_reader_sees_consistent_map :
  forall (key val mp : Type) (get : mp -> key -> option val) (put : mp -> key -> val -> mp)
         (garbage : option val) (progs : list (list (op key val))) (m0 : mp) (sched : list nat)
         (t : nat) (th : thr key val),
    let s := rwrun get put garbage sched (rwinit progs m0) in
    nth_error (threads s) t = Some th -> ph th = PR -> torn s = false.
Proof. exact rw_reader_never_sees_torn_map. Qed.
Print Assumptions rw_reader_sees_consistent_map.

(** Value-only workloads (the index is built before the workers start): the map never changes,
    every Value returns what the sequential lookup returns, and each thread's results are those
    of running its program alone *)
Theorem rw_read_only_workload :
  forall (key val mp : Type) (get : mp -> key -> option val) (put : mp -> key -> val -> mp)
         (garbage : option val) (progs : list (list (op key val))) (m0 : mp) (sched : list nat),
    (forall p o, In p progs -> In o p -> exists k, o = Get k) ->
    let s := rwrun get put garbage sched (rwinit progs m0) in
    themap s = m0
    /\ (forall t k v, In (t, k, v) (rlog s) -> v = get m0 k)
    /\ (quiescent s = true -> forall t p, nth_error progs t = Some p ->
        map (fun e => (snd (fst e), snd e)) (filter (fun e => Nat.eqb (fst (fst e)) t) (rlog s))
        = map (fun o => match o with Get k | Put k _ => (k, get m0 k) end) p).
Proof. exact rw_read_only. Qed.
Print Assumptions rw_read_only_workload.

(** * the hypotheses are satisfiable, the statements are not trivial *)
Example pool2_example_unbuffered :
  let go sched := run2 ex2_f ex2_fails ex2_err Continue true 0 0 sched (init2 [1;2;3] 2) in
  let sa := go [3;3; 3;3; 3;3; 0; 3; 4; 1; 2] in
  let sb := go [3;4; 4;3; 4;4; 0; 3;4; 1; 2] in
  caller_done sa = true /\ caller_done sb = true
  /\ recvd sa = [10; 20; 30] /\ recvd sb = [20; 10; 30] /\ errs2 sa = [102] /\ errs2 sb = [102].
Proof. exact example2_unbuffered. Qed.
Print Assumptions pool2_example_unbuffered.

Example pool2_example_leak :
  let s := run2 ex2_f (fun _ => true) ex2_err Stop true 1 5 [0;3;0;4;3;4;0;1;2;0;0]
                (init2 [1;2;3;4] 2) in
  caller_done s = true /\ errs2 s = [101; 102] /\ pending2 s = [4] /\ queue2 s = [3]
  /\ closed2 s = false.
Proof. exact example2_leak. Qed.
Print Assumptions pool2_example_leak.

(** without "distinct jobs own distinct cells" the non-atomic cell update loses a write *)
Example cells_example_race :
  let go sched jobs :=
    crun (fun j => j / 10) (fun j v => v + j) (fun _ => 1) Nat.add 4 sched
         (cinit jobs 2 (fun _ => 0) 0) in
  let seqd := [0;0;0; 1;1;1;1; 1;1;1;1; 1;2] in
  let inter := [0;0;0; 1;2; 1;2; 1;2; 1;2; 1;2] in
  cfinished (go seqd [10;11]) = true /\ cfinished (go inter [10;11]) = true
  /\ cells (go seqd [10;11]) 1 = 21 /\ cells (go inter [10;11]) 1 = 11
  /\ cfinished (go inter [10;21]) = true
  /\ cells (go inter [10;21]) 1 = 10 /\ cells (go inter [10;21]) 2 = 21
  /\ accu (go inter [10;21]) = 2.
Proof. exact example_cells_race. Qed.
Print Assumptions cells_example_race.

Example rw_example :
  let progs := [[Put 1 5; Get 1]; [Get 1; Get 2]] in
  let go sched := rwrun ex_get ex_put (Some 999) sched (rwinit progs [(2, 7)]) in
  let s1 := go [1;1;1; 0;0;0;0; 1;1;1; 0;0;0] in
  let s2 := go [0;0; 1;1; 0; 1; 0; 1;1;1; 0;0;0; 1;1;1] in
  quiescent s1 = true /\ quiescent s2 = true
  /\ rlog s1 = [(1, 1, None); (1, 2, Some 7); (0, 1, Some 5)]
  /\ rlog s2 = [(1, 1, Some 5); (0, 1, Some 5); (1, 2, Some 7)]
  /\ themap s1 = [(1, 5); (2, 7)] /\ themap s2 = [(1, 5); (2, 7)].
Proof. exact example_rw. Qed.
Print Assumptions rw_example.
