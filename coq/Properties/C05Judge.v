(** C05, companion file (stretch 7).
    (q) trees equal up to Qeq ([utree_eqb], the correspondence test of the judges) have the same
        observables, and every oracle of Judge/Common.v / Judge/C05.v gives the same answer on them
        (Proofs/TreeEq.v, Proofs/OracleEq.v);
    (r) hence the judges answer VOk on every observation of the model's output whose tree field
        decodes to a tree [utree_eqb]-equal to the model's (not necessarily the same term: the
        model's numbers are not reduced): judge_basic for reroot / unroot / rotate / sort / the
        hand-built stream, judge_root for outgroup / midpoint (Proofs/C05Judge.v); the multi-tree
        theorem of Properties/C05History.v now has this meaning too ([obs_is_model]);
    (s) UnRoot's merge rule for the two root branches as written in the RULE text, the four
        sentinel combinations for lengths and supports, and [supports_kept] for every pair of
        root-branch supports in {absent, 0, positive} (Proofs/C05Merge.v);
    (t) negative supports: the reduced oracle and judge_negsup accept the model. *)
From Coq Require Import String ZArith QArith Bool Arith List Permutation.
From GT Require Import Base.Sexp Base.UTree Base.Codec Spec.Obs Model.Reroot Model.Rand Model.Outgroup
     Spec.Unrooted Judge.Common Judge.C05
     Proofs.Unroot Proofs.Splits Proofs.USplits Proofs.C05Main Proofs.OracleSup Proofs.OracleIndex
     Proofs.OutgroupWitness Proofs.IndexSplit
     Proofs.TreeEq Proofs.OracleEq Proofs.C05Judge Proofs.C05Multi Proofs.C05Merge Proofs.C05JudgeEx.
Import ListNotations.
Local Close Scope Q_scope.

(** * (q) equality up to Qeq *)
Theorem C05_teq_observables :
  forall t g, utree_eqb t g = true ->
    leaves g = leaves t /\ wf g = wf t /\ tipset g = tipset t /\
    (forall w, wproper w -> Forall2 pq_eq (depths w t) (depths w g)) /\
    (forall w, wproper w -> Forall2 tq_eq (pairdists w t) (pairdists w g)) /\
    Forall2 bs3 (bsplits t) (bsplits g) /\
    Forall2 split_qeq (usplits t) (usplits g) /\
    (forall k, orel split_qeq (find_split k (usplits t)) (find_split k (usplits g))).
Proof.
  intros t g H. repeat split.
  - exact (teq_leaves t g H).
  - exact (proj2 (teq_wf t g H)).
  - exact (teq_tipset t g H).
  - intros w Hw. exact (teq_depths w t g Hw H).
  - intros w Hw. exact (teq_pairdists w t g Hw H).
  - exact (teq_bsplits t g H).
  - exact (teq_usplits t g H).
  - intros k. exact (teq_lookup t g k H).
Qed.
Print Assumptions C05_teq_observables.

Theorem C05_len0_wproper : wproper len0.
Proof. exact len0_wproper. Qed.
Print Assumptions C05_len0_wproper.

(** every oracle gives the same answer on the model's tree and on a tree equal to it up to Qeq *)
Theorem C05_oracles_teq :
  forall t t' g, utree_eqb t' g = true ->
    same_tree_obs t g = same_tree_obs t t' /\
    supports_kept t g = supports_kept t t' /\
    (forall remove strict names,
        oracle_outgroup_ok remove strict t g names = oracle_outgroup_ok remove strict t t' names) /\
    oracle_midpoint_ok t g = oracle_midpoint_ok t t' /\
    oracle_reduced t g = oracle_reduced t t' /\
    (forall idx st bs, index_ok_data g idx st bs = index_ok_data t' idx st bs).
Proof.
  intros t t' g H. repeat split.
  - exact (same_tree_obs_teq t t' g H).
  - exact (supports_kept_teq t t' g H).
  - intros remove strict names. exact (oracle_outgroup_ok_teq remove strict t t' g names H).
  - exact (oracle_midpoint_ok_teq t t' g H).
  - exact (oracle_reduced_teq t t' g H).
  - intros idx st bs. exact (index_ok_data_teq t' g idx st bs H).
Qed.
Print Assumptions C05_oracles_teq.

(** * (r) the judges on observations of the model's output.
    [obs_tree wi t' r]: err = "", the tree field decodes to some [g] with [utree_eqb t' g = true],
    empty audit, and (when [wi]) the index fields are the tables of ReinitIndexes on [g];
    [obs_refusal r]: a non-empty error message; [obs_result wi m r]: one or the other according
    to the model's result [m] *)
Theorem C05_judge_basic_reroot :
  forall c o t i,
    get_tree "tree" c = Some t -> get_nat "i" c = Some i ->
    wf t = true -> 2 <= degree t -> NoDup (leaves t) ->
    obs_result true (reroot t i) o ->
    exists b tag, judge_basic "reroot" c o = VOk b tag.
Proof. exact judge_basic_reroot. Qed.
Print Assumptions C05_judge_basic_reroot.

Theorem C05_judge_basic_unroot :
  forall c o t,
    get_tree "tree" c = Some t ->
    wf t = true -> 2 <= degree t -> (rooted t = true -> root_has_inner_child t = true) -> NoDup (leaves t) ->
    obs_tree true (unroot t) o ->
    exists b tag, judge_basic "unroot" c o = VOk b tag.
Proof. exact judge_basic_unroot. Qed.
Print Assumptions C05_judge_basic_unroot.

Theorem C05_judge_basic_rotate :
  forall c o t raw d,
    get_tree "tree" c = Some t -> wf t = true -> 2 <= degree t -> NoDup (leaves t) ->
    (x <- get "raw" o ;; dec_list dec_N x) = Some raw -> draws (rotate_bounds t) raw = Some d ->
    obs_tree false (fst (rotate_all t (fst d))) o ->
    exists b tag, judge_basic "rotate" c o = VOk b tag.
Proof. exact judge_basic_rotate. Qed.
Print Assumptions C05_judge_basic_rotate.

Theorem C05_judge_basic_sort :
  forall c o t,
    get_tree "tree" c = Some t -> wf t = true -> 2 <= degree t -> NoDup (leaves t) ->
    obs_tree false (sort_by_tips t) o ->
    exists b tag, judge_basic "sort" c o = VOk b tag.
Proof. exact judge_basic_sort. Qed.
Print Assumptions C05_judge_basic_sort.

(** the hand-built stream (BuildTreeAPI + Reroot) is judged as a plain reroot *)
Theorem C05_judge_handbuilt :
  forall c o t i,
    get_string "op" c = Some "handbuilt"%string ->
    get_tree "tree" c = Some t -> get_nat "i" c = Some i ->
    wf t = true -> 2 <= degree t -> NoDup (leaves t) ->
    obs_result true (reroot t i) o ->
    exists b tag, judge c o = VOk b tag.
Proof. exact judge_handbuilt. Qed.
Print Assumptions C05_judge_handbuilt.

(** [multi_tree_ok remove t] / [mid_tree_ok t]: the hypotheses of the data-level acceptance theorems
    C05_oracle_outgroup(_remove)_accepts / C05_oracle_midpoint_accepts; a tree with a negative
    length gets the reduced oracle and needs none of the length / support conditions *)
Theorem C05_judge_root_outgroup :
  forall remove strict names t c o,
    get "pre" c = None -> get_tree "tree" c = Some t ->
    get_strings "names" c = Some names ->
    get_bool "remove" c = Some remove -> get_bool "strict" c = Some strict ->
    multi_tree_ok remove t -> get_string "panic" o = None ->
    obs_result true (reroot_outgroup remove strict t names) o ->
    exists b tag, judge_root "outgroup" c o = VOk b tag.
Proof. exact judge_root_outgroup. Qed.
Print Assumptions C05_judge_root_outgroup.

Theorem C05_judge_root_midpoint :
  forall t c o,
    get "pre" c = None -> get_tree "tree" c = Some t ->
    mid_tree_ok t -> get_string "panic" o = None ->
    obs_result true (reroot_midpoint t) o ->
    exists b tag, judge_root "midpoint" c o = VOk b tag.
Proof. exact judge_root_midpoint. Qed.
Print Assumptions C05_judge_root_midpoint.

(** after a pre-edit (stale name index: the index clause is off) or inside the multi-tree loop *)
Theorem C05_judge_root_on_outgroup :
  forall remove strict names t wi c r,
    get_strings "names" c = Some names ->
    get_bool "remove" c = Some remove -> get_bool "strict" c = Some strict ->
    multi_tree_ok remove t -> get_string "panic" r = None ->
    obs_result true (reroot_outgroup remove strict t names) r ->
    exists b tag, judge_root_on "outgroup" t wi c r = VOk b tag.
Proof. exact judge_root_on_outgroup. Qed.
Print Assumptions C05_judge_root_on_outgroup.

(** encoded observations of the model's output: reroot, unroot, sort, strict outgroup and midpoint;
    in the outgroup case the decoded tree is a different term from the model's tree *)
Example C05_example_judges :
  (exists t', reroot c05_tree 8 = Ok t' /\ obs_tree true t' (enc_obs_tree t') /\
              judge (case_of "reroot" c05_tree [SList [Atom "i"; Atom "8"]]) (enc_obs_tree t') = VOk true "reroot") /\
  (obs_tree true (unroot c05_rooted_tree) (enc_obs_tree (unroot c05_rooted_tree)) /\
   judge (case_of "unroot" c05_rooted_tree []) (enc_obs_tree (unroot c05_rooted_tree)) = VOk true "unroot") /\
  (obs_tree false (sort_by_tips c05_tree) (enc_obs_tree (sort_by_tips c05_tree)) /\
   judge (case_of "sort" c05_tree []) (enc_obs_tree (sort_by_tips c05_tree)) = VOk true "sort") /\
  (exists t' g, reroot_outgroup false true og_w1 ["a"; "b"]%string = Ok t' /\
                obs_tree true t' (enc_obs_tree t') /\
                get_tree "tree" (enc_obs_tree t') = Some g /\ utree_eqb t' g = true /\ t' <> g /\
                judge (case_of "outgroup" og_w1 [SList [Atom "names"; enc_strings ["a"; "b"]%string];
                                                 SList [Atom "remove"; Atom "F"]; SList [Atom "strict"; Atom "T"]])
                      (enc_obs_tree t') = VOk true "outgroup:side-strict") /\
  (exists t', reroot_midpoint og_w1 = Ok t' /\ obs_tree true t' (enc_obs_tree t') /\
              judge (case_of "midpoint" og_w1 []) (enc_obs_tree t') = VOk true "midpoint").
Proof. exact judge_examples. Qed.
Print Assumptions C05_example_judges.

(** the multi-tree stream without removal: unreduced numbers in the model's trees, the judge
    accepts the encoded observation and the hypotheses of C05_judge_multi_accepts_model hold *)
Example C05_example_multi_keep :
  Forall (multi_tree_ok false) multi_trees /\
  Forall2 (obs_is_model false true multi_names_keep) multi_trees
          (map enc_obs (fst (multi_loop false true multi_trees multi_names_keep))) /\
  (exists t1 g, nth_error (fst (multi_loop false true multi_trees multi_names_keep)) 0 = Some (Ok t1) /\
                get_tree "tree" (enc_obs (Ok t1)) = Some g /\ utree_eqb t1 g = true /\ t1 <> g) /\
  judge multi_case_keep multi_obs_keep = VOk true "outgroup_multi".
Proof. exact multi_example_keep. Qed.
Print Assumptions C05_example_multi_keep.

(** * (s) UnRoot's merge rule.  [absent x]: x is the code -1; [b1], [b2]: the root child is a tip *)
Theorem C05_merged_edge_rule :
  forall e1 e2 b1 b2,
    let e3 := merged_edge e1 e2 b1 b2 in
    (absent (elen e3) <-> absent (elen e1) /\ absent (elen e2)) /\
    (absent (elen e1) /\ absent (elen e2) -> elen e3 = nilv) /\
    (~ (absent (elen e1) /\ absent (elen e2)) ->
     elen e3 = (qmax 0 (elen e1) + qmax 0 (elen e2))%Q /\ (0 <= elen e3)%Q) /\
    (b1 = true \/ b2 = true \/ (absent (esup e1) /\ absent (esup e2)) -> esup e3 = nilv) /\
    (b1 = false -> b2 = false -> ~ (absent (esup e1) /\ absent (esup e2)) ->
     esup e3 = qmax (qmax 0 (esup e1)) (qmax 0 (esup e2)) /\ (0 <= esup e3)%Q) /\
    epv e3 = nilv /\ ecom e3 = [].
Proof. exact merged_edge_rule. Qed.
Print Assumptions C05_merged_edge_rule.

Theorem C05_merged_len_cases :
  forall e1 e2 b1 b2,
    let l3 := elen (merged_edge e1 e2 b1 b2) in
    (absent (elen e1) -> absent (elen e2) -> l3 = nilv) /\
    (absent (elen e1) -> (0 <= elen e2)%Q -> (l3 == elen e2)%Q) /\
    ((0 <= elen e1)%Q -> absent (elen e2) -> (l3 == elen e1)%Q) /\
    ((0 <= elen e1)%Q -> (0 <= elen e2)%Q -> (l3 == elen e1 + elen e2)%Q).
Proof. exact merged_len_cases. Qed.
Print Assumptions C05_merged_len_cases.

Theorem C05_merged_sup_cases :
  forall e1 e2,
    let s3 := esup (merged_edge e1 e2 false false) in
    (absent (esup e1) -> absent (esup e2) -> s3 = nilv) /\
    (absent (esup e1) -> (0 <= esup e2)%Q -> (s3 == esup e2)%Q) /\
    ((0 <= esup e1)%Q -> absent (esup e2) -> (s3 == esup e1)%Q) /\
    ((0 <= esup e1)%Q -> (0 <= esup e2)%Q -> (s3 == qmax (esup e1) (esup e2))%Q).
Proof. exact merged_sup_cases. Qed.
Print Assumptions C05_merged_sup_cases.

Theorem C05_merged_sup_tip :
  forall e1 e2 b1 b2, b1 = true \/ b2 = true -> esup (merged_edge e1 e2 b1 b2) = nilv.
Proof. exact merged_sup_tip. Qed.
Print Assumptions C05_merged_sup_tip.

(** the merged branch is the one new branch of the unrooted tree; all others are branches of t *)
Theorem C05_unroot_merge_rule :
  forall t,
    wf t = true -> rooted t = true ->
    exists e1 N1 e2 N2 far,
      kids t = [(e1, N1); (e2, N2)] /\ (far = N1 \/ far = N2) /\
      let e3 := merged_edge e1 e2 (is_tip N1) (is_tip N2) in
      Permutation (bsplits (unroot t)) ((e3, leaves far, isleaf far) :: bsplits N1 ++ bsplits N2).
Proof. exact unroot_merge_rule. Qed.
Print Assumptions C05_unroot_merge_rule.

(** supports kept by UnRoot for every pair of root-branch supports in {absent, 0, positive} *)
Theorem C05_unroot_supports_kept :
  forall t,
    wf t = true -> rooted t = true -> root_has_inner_child t = true -> NoDup (leaves t) ->
    (forall p, In p (kids t) ->
               absent (esup (fst p)) \/ (esup (fst p) == 0)%Q \/ (0 < esup (fst p))%Q) ->
    supports_kept t (unroot t) = true.
Proof. exact unroot_supports_kept. Qed.
Print Assumptions C05_unroot_supports_kept.

(** the nine pairs on a concrete rooted tree; with -1/2 on both root branches the clause fails
    (UnRoot clamps to 0): negative supports are outside the property *)
Example C05_example_merge :
  forallb (fun s1 => forallb (fun s2 =>
     let t := merge_tree s1 s2 in
     wf t && rooted t && root_has_inner_child t && negb (has_dup (leaves t)) &&
     supports_kept t (unroot t) && negb (utree_eqb (unroot t) t))
     [nilv; 0%Q; (3#4)%Q]) [nilv; 0%Q; (3#4)%Q] = true /\
  supports_kept (merge_tree (-1#2)%Q (-1#2)%Q) (unroot (merge_tree (-1#2)%Q (-1#2)%Q)) = false.
Proof. exact merge_example. Qed.
Print Assumptions C05_example_merge.

(** * (t) negative supports: reduced oracle, judge_negsup *)
Theorem C05_oracle_reduced_accepts_unroot :
  forall t,
    wf t = true -> 2 <= degree t -> (rooted t = true -> root_has_inner_child t = true) ->
    oracle_reduced t (unroot t) = None.
Proof. exact oracle_reduced_accepts_unroot. Qed.
Print Assumptions C05_oracle_reduced_accepts_unroot.

Theorem C05_oracle_reduced_accepts_outgroup :
  forall strict t names t',
    wf t = true -> 2 <= degree t -> (rooted t = true -> root_has_inner_child t = true) ->
    reroot_outgroup false strict t names = Ok t' -> oracle_reduced t t' = None.
Proof. exact oracle_reduced_accepts_outgroup. Qed.
Print Assumptions C05_oracle_reduced_accepts_outgroup.

Theorem C05_judge_negsup_unroot :
  forall c o t,
    get_tree "tree" c = Some t -> get_string "panic" o = None -> neg_tree_ok t ->
    obs_tree true (unroot t) o ->
    exists b tag, judge_negsup "unroot" c o = VOk b tag.
Proof. exact judge_negsup_unroot. Qed.
Print Assumptions C05_judge_negsup_unroot.

Theorem C05_judge_negsup_midpoint :
  forall c o t,
    get_tree "tree" c = Some t -> get_string "panic" o = None -> neg_tree_ok t ->
    obs_result true (reroot_midpoint t) o ->
    exists b tag, judge_negsup "midpoint" c o = VOk b tag.
Proof. exact judge_negsup_midpoint. Qed.
Print Assumptions C05_judge_negsup_midpoint.

Theorem C05_judge_negsup_outgroup :
  forall remove strict names c o t,
    get_tree "tree" c = Some t -> get_string "panic" o = None ->
    get_strings "names" c = Some names ->
    get_bool "remove" c = Some remove -> get_bool "strict" c = Some strict ->
    neg_tree_ok t ->
    obs_result true (reroot_outgroup remove strict t names) o ->
    exists b tag, judge_negsup "outgroup" c o = VOk b tag.
Proof. exact judge_negsup_outgroup. Qed.
Print Assumptions C05_judge_negsup_outgroup.

(** a rooted tree with supports -1/2, -1/64 on the root branches and -2 inside: [supports_kept]
    rejects the (faithful) result of UnRoot, the reduced oracle and the whole judge accept it *)
Example C05_example_negsup :
  has_neg_sup negsup_tree = true /\
  wf negsup_tree = true /\ rooted negsup_tree = true /\ root_has_inner_child negsup_tree = true /\
  has_dup (leaves negsup_tree) = false /\
  supports_kept negsup_tree (unroot negsup_tree) = false /\
  oracle_reduced negsup_tree (unroot negsup_tree) = None /\
  judge (SList [SList [Atom "op"; Atom "unroot"]; SList [Atom "tree"; enc_utree negsup_tree]])
        (enc_obs_tree (unroot negsup_tree)) = VOk true "unroot:negsup" /\
  (exists t', reroot_midpoint negsup_tree = Ok t' /\
     judge (SList [SList [Atom "op"; Atom "midpoint"]; SList [Atom "tree"; enc_utree negsup_tree]])
           (enc_obs_tree t') = VOk true "midpoint:negsup").
Proof. exact negsup_example. Qed.
Print Assumptions C05_example_negsup.
