(** C08, round 8 additions (proofs in Proofs/C08Extra8.v; model of the numbers printed by
    cmd/comparetrees.go in Model/C08Extra8.v: [rf_of] = st.Tree1+st.Tree2, [wrf_of] = the weighted
    Robinson-Foulds sum, [kf2_of] = the argument of math.Sqrt of the Kuhner-Felsenstein score, over
    exact rationals).  Domain: [unrooted] (Proofs/CompareDomain.v) = well formed, distinct tip names,
    root of degree >= 3, no node with a single child; both trees on the same taxa. *)
From Coq Require Import String NArith ZArith QArith Qabs Bool Arith List Permutation.
From GT Require Import Base.UTree Spec.Obs Spec.CompareSpec Spec.Unrooted Model.Reroot Model.Index Model.EdgeIndex Model.Compare
     Model.C08Extra8 Proofs.IndexSplit Proofs.CompareCor Proofs.CompareDomain Proofs.CompareMain Proofs.CompareWeighted Proofs.C08Extra8.
Import ListNotations.
Local Close Scope Q_scope.

(** * the pairwise variant by linear search (Tree.CommonEdges / Edge.FindEdge) agrees with the
    split-index variant (Compare): same reference-only and common counts *)
Theorem C08_common_edges_agrees_compare :
  forall te t1 t2,
    unrooted t1 -> unrooted t2 -> Permutation (leaves t1) (leaves t2) ->
    exists r, compare te false t1 t2 = Some (Ok r) /\
              common_edges te t1 t2 = Ok (bs_tree1 r, bs_common r).
Proof. exact common_edges_agrees_compare. Qed.
Print Assumptions C08_common_edges_agrees_compare.

(** * the record does not depend on where EITHER tree is rooted (every re-rooting index of both
    trees at once) nor on the order of the children of either tree *)
Theorem C08_compare_reroot_both :
  forall tips t1 t2 i j t1' t2',
    unrooted t1 -> unrooted t2 -> Permutation (leaves t1) (leaves t2) ->
    reroot t1 i = Ok t1' -> good t1' ->
    reroot t2 j = Ok t2' -> good t2' ->
    compare tips false t1' t2' = compare tips false t1 t2.
Proof. exact compare_reroot_both. Qed.
Print Assumptions C08_compare_reroot_both.

Theorem C08_compare_tperm_both :
  forall tips t1 t2 t1' t2',
    unrooted t1 -> unrooted t2 -> Permutation (leaves t1) (leaves t2) ->
    tperm t1 t1' -> good t1' ->
    tperm t2 t2' -> good t2' ->
    compare tips false t1' t2' = compare tips false t1 t2.
Proof. exact compare_tperm_both. Qed.
Print Assumptions C08_compare_tperm_both.

(** * the Robinson-Foulds distance printed by --rf is the size of the symmetric difference of the
    split sets; it is symmetric, zero exactly when the trees are reported identical, and independent
    of the rootings *)
Theorem C08_rf_symdiff :
  forall tips t1 t2 r,
    unrooted t1 -> unrooted t2 -> Permutation (leaves t1) (leaves t2) ->
    compare tips false t1 t2 = Some (Ok r) ->
    rf_of r = Z.of_nat (c_only1 (spec_counts tips t1 t2) + c_only2 (spec_counts tips t1 t2)).
Proof. exact rf_symdiff. Qed.
Print Assumptions C08_rf_symdiff.

Theorem C08_rf_zero_iff_same :
  forall tips t1 t2 r,
    unrooted t1 -> unrooted t2 -> Permutation (leaves t1) (leaves t2) ->
    compare tips false t1 t2 = Some (Ok r) ->
    (rf_of r = 0%Z <-> bs_same r = true).
Proof. exact rf_zero_iff_same. Qed.
Print Assumptions C08_rf_zero_iff_same.

Theorem C08_rf_swap :
  forall tips t1 t2 r r',
    unrooted t1 -> unrooted t2 -> Permutation (leaves t1) (leaves t2) ->
    compare tips false t1 t2 = Some (Ok r) -> compare tips false t2 t1 = Some (Ok r') ->
    rf_of r' = rf_of r.
Proof. exact rf_swap. Qed.
Print Assumptions C08_rf_swap.

Theorem C08_rf_reroot_both :
  forall tips t1 t2 i j t1' t2' r r',
    unrooted t1 -> unrooted t2 -> Permutation (leaves t1) (leaves t2) ->
    reroot t1 i = Ok t1' -> good t1' -> reroot t2 j = Ok t2' -> good t2' ->
    compare tips false t1 t2 = Some (Ok r) -> compare tips false t1' t2' = Some (Ok r') ->
    rf_of r' = rf_of r.
Proof. exact rf_reroot_both. Qed.
Print Assumptions C08_rf_reroot_both.

(** * the weighted RF and the square of the KF score printed by --weighted, from the terms of the
    specification: sum of |length difference| (resp. squares) over the shared splits plus the sum of
    the lengths (resp. squares) of the unshared ones *)
Theorem C08_wrf_terms :
  forall tips t1 t2 w,
    unrooted t1 -> unrooted t2 -> Permutation (leaves t1) (leaves t2) ->
    compare_weighted tips false t1 t2 = Some (Ok w) ->
    (wrf_of w == qsum (map Qabs (spec_w_common tips t1 t2)) + qsum (spec_w_only1 tips t1 t2) + qsum (spec_w_only2 tips t1 t2))%Q.
Proof. exact wrf_terms. Qed.
Print Assumptions C08_wrf_terms.

Theorem C08_kf2_terms :
  forall tips t1 t2 w,
    unrooted t1 -> unrooted t2 -> Permutation (leaves t1) (leaves t2) ->
    compare_weighted tips false t1 t2 = Some (Ok w) ->
    (kf2_of w == qsum (map (fun d => d * d) (spec_w_common tips t1 t2))
                 + qsum (map (fun l => l * l) (spec_w_only1 tips t1 t2))
                 + qsum (map (fun l => l * l) (spec_w_only2 tips t1 t2)))%Q.
Proof. exact kf2_terms. Qed.
Print Assumptions C08_kf2_terms.

(** * the identical-only shortcut of CompareWeighted: for ANY two trees the Sametree flag and the
    error are those of the full weighted comparison; on the domain Sametree = no unshared split and
    every length difference zero *)
Theorem C08_compare_weighted_ident_same :
  forall tips t1 t2 w,
    compare_weighted tips false t1 t2 = Some (Ok w) ->
    exists w', compare_weighted tips true t1 t2 = Some (Ok w') /\ ws_same w' = ws_same w /\ ws_err w' = ws_err w.
Proof. exact compare_weighted_ident_same. Qed.
Print Assumptions C08_compare_weighted_ident_same.

Theorem C08_compare_weighted_ident_identical :
  forall tips t1 t2,
    unrooted t1 -> unrooted t2 -> Permutation (leaves t1) (leaves t2) ->
    exists w', compare_weighted tips true t1 t2 = Some (Ok w') /\
               ws_same w' = (Nat.eqb (length (spec_w_only1 tips t1 t2)) 0 && Nat.eqb (length (spec_w_only2 tips t1 t2)) 0
                             && all_zero (spec_w_common tips t1 t2)) /\
               ws_err w' = EmptyString.
Proof. exact compare_weighted_ident_identical. Qed.
Print Assumptions C08_compare_weighted_ident_identical.

(** * non-vacuity: ((a,b),c,d) re-rooted on its inner node (a different tree value) against the
    re-rooted star tree; a weighted pair with one unshared split on each side *)
Example C08_reroot_both_example :
  unrooted wit_ref /\ unrooted wit_star /\ Permutation (leaves wit_ref) (leaves wit_star) /\
  reroot wit_ref 1 = Ok wit_ref_rr /\ good wit_ref_rr /\ wit_ref_rr <> wit_ref /\
  reroot wit_star 0 = Ok wit_star_rr /\ good wit_star_rr /\
  compare false false wit_ref_rr wit_star_rr = Some (Ok (mkBS 1 0 0 false EmptyString)) /\
  common_edges false wit_ref wit_star = Ok (1%Z, 0%Z) /\
  rf_of (mkBS 1 0 0 false EmptyString) = 1%Z.
Proof. exact reroot_both_example. Qed.
Print Assumptions C08_reroot_both_example.

Example C08_weighted_example :
  unrooted wit_w1 /\ unrooted wit_w2 /\ Permutation (leaves wit_w1) (leaves wit_w2) /\
  compare_weighted true false wit_w1 wit_w2 = Some (Ok (mkWS [2%Q] [(1#2)%Q] [0%Q; (-2)%Q; 0%Q; 0%Q] false EmptyString)) /\
  compare_weighted true true wit_w1 wit_w2 = Some (Ok (mkWS [] [] [] false EmptyString)) /\
  Qred (wrf_of (mkWS [2%Q] [(1#2)%Q] [0%Q; (-2)%Q; 0%Q; 0%Q] false EmptyString)) = (9#2)%Q /\
  Qred (kf2_of (mkWS [2%Q] [(1#2)%Q] [0%Q; (-2)%Q; 0%Q; 0%Q] false EmptyString)) = (33#4)%Q.
Proof. exact weighted_example. Qed.
Print Assumptions C08_weighted_example.

(** * with weights, the result does not depend on where either tree is rooted nor on the order of
    the children: the three lists of terms are the same up to their order (they are listed along the
    branches), the Sametree flag is the same, and so are the printed weighted RF and KF^2 *)
Theorem C08_compare_weighted_invariant :
  forall tips t1 t1' t2 t2',
    good t1 -> good t2 -> Permutation (leaves t1) (leaves t2) ->
    dupfree t1 -> dupfree t2 -> tipflags t1 -> tipflags t2 ->
    good t1' -> good t2' ->
    tipset t1' = tipset t1 -> tipset t2' = tipset t2 ->
    Permutation (branch_splits (tipset t1') t1') (branch_splits (tipset t1) t1) ->
    Permutation (branch_splits (tipset t2') t2') (branch_splits (tipset t2) t2) ->
    Permutation (leaves t1') (leaves t2') ->
    exists w w',
      compare_weighted tips false t1 t2 = Some (Ok w) /\ compare_weighted tips false t1' t2' = Some (Ok w') /\
      Permutation (ws_tree1 w') (ws_tree1 w) /\ Permutation (ws_tree2 w') (ws_tree2 w) /\
      Permutation (ws_common w') (ws_common w) /\
      ws_same w' = ws_same w /\ ws_err w' = ws_err w /\
      (wrf_of w' == wrf_of w)%Q /\ (kf2_of w' == kf2_of w)%Q.
Proof. exact compare_weighted_invariant. Qed.
Print Assumptions C08_compare_weighted_invariant.

Theorem C08_compare_weighted_reroot_both :
  forall tips t1 t2 i j t1' t2',
    unrooted t1 -> unrooted t2 -> Permutation (leaves t1) (leaves t2) ->
    reroot t1 i = Ok t1' -> good t1' ->
    reroot t2 j = Ok t2' -> good t2' ->
    exists w w',
      compare_weighted tips false t1 t2 = Some (Ok w) /\ compare_weighted tips false t1' t2' = Some (Ok w') /\
      Permutation (ws_tree1 w') (ws_tree1 w) /\ Permutation (ws_tree2 w') (ws_tree2 w) /\
      Permutation (ws_common w') (ws_common w) /\
      ws_same w' = ws_same w /\ ws_err w' = ws_err w /\
      (wrf_of w' == wrf_of w)%Q /\ (kf2_of w' == kf2_of w)%Q.
Proof. exact compare_weighted_reroot_both. Qed.
Print Assumptions C08_compare_weighted_reroot_both.

Theorem C08_compare_weighted_tperm_both :
  forall tips t1 t2 t1' t2',
    unrooted t1 -> unrooted t2 -> Permutation (leaves t1) (leaves t2) ->
    tperm t1 t1' -> good t1' ->
    tperm t2 t2' -> good t2' ->
    exists w w',
      compare_weighted tips false t1 t2 = Some (Ok w) /\ compare_weighted tips false t1' t2' = Some (Ok w') /\
      Permutation (ws_tree1 w') (ws_tree1 w) /\ Permutation (ws_tree2 w') (ws_tree2 w) /\
      Permutation (ws_common w') (ws_common w) /\
      ws_same w' = ws_same w /\ ws_err w' = ws_err w /\
      (wrf_of w' == wrf_of w)%Q /\ (kf2_of w' == kf2_of w)%Q.
Proof. exact compare_weighted_tperm_both. Qed.
Print Assumptions C08_compare_weighted_tperm_both.

Example C08_weighted_reroot_example :
  reroot wit_w1 1 = Ok wit_w1_rr /\ good wit_w1_rr /\ reroot wit_w2 1 = Ok wit_w2_rr /\ good wit_w2_rr /\
  compare_weighted true false wit_w1_rr wit_w2_rr =
  Some (Ok (mkWS [2%Q] [(1#2)%Q] [0%Q; 0%Q; 0%Q; (-2)%Q] false EmptyString)).
Proof. exact weighted_reroot_example. Qed.
Print Assumptions C08_weighted_reroot_example.
