(** C07, companion: the oracle functions of the judge (Spec/Contract.v, used by Judge/C07.v) accept
    the model's output on unrooted trees of the domain ([unrooted]: well formed, root with at least
    three neighbours, no single-child node, distinct tip names), for the commands' default flags.
    Relies on C08's [CompareDupfree.unrooted_dupfree] (two branches of such a tree never define
    the same bipartition, hence [usplits] lists one split per branch with its own length and
    support). *)
From Coq Require Import String ZArith QArith Bool Arith List.
From GT Require Import Base.UTree Spec.Obs Spec.Contract Model.Reroot Model.Collapse Proofs.CollapseOracleFull Proofs.OracleMeaning.
Import ListNotations.
Local Close Scope Q_scope.

(** [collapse_ok cr t g = None]: g is well formed, has the tips of t, its [usplits] are exactly
    the tip splits and the inner splits of t that do not satisfy the criterion, each with the
    length and support it has in t *)
Theorem C07_oracle_accepts_collapse_len :
  forall l t, unrooted t -> collapse_ok (CLen l) t (collapse_len l false false t) = None.
Proof. exact collapse_len_oracle. Qed.
Print Assumptions C07_oracle_accepts_collapse_len.

Theorem C07_oracle_accepts_collapse_sup :
  forall s t, unrooted t -> collapse_ok (CSup s) t (collapse_sup s false t) = None.
Proof. exact collapse_sup_oracle. Qed.
Print Assumptions C07_oracle_accepts_collapse_sup.

(** collapse by depth: no refusal, and the criterion of the oracle (light side of the canonical
    bipartition) is the one the model selects with (ntaxleft / ntaxright) *)
Theorem C07_oracle_accepts_collapse_depth :
  forall mn mx t, unrooted t ->
  exists g, collapse_depth mn mx false false t = Ok g /\ collapse_ok (CDepth mn mx) t g = None.
Proof. exact collapse_depth_oracle. Qed.
Print Assumptions C07_oracle_accepts_collapse_depth.

(** [resolve_ok t g = None] for every choice vector: g well formed, same tips, fully binary, every
    split of t present in g with the same length and support, every other split of g of length 0
    without support, same distance matrix *)
Theorem C07_oracle_accepts_resolve :
  forall t cs, unrooted t -> resolve_ok t (resolve t cs) = None.
Proof. exact resolve_oracle_accepts. Qed.
Print Assumptions C07_oracle_accepts_resolve.

(** * what the oracle functions say *)
(** [collapse_ok cr t g = None] iff g is well formed, has the tips of t, and its splits are exactly
    the expected ones (tip splits, the root split of a rooted tree, inner splits not satisfying the
    criterion), each found with the same length and support, and conversely *)
Theorem C07_collapse_ok_meaning :
  forall cr t g,
  collapse_ok cr t g = None <->
  wf g = true /\ sset_eqb (ssort (leaves t)) (ssort (leaves g)) = true /\
  same_splits (expected_after_collapse cr t) (usplits g).
Proof. exact collapse_ok_meaning. Qed.
Print Assumptions C07_collapse_ok_meaning.

(** [resolve_ok t g = None] iff g is well formed, has the tips of t, is fully binary, contains
    every split of t with its length and support, every other split has length 0 and no support,
    and the distance matrices are equal *)
Theorem C07_resolve_ok_meaning :
  forall t g,
  resolve_ok t g = None <->
  wf g = true /\ sset_eqb (ssort (leaves t)) (ssort (leaves g)) = true /\
  (Forall (fun x => degree x <= 3) (nodes g) /\ no_single g = true /\ 2 <= degree g) /\
  (forall s, In s (usplits t) -> exists s', find_split (sside s) (usplits g) = Some s' /\ same_len_sup s s' = true) /\
  (forall s', In s' (usplits g) -> find_split (sside s') (usplits t) = None ->
              qeqb (slen s') 0%Q = true /\ qeqb (ssup s') nilv = true) /\
  matrix_eqb (dist_matrix len0 t) (dist_matrix len0 g) = true.
Proof. exact resolve_ok_meaning. Qed.
Print Assumptions C07_resolve_ok_meaning.

(** * non-vacuity: (a,b,(c,d,(e,f)0.9:0)0.2:2,g,h) is in the domain; the oracle really removes and keeps *)
Local Open Scope string_scope.
Definition ox (n : string) : slot := Some (mkE 1%Q nilv nilv [], UNode n [] [None]).
Definition oxt : utree :=
  UNode "" [] [ox "a"; ox "b";
               Some (mkE 2 (1#5) nilv [], UNode "" [] [None; ox "c"; ox "d";
                     Some (mkE 0 (9#10) nilv [], UNode "" [] [None; ox "e"; ox "f"])]);
               ox "g"; ox "h"]%Q.
Example C07_unrooted_dom_inhabited :
  unrooted oxt /\ length (usplits oxt) = 10 /\
  length (usplits (collapse_len 0%Q false false oxt)) = 9 /\
  length (usplits (collapse_sup (1#2)%Q false oxt)) = 9 /\
  length (usplits (resolve oxt [0; 1; 0; 0; 1; 0; 2; 3])) = 13.
Proof.
  split; [|vm_compute; repeat split; reflexivity].
  unfold unrooted, CompareDomain.unrooted, IndexSplit.good. repeat split; try reflexivity.
  - vm_compute. auto.
  - vm_compute. repeat constructor; simpl; intuition discriminate.
  - vm_compute. auto.
Qed.
Print Assumptions C07_unrooted_dom_inhabited.
