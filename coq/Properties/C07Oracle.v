(** C07, companion: the oracle functions of the judge (Spec/Contract.v, used by Judge/C07.v) accept
    the model's output on unrooted trees of the domain ([unrooted]: well formed, root with at least
    three neighbours, no single-child node, distinct tip names), for the commands' default flags.
    Relies on C08's [CompareDupfree.unrooted_dupfree] (two branches of such a tree never define
    the same bipartition, hence [usplits] lists one split per branch with its own length and
    support). *)
From Coq Require Import String ZArith QArith Bool Arith List.
From GT Require Import Base.UTree Spec.Obs Spec.Contract Model.Reroot Model.Collapse Proofs.CollapseOracleFull.
Import ListNotations.
Local Close Scope Q_scope.

(** [collapse_ok cr t g = None]: g is well formed, has the tips of t, its [usplits] are exactly
    the tip splits and the inner splits of t that do not satisfy the criterion, each with the
    length and support it has in t *)
Theorem C07_oracle_accepts_collapse_len :
  forall l t, unrooted t -> collapse_ok (CLen l) t (collapse_len l false false t) = None.
Proof. exact collapse_len_oracle. Qed.
Print Assumptions C07_oracle_accepts_collapse_len.

Theorem C07_oracle_accepts_collapse_sup :
  forall s t, unrooted t -> collapse_ok (CSup s) t (collapse_sup s false t) = None.
Proof. exact collapse_sup_oracle. Qed.
Print Assumptions C07_oracle_accepts_collapse_sup.

(** collapse by depth: no refusal, and the criterion of the oracle (light side of the canonical
    bipartition) is the one the model selects with (ntaxleft / ntaxright) *)
Theorem C07_oracle_accepts_collapse_depth :
  forall mn mx t, unrooted t ->
  exists g, collapse_depth mn mx false false t = Ok g /\ collapse_ok (CDepth mn mx) t g = None.
Proof. exact collapse_depth_oracle. Qed.
Print Assumptions C07_oracle_accepts_collapse_depth.

(** [resolve_ok t g = None] for every choice vector: g well formed, same tips, fully binary, every
    split of t present in g with the same length and support, every other split of g of length 0
    without support, same distance matrix *)
Theorem C07_oracle_accepts_resolve :
  forall t cs, unrooted t -> resolve_ok t (resolve t cs) = None.
Proof. exact resolve_oracle_accepts. Qed.
Print Assumptions C07_oracle_accepts_resolve.
