(** C07, companion: resolve on inputs that may contain single-child inner nodes (chains, above a
    polytomy, the old root after Reroot()).  "Fully binary" there means: the single-child nodes
    stay as they are and none is created; every node ends with at most three neighbours; the
    splits of the input keep their (merged) length and support; the added branches have length 0
    and no support; tip names and tip-to-tip distances are unchanged.  The oracle of the judge for
    these inputs ([resolve_ok_single], Spec/Contract.v) says exactly that, and accepts the model's
    output for every well-formed tree with distinct tip names whose root has at least two
    neighbours, whatever the random choices. *)
From Coq Require Import String ZArith QArith Bool Arith List Permutation.
From GT Require Import Base.UTree Spec.Obs Spec.Contract Model.Reroot Model.Collapse
     Proofs.OracleMeaning Proofs.ResolveSingle Proofs.ResolveSingleOracle.
Import ListNotations.
Local Close Scope Q_scope.

Theorem C07_single_oracle_accepts_resolve :
  forall t cs, wf t = true -> 2 <= degree t -> NoDup (leaves t) ->
  resolve_ok_single t (resolve t cs) = None.
Proof. exact resolve_oracle_accepts_single. Qed.
Print Assumptions C07_single_oracle_accepts_resolve.

Theorem C07_resolve_ok_single_meaning :
  forall t g,
  resolve_ok_single t g = None <->
  wf g = true /\ sset_eqb (ssort (leaves t)) (ssort (leaves g)) = true /\
  (Forall (fun x => degree x <= 3) (nodes g) /\ 2 <= degree g) /\
  count_single g = count_single t /\
  (forall s, In s (usplits t) -> exists s', find_split (sside s) (usplits g) = Some s' /\ same_len_sup s s' = true) /\
  (forall s', In s' (usplits g) -> find_split (sside s') (usplits t) = None ->
              qeqb (slen s') 0%Q = true /\ qeqb (ssup s') nilv = true) /\
  matrix_eqb (dist_matrix len0 t) (dist_matrix len0 g) = true.
Proof. exact resolve_ok_single_meaning. Qed.
Print Assumptions C07_resolve_ok_single_meaning.

(** single-child inner nodes stay and none is created, for every well-formed tree *)
Theorem C07_resolve_keeps_single_nodes :
  forall t cs, wf t = true -> count_single (resolve t cs) = count_single t.
Proof. exact resolve_count. Qed.
Print Assumptions C07_resolve_keeps_single_nodes.

(** * non-vacuity: (((A,B,C,D)),E,F) with both branches of the chain without a length *)
Local Open Scope string_scope.
Definition sx (n : string) : slot := Some (mkE 1%Q nilv nilv [], UNode n [] [None]).
Definition sxt : utree :=
  UNode "" [] [Some (mkE nilv nilv nilv [],
                     UNode "" [] [None; Some (mkE nilv (1#2)%Q nilv [],
                                              UNode "" [] [None; sx "A"; sx "B"; sx "C"; sx "D"])]);
               sx "E"; sx "F"].
Example C07_single_dom_inhabited :
  wf sxt = true /\ degree sxt = 3 /\ NoDup (leaves sxt) /\ no_single sxt = false /\ count_single sxt = 1 /\
  length (usplits sxt) = 7 /\ length (usplits (resolve sxt [0; 1; 2; 3; 0; 1])) = 9 /\
  resolve_ok_single sxt (resolve sxt [0; 1; 2; 3; 0; 1]) = None /\
  resolve_ok_single sxt sxt = Some "a node keeps more than three neighbours".
Proof.
  split; [reflexivity|]. split; [reflexivity|]. split.
  - vm_compute. repeat constructor; simpl; intuition discriminate.
  - vm_compute. repeat split; reflexivity.
Qed.
Print Assumptions C07_single_dom_inhabited.
