(** C11, concurrency part, third round: three mechanisms around the pools.
    (a) Model/PoolFeed.v — ReadMultiTrees: a producer goroutine sends the parsed trees, then (on a
        parse error) an error record, into a channel of capacity c, and closes; the consumers
        (the pool workers) receive.  Blocking send of the error record (source) vs
        `select ... default` (seeded regression).  Schedule: 0 producer, i+1 consumer i.
    (b) Model/PoolErr.v — FBP: a failing worker hands its error over under a mutex (source) vs
        through a capacity-1 channel with a blocking send before wg.Done() (regression).
    (c) Model/PoolSplit.v — TBE: edges through a channel (source) vs contiguous blocks of
        len/cpu edges (regression).
    Theorems named *_refuted state that the property FAILS for the regressed variant. *)
From Coq Require Import Bool Arith List Permutation.
From GT Require Import Model.Pool Model.PoolFeed Model.PoolErr Model.PoolSplit.
From GT Require Import Proofs.Pool Proofs.PoolFeed Proofs.PoolErr Proofs.PoolSplit Proofs.Pool3Main.
Import ListNotations.

Local Arguments run {job res err}.
Local Arguments init {job res err}.
Local Arguments finished {job res err} s.
Local Arguments out {job res err} s.
Local Arguments fgot {item} _.
Local Arguments fchan {item} _.
Local Arguments frun {item}.
Local Arguments finit {item}.
Local Arguments ffinished {item} _.
Local Arguments produced {item}.
Local Arguments efirst {job err} _.
Local Arguments erun {job err}.
Local Arguments einit {job err}.
Local Arguments efinished {job err} _.
Local Arguments split_processed {edge}.

(** * (a) ReadMultiTrees' producer *)

(** blocking sends: for every interleaving, every capacity c >= 0 and every number k >= 1 of
    consumers, when the consumers are done they have received exactly the produced sequence,
    in order, error record included *)
Theorem feed_blocking_send_delivers_everything :
  forall (item : Type) (c : nat) (items : list item) (err : option item) (k : nat) (sched : list nat),
    1 <= k ->
    let s := frun c true sched (finit items err k) in
    ffinished s = true -> fgot s = produced items err.
Proof. exact feed_blocking_delivers_all. Qed.
Print Assumptions feed_blocking_send_delivers_everything.

Theorem feed_error_record_reaches_the_consumers :
  forall (item : Type) (c : nat) (items : list item) (e : item) (k : nat) (sched : list nat),
    1 <= k ->
    let s := frun c true sched (finit items (Some e) k) in
    ffinished s = true -> fgot s = items ++ [e].
Proof. exact feed_error_reaches_consumers. Qed.
Print Assumptions feed_error_record_reaches_the_consumers.

(** both variants, at every moment: what has been received is a prefix of what was produced *)
Theorem feed_channel_is_fifo :
  forall (item : Type) (c : nat) (b : bool) (items : list item) (err : option item) (k : nat)
         (sched : list nat),
    let s := frun c b sched (finit items err k) in
    exists rest, produced items err = fgot s ++ rest.
Proof. exact feed_fifo. Qed.
Print Assumptions feed_channel_is_fifo.

(** both variants: from every reachable state the consumers can still finish *)
Theorem feed_deadlock_free :
  forall (item : Type) (c : nat) (b : bool) (items : list item) (err : option item) (k : nat)
         (sched : list nat),
    exists cont, ffinished (frun c b cont (frun c b sched (finit items err k))) = true.
Proof. exact feed_no_deadlock. Qed.
Print Assumptions feed_deadlock_free.

(** the regression: the only thing that can go wrong is the loss of the error record ... *)
Theorem feed_nonblocking_send_loses_only_the_error :
  forall (item : Type) (c : nat) (items : list item) (err : option item) (k : nat) (sched : list nat),
    1 <= k ->
    let s := frun c false sched (finit items err k) in
    ffinished s = true -> fgot s = produced items err \/ (err <> None /\ fgot s = items).
Proof. exact feed_nonblocking_loses_only_the_error. Qed.
Print Assumptions feed_nonblocking_send_loses_only_the_error.

(** ... and it does go wrong: capacity 1, trees [1;2], error record 99, one consumer; the buffer
    is full when the producer reaches the `select`, the record is dropped, the consumer ends
    with [1;2] and never learns of the error *)
Theorem feed_nonblocking_send_delivers_everything_refuted :
  ~ (forall c (items : list nat) err k sched, 1 <= k ->
       let s := frun c false sched (finit items err k) in
       ffinished s = true -> fgot s = produced items err).
Proof. exact feed_nonblocking_delivers_all_refuted. Qed.
Print Assumptions feed_nonblocking_send_delivers_everything_refuted.

Example feed_example_record_lost :
  let s := frun 1 false feed_bad_sched (finit [1;2] (Some 99) 1) in
  ffinished s = true /\ fgot s = [1;2] /\ fchan s = [].
Proof. exact feed_nonblocking_witness. Qed.
Print Assumptions feed_example_record_lost.

Example feed_example_record_delivered :
  let s := frun 1 true (feed_bad_sched ++ [0;1;0;1;1]) (finit [1;2] (Some 99) 1) in
  ffinished s = true /\ fgot s = [1;2;99].
Proof. exact feed_blocking_example. Qed.
Print Assumptions feed_example_record_delivered.

(** * (b) FBP's error hand-over *)

(** mutex + keep the first error: from every reachable state, for every number of workers and
    of erroneous trees, some continuation brings every worker to wg.Done() *)
Theorem fbp_mutex_handover_terminates :
  forall (job err : Type) (fails : job -> bool) (e_of : job -> err)
         (jobs : list job) (n : nat) (sched : list nat),
    exists cont,
      efinished (erun fails e_of ByMutex cont (erun fails e_of ByMutex sched (einit jobs n))) = true.
Proof. exact fbp_mutex_terminates. Qed.
Print Assumptions fbp_mutex_handover_terminates.

(** error channel of capacity 1, blocking send before Done: two erroneous trees and two workers
    suffice — after "send both, each worker takes one, the first hands its error over" NO
    continuation lets wg.Wait() return *)
Theorem fbp_channel_handover_deadlocks :
  forall (job err : Type) (fails : job -> bool) (e_of : job -> err)
         (j1 j2 : job) (rest : list job) (n : nat) (cont : list nat),
    fails j1 = true -> fails j2 = true -> 2 <= n ->
    efinished (erun fails e_of ByChan cont
                 (erun fails e_of ByChan [0; 0; 1; 2; 1] (einit (j1 :: j2 :: rest) n))) = false.
Proof. exact fbp_chan_deadlocks. Qed.
Print Assumptions fbp_channel_handover_deadlocks.

Theorem fbp_channel_handover_terminates_refuted :
  ~ (forall (fails : nat -> bool) (jobs : list nat) n sched,
       exists cont,
         efinished (erun fails (fun j => j) ByChan cont
                          (erun fails (fun j => j) ByChan sched (einit jobs n))) = true).
Proof. exact fbp_chan_terminates_refuted. Qed.
Print Assumptions fbp_channel_handover_terminates_refuted.

Example fbp_example_mutex :
  let s := erun (fun _ => true) (fun j => 100 + j) ByMutex
                [0;0;0;0; 1;2;3; 2;1;3; 2;2; 3;3;3; 1;1;1] (einit [1;2;3] 3) in
  efinished s = true /\ efirst s = Some 102.
Proof. exact fbp_mutex_example. Qed.
Print Assumptions fbp_example_mutex.

(** * (c) TBE: who processes which edge *)

(** through a channel: every edge exactly once, for every cpu >= 1 and every schedule *)
Theorem tbe_channel_feed_processes_every_edge_once :
  forall (edge : Type) (edges : list edge) (cpu : nat) (sched : list nat),
    1 <= cpu ->
    let s := run (fun e : edge => e) (fun _ => false) (fun _ => tt) Continue true sched
                 (init edges cpu) in
    finished s = true -> Permutation (out s) edges.
Proof. exact channel_feed_every_edge_once. Qed.
Print Assumptions tbe_channel_feed_processes_every_edge_once.

(** contiguous blocks of len/cpu edges: complete exactly when cpu divides len *)
Theorem tbe_static_split_complete_iff_divisible :
  forall (edge : Type) (edges : list edge) (cpu : nat),
    1 <= cpu -> (Permutation (split_processed edges cpu) edges <-> length edges mod cpu = 0).
Proof. exact static_split_complete_iff. Qed.
Print Assumptions tbe_static_split_complete_iff_divisible.

(** otherwise exactly the last len mod cpu edges are processed by nobody *)
Theorem tbe_static_split_drops_the_remainder :
  forall (edge : Type) (edges : list edge) (cpu : nat),
    1 <= cpu ->
    edges = split_processed edges cpu ++ skipn (cpu * (length edges / cpu)) edges
    /\ length (split_processed edges cpu) = length edges - length edges mod cpu.
Proof. exact static_split_drops_the_remainder. Qed.
Print Assumptions tbe_static_split_drops_the_remainder.

Theorem tbe_static_split_processes_every_edge_once_refuted :
  ~ (forall (edges : list nat) cpu, 1 <= cpu -> Permutation (split_processed edges cpu) edges).
Proof. exact static_split_every_edge_once_refuted. Qed.
Print Assumptions tbe_static_split_processes_every_edge_once_refuted.

Example tbe_example_static_split :
  split_processed [1;2;3;4;5] 2 = [1;2;3;4] /\ split_processed [1;2;3;4;5;6] 2 = [1;2;3;4;5;6]
  /\ split_processed [1;2;3] 4 = [].
Proof. exact static_split_example. Qed.
Print Assumptions tbe_example_static_split.
