(** C13: format conversions and reader entry points agree.
    Models: Model/Clade.v (PhyloXML writeClade / cladeToTree on decoded clade values, the
    accessors FirstTree / IterateTrees of PhyloXML and Nextstrain), Model/Nexus.v (Nexus
    parser and its accessors), Model/MultiTree.v (multi-Newick reader).
    [rose_of t] is the rooted ordered tree with all decorations (Spec/NewickSpec.v);
    [rose_eqb] compares shape, child order, names, comments and numbers up to Qeq. *)
From Coq Require Import String Ascii ZArith QArith Bool Arith List.
From GT Require Import Base.UTree Spec.NewickSpec Model.MultiTree Model.Nexus Model.Clade
     Proofs.MultiTree Proofs.MultiTreeSkip Proofs.NexusRoundExamples Proofs.NexusTotal Proofs.NexusFirst Proofs.Clade.
Import ListNotations.
Local Close Scope Q_scope.
Local Open Scope string_scope.

(** * Newick -> PhyloXML -> Newick *)
(** a tree whose childless nodes are named comes back as its PhyloXML normal form: parent
    slot first, comments and p-values dropped, support kept on branches above nodes with
    children *)
Theorem C13_phyloxml_round_trip : forall t,
    named t = true -> clade_to_tree (write_clade None t) = inl (px_norm true t).
Proof. exact clade_round_trip. Qed.
Print Assumptions C13_phyloxml_round_trip.

(** and that is the same tree -- shape, child order, names, lengths, supports -- for every
    well-formed tree that carries only what PhyloXML can carry *)
Theorem C13_phyloxml_round_trip_same_tree : forall t,
    wf t = true -> named t = true -> px_plain t = true ->
    exists t', clade_to_tree (write_clade None t) = inl t' /\
               rose_eqb (rose_of t') (rose_of t) = true.
Proof. exact clade_round_trip_same_tree. Qed.
Print Assumptions C13_phyloxml_round_trip_same_tree.

(** the hypotheses are satisfiable: an unrooted tree with lengths, a support and a named inner node *)
Example C13_phyloxml_domain_inhabited :
  let t := UNode "" [] [Some (mkE (1#2) nilv nilv [], UNode "a" [] [None]);
                        Some (mkE nilv nilv nilv [], UNode "b" [] [None]);
                        Some (mkE 2 (3#4) nilv [], UNode "" [] [Some (e0, UNode "c" [] [None]); None;
                                                                Some (mkE 0 nilv nilv [], UNode "I" [] [None; Some (e0, UNode "d" [] [None]); Some (e0, UNode "e" [] [None])])])] in
  wf t = true /\ named t = true /\ px_plain t = true.
Proof. vm_compute. repeat split. Qed.
Print Assumptions C13_phyloxml_domain_inhabited.

(** * every tree of a multi-tree file is delivered in order with consecutive ids *)
Theorem C13_phyloxml_ids_consecutive : forall d, map fst (iterate_phyloxml d) = seq 0 (length d).
Proof. exact phyloxml_ids_consecutive. Qed.
Print Assumptions C13_phyloxml_ids_consecutive.

Theorem C13_phyloxml_all_delivered : forall d, map snd (iterate_phyloxml d) = map clade_to_tree d.
Proof. exact phyloxml_all_delivered. Qed.
Print Assumptions C13_phyloxml_all_delivered.

Theorem C13_nexus_ids_consecutive :
  forall (np : string -> utree + string) s d,
    nexus_parse np s = Nexus.POk d ->
    exists l, iterate_nexus np s = Some l /\
              map fst l = seq 0 (length (doc_trees d)) /\
              map snd l = map (fun p => inl (snd p)) (doc_trees d).
Proof. exact nexus_ids_consecutive. Qed.
Print Assumptions C13_nexus_ids_consecutive.

(** multi-Newick stream: ids count from 0, an error record ends the stream *)
Theorem C13_newick_ids_consecutive :
  forall (np : string -> utree + string) reads l, read_multi np reads = MDone l -> ids_from 0 l.
Proof. exact read_multi_ids. Qed.
Print Assumptions C13_newick_ids_consecutive.

(** * first tree = head of the iteration *)
Theorem C13_phyloxml_first_is_head : forall d,
    first_tree_phyloxml d = head_rec (iterate_phyloxml d) "No tree in the input PhyloXML file".
Proof. exact phyloxml_first_is_head. Qed.
Print Assumptions C13_phyloxml_first_is_head.

(** the accessor of the unchanged code (before 2b87fca) returned no tree on a file whose tree
    the iterator delivers *)
Theorem C13_phyloxml_first_is_head_unfixed_refuted :
  exists d, first_tree_phyloxml_unfixed d <> head_rec (iterate_phyloxml d) "No tree in the input PhyloXML file".
Proof. exact phyloxml_first_is_head_unfixed_refuted. Qed.
Print Assumptions C13_phyloxml_first_is_head_unfixed_refuted.

Theorem C13_nexus_first_is_head :
  forall (np : string -> utree + string) s,
    exists f l, first_tree_nexus np s = Some f /\ iterate_nexus np s = Some l /\
                f = head_rec l "No tree in the input Nexus file".
Proof. exact nexus_first_is_head. Qed.
Print Assumptions C13_nexus_first_is_head.

Theorem C13_nextstrain_first_is_head : forall c,
    first_tree_nextstrain c = head_rec (iterate_nextstrain c) "No tree in the input Nextstrain file".
Proof. exact nextstrain_first_is_head. Qed.
Print Assumptions C13_nextstrain_first_is_head.

(** * "none is silently skipped" is false of the multi-Newick reader as coded: the splitter
    cuts only at a ';' that ends a physical line and the parser stops at the first ';'.  Of
    three trees, two of them on one line, the second is dropped: two records, ids 0 and 1, no
    error (open finding C13-newick-two-trees-one-line).  One tree per line: all delivered. *)
Theorem C13_newick_none_skipped_refuted :
  records ("(a,b);(c,d);" ++ nl ++ "(e,f);" ++ nl) = [(0, "(a,b);"); (1, "(e,f);")].
Proof. exact two_trees_one_line_skips. Qed.
Print Assumptions C13_newick_none_skipped_refuted.

Theorem C13_newick_one_per_line_example :
  records ("(a,b);" ++ nl ++ "(c,d);" ++ nl ++ "(e,f);" ++ nl) = [(0, "(a,b);"); (1, "(c,d);"); (2, "(e,f);")].
Proof. exact one_tree_per_line_delivers_all. Qed.
Print Assumptions C13_newick_one_per_line_example.

(** * Newick -> Nexus -> Newick on concrete lists (the general statement is established by
    the correspondence check only): on one common taxon set the trees come back, with and
    without a translate table; when the taxon sets differ the parser rejects the writer's
    output, because TAXLABELS holds the union and every tree must have all of them (open
    finding C13-nexus-taxa-union) *)
Theorem C13_nexus_round_trip_example : forall translate : bool,
    read_back (write_nexus wC translate [(0, t_abc); (1, t_cab)]) = inl [wC t_abc; wC t_cab].
Proof. exact nexus_round_trip_same_taxa. Qed.
Print Assumptions C13_nexus_round_trip_example.

Theorem C13_nexus_round_trip_differing_taxa_refuted : forall translate : bool,
    read_back (write_nexus wC translate [(0, t_abc); (1, t_ab)]) =
    inr "Some tax names defined in TAXLABELS are not present in the tree".
Proof. exact nexus_round_trip_differing_taxa. Qed.
Print Assumptions C13_nexus_round_trip_differing_taxa_refuted.

Theorem C13_tree_nexus_round_trip_example : read_back (tree_nexus wC t_cab) = inl [wC t_cab].
Proof. exact tree_nexus_round_trip. Qed.
Print Assumptions C13_tree_nexus_round_trip_example.
