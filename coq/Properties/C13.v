(** C13: format conversions and reader entry points agree.
    Models: Model/Clade.v (PhyloXML writeClade / cladeToTree on decoded clade values, the
    accessors FirstTree / IterateTrees of PhyloXML and Nextstrain), Model/Nexus.v (Nexus
    parser and its accessors), Model/MultiTree.v (multi-Newick reader).
    [rose_of t] is the rooted ordered tree with all decorations (Spec/NewickSpec.v);
    [rose_eqb] compares shape, child order, names, comments and numbers up to Qeq. *)
From Coq Require Import String Ascii ZArith QArith Bool Arith List.
From GT Require Import Base.UTree Spec.NewickSpec Model.MultiTree Model.Nexus Model.Clade
     Proofs.MultiTree Proofs.MultiTreeSkip Proofs.MultiTreeSpec Proofs.NexusRoundExamples Proofs.NexusTotal Proofs.NexusFirst Proofs.Clade
     Model.Newick Model.NewickNum Proofs.NewickCanon Proofs.NewickNumC Proofs.NexusWords Proofs.NexusRoundTrip Proofs.NexusRoundTripMain
     Proofs.NexusRoundTripC01 Proofs.NexusRoundTripTr Proofs.NexusRoundTripExample Proofs.NewickFirst Proofs.NexusRename
     Proofs.NexusNewickText Proofs.NexusDomain Proofs.NexusProperty Proofs.NexusTranslate Proofs.NexusPrinted
     Proofs.NexusTranslateProperty Proofs.C13Property Proofs.C13PropertyExample Proofs.MultiTreeList Proofs.MultiTreeListMore Proofs.NexusBlocks.
Import ListNotations.
Local Close Scope Q_scope.
Local Open Scope string_scope.

(** * Newick -> PhyloXML -> Newick *)
(** a tree whose childless nodes are named comes back as its PhyloXML normal form: parent
    slot first, comments and p-values dropped, support kept on branches above nodes with
    children *)
Theorem C13_phyloxml_round_trip : forall t,
    named t = true -> clade_to_tree (write_clade None t) = inl (px_norm true t).
Proof. exact clade_round_trip. Qed.
Print Assumptions C13_phyloxml_round_trip.

(** and that is the same tree -- shape, child order, names, lengths, supports -- for every
    well-formed tree that carries only what PhyloXML can carry *)
Theorem C13_phyloxml_round_trip_same_tree : forall t,
    wf t = true -> named t = true -> px_plain t = true ->
    exists t', clade_to_tree (write_clade None t) = inl t' /\
               rose_eqb (rose_of t') (rose_of t) = true.
Proof. exact clade_round_trip_same_tree. Qed.
Print Assumptions C13_phyloxml_round_trip_same_tree.

(** the hypotheses are satisfiable: an unrooted tree with lengths, a support and a named inner node *)
Example C13_phyloxml_domain_inhabited :
  let t := UNode "" [] [Some (mkE (1#2) nilv nilv [], UNode "a" [] [None]);
                        Some (mkE nilv nilv nilv [], UNode "b" [] [None]);
                        Some (mkE 2 (3#4) nilv [], UNode "" [] [Some (e0, UNode "c" [] [None]); None;
                                                                Some (mkE 0 nilv nilv [], UNode "I" [] [None; Some (e0, UNode "d" [] [None]); Some (e0, UNode "e" [] [None])])])] in
  wf t = true /\ named t = true /\ px_plain t = true.
Proof. vm_compute. repeat split. Qed.
Print Assumptions C13_phyloxml_domain_inhabited.

(** * every tree of a multi-tree file is delivered in order with consecutive ids *)
Theorem C13_phyloxml_ids_consecutive : forall d, map fst (iterate_phyloxml d) = seq 0 (length d).
Proof. exact phyloxml_ids_consecutive. Qed.
Print Assumptions C13_phyloxml_ids_consecutive.

Theorem C13_phyloxml_all_delivered : forall d, map snd (iterate_phyloxml d) = map clade_to_tree d.
Proof. exact phyloxml_all_delivered. Qed.
Print Assumptions C13_phyloxml_all_delivered.

Theorem C13_nexus_ids_consecutive :
  forall (np : string -> utree + string) s d,
    nexus_parse np s = Nexus.POk d ->
    exists l, iterate_nexus np s = Some l /\
              map fst l = seq 0 (length (doc_trees d)) /\
              map snd l = map (fun p => inl (snd p)) (doc_trees d).
Proof. exact nexus_ids_consecutive. Qed.
Print Assumptions C13_nexus_ids_consecutive.

(** multi-Newick stream: ids count from 0, an error record ends the stream *)
Theorem C13_newick_ids_consecutive :
  forall (np : string -> utree + string) reads l, read_multi np reads = MDone l -> ids_from 0 l.
Proof. exact read_multi_ids. Qed.
Print Assumptions C13_newick_ids_consecutive.

(** * first tree = head of the iteration *)
Theorem C13_phyloxml_first_is_head : forall d,
    first_tree_phyloxml d = head_rec (iterate_phyloxml d) "No tree in the input PhyloXML file".
Proof. exact phyloxml_first_is_head. Qed.
Print Assumptions C13_phyloxml_first_is_head.

(** the accessor of the unchanged code (before 2b87fca) returned no tree on a file whose tree
    the iterator delivers *)
Theorem C13_phyloxml_first_is_head_unfixed_refuted :
  exists d, first_tree_phyloxml_unfixed d <> head_rec (iterate_phyloxml d) "No tree in the input PhyloXML file".
Proof. exact phyloxml_first_is_head_unfixed_refuted. Qed.
Print Assumptions C13_phyloxml_first_is_head_unfixed_refuted.

Theorem C13_nexus_first_is_head :
  forall (np : string -> utree + string) s,
    exists f l, first_tree_nexus np s = Some f /\ iterate_nexus np s = Some l /\
                f = head_rec l "No tree in the input Nexus file".
Proof. exact nexus_first_is_head. Qed.
Print Assumptions C13_nexus_first_is_head.

Theorem C13_nextstrain_first_is_head : forall c,
    first_tree_nextstrain c = head_rec (iterate_nextstrain c) "No tree in the input Nextstrain file".
Proof. exact nextstrain_first_is_head. Qed.
Print Assumptions C13_nextstrain_first_is_head.

(** * "none is silently skipped" is false of the multi-Newick reader as coded: the splitter
    cuts only at a ';' that ends a physical line and the parser stops at the first ';'.  Of
    three trees, two of them on one line, the second is dropped: two records, ids 0 and 1, no
    error (open finding C13-newick-two-trees-one-line).  One tree per line: all delivered. *)
Theorem C13_newick_none_skipped_refuted :
  MultiTreeSkip.records ("(a,b);(c,d);" ++ nl ++ "(e,f);" ++ nl) = [(0, "(a,b);"); (1, "(e,f);")].
Proof. exact two_trees_one_line_skips. Qed.
Print Assumptions C13_newick_none_skipped_refuted.

Theorem C13_newick_one_per_line_example :
  MultiTreeSkip.records ("(a,b);" ++ nl ++ "(c,d);" ++ nl ++ "(e,f);" ++ nl) = [(0, "(a,b);"); (1, "(c,d);"); (2, "(e,f);")].
Proof. exact one_tree_per_line_delivers_all. Qed.
Print Assumptions C13_newick_one_per_line_example.

(** * Newick -> Nexus -> Newick on concrete lists (the general statement is established by
    the correspondence check only): on one common taxon set the trees come back, with and
    without a translate table; when the taxon sets differ the parser rejects the writer's
    output, because TAXLABELS holds the union and every tree must have all of them (open
    finding C13-nexus-taxa-union) *)
Theorem C13_nexus_round_trip_example : forall translate : bool,
    read_back (write_nexus wC translate [(0, t_abc); (1, t_cab)]) = inl [wC t_abc; wC t_cab].
Proof. exact nexus_round_trip_same_taxa. Qed.
Print Assumptions C13_nexus_round_trip_example.

Theorem C13_nexus_round_trip_differing_taxa_refuted : forall translate : bool,
    read_back (write_nexus wC translate [(0, t_abc); (1, t_ab)]) =
    inr "Some tax names defined in TAXLABELS are not present in the tree".
Proof. exact nexus_round_trip_differing_taxa. Qed.
Print Assumptions C13_nexus_round_trip_differing_taxa_refuted.

Theorem C13_tree_nexus_round_trip_example : read_back (tree_nexus wC t_cab) = inl [wC t_cab].
Proof. exact tree_nexus_round_trip. Qed.
Print Assumptions C13_tree_nexus_round_trip_example.

(** * the multi-Newick reader, as a function of the physical lines of the file (lines that fit
    bufio's 4096-byte buffer): lines are concatenated up to and including the first one after
    which the buffer ends with ';' (trailing blanks ignored); each chunk goes to the
    single-tree parser, which delivers at most one tree; an empty stream of chunks is the
    error record "EOF"; text after the last closing line is dropped *)
Theorem C13_newick_stream_spec :
  forall (np : string -> utree + string) lines,
    read_multi np (whole_lines lines) =
    MDone (match split_lines "" lines with
           | [] => [MultiTree.IErr 0 "EOF"]
           | cs => deliver np 0 cs
           end).
Proof. exact read_multi_lines. Qed.
Print Assumptions C13_newick_stream_spec.

(** [ends_semi]: the last byte that is not a blank or a tab is ';' *)
Theorem C13_ends_semi_meaning : forall s c bl,
    is_blank c = false -> all_blank bl = true -> ends_semi (s ++ String c bl) = is_semi c.
Proof. exact ends_semi_last_nonblank. Qed.
Print Assumptions C13_ends_semi_meaning.

Theorem C13_ends_semi_blank_line : forall s, all_blank s = true -> ends_semi s = false.
Proof. exact ends_semi_blank. Qed.
Print Assumptions C13_ends_semi_blank_line.

(** hence at most one tree per physical line, whatever the parser: a file with more trees
    than lines cannot be delivered completely, and no error is reported for the others *)
Theorem C13_newick_every_tree_delivered_refuted :
  forall (np : string -> utree + string) lines,
    n_trees (items_of (read_multi np (whole_lines lines))) <= length lines.
Proof. exact read_multi_one_tree_per_line. Qed.
Print Assumptions C13_newick_every_tree_delivered_refuted.

(** * Newick -> Nexus -> parse, general statements (token level; the Newick writer [w] and
    parser [np] are arbitrary).  [final_map l []] is the writer's taxon map, [labels_of l]
    the sorted TAXLABELS, [label_ok]: one Nexus token, identifier or number (so: no blank,
    bracket, '=', ';', ',' and not a keyword), [newick_ok s]: s ends with ';' and splits at its
    commas into such words. *)
Theorem C13_nexus_round_trip :
  forall (w : utree -> string) (np : string -> utree + string) (l : list (nat * utree)) (p : utree -> utree),
    (Z.of_nat (length (final_map l [])) < two63)%Z ->
    Forall label_ok (labels_of l) ->
    Forall (fun it => tree_ok w np (labels_of l) p (snd it)) l ->
    nexus_parse np (write_nexus w false l) =
    Nexus.POk (mkDoc (map (fun it => ("tree" ++ itoa (fst it), p (snd it))) l) false).
Proof. exact nexus_round_trip_plain. Qed.
Print Assumptions C13_nexus_round_trip.

(** with the Newick writer and parser of C01: every tree of the list comes back, in order,
    under the names tree<id>, with the same rose (shape, child order, names, lengths,
    supports, comments) *)
Theorem C13_nexus_round_trip_newick :
  forall (fmt : Q -> string) (numeric : string -> bool) (parse_num : string -> option Q) (numok : Q -> bool),
    strconv_ok fmt numeric parse_num numok ->
    forall (l : list (nat * utree)),
      (Z.of_nat (length (final_map l [])) < two63)%Z ->
      Forall label_ok (labels_of l) ->
      Forall (fun it => nexus_tree_ok fmt numeric parse_num numok (labels_of l) (snd it)) l ->
      exists ts',
        nexus_parse (np_newick numeric parse_num) (write_nexus (Newick.write fmt) false l) =
        Nexus.POk (mkDoc (combine (map (fun it => "tree" ++ itoa (fst it)) l) ts') false) /\
        Forall2 (fun it t' => rose_eqb (rose_of t') (rose_of (snd it)) = true) l ts'.
Proof. exact nexus_round_trip_c01. Qed.
Print Assumptions C13_nexus_round_trip_newick.

(** the hypotheses are satisfiable (executable strconv model of C01, two trees with lengths
    and a support on the taxa a, b, c) *)
Example C13_nexus_round_trip_inhabited :
  (Z.of_nat (length (final_map ex_list [])) < two63)%Z /\
  Forall label_ok (labels_of ex_list) /\
  Forall (fun it => nexus_tree_ok fmt_go numericC parse_numC numokC (labels_of ex_list) (snd it)) ex_list.
Proof. exact (conj ex_bound (conj ex_labels ex_trees)). Qed.
Print Assumptions C13_nexus_round_trip_inhabited.

(** with a TRANSLATE table: the parser reads back the table the writer printed
    ([tr_table (pairs_of l) []]: index -> label) and the Newick strings of the trees as
    printed ([rendered [] l]: tips renamed to indices); [p] is what the Newick parser reads,
    [q] what Tree.Rename with that table makes of it *)
Theorem C13_nexus_round_trip_translate :
  forall (w : utree -> string) (np : string -> utree + string) (l : list (nat * utree)) (p q : utree -> utree),
    (Z.of_nat (length (final_map l [])) < two63)%Z ->
    Forall label_ok (labels_of l) ->
    Forall (fun it => tree_ok_tr w np (labels_of l) (tr_table (pairs_of l) []) p q (snd it)) (rendered [] l) ->
    nexus_parse np (write_nexus w true l) =
    Nexus.POk (mkDoc (map (fun it => ("tree" ++ itoa (fst it), q (snd it))) (rendered [] l)) false).
Proof. exact nexus_round_trip_translate. Qed.
Print Assumptions C13_nexus_round_trip_translate.

(** * first tree = head of the iteration, Newick stream (the fourth format): for a file whose
    first line is the writer's text of a tree inside C01's quantifier, followed by a line
    break and anything, the single-tree reader (the parser applied to the whole file: it
    stops at the ';' that ends the first tree) and the first record of the multi-tree reader
    deliver the same tree *)
Theorem C13_newick_first_is_head :
  forall (fmt : Q -> string) (numeric : string -> bool) (parse_num : string -> option Q) (numok : Q -> bool),
    strconv_ok fmt numeric parse_num numok ->
    forall t lines,
      wfN numeric numok t = true ->
      first_tree_newick (np_nw numeric parse_num) (whole_lines (Newick.write fmt t :: lines)) =
      inl (canon_root fmt parse_num t) /\
      head_multi (read_multi (np_nw numeric parse_num) (whole_lines (Newick.write fmt t :: lines))) =
      Some (ITree 0 (canon_root fmt parse_num t)).
Proof. exact newick_first_is_head. Qed.
Print Assumptions C13_newick_first_is_head.

(** after the fix 6227553 the agreement needs no hypothesis on the layout: for EVERY input (one line, several lines, line
    breaks after labels and numbers, CRLF, lines longer than bufio's buffer) whose first ';'-terminated text is complete,
    the single-tree reader returns exactly the first record of the multi-tree reader: the same tree or the same error *)
Theorem C13_newick_first_is_head_any_layout :
  forall (np : string -> utree + string) reads line rest,
    read_until_semicolon reads = RLine line rest ->
    first_tree_newick np reads = np line /\
    head_multi (read_multi np reads) = Some (rec0 (np line)).
Proof. exact first_tree_is_head. Qed.
Print Assumptions C13_newick_first_is_head_any_layout.

Theorem C13_newick_first_is_head_eof :
  forall (np : string -> utree + string) reads line,
    read_until_semicolon reads = REof line ->
    head_multi (read_multi np reads) = Some (MultiTree.IErr 0 "EOF") /\
    first_tree_newick np reads = (if String.eqb line "" then inr "EOF" else np line).
Proof. exact first_tree_eof. Qed.
Print Assumptions C13_newick_first_is_head_eof.

(** the single-tree Newick parser does not read behind the ';' of a written tree *)
Theorem C13_newick_parse_stops_at_semicolon :
  forall (fmt : Q -> string) (numeric : string -> bool) (parse_num : string -> option Q) (numok : Q -> bool),
    strconv_ok fmt numeric parse_num numok ->
    forall t k, wfN numeric numok t = true ->
      Newick.parse numeric parse_num (Newick.write fmt t ++ k) = Newick.POk (canon_root fmt parse_num t).
Proof. exact parse_write_k. Qed.
Print Assumptions C13_newick_parse_stops_at_semicolon.

(** * the TRANSLATE table and Tree.Rename.  The table read back is the inverse of the writer's
    taxon map on every declared label ... *)
Theorem C13_translate_table_inverse : forall (l : list (nat * utree)) n,
    In n (labels_of l) ->
    exists k, assoc_get n (final_map l []) = Some (itoa k) /\
              assoc_get (itoa k) (tr_table (pairs_of l) []) = Some n.
Proof. exact translate_table_inverse. Qed.
Print Assumptions C13_translate_table_inverse.

(** ... renaming with an inverse table undoes a renaming ([inverse_on m tbl n]: the name is
    empty, or m sends it to a non-empty name that tbl sends back, or neither table knows it) ... *)
Theorem C13_rename_inverse : forall m tbl t,
    Forall (inverse_on m tbl) (map uname (nodes t)) ->
    rename_nodes tbl (rename_nodes m t) = t.
Proof. exact rename_nodes_inverse. Qed.
Print Assumptions C13_rename_inverse.

(** ... and respects the rose: if the Newick layer gives back a tree [u] with the rose of the
    printed (renamed) tree, Rename with the inverse table gives a tree with the rose of the
    original *)
Theorem C13_translate_keeps_rose : forall m tbl t u,
    rose_eqb (rose_of u) (rose_of (rename_nodes m t)) = true ->
    Forall (inverse_on m tbl) (map uname (nodes t)) ->
    rose_eqb (rose_of (rename_nodes tbl u)) (rose_of t) = true.
Proof. exact translate_rose. Qed.
Print Assumptions C13_translate_keeps_rose.

(** * The common domain, stated on the trees themselves, and the assembled conversion theorem.
    [plain_root t]: no comment; tip names are Nexus labels (one token, identifier or number:
    no blank, bracket, '=', ';', ',', not a keyword), inner names identifier bytes.
    [in_domain labels t]: inside C01's quantifier, plain, exactly the taxa [labels].
    [in_domain_tr]: moreover distinct node names, and inner/root names empty or neither a
    label nor a decimal number (Tree.Rename would replace them).  [c13_domain]: moreover no
    p-value.  Lists whose trees are on different taxon sets are outside (open finding
    C13-nexus-taxa-union). *)

(** (1) inside the domain the writer's text is readable inside a TREE command: no hypothesis
    on the text is needed *)
Theorem C13_newick_text_readable_in_nexus :
  forall (fmt : Q -> string) (numeric : string -> bool) (numok : Q -> bool),
    (forall x, numok x = true -> all_chars wchar (fmt x) = true) ->
    forall t, wfN numeric numok t = true -> plain_root t = true -> newick_ok (Newick.write fmt t) = true.
Proof. exact newick_ok_domain. Qed.
Print Assumptions C13_newick_text_readable_in_nexus.

(** (2) the tree the Newick parser reads back has the tips of the tree, in order *)
Theorem C13_parsed_tree_has_the_tips :
  forall (fmt : Q -> string) (numeric : string -> bool) (parse_num : string -> option Q) (numok : Q -> bool) t,
    wfN numeric numok t = true -> tip_names (canon_root fmt parse_num t) = tip_names t.
Proof. exact tips_canon_root. Qed.
Print Assumptions C13_parsed_tree_has_the_tips.

(** (3) Rename's two no-duplicate tests pass in both directions of the translate chain, and
    the trees as printed (tips renamed to decimal numbers) stay inside C01's quantifier *)
Theorem C13_rename_succeeds : forall m tbl t,
    Forall (inverse_on m tbl) (map uname (nodes t)) ->
    NoDup (ne_names t) -> NoDup (tip_names t) ->
    rename_tree m t = inl (rename_nodes m t).
Proof. exact rename_tree_ok. Qed.
Print Assumptions C13_rename_succeeds.

Theorem C13_rename_back_succeeds : forall m tbl t u,
    Forall (inverse_on m tbl) (map uname (nodes t)) ->
    NoDup (ne_names t) -> NoDup (tip_names t) ->
    map uname (nodes u) = map uname (nodes (rename_nodes m t)) ->
    tip_names u = tip_names (rename_nodes m t) ->
    rename_tree tbl u = inl (rename_nodes tbl u) /\ tip_names (rename_nodes tbl u) = tip_names t.
Proof. exact rename_back_ok. Qed.
Print Assumptions C13_rename_back_succeeds.

Theorem C13_printed_tree_in_c01_domain :
  forall (numeric : string -> bool) (numok : Q -> bool) m t,
    wfN numeric numok t = true -> Forall (node_keep m) (nodes t) ->
    wfN numeric numok (rename_nodes m t) = true.
Proof. exact wfN_rename. Qed.
Print Assumptions C13_printed_tree_in_c01_domain.

(** Newick -> Nexus -> Newick on the domain, without and with a translate table *)
Theorem C13_nexus_round_trip_domain :
  forall (fmt : Q -> string) (numeric : string -> bool) (parse_num : string -> option Q) (numok : Q -> bool),
    strconv_ok fmt numeric parse_num numok ->
    (forall x, numok x = true -> all_chars wchar (fmt x) = true) ->
    forall (l : list (nat * utree)),
      (Z.of_nat (length (final_map l [])) < two63)%Z ->
      Forall (fun it => in_domain numeric numok (labels_of l) (snd it)) l ->
      exists ts',
        nexus_parse (np_newick numeric parse_num) (write_nexus (Newick.write fmt) false l) =
        Nexus.POk (mkDoc (combine (map (fun it => "tree" ++ itoa (fst it)) l) ts') false) /\
        Forall2 (fun it t' => rose_eqb (rose_of t') (rose_of (snd it)) = true) l ts'.
Proof. exact nexus_round_trip_domain. Qed.
Print Assumptions C13_nexus_round_trip_domain.

Theorem C13_nexus_round_trip_translate_domain :
  forall (fmt : Q -> string) (numeric : string -> bool) (parse_num : string -> option Q) (numok : Q -> bool),
    strconv_ok fmt numeric parse_num numok ->
    (forall x, numok x = true -> all_chars wchar (fmt x) = true) ->
    forall (l : list (nat * utree)),
      (Z.of_nat (length (final_map l [])) < two63)%Z ->
      Forall (fun it => in_domain_tr numeric numok (labels_of l) (snd it)) l ->
      exists ts',
        nexus_parse (np_newick numeric parse_num) (write_nexus (Newick.write fmt) true l) =
        Nexus.POk (mkDoc (combine (map (fun it => "tree" ++ itoa (fst it)) l) ts') false) /\
        Forall2 (fun it t' => rose_eqb (rose_of t') (rose_of (snd it)) = true) l ts'.
Proof. exact nexus_round_trip_translate_domain. Qed.
Print Assumptions C13_nexus_round_trip_translate_domain.

(** (4) the conversion clauses of C13 together: for every list of trees in the common domain,
    Newick -> Nexus (with and without translate) -> Newick returns the same roses (shape, child
    order, names, lengths, supports) in order under the names tree0, tree1, ... read back
    with ids 0, 1, ... (C13_nexus_ids_consecutive), and Newick -> PhyloXML -> Newick returns
    shape, names, lengths and supports of every tree.  Assumptions on strconv: C01's
    [strconv_ok], and printed numbers contain no '='. *)
Theorem C13_conversions :
  forall (fmt : Q -> string) (numeric : string -> bool) (parse_num : string -> option Q) (numok : Q -> bool),
    strconv_ok fmt numeric parse_num numok ->
    (forall x, numok x = true -> all_chars (fun c => negb (Ascii.eqb c "=")) (fmt x) = true) ->
    forall (l : list (nat * utree)),
      (Z.of_nat (length (final_map l [])) < two63)%Z ->
      Forall (fun it => c13_domain numeric numok (labels_of l) (snd it)) l ->
      (forall translate : bool,
          exists ts',
            nexus_parse (np_newick numeric parse_num) (write_nexus (Newick.write fmt) translate l) =
            Nexus.POk (mkDoc (combine (map (fun it => "tree" ++ itoa (fst it)) l) ts') false) /\
            Forall2 (fun it t' => rose_eqb (rose_of t') (rose_of (snd it)) = true) l ts') /\
      Forall (fun it => exists t', clade_to_tree (write_clade None (snd it)) = inl t' /\
                                   rose_eqb (rose_of t') (rose_of (snd it)) = true) l.
Proof. exact c13_conversions_strconv. Qed.
Print Assumptions C13_conversions.

(** the common domain is inhabited (executable strconv model of C01; two trees with lengths
    and a support on the taxa a, b, c) *)
Example C13_domain_inhabited :
  Forall (fun it => c13_domain numericC numokC (labels_of ex_list) (snd it)) ex_list.
Proof. exact ex_domain. Qed.
Print Assumptions C13_domain_inhabited.

(** * every tree of a multi-tree Newick file is delivered, in order, with consecutive ids.
    A file of trees inside C01's quantifier written one per line, each followed by any blanks
    and tabs; [chunked line pieces]: the buffered reader hands the line over in k >= 1 pieces
    (whatever the buffer size; LF / CRLF are stripped by ReadLine).  After the reader fix
    b303e0a there is no side condition on lengths. *)
Theorem C13_multi_list_delivered :
  forall (fmt : Q -> string) (numeric : string -> bool) (parse_num : string -> option Q) (numok : Q -> bool),
    strconv_ok fmt numeric parse_num numok ->
    forall (l : list (utree * string)) cs,
      l <> [] -> Forall (line_ok numeric numok) l ->
      Forall2 chunked (map (MultiTreeList.tree_line fmt) l) cs ->
      read_multi (np_nw numeric parse_num) (concat cs) = MDone (MultiTreeList.records fmt parse_num 0 l).
Proof. exact multi_list_delivered. Qed.
Print Assumptions C13_multi_list_delivered.

(** the same from the bytes of the file through the model of bufio.ReadLine, for lines that fit
    the buffer, with LF or CRLF line ends *)
Theorem C13_multi_file_delivered :
  forall (fmt : Q -> string) (numeric : string -> bool) (parse_num : string -> option Q) (numok : Q -> bool),
    strconv_ok fmt numeric parse_num numok ->
    forall bufsz (l : list (utree * string * bool)),
      l <> [] ->
      Forall (fun q => line_ok numeric numok (fst q) /\
                       short_line bufsz (MultiTreeList.tree_line fmt (fst q), snd q)) l ->
      let text := file_text (map (fun q => (MultiTreeList.tree_line fmt (fst q), snd q)) l) in
      read_multi (np_nw numeric parse_num) (phys_reads (S (String.length text)) bufsz text) =
      MDone (MultiTreeList.records fmt parse_num 0 (map fst l)).
Proof. exact multi_file_delivered. Qed.
Print Assumptions C13_multi_file_delivered.

(** any chunking of the lines gives what the whole lines give, for every parser and every file *)
Theorem C13_multi_chunking_irrelevant :
  forall (np : string -> utree + string) ls cs, Forall2 chunked ls cs ->
    read_multi np (concat cs) =
    MDone (match split_lines "" ls with
           | [] => [MultiTree.IErr 0 "EOF"]
           | cs' => deliver np 0 cs'
           end).
Proof. exact read_multi_chunked. Qed.
Print Assumptions C13_multi_chunking_irrelevant.

(** non-vacuity: two trees, trailing blank, CRLF and LF, read through a 5-byte buffer; and the
    hypotheses of the byte-level theorem for that file with the default buffer *)
Example C13_multi_chunked_crlf_example :
  read_multi npC (phys_reads 64 5 (wC t_abc ++ " " ++ String "013" (String "010" "") ++ wC t_cab ++ String "010" "")) =
  MDone [ITree 0 (canon_root fmt_go parse_numC t_abc); ITree 1 (canon_root fmt_go parse_numC t_cab)].
Proof. exact chunked_crlf_file. Qed.
Print Assumptions C13_multi_chunked_crlf_example.

Example C13_multi_file_hypotheses_inhabited :
  Forall (fun q => line_ok numericC numokC (fst q) /\
                   short_line (64 * 64) (MultiTreeList.tree_line fmt_go (fst q), snd q))
         [((t_abc, " "), true); ((t_cab, ""), false)].
Proof. exact list_hypotheses. Qed.
Print Assumptions C13_multi_file_hypotheses_inhabited.

(** * the two open findings, characterised exactly in the models.
    Two trees on one physical line then a third: for ALL trees inside C01's quantifier the
    second is dropped, ids stay consecutive, no error (C13-newick-two-trees-one-line) *)
Theorem C13_two_trees_on_one_line_refuted :
  forall (fmt : Q -> string) (numeric : string -> bool) (parse_num : string -> option Q) (numok : Q -> bool),
    strconv_ok fmt numeric parse_num numok ->
    forall t1 t2 t3 bl,
      wfN numeric numok t1 = true -> wfN numeric numok t3 = true -> all_blank bl = true ->
      read_multi (np_nw numeric parse_num)
                 (whole_lines [Newick.write fmt t1 ++ Newick.write fmt t2 ++ bl; Newick.write fmt t3]) =
      MDone [ITree 0 (canon_root fmt parse_num t1); ITree 1 (canon_root fmt parse_num t3)].
Proof. exact two_trees_on_one_line. Qed.
Print Assumptions C13_two_trees_on_one_line_refuted.

(** a list whose first tree lacks one of the taxa of the list: the Nexus parser rejects the
    Nexus writer's output, for every Newick writer/parser (C13-nexus-taxa-union) *)
Theorem C13_nexus_taxa_union_refuted :
  forall (w : utree -> string) (np : string -> utree + string) (l : list (nat * utree)) id t0 r u,
    l = (id, t0) :: r ->
    (Z.of_nat (length (final_map l [])) < two63)%Z ->
    Forall label_ok (labels_of l) ->
    Forall (fun it => newick_ok (w (snd it)) = true) l ->
    np (w t0) = inl u ->
    forallb (fun n => mem n (labels_of l)) (tip_names u) = true ->
    length (tips u) <> length (labels_of l) ->
    nexus_parse np (write_nexus w false l) =
    Nexus.PErr "Some tax names defined in TAXLABELS are not present in the tree".
Proof. exact nexus_taxa_union_rejected. Qed.
Print Assumptions C13_nexus_taxa_union_refuted.

(** * Nexus files with several TREES blocks (after the fix fd2e4c0; finding C13-nexus-several-trees-blocks): the trees of
    every block, in file order, each translated with the table in force at the end of its block *)
Theorem C13_nexus_build_trees_app :
  forall (np : string -> utree + string) st n1 s1 t1 n2 s2 t2,
    length s1 = length n1 -> length t1 = length n1 ->
    build_trees np st (n1 ++ n2) (s1 ++ s2) (t1 ++ t2) =
    match build_trees np st n1 s1 t1 with
    | inr e => inr e
    | inl l1 => match build_trees np st n2 s2 t2 with
                | inr e => inr e
                | inl l2 => inl (l1 ++ l2)%list
                end
    end.
Proof. exact build_trees_app. Qed.
Print Assumptions C13_nexus_build_trees_app.

Example C13_nexus_two_blocks_all_delivered :
  delivered ("#NEXUS" ++ lf ++ "BEGIN TREES;" ++ lf ++ "TREE t1 = (a,b);" ++ lf ++ "END;" ++ lf ++
             "BEGIN TREES;" ++ lf ++ "TREE t2 = (c,d);" ++ lf ++ "TREE t3 = (d,c);" ++ lf ++ "END;" ++ lf) =
  inl [("t1", "(a,b);"); ("t2", "(c,d);"); ("t3", "(d,c);")].
Proof. exact two_blocks_all_delivered. Qed.
Print Assumptions C13_nexus_two_blocks_all_delivered.

Example C13_nexus_empty_last_block_keeps_trees :
  delivered "#NEXUS BEGIN TREES;TREE a=(a,b);END;BEGIN TREES;END;" = inl [("a", "(a,b);")].
Proof. exact empty_last_block_keeps_trees. Qed.
Print Assumptions C13_nexus_empty_last_block_keeps_trees.

Example C13_nexus_tables_per_block :
  delivered ("#NEXUS" ++ lf ++ "BEGIN TREES;" ++ lf ++ "TRANSLATE 1 a, 2 b;" ++ lf ++ "TREE t1 = (1,2);" ++ lf ++ "END;" ++ lf ++
             "BEGIN TREES;" ++ lf ++ "TREE t2 = (2,1);" ++ lf ++ "END;" ++ lf ++
             "BEGIN TREES;" ++ lf ++ "TRANSLATE 1 x, 2 y;" ++ lf ++ "TREE t3 = (1,2);" ++ lf ++ "END;" ++ lf) =
  inl [("t1", "(a,b);"); ("t2", "(b,a);"); ("t3", "(x,y);")].
Proof. exact tables_per_block. Qed.
Print Assumptions C13_nexus_tables_per_block.

Example C13_nexus_broken_tree_in_first_block_is_an_error :
  exists e, delivered ("#NEXUS" ++ lf ++ "BEGIN TREES;" ++ lf ++ "TREE t1 = (a,b;" ++ lf ++ "END;" ++ lf ++
                       "BEGIN TREES;" ++ lf ++ "TREE t2 = (c,d);" ++ lf ++ "END;" ++ lf) = inr e.
Proof. exact broken_tree_in_first_block_is_an_error. Qed.
Print Assumptions C13_nexus_broken_tree_in_first_block_is_an_error.
