(** C05, companion file: sequences of operations and the multi-tree stream.
    (n) any history of Reroot / UnRoot / RotateInternalNodes / SortNeighborsByTips /
        RerootOutGroup without removal / RerootMidPoint keeps the first tree's tips, path
        lengths and splits-with-lengths, and the judge's [same_tree_obs] accepts the last tree
        against the first (Proofs/C05History.v; histories: Model/History.v, shared with C03);
    (o) one outgroup list applied in a loop to several trees: the list comes back unchanged, every
        result is the result of a single call with the original list, and judge_multi of
        Judge/C05.v answers VOk on an observation that decodes to the model's output
        (Proofs/C05Multi.v);
    (p) the reduced oracle used for midpoint rooting of trees with negative lengths. *)
From Coq Require Import String ZArith QArith Bool Arith List Permutation.
From GT Require Import Base.Sexp Base.UTree Base.Codec Spec.Obs Model.Reroot Model.Outgroup Model.History
     Spec.Unrooted Judge.Common Judge.C05
     Proofs.Unroot Proofs.Splits Proofs.USplits Proofs.C05Main Proofs.OracleSup Proofs.OracleIndex
     Proofs.C05History Proofs.C05HistorySup Proofs.C05Judge Proofs.C05Multi.
Import ListNotations.
Local Close Scope Q_scope.

(** * (n) histories *)

(** one step re-establishes what the next step needs.  [inv]: well-formed, root with >= 2
    neighbours, distinct tip names, >= 3 tips; [lens]: no negative branch length (needed by the
    outgroup and midpoint steps only); [same_obs t t']: same leaves (as a multiset), same
    tip-to-tip path lengths (absent = 0), every bipartition looked up in [usplits] with the
    same length *)
Theorem C05_step :
  forall o t t',
    inv t -> c05_op o -> basic_op o \/ lens t -> run_op o t = Ok t' ->
    inv t' /\ same_obs t t' /\ (lens t -> lens t').
Proof. exact c05_step. Qed.
Print Assumptions C05_step.

(** rooting on an outgroup (without removal) does not create a negative length *)
Theorem C05_outgroup_edges_nonneg :
  forall strict t names t',
    wf t = true -> 2 <= degree t -> (rooted t = true -> root_has_inner_child t = true) ->
    NoDup (leaves t) -> lens (unroot t) ->
    reroot_outgroup false strict t names = Ok t' -> lens t'.
Proof. exact outgroup_edges_nonneg. Qed.
Print Assumptions C05_outgroup_edges_nonneg.

(** the history theorem: any sequence of the six operations (each step optionally preceded by
    ReinitIndexes), from a tree with >= 3 distinct tips; when an outgroup or midpoint step occurs,
    the first tree has no negative branch length *)
Theorem C05_history :
  forall ops t0 t,
    wf t0 = true -> 2 <= degree t0 -> NoDup (leaves t0) -> 3 <= length (leaves t0) ->
    Forall (fun s => c05_op (snd s)) ops ->
    Forall (fun s => basic_op (snd s)) ops \/
    (forall x, In x (bsplits t0) -> (0 <= elen (fst (fst x)))%Q) ->
    run ops t0 = Ok t ->
    wf t = true /\ 2 <= degree t /\ NoDup (leaves t) /\
    Permutation (leaves t) (leaves t0) /\ tipset t = tipset t0 /\
    dists_equiv (pairdists len0 t) (pairdists len0 t0) /\
    (forall k, orel split_weq (find_split k (usplits t)) (find_split k (usplits t0))) /\
    same_tree_obs t0 t = None.
Proof. exact c05_history. Qed.
Print Assumptions C05_history.

(** reroot / unroot / rotate / sort only: no condition on the lengths *)
Theorem C05_history_basic :
  forall ops t0 t,
    wf t0 = true -> 2 <= degree t0 -> NoDup (leaves t0) -> 3 <= length (leaves t0) ->
    Forall (fun s => basic_op (snd s)) ops ->
    run ops t0 = Ok t ->
    wf t = true /\ 2 <= degree t /\ NoDup (leaves t) /\
    Permutation (leaves t) (leaves t0) /\ tipset t = tipset t0 /\
    dists_equiv (pairdists len0 t) (pairdists len0 t0) /\
    (forall k, orel split_weq (find_split k (usplits t)) (find_split k (usplits t0))) /\
    same_tree_obs t0 t = None.
Proof. exact c05_history_basic. Qed.
Print Assumptions C05_history_basic.

(** histories of unroot / rotate / sort never refuse *)
Theorem C05_history_total :
  forall ops t0,
    Forall (fun s => fst s = false /\
                     match snd s with OUnroot | ORotate _ | OSort => True | _ => False end) ops ->
    exists t, run ops t0 = Ok t.
Proof. exact run_total_reorder. Qed.
Print Assumptions C05_history_total.

(** ten steps on a multifurcating tree (reroot, unroot, rotate, outgroup strict, reinit+sort,
    reroot, midpoint, outgroup non-strict with an absent name, unroot, reroot): the hypotheses
    hold, the history runs, and the last tree differs from the first even up to the order of the
    neighbours *)
Example C05_example_history :
  wf c05_tree = true /\ 2 <= degree c05_tree /\ NoDup (leaves c05_tree) /\
  3 <= length (leaves c05_tree) /\
  Forall (fun s => c05_op (snd s)) c05_history_ops /\
  (forall x, In x (bsplits c05_tree) -> (0 <= elen (fst (fst x)))%Q) /\
  exists t, run c05_history_ops c05_tree = Ok t /\ rooted t = true /\
            utree_eqb t c05_tree = false /\ utree_eqb (sort_by_tips t) (sort_by_tips c05_tree) = false.
Proof. exact c05_history_example. Qed.
Print Assumptions C05_example_history.

(** supports along a history ("supports of untouched branches kept"): with every support absent
    or >= 0 in the first tree, every bipartition is looked up in [usplits] of the last tree with
    the same length and, when it is internal ([nontrivial_split]), the same support; the clause
    [supports_kept] of the judge's oracle accepts the last tree against the first.
    [split_seq n x y]: same key, same length, same support when the split is internal *)
Theorem C05_history_supports :
  forall ops t0 t,
    wf t0 = true -> 2 <= degree t0 -> NoDup (leaves t0) -> 3 <= length (leaves t0) ->
    (forall x, In x (bsplits t0) -> good_sup (fst (fst x))) ->
    Forall (fun s => c05_op (snd s)) ops ->
    Forall (fun s => basic_op (snd s)) ops \/
    (forall x, In x (bsplits t0) -> (0 <= elen (fst (fst x)))%Q) ->
    run ops t0 = Ok t ->
    (forall x, In x (bsplits t) -> good_sup (fst (fst x))) /\
    (forall k, orel (split_seq (length (tipset t0))) (find_split k (usplits t)) (find_split k (usplits t0))) /\
    supports_kept t0 t = true.
Proof. exact c05_history_supports. Qed.
Print Assumptions C05_history_supports.

(** what midpoint rooting writes on the branches: any property of the branch data that only
    depends on the support passes from the unrooted input to the result *)
Theorem C05_midpoint_edges :
  forall (Q : einfo -> Prop) t t',
    wf t = true -> 2 <= degree t -> (rooted t = true -> root_has_inner_child t = true) ->
    NoDup (leaves t) ->
    (forall x, In x (bsplits (unroot t)) -> (0 <= elen (fst (fst x)))%Q) ->
    (forall e c, Q e -> Q (mkE c (esup e) nilv [])) ->
    (forall x, In x (bsplits (unroot t)) -> Q (fst (fst x))) ->
    reroot_midpoint t = Ok t' ->
    forall z, In z (bsplits t') -> Q (fst (fst z)).
Proof. exact midpoint_edges. Qed.
Print Assumptions C05_midpoint_edges.

(** the ten-step history on a tree with supports 9/10, 1/2, 3/4 on its three internal branches
    (the branch with 3/4 is cut by the strict outgroup step, the one with 1/2 lies on the
    midpoint path): the internal splits of the last tree carry the same supports *)
Example C05_example_history_supports :
  wf c05_sup_tree = true /\ 2 <= degree c05_sup_tree /\ NoDup (leaves c05_sup_tree) /\
  3 <= length (leaves c05_sup_tree) /\
  (forall x, In x (bsplits c05_sup_tree) -> good_sup (fst (fst x))) /\
  (forall x, In x (bsplits c05_sup_tree) -> (0 <= elen (fst (fst x)))%Q) /\
  exists t, run c05_history_ops c05_sup_tree = Ok t /\ utree_eqb t c05_sup_tree = false /\
            map (fun s => (sside s, Qred (ssup s))) (filter (nontrivial_split 7) (usplits t)) =
            [(["f"; "g"]%string, (3#4)%Q); (["e"; "f"; "g"]%string, (1#2)%Q); (["b"; "c"; "d"]%string, (9#10)%Q)].
Proof. exact c05_history_sup_example. Qed.
Print Assumptions C05_example_history_supports.

(** * (o) one outgroup list, several trees *)

(** the loop threads the list from call to call: it comes back unchanged and the results are
    those of independent calls with the original list *)
Theorem C05_multi_loop_independent :
  forall remove strict ts names,
    multi_loop remove strict ts names =
    (map (fun t => reroot_outgroup remove strict t names) ts, names).
Proof. exact multi_loop_independent. Qed.
Print Assumptions C05_multi_loop_independent.

Theorem C05_multi_loop_nth :
  forall remove strict ts names i t,
    nth_error ts i = Some t ->
    nth_error (fst (multi_loop remove strict ts names)) i = Some (reroot_outgroup remove strict t names) /\
    snd (multi_loop remove strict ts names) = names.
Proof. exact multi_loop_nth. Qed.
Print Assumptions C05_multi_loop_nth.

(** the oracle of the multi-tree case on decoded data (per tree: [oracle_outgroup_ok] and the index
    clause on [tables_obs]; then "the list came back unchanged") accepts the model.
    [multi_tree_ok remove t]: the hypotheses of C05_oracle_outgroup_accepts /
    C05_oracle_outgroup_remove_accepts *)
Theorem C05_oracle_multi_accepts_model :
  forall remove strict names ts,
    Forall (multi_tree_ok remove) ts ->
    oracle_multi remove strict names ts (multi_loop remove strict ts names) = None.
Proof. exact oracle_multi_accepts_model. Qed.
Print Assumptions C05_oracle_multi_accepts_model.

(** the judge itself: on any case / observation pair whose fields decode to the trees, the list
    and, tree by tree, the output of the model ([obs_is_model]: no panic; a refusal with a
    message, or err = "", a tree [utree_eqb]-equal to the model's (equal up to Qeq, not
    necessarily the same term), an empty audit and the tables of ReinitIndexes on it),
    judge_multi answers VOk: per-tree oracles, index clause, correspondence test, and
    [names_after = names] *)
Theorem C05_judge_multi_accepts_model :
  forall remove strict names c o ts rs,
    get_string "panic" o = None ->
    (x <- get "trees" c ;; dec_list dec_utree x) = Some ts ->
    (x <- get "results" o ;; list_of x) = Some rs ->
    get_strings "names" c = Some names ->
    get_bool "remove" c = Some remove -> get_bool "strict" c = Some strict ->
    get_strings "names_after" o = Some (snd (multi_loop remove strict ts names)) ->
    Forall (multi_tree_ok remove) ts ->
    Forall2 (obs_is_model remove strict names) ts rs ->
    judge_multi c o = VOk true "outgroup_multi".
Proof. exact judge_multi_accepts_model. Qed.
Print Assumptions C05_judge_multi_accepts_model.

(** and a list that came back different is never accepted *)
Theorem C05_judge_multi_rejects_modified :
  forall c o ts rs names after,
    get_string "panic" o = None ->
    (x <- get "trees" c ;; dec_list dec_utree x) = Some ts ->
    (x <- get "results" o ;; list_of x) = Some rs ->
    get_strings "names" c = Some names ->
    get_strings "names_after" o = Some after -> after <> names ->
    forall b tag, judge_multi c o <> VOk b tag.
Proof. exact judge_multi_rejects_modified. Qed.
Print Assumptions C05_judge_multi_rejects_modified.

(** three trees, the list ["zz"; "b"; "a"; "b"] (absent name first, a repeat), removal, strict:
    success / refusal / success; the encoded observation satisfies [obs_is_model] and the whole
    judge answers VOk on it *)
Example C05_example_multi :
  Forall (multi_tree_ok true) multi_trees /\
  (exists t1 m2 t3, fst (multi_loop true true multi_trees multi_names) = [Ok t1; Err m2; Ok t3] /\
                    leaves t1 = ["c"; "d"]%string /\ leaves t3 = ["c"; "d"]%string) /\
  Forall2 (obs_is_model true true multi_names) multi_trees
          (map enc_obs (fst (multi_loop true true multi_trees multi_names))) /\
  judge multi_case multi_obs = VOk true "outgroup_multi".
Proof. exact multi_example. Qed.
Print Assumptions C05_example_multi.

(** * (p) midpoint rooting with negative lengths: the reduced oracle *)
Theorem C05_oracle_reduced_accepts_midpoint :
  forall t t',
    wf t = true -> 2 <= degree t -> (rooted t = true -> root_has_inner_child t = true) ->
    reroot_midpoint t = Ok t' -> oracle_reduced t t' = None.
Proof. exact oracle_reduced_accepts_midpoint. Qed.
Print Assumptions C05_oracle_reduced_accepts_midpoint.
