(** C02, additions: (1) the channel hand-off of utils.ReadMultiTrees (Model/C02Extra8.v): buffered
    channel of 10, the reader goroutine sends its records then closes, the consumer ranges over the
    channel and possibly returns at the first error record; (2) the single-character option read of
    the Nexus FORMAT command and the FORMAT loop; (3) indexing any delivered tree returns tables or
    an error. *)
From Coq Require Import String Ascii ZArith QArith Bool Arith List.
From GT Require Import Base.UTree Model.Reroot Model.Index Model.MultiTree Model.Nexus Model.C02Extra8
     Proofs.MultiTree Proofs.NexusTotal Proofs.C02Extra8.
Import ListNotations.
Local Close Scope Q_scope.
Local Open Scope string_scope.

(** * (1) channel protocol *)
(** every schedule in which both sides are scheduled again and again (at least 2|l|+2 rounds, each
    round any list of agents containing both) ends with the channel closed, the goroutine returned,
    the consumer out of its loop, holding exactly the records computed; for a consumer that stops at
    the first error this needs that an error record is the last one sent *)
Theorem C02_chan_fair_delivers :
  forall (rec : Type) (is_err : rec -> bool) (cap : nat) (stop_on_err : bool), 1 <= cap ->
  forall l rs,
    (stop_on_err = true -> err_last rec is_err l) -> Forall fair_round rs -> 2 * length l + 2 <= length rs ->
    let s := run_rounds rec is_err cap stop_on_err rs (init rec l) in
    final rec s = true /\ got rec s = l /\ buf rec s = [] /\ pending rec s = [].
Proof. exact chan_fair_delivers. Qed.
Print Assumptions C02_chan_fair_delivers.

(** under EVERY schedule: nothing lost, duplicated or reordered; never a send on a closed channel *)
Theorem C02_chan_safety :
  forall (rec : Type) (is_err : rec -> bool) (cap : nat) (stop_on_err : bool) l sch,
    (stop_on_err = true -> err_last rec is_err l) ->
    let s := run rec is_err cap stop_on_err sch (init rec l) in
    (got rec s ++ buf rec s ++ pending rec s)%list = l /\ (closed rec s = true -> pending rec s = []).
Proof. exact chan_safety. Qed.
Print Assumptions C02_chan_safety.

(** under every schedule: a state in which nobody can move is the final one *)
Theorem C02_chan_no_deadlock :
  forall (rec : Type) (is_err : rec -> bool) (cap : nat) (stop_on_err : bool), 1 <= cap ->
  forall l sch,
    (stop_on_err = true -> err_last rec is_err l) ->
    let s := run rec is_err cap stop_on_err sch (init rec l) in
    final rec s = true \/ exists a, step rec is_err cap stop_on_err s a <> s.
Proof. exact chan_no_deadlock. Qed.
Print Assumptions C02_chan_no_deadlock.

(** the Newick stream reader sends an error record last ... *)
Theorem C02_multi_error_record_last :
  forall (np : string -> utree + string) reads l,
    read_multi np reads = MDone l -> err_last item is_ierr l.
Proof. exact read_multi_err_last. Qed.
Print Assumptions C02_multi_error_record_last.

(** ... hence, for every sequence of ReadLine results, every single-tree parser and both consumer
    policies, the reader and the consumer finish and the consumer has received every record *)
Theorem C02_multi_channel_total :
  forall (np : string -> utree + string) (stop_on_err : bool) reads,
  exists l, read_multi np reads = MDone l /\
    forall rs, Forall fair_round rs -> 2 * length l + 2 <= length rs ->
      let s := run_rounds item is_ierr 10 stop_on_err rs (init item l) in
      final item s = true /\ got item s = l /\ buf item s = [] /\ pending item s = [].
Proof. exact multi_channel_total. Qed.
Print Assumptions C02_multi_channel_total.

(** the hypothesis [err_last] cannot be dropped: 1 error record followed by 11 others (PhyloXML
    sends one record per phylogeny, each with its own error), a consumer that returns at the first
    error: the goroutine stays blocked on the full buffer, the channel is never closed *)
Theorem C02_chan_stop_on_err_without_err_last_refuted :
  let s := run_rounds bool (fun b => b) 10 true leak_rounds (init bool leak_records) in
  final bool s = false /\ cstop bool s = true /\ closed bool s = false /\ length (pending bool s) = 1 /\
  (forall a, step bool (fun b => b) 10 true s a = s).
Proof. exact stop_on_err_leak. Qed.
Print Assumptions C02_chan_stop_on_err_without_err_last_refuted.

Example C02_chan_example :
  let l := [false; false; false; false; false; false; false; false; false; false; false; false; true] in
  err_last bool (fun b => b) l /\ Forall fair_round (repeat [true; false; false] 28) /\
  let s := run_rounds bool (fun b => b) 10 true (repeat [true; false; false] 28) (init bool l) in
  final bool s = true /\ got bool s = l.
Proof.
  split; [simpl; intuition discriminate|]. split.
  - apply Forall_forall. intros r Hr. apply repeat_spec in Hr. subst r. split; simpl; auto.
  - vm_compute. split; reflexivity.
Qed.
Print Assumptions C02_chan_example.

(** * (2) Nexus FORMAT: the MISSING= / GAP= character is read only after the length test *)
Theorem C02_nexus_single_char_option_safe : forall lit, single_char_option lit <> IPanic.
Proof. exact single_char_option_safe. Qed.
Print Assumptions C02_nexus_single_char_option_safe.

(** the case split of the parser model on the literal is that function *)
Theorem C02_nexus_single_char_option_shape : forall lit,
    single_char_option lit = match lit with String c EmptyString => IChar c | _ => IErrLen end.
Proof. exact single_char_option_shape. Qed.
Print Assumptions C02_nexus_single_char_option_shape.

Theorem C02_nexus_single_char_option_unfixed_refuted : single_char_option_unfixed "" = IPanic.
Proof. exact single_char_option_unfixed_panics. Qed.
Print Assumptions C02_nexus_single_char_option_unfixed_refuted.

(** the FORMAT loop ("for !stopformat") returns, having consumed input, without panic *)
Theorem C02_nexus_format_loop : forall fuel dt mis gp err stop s,
    String.length s < fuel -> good (String.length s) (data_format fuel dt mis gp err stop s).
Proof. exact data_format_total. Qed.
Print Assumptions C02_nexus_format_loop.

Example C02_nexus_single_char_option_example :
  single_char_option "?" = IChar "?"%char /\ single_char_option "" = IErrLen /\ single_char_option "ab" = IErrLen.
Proof. vm_compute. repeat split; reflexivity. Qed.
Print Assumptions C02_nexus_single_char_option_example.

(** * (3) indexing any tree (hence any delivered tree, whatever its tip names) gives tables or one of
    the two errors of UpdateTipIndex / ClearBitSets *)
Theorem C02_index_total_on_any_tree : forall t,
    (exists tb, index_tables t = Ok tb) \/
    index_tables t = Err "Cannot create a tip index when several tips have the same name" \/
    index_tables t = Err "No tips in the index, tip name index is not initialized".
Proof. exact index_tables_total. Qed.
Print Assumptions C02_index_total_on_any_tree.

Example C02_index_duplicate_names_example :
  let e := mkE (-1) (-1) (-1) [] in
  index_tables (UNode "" [] [Some (e, UNode "" [] [None]); Some (e, UNode "" [] [None]); Some (e, UNode "b" [] [None])])
  = Err "Cannot create a tip index when several tips have the same name".
Proof. vm_compute. reflexivity. Qed.
Print Assumptions C02_index_duplicate_names_example.
