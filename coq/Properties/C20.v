(** C20: random selection is unbiased.
    Counting statements over the finite space of choice vectors [all_choices bounds] (every
    rand.Intn result uniform on its range, successive results independent: the only assumption
    on math/rand), about Model/Sampling.v (the loops of cmd/sample.go, cmd/prune.go randomTips,
    Tree.ShuffleTips / rand.Perm, Node.RotateNeighbors) and Model/TreeGen.v (the "uniform"
    generator).  Proofs in Proofs/Sampling*.v.
    "probability of an event" = count_where event (all_choices bounds) / length (all_choices bounds).

    The property is FALSE of the code for the rooted uniform generator (open finding, see the
    [_refuted] theorems at the end).  The two reservoir loops without replacement were false as
    first read (rand.Intn(totaltrees) / rand.Intn(i), [go_bound]) and were fixed in /repo
    (202a79d, 4c6febb) to rand.Intn(i+1) ([std_bound] = [code_bound]); the statements about the
    old expression are kept, labelled [old_index], as the record of the defect. *)
From Coq Require Import String ZArith QArith Bool Arith List Permutation.
From GT Require Import Base.UTree Spec.Obs Spec.GenShape Spec.Counting Model.Reroot Model.Rand Model.Rand2
     Model.TreeGen Model.Sampling
     Proofs.SamplingBase Proofs.SamplingPerm Proofs.SamplingRepl Proofs.SamplingRes Proofs.SamplingShuffle
     Proofs.SamplingCode Proofs.SamplingRefute Proofs.TreeGenUnif Proofs.TreeGenUnif2
     Proofs.SamplingShuffle2 Proofs.SamplingEdge Proofs.TreeGenRooted Proofs.StretchFive.
Import ListNotations.
Local Close Scope Q_scope.

(** * the probability space *)
Theorem C20_space_members : forall bounds cs, In cs (all_choices bounds) <-> in_bounds cs bounds.
Proof. exact all_choices_in. Qed.
Print Assumptions C20_space_members.

Theorem C20_space_no_repetition : forall bounds, NoDup (all_choices bounds).
Proof. exact all_choices_NoDup. Qed.
Print Assumptions C20_space_no_repetition.

Theorem C20_space_size : forall bounds, length (all_choices bounds) = prod bounds.
Proof. exact all_choices_length. Qed.
Print Assumptions C20_space_size.

(** * rand.Perm: choice vectors <-> permutations of 0..n-1 is a bijection (n! of each) *)
Theorem C20_perm_space_size : forall n, length (all_choices (perm_bounds n)) = fact n.
Proof. exact perm_space_size. Qed.
Print Assumptions C20_perm_space_size.

Theorem C20_perm_is_permutation :
  forall n cs, in_bounds cs (perm_bounds n) -> Permutation (go_perm cs) (seq 0 n).
Proof. exact go_perm_is_perm. Qed.
Print Assumptions C20_perm_is_permutation.

Theorem C20_perm_injective :
  forall n cs cs', in_bounds cs (perm_bounds n) -> in_bounds cs' (perm_bounds n) ->
    go_perm cs = go_perm cs' -> cs = cs'.
Proof. exact go_perm_injective. Qed.
Print Assumptions C20_perm_injective.

Theorem C20_perm_surjective :
  forall n p, Permutation p (seq 0 n) -> exists cs, in_bounds cs (perm_bounds n) /\ go_perm cs = p.
Proof. exact go_perm_surjective. Qed.
Print Assumptions C20_perm_surjective.

(** * Tree.ShuffleTips: the tips (Tips() order) receive the names read through that permutation *)
Theorem C20_shuffle_tips :
  forall t cs, length (tips t) = length (all_tip_names t) -> in_bounds cs (shuffle_bounds t) ->
    tip_names (shuffle_tips t cs) = map (fun p => nth p (all_tip_names t) EmptyString) (go_perm cs) /\
    Permutation (go_perm cs) (seq 0 (length (all_tip_names t))).
Proof. exact shuffle_tips_names. Qed.
Print Assumptions C20_shuffle_tips.

(** * Node.RotateNeighbors: choice vectors <-> orders of the neighbour list is a bijection *)
Theorem C20_rotate_space_size : forall n, length (all_choices (rotate_neighbors_bounds n)) = fact n.
Proof. exact rotate_space_size. Qed.
Print Assumptions C20_rotate_space_size.

Theorem C20_rotate_is_permutation :
  forall (A : Type) (l : list A) cs,
    in_bounds cs (rotate_neighbors_bounds (length l)) -> Permutation (rotate_neighbors cs l) l.
Proof. exact @rotate_neighbors_is_perm. Qed.
Print Assumptions C20_rotate_is_permutation.

Theorem C20_rotate_injective :
  forall (A : Type) (l : list A) cs cs', NoDup l ->
    in_bounds cs (rotate_neighbors_bounds (length l)) -> in_bounds cs' (rotate_neighbors_bounds (length l)) ->
    rotate_neighbors cs l = rotate_neighbors cs' l -> cs = cs'.
Proof. exact @rotate_neighbors_injective. Qed.
Print Assumptions C20_rotate_injective.

Theorem C20_rotate_surjective :
  forall (A : Type) (l p : list A), NoDup l -> Permutation p l ->
    exists cs, in_bounds cs (rotate_neighbors_bounds (length l)) /\ rotate_neighbors cs l = p.
Proof. exact @rotate_neighbors_surjective. Qed.
Print Assumptions C20_rotate_surjective.

(** * gotree sample --replace: every one of the n^k slot vectors is produced by the same number
    ((n-1)!)^k of the (n!)^k choice vectors: independent uniform draws *)
Theorem C20_replace_space_size : forall n k, length (all_choices (replace_bounds k n)) = fact n ^ k.
Proof. exact replace_space_size. Qed.
Print Assumptions C20_replace_space_size.

Theorem C20_sample_replace_uniform :
  forall n k v, 1 <= n -> in_bounds v (repeat n k) ->
    count_where (fun cs => out_is v (sample_replace k (seq 0 n) cs)) (all_choices (replace_bounds k n))
    = fact (n - 1) ^ k.
Proof. exact sample_replace_uniform. Qed.
Print Assumptions C20_sample_replace_uniform.

(** * gotree sample (no --replace) and gotree prune --random, as in the code: index
    rand.Intn(i+1).  Every k-subset of the n items is the reservoir for exactly (n-k)! of the n!/k!
    choice vectors (probability 1/C(n,k)) *)
Example C20_code_index_expression : forall i, code_bound i = std_bound i.
Proof. reflexivity. Qed.
Print Assumptions C20_code_index_expression.

Theorem C20_sample_space_size :
  forall n k, k <= n -> length (all_choices (reservoir_bounds code_bound k n)) * fact k = fact n.
Proof. exact sample_noreplace_space_size. Qed.
Print Assumptions C20_sample_space_size.

Theorem C20_sample_noreplace_uniform :
  forall n k s, 1 <= k -> k <= n -> In s (subsets k (seq 0 n)) ->
    count_where (fun cs => out_set_is s (sample_noreplace k (seq 0 n) cs))
                (all_choices (reservoir_bounds code_bound k n)) = fact (n - k).
Proof. exact sample_noreplace_uniform. Qed.
Print Assumptions C20_sample_noreplace_uniform.

(** randomTips is that loop on the positions of the tips, read back through Tips() *)
Theorem C20_random_tips :
  forall k t cs,
    random_tips k t cs =
    option_map (map (option_map (fun i => nth i (tip_names t) EmptyString)))
               (sample_noreplace k (seq 0 (length (tip_names t))) cs).
Proof. exact random_tips_positions. Qed.
Print Assumptions C20_random_tips.

(** the same for the loop parameterised by the index expression *)
Theorem C20_reservoir_std_uniform :
  forall n k s, 1 <= k -> k <= n -> In s (subsets k (seq 0 n)) ->
    count_where (fun cs => out_set_is s (reservoir std_bound k (seq 0 n) cs))
                (all_choices (reservoir_bounds std_bound k n)) = fact (n - k).
Proof. exact reservoir_std_uniform. Qed.
Print Assumptions C20_reservoir_std_uniform.

(** the loop commutes with renaming the items: the statement about 0..n-1 carries over to any
    list of trees or tip names *)
Theorem C20_reservoir_items :
  forall (A B : Type) (f : A -> B) bnd k xs cs,
    reservoir bnd k (map f xs) cs = option_map (map (option_map f)) (reservoir bnd k xs cs).
Proof. exact @reservoir_map. Qed.
Print Assumptions C20_reservoir_items.

(** * record of the fixed defect: statements about the OLD index expression [go_bound]
    (rand.Intn(totaltrees) / rand.Intn(i)), NOT about the code any more *)
Theorem C20_old_index_not_uniform :
  exists n k s s', 1 <= k /\ k <= n /\ In s (subsets k (seq 0 n)) /\ In s' (subsets k (seq 0 n)) /\
                   res_count go_bound n k s <> res_count go_bound n k s'.
Proof. exact reservoir_go_refuted. Qed.
Print Assumptions C20_old_index_not_uniform.

(** with more than k items the sample always contained an item of index >= k: the first k items
    were never the sample *)
Theorem C20_old_index_never_initial :
  forall n k cs res, 1 <= k -> k < n -> in_bounds cs (reservoir_bounds go_bound k n) ->
    reservoir go_bound k (seq 0 n) cs = Some res ->
    existsb (fun s => match s with Some x => Nat.leb k x | None => false end) res = true.
Proof. exact reservoir_go_never_initial. Qed.
Print Assumptions C20_old_index_never_initial.

(** * the "uniform" generator *)
(** unrooted: as many choice vectors as unrooted labelled binary topologies, (2n-5)!! *)
Theorem C20_uniform_unrooted_space_size :
  forall n, 3 <= n -> length (all_choices (uniform_bounds n false)) = n_unrooted n.
Proof. exact uniform_unrooted_space_size. Qed.
Print Assumptions C20_uniform_unrooted_space_size.

(** unrooted: different choice vectors give different labelled topologies, so the (2n-5)!!
    equally likely choice vectors reach (2n-5)!! pairwise distinct topologies, each with
    probability 1/(2n-5)!! *)
Theorem C20_uniform_unrooted_injective :
  forall n cs cs' ls ls' t t',
    3 <= n -> in_bounds cs (uniform_bounds n false) -> in_bounds cs' (uniform_bounds n false) ->
    uniform_tree n false cs ls = GOk t -> uniform_tree n false cs' ls' = GOk t' ->
    topo_key false t = topo_key false t' -> cs = cs'.
Proof. exact uniform_unrooted_injective. Qed.
Print Assumptions C20_uniform_unrooted_injective.

(** and these are exactly the topologies listed by the enumerator (all of them, C16): every
    unrooted labelled binary topology on Tip0..Tip(n-1) is drawn with probability 1/(2n-5)!! *)
Theorem C20_uniform_unrooted_complete :
  forall n ts, 3 <= n -> all_topologies n false (map tip_name (seq 0 n)) = Ok ts ->
    forall key, In key (map (topo_key false) ts) <->
      exists cs ls t, in_bounds cs (uniform_bounds n false) /\ uniform_tree n false cs ls = GOk t /\
                      topo_key false t = key.
Proof. exact uniform_unrooted_complete. Qed.
Print Assumptions C20_uniform_unrooted_complete.

(** rooted: FALSE of the code.  The generator never inserts above the root: it has
    2*4*...*(2n-4) equally likely choice vectors for (2n-3)!! rooted topologies *)
Theorem C20_uniform_rooted_space_too_small :
  forall n, 3 <= n -> length (all_choices (uniform_bounds n true)) < n_rooted n.
Proof. exact uniform_rooted_space_too_small. Qed.
Print Assumptions C20_uniform_rooted_space_too_small.

(** witness: of the 3 rooted topologies on 3 tips, ((Tip0,Tip1),Tip2) is never produced *)
Theorem C20_uniform_rooted_refuted :
  exists key, In key (match all_topologies 3 true (map tip_name (seq 0 3)) with
                      | Ok ts => map (topo_key true) ts | Err _ => [] end) /\
              ~ In key (uniform_keys 3 true).
Proof. exact uniform_rooted_refuted. Qed.
Print Assumptions C20_uniform_rooted_refuted.

(** * ShuffleTips end to end: the new tree is the old one up to tip names, and every assignment
    of the n names to the n tips (Tips() order) is produced by exactly one of the n! choice vectors *)
Theorem C20_shuffle_same_tree : forall t cs, erase_tips (shuffle_tips t cs) = erase_tips t.
Proof. exact shuffle_tips_same_tree. Qed.
Print Assumptions C20_shuffle_same_tree.

Theorem C20_shuffle_assignment :
  forall t q, wf t = true -> 2 <= degree t -> NoDup (all_tip_names t) -> Permutation q (all_tip_names t) ->
    exists cs, in_bounds cs (shuffle_bounds t) /\ tip_names (shuffle_tips t cs) = q /\
               forall cs', in_bounds cs' (shuffle_bounds t) -> tip_names (shuffle_tips t cs') = q -> cs' = cs.
Proof. exact shuffle_tips_assignment_wf. Qed.
Print Assumptions C20_shuffle_assignment.

Theorem C20_shuffle_count :
  forall t q, wf t = true -> 2 <= degree t -> NoDup (all_tip_names t) -> Permutation q (all_tip_names t) ->
    count_where (fun cs => if list_eq_dec String.string_dec (tip_names (shuffle_tips t cs)) q then true else false)
                (all_choices (shuffle_bounds t)) = 1.
Proof. exact shuffle_tips_count_wf. Qed.
Print Assumptions C20_shuffle_count.

(** * degenerate sizes of the selection loops *)
(** -n 0: one draw per item is consumed, nothing is selected *)
Theorem C20_reservoir_k0 :
  forall (A : Type) bnd (xs : list A) cs,
    in_bounds cs (reservoir_bounds bnd 0 (length xs)) -> reservoir bnd 0 xs cs = Some [].
Proof. exact @reservoir_k0. Qed.
Print Assumptions C20_reservoir_k0.

(** k >= n: no draw, every item is selected, in input order *)
Theorem C20_reservoir_all :
  forall (A : Type) bnd k (xs : list A), length xs <= k ->
    reservoir_bounds bnd k (length xs) = [] /\ reservoir bnd k xs [] = Some (map Some xs).
Proof. exact @reservoir_all. Qed.
Print Assumptions C20_reservoir_all.

Theorem C20_sample_replace_k0 :
  forall (A : Type) (xs : list A), replace_bounds 0 (length xs) = [] /\ sample_replace 0 xs [] = Some [].
Proof. exact @sample_replace_k0. Qed.
Print Assumptions C20_sample_replace_k0.

(** no item: the empty selection without replacement; with replacement the k slots would keep a
    nil tree -- the command never gets there, it refuses an empty input (EOF) before the loop *)
Theorem C20_reservoir_no_item : forall (A : Type) bnd k, @reservoir A bnd k [] [] = Some [].
Proof. exact @reservoir_no_item. Qed.
Print Assumptions C20_reservoir_no_item.

Theorem C20_sample_replace_no_item : forall (A : Type) k, @sample_replace A k [] [] = Some (repeat None k).
Proof. exact @sample_replace_no_item. Qed.
Print Assumptions C20_sample_replace_no_item.

(** * the rooted "uniform" generator, exact form of the open finding (for every n >= 3) *)
(** the first two tips stay on different sides of the root: no clade of the result contains both,
    so e.g. no topology with the cherry (Tip0,Tip1) is ever produced *)
Theorem C20_uniform_rooted_separates :
  forall n cs ls t, 3 <= n -> in_bounds cs (uniform_bounds n true) -> uniform_tree n true cs ls = GOk t ->
    forall A, In A (topo_key true t) -> ~ (In (tip_name 0) A /\ In (tip_name 1) A).
Proof. exact uniform_rooted_separates. Qed.
Print Assumptions C20_uniform_rooted_separates.

(** and some rooted labelled topology of the enumerator's list is never produced *)
Theorem C20_uniform_rooted_misses_refuted :
  forall n ts, 3 <= n -> all_topologies n true (map tip_name (seq 0 n)) = Ok ts ->
    exists key, In key (map (topo_key true) ts) /\
      forall cs ls t, in_bounds cs (uniform_bounds n true) -> uniform_tree n true cs ls = GOk t ->
                      topo_key true t <> key.
Proof. exact uniform_rooted_misses. Qed.
Print Assumptions C20_uniform_rooted_misses_refuted.

(** * ShuffleTips: exactly one of the n! choice vectors is the identity (the clause "not the same
    arrangement for every seed" of the oracle: the identity has probability 1/n!) *)
Theorem C20_shuffle_identity_count :
  forall t, wf t = true -> 2 <= degree t -> NoDup (all_tip_names t) ->
    count_where (fun cs => if list_eq_dec String.string_dec (tip_names (shuffle_tips t cs)) (all_tip_names t) then true else false)
                (all_choices (shuffle_bounds t)) = 1 /\
    length (all_choices (shuffle_bounds t)) = fact (length (all_tip_names t)).
Proof. exact shuffle_identity_count. Qed.
Print Assumptions C20_shuffle_identity_count.

(** * the hypotheses are satisfiable (instances computed by vm_compute) *)
Example C20_example_reservoir :
  In [0; 2] (subsets 2 (seq 0 4)) /\
  count_where (fun cs => out_set_is [0; 2] (sample_noreplace 2 (seq 0 4) cs))
              (all_choices (reservoir_bounds code_bound 2 4)) = fact 2 /\
  length (all_choices (reservoir_bounds code_bound 2 4)) = 12.
Proof. vm_compute. repeat split; auto. Qed.
Print Assumptions C20_example_reservoir.

Example C20_example_replace :
  in_bounds [1; 0] (repeat 3 2) /\
  count_where (fun cs => out_is [1; 0] (sample_replace 2 (seq 0 3) cs)) (all_choices (replace_bounds 2 3)) = fact 2 ^ 2.
Proof. vm_compute. repeat split; repeat constructor. Qed.
Print Assumptions C20_example_replace.

Example C20_example_shuffle :
  let t := UNode EmptyString [] [Some (e0, UNode "a" [] [None]); Some (e0, UNode "b" [] [None]);
                                 Some (e0, UNode "c" [] [None])]%string in
  wf t = true /\ 2 <= degree t /\ NoDup (all_tip_names t) /\
  map (fun cs => tip_names (shuffle_tips t cs)) (all_choices (shuffle_bounds t)) =
  [["c"; "a"; "b"]; ["b"; "c"; "a"]; ["b"; "a"; "c"]; ["c"; "b"; "a"]; ["a"; "c"; "b"]; ["a"; "b"; "c"]]%string.
Proof.
  vm_compute. repeat split; auto.
  repeat constructor; simpl; intuition discriminate.
Qed.
Print Assumptions C20_example_shuffle.

Example C20_example_uniform_unrooted :
  in_bounds [0; 1; 4] (uniform_bounds 5 false) /\
  exists t, uniform_tree 5 false [0; 1; 4] [] = GOk t.
Proof. split; [vm_compute; repeat constructor|eexists; vm_compute; reflexivity]. Qed.
Print Assumptions C20_example_uniform_unrooted.

(** * prune --random k: whatever the draws, the selection is made of exactly min(k, n) tips of the tree
    (all of them when k >= n, with no draw), pairwise distinct when the tip names are: -r keeps
    exactly these, the default mode removes exactly these *)
From GT Require Import Proofs.StretchSix.

Theorem C20_random_tips_size :
  forall k t cs, in_bounds cs (reservoir_bounds code_bound k (length (tip_names t))) ->
    exists sel, random_tips k t cs = Some (map Some sel) /\
                length sel = Nat.min k (length (tip_names t)) /\
                incl sel (tip_names t) /\ (NoDup (tip_names t) -> NoDup sel).
Proof. exact random_tips_size. Qed.
Print Assumptions C20_random_tips_size.

Example C20_example_random_tips :
  let t := UNode EmptyString [] [Some (e0, UNode "a" [] [None]); Some (e0, UNode "b" [] [None]);
                                 Some (e0, UNode "c" [] [None]); Some (e0, UNode "d" [] [None])]%string in
  in_bounds [1; 3] (reservoir_bounds code_bound 2 (length (tip_names t))) /\
  random_tips 2 t [1; 3] = Some [Some "a"; Some "c"]%string /\
  in_bounds [] (reservoir_bounds code_bound 6 (length (tip_names t))) /\
  random_tips 6 t [] = Some [Some "a"; Some "b"; Some "c"; Some "d"]%string.
Proof. vm_compute. repeat split; repeat constructor. Qed.
Print Assumptions C20_example_random_tips.
