(** C07, companion: the option --tips (removeTips = true, removeRoot = false).
    [zero_tips cr t]: the input with every tip branch that satisfies the criterion set to length 0
    (a tip has depth 1; also a tip attached to the root of a rooted tree).
    [collapse_ok_tips cr t g] (Spec/Contract.v, used by Judge/C07.v) = [collapse_ok cr (zero_tips cr t) g]. *)
From Coq Require Import String ZArith QArith Bool Arith List.
From GT Require Import Base.UTree Spec.Obs Spec.Contract Model.Reroot Model.Collapse
     Proofs.CollapseBase Proofs.CollapseOracleFull Proofs.RootedUSplits Proofs.OracleMeaning Proofs.CollapseTips.
Import ListNotations.
Local Close Scope Q_scope.

(** collapsing with --tips is collapsing the zeroed tree without --tips (any removeRoot) *)
Theorem C07_tips_len_is_collapse_of_zeroed :
  forall l rr t, wf t = true -> collapse_len l rr true t = collapse_len l rr false (zero_tips (CLen l) t).
Proof. exact tips_len_equiv. Qed.
Print Assumptions C07_tips_len_is_collapse_of_zeroed.

Theorem C07_tips_depth_is_collapse_of_zeroed :
  forall mn mx rr t, wf t = true -> 2 <= degree t ->
  collapse_depth mn mx rr true t = collapse_depth mn mx rr false (zero_tips (CDepth mn mx) t).
Proof. exact tips_depth_equiv. Qed.
Print Assumptions C07_tips_depth_is_collapse_of_zeroed.

(** the judge's clause for --tips accepts the model's output: unrooted and rooted domains *)
Theorem C07_oracle_accepts_tips_len :
  forall l t, unrooted t -> collapse_ok_tips (CLen l) t (collapse_len l false true t) = None.
Proof. exact tips_len_oracle. Qed.
Print Assumptions C07_oracle_accepts_tips_len.

Theorem C07_oracle_accepts_tips_depth :
  forall mn mx t, unrooted t ->
  exists g, collapse_depth mn mx false true t = Ok g /\ collapse_ok_tips (CDepth mn mx) t g = None.
Proof. exact tips_depth_oracle. Qed.
Print Assumptions C07_oracle_accepts_tips_depth.

Theorem C07_rooted_oracle_accepts_tips_len :
  forall l t, rooted_dom t -> collapse_ok_tips (CLen l) t (collapse_len l false true t) = None.
Proof. exact rooted_tips_len_oracle. Qed.
Print Assumptions C07_rooted_oracle_accepts_tips_len.

Theorem C07_rooted_oracle_accepts_tips_depth :
  forall mn mx t, rooted_dom t ->
  exists g, collapse_depth mn mx false true t = Ok g /\ collapse_ok_tips (CDepth mn mx) t g = None.
Proof. exact rooted_tips_depth_oracle. Qed.
Print Assumptions C07_rooted_oracle_accepts_tips_depth.

(** what the clause says: same tips (no tip removed), and the splits of the result are exactly the
    expected ones of the zeroed tree: every qualifying tip branch has length 0, every other
    remaining split keeps its length and support, the inner splits satisfying the criterion are gone *)
Theorem C07_collapse_ok_tips_meaning :
  forall cr t g,
  collapse_ok_tips cr t g = None <->
  wf g = true /\ sset_eqb (ssort (leaves t)) (ssort (leaves g)) = true /\
  same_splits (expected_after_collapse cr (zero_tips cr t)) (usplits g).
Proof. exact collapse_ok_tips_meaning. Qed.
Print Assumptions C07_collapse_ok_tips_meaning.

(** non-vacuity: ((a:1,b:0):2,c:0,d:3) with --tips -l 0: b and c get length 0 ... they have it; use -l 1 *)
Local Open Scope string_scope.
Definition tx (n : string) (l : Q) : slot := Some (mkE l nilv nilv [], UNode n [] [None]).
Definition tips_ex : utree :=
  UNode "" [] [Some (mkE 2 nilv nilv [], UNode "" [] [None; tx "a" 1; tx "b" 3]); tx "c" 1; tx "d" 3]%Q.
Example C07_tips_example :
  unrooted tips_ex /\
  collapse_len 1%Q false true tips_ex =
  UNode "" [] [Some (mkE 2 nilv nilv [], UNode "" [] [None; tx "a" 0; tx "b" 3]); tx "c" 0; tx "d" 3]%Q /\
  collapse_ok_tips (CLen 1%Q) tips_ex (collapse_len 1%Q false true tips_ex) = None /\
  collapse_ok (CLen 1%Q) tips_ex (collapse_len 1%Q false true tips_ex) <> None.
Proof.
  split.
  { unfold unrooted, CompareDomain.unrooted, IndexSplit.good.
    split; [split; [reflexivity|split; [vm_compute; auto|vm_compute; repeat constructor; simpl; intuition discriminate]]|].
    split; [vm_compute; auto|reflexivity]. }
  split; [vm_compute; reflexivity|]. split; [vm_compute; reflexivity|]. vm_compute. discriminate.
Qed.
Print Assumptions C07_tips_example.
