(** C09, round 8: the RESULT does not depend on the order, rooting or child order of the inputs
    (the constructed tree [consensus_utree]: same inner bipartitions, same mean lengths, same
    supports; same mean tip-branch lengths), and the selection at the ends of the threshold range.
    Proofs in Proofs/C09Extra8.v.  Vocabulary: [sim t t'] = every bipartition is found in [t'] iff
    in [t], with the same length (up to Qeq); [rstep t t'] = [t'] is reached from [t] by
    any chain of re-rootings (Model/Reroot.v [reroot], any node), re-orderings of children
    ([tperm]) and unrooting of a rooted tree ([unroot]: the two root branches merged); [variant ts ts'] = [ts'] is [ts] in another order with every tree replaced by a
    [sim] one. *)
From Coq Require Import String NArith ZArith QArith Bool Arith List Permutation.
From GT Require Import Base.UTree Spec.Obs Spec.Unrooted Spec.ConsensusSpec Model.Reroot Model.Consensus Model.ConsensusTree
     Proofs.Unroot Proofs.USplits Proofs.IndexSplit Proofs.ConsensusFloat Proofs.ConsensusRooted Proofs.C09Extra8.
Import ListNotations.
Local Close Scope Q_scope.
Local Open Scope string_scope.

(** re-rooting at any node and re-ordering children keep every bipartition with its data *)
Theorem C09_reroot_sim : forall t i t', good t -> reroot t i = Ok t' -> sim t t'.
Proof. exact reroot_sim. Qed.
Print Assumptions C09_reroot_sim.

Theorem C09_tperm_sim : forall t t', tperm t t' -> sim t t'.
Proof. exact tperm_sim. Qed.
Print Assumptions C09_tperm_sim.

(** a rooted tree and its unrooted version *)
Theorem C09_unroot_sim :
  forall t, wf t = true -> rooted t = true -> root_has_inner_child t = true -> NoDup (leaves t) -> sim t (unroot t).
Proof. exact unroot_sim. Qed.
Print Assumptions C09_unroot_sim.

Theorem C09_rstep_sim : forall t t', rstep t t' -> sim t t'.
Proof. exact rstep_sim. Qed.
Print Assumptions C09_rstep_sim.

(** number of trees, frequency, mean length (inner and tip bipartitions alike) and the set of
    bipartitions seen: the same for a collection and any variant of it *)
Theorem C09_consensus_data_invariant :
  forall ts ts' k, variant ts ts' ->
    length ts' = length ts /\
    freq_count ts' k = freq_count ts k /\
    (mean (lens_of ts' k) == mean (lens_of ts k))%Q /\
    (In k (all_keys ts') <-> In k (all_keys ts)).
Proof. exact consensus_data_invariant. Qed.
Print Assumptions C09_consensus_data_invariant.

Theorem C09_tip_mean_invariant :
  forall ts ts' all x, variant ts ts' ->
    (mean (lens_of ts' (tip_key all x)) == mean (lens_of ts (tip_key all x)))%Q.
Proof. exact tip_mean_invariant. Qed.
Print Assumptions C09_tip_mean_invariant.

(** the constructed consensus tree of a variant has the same inner branches: same bipartition, same
    length, same support *)
Theorem C09_consensus_result_invariant :
  forall (t0 : utree) (r : list utree) (t0' : utree) (r' : list utree) (cutoff : Q),
    let all := tipset t0 in
    Forall (fun t => good t /\ tipset t = all) (t0 :: r) ->
    Forall (fun t => good t /\ tipset t = all) (t0' :: r') ->
    variant (t0 :: r) (t0' :: r') ->
    ((1 # 2) <= cutoff)%Q -> (cutoff <= 1)%Q -> (Zpos (Qden cutoff) * Z.of_nat (length (t0 :: r)) < 2 ^ 52)%Z ->
    forall s, In s (branch_splits all (consensus_utree (t0 :: r) (round53 cutoff))) -> stip s = false ->
      exists s', In s' (branch_splits all (consensus_utree (t0' :: r') (round53 cutoff))) /\ stip s' = false /\
                 split_qeq s s'.
Proof. exact consensus_result_invariant. Qed.
Print Assumptions C09_consensus_result_invariant.

(** in the words of the property: any order of the collection, every input re-rooted and its
    children re-ordered any number of times *)
Theorem C09_consensus_order_rooting_childorder :
  forall (t0 : utree) (r : list utree) (t0' : utree) (r' ts1 : list utree) (cutoff : Q),
    let all := tipset t0 in
    Forall (fun t => good t /\ tipset t = all) (t0 :: r) ->
    Forall (fun t => good t /\ tipset t = all) (t0' :: r') ->
    Permutation (t0 :: r) ts1 -> Forall2 rstep ts1 (t0' :: r') ->
    ((1 # 2) <= cutoff)%Q -> (cutoff <= 1)%Q -> (Zpos (Qden cutoff) * Z.of_nat (length (t0 :: r)) < 2 ^ 52)%Z ->
    forall s, In s (branch_splits all (consensus_utree (t0 :: r) (round53 cutoff))) -> stip s = false ->
      exists s', In s' (branch_splits all (consensus_utree (t0' :: r') (round53 cutoff))) /\ stip s' = false /\
                 split_qeq s s'.
Proof. exact consensus_order_rooting_childorder. Qed.
Print Assumptions C09_consensus_order_rooting_childorder.

(** threshold 1: exactly the bipartitions of every tree; a frequency exactly on the threshold is
    kept only if the bipartition is in every tree *)
Theorem C09_keep_split_at_one :
  forall n c : Z, (0 < c <= n)%Z -> (n < 2 ^ 52)%Z -> (keep_split (round53 1) n c = true <-> c = n).
Proof. exact keep_split_at_one. Qed.
Print Assumptions C09_keep_split_at_one.

Theorem C09_keep_split_on_threshold :
  forall (cutoff : Q) (n c : Z),
    (0 < cutoff)%Q -> (cutoff <= 1)%Q -> (0 < c <= n)%Z -> (Zpos (Qden cutoff) * n < 2 ^ 52)%Z ->
    (inject_Z c / inject_Z n == cutoff)%Q ->
    (keep_split (round53 cutoff) n c = true <-> c = n).
Proof. exact keep_split_on_threshold. Qed.
Print Assumptions C09_keep_split_on_threshold.

(** non-vacuity *)
Example C09_variant_example :
  let ts := [CompareCor.wit_ref; CompareCor.wit_ref; CompareCor.wit_star] in
  let ts' := [CompareCor.wit_star; CompareCor.wit_ref; CompareCor.wit_ref] in
  variant ts ts' /\
  (exists s, In s (branch_splits (tipset CompareCor.wit_ref) (consensus_utree ts' (round53 (1 # 2)))) /\
             stip s = false /\ sside s = ["c"; "d"] /\ (ssup s == 2 # 3)%Q) /\
  keep_split (round53 1) 3 2 = false /\ keep_split (round53 1) 3 3 = true /\
  keep_split (round53 (1 # 2)) 4 2 = false.
Proof. exact variant_example. Qed.
Print Assumptions C09_variant_example.

Example C09_rstep_example :
  exists t', reroot CompareCor.wit_ref 1 = Ok t' /\ utree_eqb t' CompareCor.wit_ref = false /\
             rstep CompareCor.wit_ref t' /\ good t' /\ tipset t' = tipset CompareCor.wit_ref.
Proof. exact rstep_example. Qed.
Print Assumptions C09_rstep_example.

Example C09_unroot_example :
  rstep wit_rooted (unroot wit_rooted) /\ utree_eqb (unroot wit_rooted) wit_rooted = false /\
  degree (unroot wit_rooted) = 3.
Proof. exact unroot_example. Qed.
Print Assumptions C09_unroot_example.
