(** C04  Branch split indexes and hashes always describe the actual tree.
    Statements only; proofs are in Proofs/{IndexBase,IndexTree,IndexSplit,HashMap,EdgeIndex,Quartet}.v.
    Models: Model/{Index,HashMap,EdgeIndex,Quartet}.v. *)
From Coq Require Import String NArith ZArith QArith Bool Arith List Permutation Sorted.
From GT Require Import Base.UTree Spec.Obs Model.Reroot Model.Index Model.HashMap Model.EdgeIndex Model.Quartet
     Proofs.IndexBase Proofs.IndexTree Proofs.IndexSplit Proofs.HashMap Proofs.EdgeIndex Proofs.Quartet
     Proofs.Unroot Proofs.IndexEdit.
From GT Require Import Model.Prune Model.Collapse Model.LocalEdit Model.NNI Model.Outgroup Model.Compare Model.BitsetWords
     Proofs.Prune Proofs.QuartetEquiv Proofs.IndexEditOps Proofs.IndexCommon Proofs.BitsetWords
     Proofs.IndexEditDeg.
From GT Require Model.History Proofs.History Proofs.IndexHistory.
From GT Require Import Spec.SplitMap Proofs.SplitMap Proofs.QuartetAllBase Proofs.QuartetAll.
Import ListNotations.
Local Close Scope Q_scope.
Local Open Scope string_scope.

(** [good t]: well-formed representation, root with at least two neighbours, pairwise distinct tip
    names.  [branch_row t ec r]: [r] is the row the model computes for the branch [ec] of [t]
    (same position in Tree.Edges() order). *)

(** ** the tables describe the tree *)

(** ReinitIndexes does not refuse such a tree; tip ids are ranks in the byte-wise sorted names *)
Theorem index_tables_ok : forall t,
    wf t = true -> 2 <= degree t -> NoDup (leaves t) ->
    index_tables t = Ok (mkTables (sorted_tip_names t)
                                  (map (fun n => index_of n (sorted_tip_names t)) (tip_names t))
                                  (rows t)).
Proof. exact Proofs.IndexTree.index_tables_ok. Qed.
Print Assumptions index_tables_ok.

Theorem tipids_spec : forall t,
    wf t = true -> 2 <= degree t ->
    Forall2 (fun name id => nth_error (sorted_tip_names t) id = Some name)
            (tip_names t) (map (fun n => index_of n (sorted_tip_names t)) (tip_names t)).
Proof. exact Proofs.IndexTree.tipids_spec. Qed.
Print Assumptions tipids_spec.

(** all rows at once: ranks are a sorted permutation of the tips; every row describes its branch *)
Theorem tables_spec : forall t,
    wf t = true -> 2 <= degree t -> NoDup (leaves t) ->
    let ids := sorted_tip_names t in
    Permutation ids (leaves t) /\
    StronglySorted name_le ids /\
    Forall2 (row_describes ids t) (edges t) (rows t).
Proof. exact Proofs.IndexTree.tables_spec. Qed.
Print Assumptions tables_spec.

(** bit i of the bitset is set iff the tip of rank i is below the branch *)
Theorem bitset_spec : forall t ec r,
    good t -> branch_row t ec r ->
    length (r_bits r) = length (sorted_tip_names t) /\
    forall i, test_bit (r_bits r) i = true <->
              exists x, nth_error (sorted_tip_names t) i = Some x /\ In x (leaves (snd ec)).
Proof. exact Proofs.IndexSplit.bitset_spec. Qed.
Print Assumptions bitset_spec.

(** tip counts on both sides; TopoDepth is the light side and never fails *)
Theorem counts_spec : forall t ec r,
    good t -> branch_row t ec r ->
    r_nright r = length (leaves (snd ec)) /\
    r_nleft r = length (leaves t) - length (leaves (snd ec)) /\
    1 <= r_nright r /\ 1 <= r_nleft r /\
    Model.Index.topo_depth r = Some (Nat.min (length (leaves t) - length (leaves (snd ec))) (length (leaves (snd ec)))).
Proof. exact Proofs.IndexSplit.counts_spec. Qed.
Print Assumptions counts_spec.

(** partial hashes: hashcoderight is the additive (mod 2^64) FNV-1a hash of the names below,
    hashcodeleft the one of the names above (the two add up to the hash of all names) *)
Theorem hashes_spec : forall t ec r,
    good t -> branch_row t ec r ->
    r_hright r = hsum (leaves (snd ec)) /\
    w64 (r_hleft r + r_hright r) = hsum (leaves t) /\ (r_hleft r < W64)%N.
Proof. exact Proofs.IndexSplit.hashes_spec. Qed.
Print Assumptions hashes_spec.

(** ** equality and hashing of branches *)

(** HashCode depends only on the unordered pair of sides *)
Theorem hashcode_sym : forall nl nr hl hr, hash_code_of nl nr hl hr = hash_code_of nr nl hr hl.
Proof. exact Proofs.IndexBase.hashcode_sym. Qed.
Print Assumptions hashcode_sym.

(** bitset.EqualOrComplement (Edge.HashEquals) on branches of trees on the same taxa is "same
    bipartition of the taxa" *)
Theorem equal_or_complement_iff : forall t1 t2 ec1 r1 ec2 r2,
    good t1 -> good t2 -> Permutation (leaves t1) (leaves t2) ->
    branch_row t1 ec1 r1 -> branch_row t2 ec2 r2 ->
    (equal_or_complement (r_bits r1) (r_bits r2) = true <->
     same_split (leaves t1) (leaves (snd ec1)) (leaves (snd ec2))).
Proof. exact Proofs.IndexSplit.equal_or_complement_iff. Qed.
Print Assumptions equal_or_complement_iff.

(** equal bipartitions hash equally whatever the rooting, the orientation, the child order *)
Theorem hashcode_same_split : forall t1 t2 ec1 r1 ec2 r2,
    good t1 -> good t2 -> Permutation (leaves t1) (leaves t2) ->
    branch_row t1 ec1 r1 -> branch_row t2 ec2 r2 ->
    same_split (leaves t1) (leaves (snd ec1)) (leaves (snd ec2)) ->
    hash_code r1 = hash_code r2.
Proof. exact Proofs.IndexSplit.hashcode_same_split. Qed.
Print Assumptions hashcode_same_split.

(** Edge.SameBipartition decides "same bipartition" *)
Theorem same_bipartition_iff : forall t1 t2 ec1 r1 ec2 r2,
    good t1 -> good t2 -> Permutation (leaves t1) (leaves t2) ->
    branch_row t1 ec1 r1 -> branch_row t2 ec2 r2 ->
    (same_bipartition r1 r2 = true <-> same_split (leaves t1) (leaves (snd ec1)) (leaves (snd ec2))).
Proof. exact Proofs.IndexSplit.same_bipartition_iff. Qed.
Print Assumptions same_bipartition_iff.

(** Edge.FindEdge on initialized indexes never fails, and finds a branch exactly when the other
    tree has a branch of the same kind (tip / internal) with the same bipartition *)
Theorem find_edge_spec : forall t1 t2 ec1 r1,
    good t1 -> good t2 -> Permutation (leaves t1) (leaves t2) -> branch_row t1 ec1 r1 ->
    exists b, find_edge r1 (rows t2) = Ok b /\
              (b = true <-> exists ec2 r2, branch_row t2 ec2 r2 /\ r_tip r2 = r_tip r1 /\
                                           same_split (leaves t1) (leaves (snd ec1)) (leaves (snd ec2))).
Proof. exact Proofs.IndexEdit.find_edge_spec. Qed.
Print Assumptions find_edge_spec.

(** ** ranks are those of the specification's sort *)
Theorem sort_names_ssort : forall l, sort_names l = ssort l.
Proof. exact Proofs.IndexEdit.sort_names_ssort. Qed.
Print Assumptions sort_names_ssort.

Theorem sorted_tip_names_ssort : forall t, wf t = true -> 2 <= degree t -> sorted_tip_names t = ssort (leaves t).
Proof. exact Proofs.IndexEdit.sorted_tip_names_ssort. Qed.
Print Assumptions sorted_tip_names_ssort.

(** ** after an edit
    Whatever the operation: if it yields a well-formed tree on the same tips, the indexes
    recomputed on the result keep the same ranks, describe the new tree, and its branches
    compare and hash consistently with those of the old tree. *)
Theorem after_edit : forall t t',
    good t -> good t' -> Permutation (leaves t') (leaves t) ->
    sorted_tip_names t' = sorted_tip_names t /\
    index_tables t' = Ok (mkTables (sorted_tip_names t)
                                   (map (fun n => index_of n (sorted_tip_names t)) (tip_names t'))
                                   (rows t')) /\
    Forall2 (row_describes (sorted_tip_names t) t') (edges t') (rows t') /\
    (forall ec r ec' r', branch_row t ec r -> branch_row t' ec' r' ->
       (same_bipartition r r' = true <-> same_split (leaves t) (leaves (snd ec)) (leaves (snd ec'))) /\
       (same_split (leaves t) (leaves (snd ec)) (leaves (snd ec')) -> hash_code r = hash_code r')).
Proof. exact Proofs.IndexEdit.after_edit. Qed.
Print Assumptions after_edit.

(** Reroot, RotateInternalNodes, SortNeighborsByTips, UnRoot (Model/Reroot.v) yield such trees *)
Theorem reroot_good : forall t i t', good t -> reroot t i = Ok t' -> good t' /\ Permutation (leaves t') (leaves t).
Proof. exact Proofs.IndexEdit.reroot_good. Qed.
Print Assumptions reroot_good.

Theorem rotate_good : forall t cs, good t ->
    good (fst (rotate_all t cs)) /\ Permutation (leaves (fst (rotate_all t cs))) (leaves t).
Proof. exact Proofs.IndexEdit.rotate_good. Qed.
Print Assumptions rotate_good.

Theorem sort_good : forall t, good t ->
    good (sort_by_tips t) /\ Permutation (leaves (sort_by_tips t)) (leaves t).
Proof. exact Proofs.IndexEdit.sort_good. Qed.
Print Assumptions sort_good.

Theorem unroot_good : forall t, good t -> rooted t = true -> root_has_inner_child t = true ->
    good (unroot t) /\ Permutation (leaves (unroot t)) (leaves t).
Proof. exact Proofs.IndexEdit.unroot_good. Qed.
Print Assumptions unroot_good.

(** ** the hash map *)

(** any key type whose HashEquals is symmetric, transitive and compatible with HashCode on the keys
    the client uses ([ok]); any uint64 initial capacity (NewHashMap turns 0 into 1); any resize policy [need]; any history:
    every returned value, the final key/value content and the counter [total] are those of a
    plain association list.  ([run] returns [None] when the Go code would panic.) *)
Theorem hashmap_refines :
  forall (K V : Type) (hash : K -> N) (eqb : K -> K -> bool) (need : nat -> N -> bool) (ok : K -> Prop),
    (forall a b, ok a -> ok b -> eqb a b = true -> eqb b a = true) ->
    (forall a b c, ok a -> ok b -> ok c -> eqb a b = true -> eqb b c = true -> eqb a c = true) ->
    (forall a b, ok a -> ok b -> eqb a b = true -> hash a = hash b) ->
    forall (cap : N) (ops : list (Model.HashMap.op K V)) (rs : list (Model.HashMap.ores V)) (mf : hmap K V),
      (cap < W64)%N ->
      ops_ok K V ok ops ->
      Model.HashMap.run K V hash eqb need (new_hashmap K V cap) ops = Some (rs, mf) ->
      rs = fst (Model.HashMap.run_assoc K V eqb [] ops) /\
      Permutation (key_values K V mf) (snd (Model.HashMap.run_assoc K V eqb [] ops)) /\
      hm_total mf = length (snd (Model.HashMap.run_assoc K V eqb [] ops)).
Proof. exact Proofs.HashMap.hashmap_refines_gen. Qed.
Print Assumptions hashmap_refines.

(** no panic as long as the doubling does not wrap around 2^64 *)
Theorem hashmap_total :
  forall (K V : Type) (hash : K -> N) (eqb : K -> K -> bool) (need : nat -> N -> bool) (ok : K -> Prop),
    (forall a b, ok a -> ok b -> eqb a b = true -> eqb b a = true) ->
    (forall a b c, ok a -> ok b -> ok c -> eqb a b = true -> eqb b c = true -> eqb a c = true) ->
    (forall a b, ok a -> ok b -> eqb a b = true -> hash a = hash b) ->
    forall (cap : N) (ops : list (Model.HashMap.op K V)),
      (cap < W64)%N -> ops_ok K V ok ops -> no_overflow need ->
      Model.HashMap.run K V hash eqb need (new_hashmap K V cap) ops <> None.
Proof. exact Proofs.HashMap.hashmap_total_gen. Qed.
Print Assumptions hashmap_total.

(** capacity 0 behaves as capacity 1 *)
Theorem hashmap_capacity_zero : forall K V, new_hashmap K V 0 = new_hashmap K V 1.
Proof. exact Proofs.HashMap.hashmap_capacity_zero. Qed.
Print Assumptions hashmap_capacity_zero.

(** ** the split-keyed index *)

(** keys = rows of branches of any well-formed trees on the taxa [L]: PutEdgeValue, AddEdgeCount,
    Value and Edges(min,max) behave like the association list keyed by HashEquals ... *)
Theorem edgeindex_refines : forall (L : list string) (need : nat -> N -> bool) cap ops rs mf,
    (cap < W64)%N -> eiops_ok L ops ->
    ei_run need (new_edge_index cap) ops = Some (rs, mf) ->
    rs = fst (ei_run_assoc [] ops) /\
    Permutation (key_values ekey einfo_v mf) (snd (ei_run_assoc [] ops)) /\
    (forall mn mx, Permutation (ei_edges mf mn mx)
                               (filter (fun kv => let c := fst (snd kv) in
                                                  ((mn <? c)%Z && (c <=? mx)%Z) || (c =? mx)%Z)
                                       (snd (ei_run_assoc [] ops)))).
Proof. exact Proofs.EdgeIndex.edgeindex_refines_gen. Qed.
Print Assumptions edgeindex_refines.

Theorem edgeindex_total : forall (L : list string) (need : nat -> N -> bool) cap ops,
    (cap < W64)%N -> eiops_ok L ops -> no_overflow need ->
    ei_run need (new_edge_index cap) ops <> None.
Proof. exact Proofs.EdgeIndex.edgeindex_total_gen. Qed.
Print Assumptions edgeindex_total.

(** ... and HashEquals on such keys is "same bipartition" *)
Theorem ekey_eqb_same_split : forall (L : list string) t1 ec1 t2 ec2 a b,
    good t1 -> good t2 -> Permutation L (leaves t1) -> Permutation L (leaves t2) ->
    branch_row t1 ec1 (ek_row a) -> branch_row t2 ec2 (ek_row b) ->
    (ekey_eqb a b = true <-> same_split (leaves t1) (leaves (snd ec1)) (leaves (snd ec2))).
Proof. exact Proofs.EdgeIndex.ekey_eqb_same_split. Qed.
Print Assumptions ekey_eqb_same_split.

(** ** quartets *)

(** HashEquals (equal or conflicting: same four taxa) => same HashCode, for all quartets *)
Theorem quartet_hash_compat : forall q q',
    q_hash_equals q q' = true -> q_hash_code q = q_hash_code q'.
Proof. exact Proofs.Quartet.quartet_hash_compat. Qed.
Print Assumptions quartet_hash_compat.

(** special case: the hash ignores the order inside each pair *)
Theorem quartet_hash_compat_partial : forall a b c d,
    q_hash_code (mkQ a b c d) = q_hash_code (mkQ b a c d) /\
    q_hash_code (mkQ a b c d) = q_hash_code (mkQ a b d c).
Proof. exact Proofs.Quartet.quartet_hash_compat_partial. Qed.
Print Assumptions quartet_hash_compat_partial.

(** the presentations that used to disagree (fixed in /repo), and the lookup that used to miss *)
Example quartet_former_witness :
  q_hash_equals (mkQ 0 1 2 3) (mkQ 2 3 0 1) = true /\
  q_hash_code (mkQ 0 1 2 3) = q_hash_code (mkQ 2 3 0 1) /\
  q_hash_code (mkQ 1 2 3 4) = q_hash_code (mkQ 3 4 1 2).
Proof. exact Proofs.Quartet.quartet_former_witness. Qed.
Print Assumptions quartet_former_witness.

Example quartet_map_example :
  let need := fun (_ : nat) (_ : N) => false in
  let ops := [OPut (mkQ 0 1 2 3) 7%Z; OValue (mkQ 2 3 0 1)] in
  exists mf, Model.HashMap.run quartet Z q_hash_code q_hash_equals need (new_hashmap quartet Z 256) ops = Some ([RPut; RValue (Some 7%Z)], mf).
Proof. exact Proofs.Quartet.quartet_map_example. Qed.
Print Assumptions quartet_map_example.

(** Compare recognises the eight presentations of one quartet *)
Theorem quartet_equals_presentations : forall a b c d,
    q_compare (mkQ a b c d) (mkQ a b c d) = QEquals /\
    q_compare (mkQ a b c d) (mkQ b a c d) = QEquals /\
    q_compare (mkQ a b c d) (mkQ a b d c) = QEquals /\
    q_compare (mkQ a b c d) (mkQ b a d c) = QEquals /\
    q_compare (mkQ a b c d) (mkQ c d a b) = QEquals /\
    q_compare (mkQ a b c d) (mkQ d c a b) = QEquals /\
    q_compare (mkQ a b c d) (mkQ c d b a) = QEquals /\
    q_compare (mkQ a b c d) (mkQ d c b a) = QEquals.
Proof. exact Proofs.Quartet.quartet_equals_presentations. Qed.
Print Assumptions quartet_equals_presentations.

(** ** the hypotheses are satisfiable *)
Definition ex_tip (n : string) : utree := UNode n [] [None].
Definition ex_tree : utree :=
  UNode "" [] [Some (e0, ex_tip "b"); Some (e0, UNode "" [] [Some (e0, ex_tip "c"); None; Some (e0, ex_tip "a")]);
               Some (e0, ex_tip "d")].

Example ex_tree_good : good ex_tree.
Proof.
  unfold good. split; [reflexivity|]. split; [unfold degree; simpl; repeat constructor|].
  simpl.
  repeat (constructor; [simpl; intros H; repeat (destruct H as [H|H]; [discriminate H|]); exact H|]).
  constructor.
Qed.
Print Assumptions ex_tree_good.

(** the branch to the inner node: tips c and a below, i.e. ranks 2 and 0 of [a; b; c; d] *)
Example ex_tree_row :
  exists ec r, branch_row ex_tree ec r /\ leaves (snd ec) = ["c"; "a"] /\
               r_bits r = [true; false; true; false] /\ r_nright r = 2 /\ r_nleft r = 2.
Proof.
  exists (e0, UNode "" [] [Some (e0, ex_tip "c"); None; Some (e0, ex_tip "a")]).
  eexists. split; [|split; [reflexivity|]].
  - unfold branch_row. vm_compute. right. left. reflexivity.
  - vm_compute. auto.
Qed.
Print Assumptions ex_tree_row.

(** a Hasher satisfying the contract: pairs compared up to order (hashmap_test.go's PairKey) *)
Example hashmap_contract_satisfiable :
  let eqb := fun a b : nat * nat => (Nat.eqb (fst a) (fst b) && Nat.eqb (snd a) (snd b)) ||
                                    (Nat.eqb (fst a) (snd b) && Nat.eqb (snd a) (fst b)) in
  let hash := fun a : nat * nat => N.of_nat (fst a + snd a) in
  (forall a b, eqb a b = true -> eqb b a = true) /\
  (forall a b c, eqb a b = true -> eqb b c = true -> eqb a c = true) /\
  (forall a b, eqb a b = true -> hash a = hash b).
Proof.
  cbv zeta. repeat split.
  - intros [a1 a2] [b1 b2]; simpl. rewrite !orb_true_iff, !andb_true_iff, !Nat.eqb_eq. intuition.
  - intros [a1 a2] [b1 b2] [c1 c2]; simpl. rewrite !orb_true_iff, !andb_true_iff, !Nat.eqb_eq. intuition congruence.
  - intros [a1 a2] [b1 b2]; simpl. rewrite !orb_true_iff, !andb_true_iff, !Nat.eqb_eq.
    intros [[-> ->]|[-> ->]]; auto. f_equal. apply Nat.add_comm.
Qed.
Print Assumptions hashmap_contract_satisfiable.

(** * Stretch round *)

(** ** quartets over four distinct taxa *)
(** Compare is not QUARTET_DIFF exactly when the two quartets are over the same four taxa *)
Theorem q_compare_diff_iff : forall q q',
    q_distinct q -> q_distinct q' -> (q_compare q q' <> QDiff <-> same_taxa q q').
Proof. exact Proofs.QuartetEquiv.q_compare_diff_iff. Qed.
Print Assumptions q_compare_diff_iff.

Theorem q_hash_equals_iff : forall q q',
    q_distinct q -> q_distinct q' -> (q_hash_equals q q' = true <-> same_taxa q q').
Proof. exact Proofs.QuartetEquiv.q_hash_equals_iff. Qed.
Print Assumptions q_hash_equals_iff.

(** QUARTET_EQUALS exactly when the two pairs are the same, in either order (all quartets) *)
Theorem q_compare_equals_iff : forall q q',
    q_compare q q' = QEquals <->
    (same_pair (qt1 q) (qt2 q) (qt1 q') (qt2 q') /\ same_pair (qt3 q) (qt4 q) (qt3 q') (qt4 q')) \/
    (same_pair (qt1 q) (qt2 q) (qt3 q') (qt4 q') /\ same_pair (qt3 q) (qt4 q) (qt1 q') (qt2 q')).
Proof. exact Proofs.QuartetEquiv.q_compare_equals_iff. Qed.
Print Assumptions q_compare_equals_iff.

(** HashEquals is an equivalence on them (and compatible with HashCode: quartet_hash_compat) *)
Theorem q_hash_equals_equivalence :
  (forall q, q_hash_equals q q = true) /\
  (forall q q', q_distinct q -> q_distinct q' -> q_hash_equals q q' = true -> q_hash_equals q' q = true) /\
  (forall a b c, q_distinct a -> q_distinct b -> q_distinct c ->
                 q_hash_equals a b = true -> q_hash_equals b c = true -> q_hash_equals a c = true).
Proof.
  exact (conj Proofs.QuartetEquiv.q_hash_equals_refl
              (conj Proofs.QuartetEquiv.q_hash_equals_sym Proofs.QuartetEquiv.q_hash_equals_trans)).
Qed.
Print Assumptions q_hash_equals_equivalence.

(** a HashMap keyed by quartets (IndexQuartets) behaves like the association list *)
Theorem quartet_map_refines :
  forall (V : Type) (need : nat -> N -> bool) (cap : N) (ops : list (Model.HashMap.op quartet V)) rs mf,
    (cap < W64)%N ->
    ops_ok quartet V q_distinct ops ->
    Model.HashMap.run quartet V q_hash_code q_hash_equals need (new_hashmap quartet V cap) ops = Some (rs, mf) ->
    rs = fst (Model.HashMap.run_assoc quartet V q_hash_equals [] ops) /\
    Permutation (key_values quartet V mf) (snd (Model.HashMap.run_assoc quartet V q_hash_equals [] ops)) /\
    hm_total mf = length (snd (Model.HashMap.run_assoc quartet V q_hash_equals [] ops)).
Proof. exact Proofs.QuartetEquiv.quartet_map_refines. Qed.
Print Assumptions quartet_map_refines.

Theorem quartet_map_total :
  forall (V : Type) (need : nat -> N -> bool) (cap : N) (ops : list (Model.HashMap.op quartet V)),
    (cap < W64)%N -> ops_ok quartet V q_distinct ops -> no_overflow need ->
    Model.HashMap.run quartet V q_hash_code q_hash_equals need (new_hashmap quartet V cap) ops <> None.
Proof. exact Proofs.QuartetEquiv.quartet_map_total. Qed.
Print Assumptions quartet_map_total.

(** ** after the colleagues' editing operations: the result is a good tree, hence
    [tables_describe]: ReinitIndexes succeeds on it and every row describes its branch.
    No hypothesis on the degree of the new root is left: RemoveTips needs two tips left,
    SubTree a node with two children (both necessary). *)
Theorem good_tables : forall t, good t -> tables_describe t.
Proof. exact Proofs.IndexEditOps.good_tables. Qed.
Print Assumptions good_tables.

Theorem remove_tips_tables : forall revert names t t',
    good t -> no_single t = true -> remove_tips revert names t = Ok t' -> 2 <= length (leaves t') ->
    good t' /\ tables_describe t' /\ Permutation (leaves t') (filter (kept revert names) (leaves t)).
Proof. exact Proofs.IndexEditDeg.remove_tips_tables'. Qed.
Print Assumptions remove_tips_tables.

Theorem remove_edges_tables : forall rr rt sel t,
    good t ->
    good (remove_edges rr rt sel t) /\ tables_describe (remove_edges rr rt sel t) /\
    Permutation (leaves (remove_edges rr rt sel t)) (leaves t).
Proof. exact Proofs.IndexEditDeg.remove_edges_tables'. Qed.
Print Assumptions remove_edges_tables.

Theorem collapse_len_tables : forall l rr rt t,
    good t ->
    good (collapse_len l rr rt t) /\ tables_describe (collapse_len l rr rt t) /\
    Permutation (leaves (collapse_len l rr rt t)) (leaves t).
Proof. exact Proofs.IndexEditDeg.collapse_len_tables'. Qed.
Print Assumptions collapse_len_tables.

Theorem collapse_sup_tables : forall s rr t,
    good t ->
    good (collapse_sup s rr t) /\ tables_describe (collapse_sup s rr t) /\
    Permutation (leaves (collapse_sup s rr t)) (leaves t).
Proof. exact Proofs.IndexEditDeg.collapse_sup_tables'. Qed.
Print Assumptions collapse_sup_tables.

Theorem collapse_depth_tables : forall mn mx rr rt t t',
    good t -> collapse_depth mn mx rr rt t = Ok t' ->
    good t' /\ tables_describe t' /\ Permutation (leaves t') (leaves t).
Proof. exact Proofs.IndexEditDeg.collapse_depth_tables'. Qed.
Print Assumptions collapse_depth_tables.

Theorem resolve_tables : forall t cs,
    good t ->
    good (resolve t cs) /\ tables_describe (resolve t cs) /\ Permutation (leaves (resolve t cs)) (leaves t).
Proof. exact Proofs.IndexEditDeg.resolve_tables'. Qed.
Print Assumptions resolve_tables.

Theorem remove_single_tables : forall t,
    good t -> good (remove_single t) /\ tables_describe (remove_single t) /\
              Permutation (leaves (remove_single t)) (leaves t).
Proof. exact Proofs.IndexEditOps.remove_single_tables. Qed.
Print Assumptions remove_single_tables.

Theorem clone_tables : forall t,
    good t -> good (clone t) /\ tables_describe (clone t) /\ leaves (clone t) = leaves t.
Proof. exact Proofs.IndexEditDeg.clone_tables'. Qed.
Print Assumptions clone_tables.

Theorem merge_tables : forall t1 t2 t' i1 i2,
    good t1 -> good t2 -> (forall x, In x (leaves t1) -> In x (leaves t2) -> False) ->
    merge t1 t2 i1 i2 = Ok t' ->
    good t' /\ tables_describe t' /\ leaves t' = (leaves t1 ++ leaves t2)%list.
Proof. exact Proofs.IndexEditOps.merge_tables. Qed.
Print Assumptions merge_tables.

Theorem graft_tables : forall t g t' idx tip,
    good t -> good g -> (forall x, In x (leaves t) -> In x (leaves g) -> False) ->
    graft t idx tip g = Ok t' ->
    good t' /\ tables_describe t' /\ Permutation (leaves t' ++ [tip])%list (leaves t ++ leaves g)%list.
Proof. exact Proofs.IndexEditDeg.graft_tables'. Qed.
Print Assumptions graft_tables.

Theorem insert_identical_tables : forall t t' idx groups,
    good t -> (forall x, In x (leaves t) -> In x idx) -> ~ In ""%string idx ->
    Forall (fun g => ~ In ""%string g) groups ->
    insert_identical t idx groups = Ok t' ->
    good t' /\ tables_describe t'.
Proof. exact Proofs.IndexEditDeg.insert_identical_tables'. Qed.
Print Assumptions insert_identical_tables.

Theorem nni_tables : forall t r t',
    good t -> In r (nni_list t) -> Model.NNI.apply r t = Some t' ->
    good t' /\ tables_describe t' /\ Permutation (leaves t) (leaves t').
Proof. exact Proofs.IndexEditDeg.nni_tables'. Qed.
Print Assumptions nni_tables.

Theorem outgroup_tables : forall strict t names t',
    good t -> (rooted t = true -> root_has_inner_child t = true) ->
    reroot_outgroup false strict t names = Ok t' ->
    good t' /\ tables_describe t' /\ Permutation (leaves t') (leaves t).
Proof. exact Proofs.IndexEditOps.outgroup_tables. Qed.
Print Assumptions outgroup_tables.

Theorem outgroup_remove_tables : forall strict t names t',
    good t -> (rooted t = true -> root_has_inner_child t = true) ->
    reroot_outgroup true strict t names = Ok t' ->
    good t' /\ tables_describe t' /\ exists Rm, Permutation (leaves t) (leaves t' ++ Rm)%list.
Proof. exact Proofs.IndexEditOps.outgroup_remove_tables. Qed.
Print Assumptions outgroup_remove_tables.

Theorem midpoint_tables : forall t t',
    good t -> (rooted t = true -> root_has_inner_child t = true) ->
    reroot_midpoint t = Ok t' ->
    good t' /\ tables_describe t' /\ Permutation (leaves t') (leaves t).
Proof. exact Proofs.IndexEditOps.midpoint_tables. Qed.
Print Assumptions midpoint_tables.

(** ** Tree.CommonEdges over FindEdge (Model/Compare.v) on two good trees on the same taxa *)
Theorem found_in_iff : forall t1 t2 ec1 r1,
    good t1 -> good t2 -> Permutation (leaves t1) (leaves t2) -> branch_row t1 ec1 r1 ->
    (found_in (rows t2) r1 = true <->
     exists ec2 r2, branch_row t2 ec2 r2 /\ r_tip r2 = r_tip r1 /\
                    same_split (leaves t1) (leaves (snd ec1)) (leaves (snd ec2))).
Proof. exact Proofs.IndexCommon.found_in_iff. Qed.
Print Assumptions found_in_iff.

Theorem common_edges_spec : forall te t1 t2,
    good t1 -> good t2 -> Permutation (leaves t1) (leaves t2) ->
    common_edges te t1 t2 =
    let S := filter (considered te) (rows t1) in
    let C := filter (found_in (rows t2)) S in
    Ok ((Z.of_nat (length S) - Z.of_nat (length C))%Z, Z.of_nat (length C)).
Proof. exact Proofs.IndexCommon.common_edges_spec. Qed.
Print Assumptions common_edges_spec.

(** ** the bitset package at word level (Model/BitsetWords.v) agrees with the list-bool model,
    for every length *)
Theorem w_new_ok : forall n, wb_ok (w_new n) /\ to_bits (w_new n) = bits_new n.
Proof. exact Proofs.BitsetWords.w_new_ok. Qed.
Print Assumptions w_new_ok.

Theorem w_clear_all_ok : forall b, wb_ok b -> wb_ok (w_clear_all b) /\ to_bits (w_clear_all b) = bits_new (wb_len b).
Proof. exact Proofs.BitsetWords.w_clear_all_ok. Qed.
Print Assumptions w_clear_all_ok.

Theorem w_set_spec : forall b i, wb_ok b -> i < wb_len b ->
    exists b', w_set b i = Some b' /\ wb_ok b' /\ to_bits b' = set_bit i (to_bits b).
Proof. exact Proofs.BitsetWords.w_set_spec. Qed.
Print Assumptions w_set_spec.

Theorem w_test_spec : forall b i, wb_ok b -> w_test b i = Some (test_bit (to_bits b) i).
Proof. exact Proofs.BitsetWords.w_test_spec. Qed.
Print Assumptions w_test_spec.

Theorem w_none_spec : forall b, wb_ok b -> w_none b = bits_none (to_bits b).
Proof. exact Proofs.BitsetWords.w_none_spec. Qed.
Print Assumptions w_none_spec.

Theorem w_equal_spec : forall a b, wb_ok a -> wb_ok b ->
    w_equal a b = Some (bits_equal (to_bits a) (to_bits b)).
Proof. exact Proofs.BitsetWords.w_equal_spec. Qed.
Print Assumptions w_equal_spec.

(** ComplementTest with the masking of the last word *)
Theorem w_complement_test_spec : forall a b, wb_ok a -> wb_ok b ->
    w_complement_test a b = Some (bits_complement (to_bits a) (to_bits b)).
Proof. exact Proofs.BitsetWords.w_complement_test_spec. Qed.
Print Assumptions w_complement_test_spec.

Theorem w_equal_or_complement_spec : forall a b, wb_ok a -> wb_ok b ->
    w_equal_or_complement a b = Some (equal_or_complement (to_bits a) (to_bits b)).
Proof. exact Proofs.BitsetWords.w_equal_or_complement_spec. Qed.
Print Assumptions w_equal_or_complement_spec.

(** the bitset of every branch, built as the Go code builds it (New(ntips), Set(tip id) for the
    tips below), is a word-level set standing for the row's [r_bits] *)
Theorem row_bitset_words : forall t ec r,
    good t -> branch_row t ec r ->
    exists w, w_set_all (w_new (length (sorted_tip_names t))) (tip_ids_below (sorted_tip_names t) (snd ec)) = Some w /\
              wb_ok w /\ to_bits w = r_bits r.
Proof. exact Proofs.BitsetWords.row_bitset_words. Qed.
Print Assumptions row_bitset_words.

(** * Last round *)

(** the root never loses a neighbour in RemoveEdges, hence in the three Collapse operations *)
Theorem remove_edges_degree : forall rr rt sel t, wf t = true -> degree t <= degree (remove_edges rr rt sel t).
Proof. exact Proofs.IndexEditDeg.remove_edges_degree. Qed.
Print Assumptions remove_edges_degree.

(** SubTree (another tip set): the copy of the subtree of a node with at least two children *)
Theorem subtree_tables : forall t i s,
    good t -> subtree t i = Some s -> 2 <= degree s ->
    good s /\ tables_describe s /\ exists node, nth_error (nodes t) i = Some node /\ leaves s = leaves node.
Proof. exact Proofs.IndexEditDeg.subtree_tables. Qed.
Print Assumptions subtree_tables.

(** the operation alphabet of Model/History.v *)
Theorem C04_after_any_edit : forall o t t', Model.History.run_op o t = Ok t' -> good t' -> tables_describe t'.
Proof. exact Proofs.IndexHistory.C04_after_any_edit. Qed.
Print Assumptions C04_after_any_edit.

(** ... and the result is a good tree as soon as the input is one, the operation's side
    condition of Proofs/History.v holds and [edit_pre] (root with an inner child for UnRoot /
    RerootOutGroup of a rooted tree; two tips left for RemoveTips; a good graft / second tree
    on disjoint taxa; a node with two children for SubTree; Rename is not covered: its
    [edit_pre] is the conclusion) *)
Theorem C04_after_any_edit_good : forall o t t',
    good t -> Proofs.History.side (false, o) t -> Proofs.IndexHistory.edit_pre o t t' ->
    Model.History.run_op o t = Ok t' ->
    good t' /\ tables_describe t'.
Proof. exact Proofs.IndexHistory.C04_after_any_edit_good. Qed.
Print Assumptions C04_after_any_edit_good.

(** the hash map and the split index under the real load-factor policy (0.75, as modelled by
    Model/Compare.v [need75]) never panic within 2^62 operations, for every initial capacity *)
Theorem hashmap_total_real_policy :
  forall (K V : Type) (hash : K -> N) (eqb : K -> K -> bool) (ok : K -> Prop),
    (forall a b, ok a -> ok b -> eqb a b = true -> eqb b a = true) ->
    (forall a b c, ok a -> ok b -> ok c -> eqb a b = true -> eqb b c = true -> eqb a c = true) ->
    (forall a b, ok a -> ok b -> eqb a b = true -> hash a = hash b) ->
    forall (cap : N) (ops : list (Model.HashMap.op K V)),
      (cap < W64)%N -> ops_ok K V ok ops -> (N.of_nat (length ops) <= 2 ^ 62)%N ->
      Model.HashMap.run K V hash eqb need75 (new_hashmap K V cap) ops <> None.
Proof. exact Proofs.HashMap.hashmap_total_real_policy_gen. Qed.
Print Assumptions hashmap_total_real_policy.

Theorem edgeindex_total_real_policy : forall (L : list string) cap ops,
    (cap < W64)%N -> eiops_ok L ops -> (N.of_nat (length ops) <= 2 ^ 62)%N ->
    ei_run need75 (new_edge_index cap) ops <> None.
Proof. exact Proofs.EdgeIndex.edgeindex_total_real_policy_gen. Qed.
Print Assumptions edgeindex_total_real_policy.

(** the policy as a bound on the number of entries, for other clients of Proofs/HashMap.v *)
Theorem need75_no_overflow : no_overflow_upto need75 (2 ^ 62).
Proof. exact Proofs.HashMap.need75_upto. Qed.
Print Assumptions need75_no_overflow.

(** * Stretch 5: clauses that were only tested by the judge's oracle *)

(** ** the canonical key of a bipartition (what the judge's oracle compares) *)
Theorem split_key_iff : forall all a b,
    incl a all -> incl b all ->
    (split_key (sset all) a = split_key (sset all) b <-> same_split all a b).
Proof. exact Proofs.SplitMap.split_key_iff. Qed.
Print Assumptions split_key_iff.

Theorem split_key_same_split : forall t1 t2 ec1 ec2,
    good t1 -> good t2 -> Permutation (leaves t1) (leaves t2) ->
    In ec1 (edges t1) -> In ec2 (edges t2) ->
    (sset_eqb (split_key (tipset t1) (leaves (snd ec1))) (split_key (tipset t2) (leaves (snd ec2))) = true <->
     same_split (leaves t1) (leaves (snd ec1)) (leaves (snd ec2))).
Proof. exact Proofs.SplitMap.split_key_same_split. Qed.
Print Assumptions split_key_same_split.

(** ** the split index IS the plain map keyed by bipartitions (Spec/SplitMap.v [sp_run], the very
    definition the judge's oracle runs): every returned value, and the final content entry by
    entry, for every capacity, resize policy and history; [oprel] pairs an operation on a key
    object (a branch of any good tree on the taxa L) with the operation on its canonical key *)
Theorem edgeindex_is_split_map : forall (L : list string) (need : nat -> N -> bool) cap ops sops rs mf,
    (cap < W64)%N -> Forall2 (oprel L) ops sops ->
    ei_run need (new_edge_index cap) ops = Some (rs, mf) ->
    map to_sres rs = fst (sp_run [] sops) /\
    exists a, Permutation (key_values ekey einfo_v mf) a /\ rel L a (snd (sp_run [] sops)).
Proof. exact Proofs.SplitMap.edgeindex_is_split_map. Qed.
Print Assumptions edgeindex_is_split_map.

(** lookups find exactly the stored bipartition *)
Theorem edgeindex_value_exact : forall (L : list string) (need : nat -> N -> bool) cap ops rs mf e,
    (cap < W64)%N -> eiops_ok L ops -> ok_key L e ->
    ei_run need (new_edge_index cap) ops = Some (rs, mf) ->
    exists r, ei_value mf e = Some r /\
              (forall v, r = Some v <-> exists k, In (k, v) (key_values ekey einfo_v mf) /\ ekey_eqb e k = true).
Proof. exact Proofs.SplitMap.edgeindex_value_exact. Qed.
Print Assumptions edgeindex_value_exact.

(** non-vacuity: the branch above (c,a) of [ex_tree], key {b,d}; AddEdgeCount then Value *)
Example split_map_example :
  let L := leaves ex_tree in
  let r := nth 1 (rows ex_tree) (mkRow [] 0 0 0 0 false) in
  let k := mkEK (0, 1) r 0%Q in
  let s := ["b"; "d"] in
  sided L k s /\ oprel L (EIAdd k) (SAdd s (ek_len k)) /\
  (exists mf, ei_run (fun _ _ => false) (new_edge_index 4) [EIAdd k; EIValue k] = Some ([EIOk; EIVal (Some (1%Z, 0%Q))], mf)) /\
  fst (sp_run [] [SAdd s 0%Q; SValue s]) = [SOk; SVal (Some (1%Z, 0%Q))].
Proof.
  cbv zeta.
  assert (S : sided (leaves ex_tree)
                    (mkEK (0, 1) (nth 1 (rows ex_tree) (mkRow [] 0 0 0 0 false)) 0%Q) ["b"; "d"]).
  { exists ex_tree, (e0, UNode "" [] [Some (e0, ex_tip "c"); None; Some (e0, ex_tip "a")]).
    split; [exact ex_tree_good|]. split; [apply Permutation_refl|]. split.
    - unfold branch_row. vm_compute. right. left. reflexivity.
    - vm_compute. reflexivity. }
  split; [exact S|]. split; [constructor; exact S|]. split; [eexists|]; vm_compute; reflexivity.
Qed.
Print Assumptions split_map_example.

(** ** the tip index is a bijection between the tips and the ranks of the sorted names *)
Theorem tip_index_bijection : forall t,
    wf t = true -> 2 <= degree t -> NoDup (leaves t) ->
    let ids := sorted_tip_names t in
    let tid := fun name => index_of name ids in
    tip_names t = leaves t /\ NoDup ids /\ length ids = length (tip_names t) /\
    ids = ssort (leaves t) /\
    (forall name, In name (tip_names t) -> tid name < length ids /\ nth_error ids (tid name) = Some name) /\
    (forall i, i < length ids -> exists name, In name (tip_names t) /\ tid name = i) /\
    (forall a b, In a (tip_names t) -> In b (tip_names t) -> tid a = tid b -> a = b).
Proof. exact Proofs.SplitMap.tip_index_bijection. Qed.
Print Assumptions tip_index_bijection.

Example tip_index_example :
  sorted_tip_names ex_tree = ["a"; "b"; "c"; "d"] /\
  map (fun n => index_of n (sorted_tip_names ex_tree)) (tip_names ex_tree) = [1; 2; 0; 3].
Proof. vm_compute. split; reflexivity. Qed.
Print Assumptions tip_index_example.

(** ** quartets: ALL 4-tuples of taxon ids, repeated taxa included *)
(** HashEquals (Compare <> QUARTET_DIFF) = equal canonical form (sorted 4-tuple) = same multiset *)
Theorem q_hash_equals_canon_iff : forall q q', q_hash_equals q q' = true <-> q_canon q = q_canon q'.
Proof. exact Proofs.QuartetAll.q_hash_equals_canon_iff. Qed.
Print Assumptions q_hash_equals_canon_iff.

Theorem q_hash_equals_perm_iff : forall q q', q_hash_equals q q' = true <-> Permutation (qlist q) (qlist q').
Proof. exact Proofs.QuartetAll.q_hash_equals_perm_iff. Qed.
Print Assumptions q_hash_equals_perm_iff.

Theorem q_canon_sorted : forall q, let '(s1, s2, s3, s4) := q_canon q in (s1 <= s2 /\ s2 <= s3 /\ s3 <= s4)%N.
Proof. exact Proofs.QuartetAll.canon_sorted. Qed.
Print Assumptions q_canon_sorted.

(** an equivalence relation on all quartets (compatible with HashCode: quartet_hash_compat) *)
Theorem q_hash_equals_equivalence_all :
  (forall q, q_hash_equals q q = true) /\
  (forall q q', q_hash_equals q q' = true -> q_hash_equals q' q = true) /\
  (forall a b c, q_hash_equals a b = true -> q_hash_equals b c = true -> q_hash_equals a c = true).
Proof. exact (conj Proofs.QuartetAll.he_refl (conj Proofs.QuartetAll.he_sym Proofs.QuartetAll.he_trans)). Qed.
Print Assumptions q_hash_equals_equivalence_all.

(** so the map keyed by quartets needs no distinctness hypothesis *)
Theorem quartet_map_refines_all :
  forall (V : Type) (need : nat -> N -> bool) (cap : N) (ops : list (Model.HashMap.op quartet V)) rs mf,
    (cap < W64)%N ->
    Model.HashMap.run quartet V q_hash_code q_hash_equals need (new_hashmap quartet V cap) ops = Some (rs, mf) ->
    rs = fst (Model.HashMap.run_assoc quartet V q_hash_equals [] ops) /\
    Permutation (key_values quartet V mf) (snd (Model.HashMap.run_assoc quartet V q_hash_equals [] ops)) /\
    hm_total mf = length (snd (Model.HashMap.run_assoc quartet V q_hash_equals [] ops)).
Proof. exact Proofs.QuartetAll.quartet_map_refines_all. Qed.
Print Assumptions quartet_map_refines_all.

Example quartet_repeated_taxa_example :
  q_hash_equals (mkQ 1 1 2 3) (mkQ 1 2 1 3) = true /\
  q_canon (mkQ 1 1 2 3) = (1, 1, 2, 3)%N /\ q_canon (mkQ 1 2 1 3) = (1, 1, 2, 3)%N /\
  q_hash_code (mkQ 1 1 2 3) = q_hash_code (mkQ 1 2 1 3) /\
  q_hash_equals (mkQ 1 1 2 3) (mkQ 1 2 2 3) = false.
Proof. vm_compute. repeat split. Qed.
Print Assumptions quartet_repeated_taxa_example.
