(** C07, companion: non-finite numbers.  The Go run may carry NaN / +Inf / -Inf as a length, a support
    or a threshold; the judge sees a finite placeholder.  Over a small model of the IEEE comparisons
    ([ext], [ext_le], [ext_lt]) the comparison with the non-finite value decides exactly as the
    rational comparison with the placeholder chosen by driver/props/c07.py. *)
From Coq Require Import QArith Bool.
From GT Require Import Proofs.NonFinite.
Local Open Scope Q_scope.

Theorem C07_nonfinite_length :
  forall v t, (v = NInf -> 0 <= t) -> ext_le v (Fin t) = Qle_bool (len_placeholder v t) t.
Proof. exact nonfinite_length_decides. Qed.
Print Assumptions C07_nonfinite_length.

Theorem C07_nonfinite_support :
  forall v s, (v = NInf -> 0 < s) -> ext_lt v (Fin s) = negb (Qle_bool s (sup_placeholder v s)).
Proof. exact nonfinite_support_decides. Qed.
Print Assumptions C07_nonfinite_support.

Theorem C07_nonfinite_threshold :
  forall x v, -1 <= x -> x <= 1000000 -> (forall q, v <> Fin q) ->
  ext_le (Fin x) v = Qle_bool x (thr_placeholder v).
Proof. exact nonfinite_threshold_decides. Qed.
Print Assumptions C07_nonfinite_threshold.

Theorem C07_nonfinite_support_threshold :
  forall x v, 0 <= x -> x < 1000000 -> (forall q, v <> Fin q) ->
  ext_lt (Fin x) v = negb (Qle_bool (thr_placeholder v) x).
Proof. exact nonfinite_sup_threshold_decides. Qed.
Print Assumptions C07_nonfinite_support_threshold.

Theorem C07_nan_never_satisfies :
  forall x, ext_le NaN x = false /\ ext_le x NaN = false /\ ext_lt NaN x = false /\ ext_lt x NaN = false.
Proof. exact nan_never. Qed.
Print Assumptions C07_nan_never_satisfies.
