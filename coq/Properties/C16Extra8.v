(** C16 round 8: the two deterministic constructors of tree/treegen.go not covered so far,
    BipartitionTree (:352) and EdgeTree (:314); model in Model/C16Extra8.v, proofs in
    Proofs/C16Extra8.v.  For ALL name lists. *)
From Coq Require Import String NArith ZArith QArith Bool Arith Lia List Permutation.
From GT Require Import Base.UTree Spec.Obs Spec.GenShape Spec.Counting Model.Reroot Model.Rand2 Model.TreeGen Model.C16Extra8
     Proofs.TreeGenMain Proofs.TreeGenIndex Proofs.C16Extra8.
Import ListNotations.
Local Close Scope Q_scope.

(** BipartitionTree: two sides of at least two names, all names pairwise distinct -> a well-formed
    tree whose tips are exactly the given names (right side first), all lengths non-negative,
    exactly ONE internal branch (length 1) and that branch separates the right names from the
    rest, indexes ready *)
Theorem C16_bipartition_tree :
  forall lefts rights, 2 <= length lefts -> 2 <= length rights -> NoDup (lefts ++ rights) ->
  exists t, bipartition_tree lefts rights = GOk t /\
    wf t = true /\ leaves t = rights ++ lefts /\ NoDup (leaves t) /\ lens_nonneg t = true /\
    length (tip_edges t) = length rights + length lefts /\
    (exists e c, internal_edges t = [(e, c)] /\ leaves c = rights /\ Qeq (elen e) 1%Q) /\
    indexes_ready t.
Proof. exact bipartition_tree_ok. Qed.
Print Assumptions C16_bipartition_tree.

(** a side with fewer than two names (in particular an empty one) is an error *)
Theorem C16_bipartition_tree_below_minimum :
  forall lefts rights, length lefts <= 1 \/ length rights <= 1 ->
    bipartition_tree lefts rights = GErr err_bip_small.
Proof. exact bipartition_tree_small. Qed.
Print Assumptions C16_bipartition_tree_below_minimum.

(** a name on both sides is an error *)
Theorem C16_bipartition_tree_common_name :
  forall lefts rights x, 2 <= length lefts -> 2 <= length rights -> In x lefts -> In x rights ->
    bipartition_tree lefts rights = GErr err_bip_common.
Proof. exact bipartition_tree_common. Qed.
Print Assumptions C16_bipartition_tree_common_name.

(** a name repeated inside one side passes the explicit tests and is rejected by ReinitIndexes *)
Theorem C16_bipartition_tree_repeated_name :
  forall lefts rights, 2 <= length lefts -> 2 <= length rights ->
    (forall x, In x lefts -> ~ In x rights) -> ~ NoDup (lefts ++ rights) ->
    bipartition_tree lefts rights = GErr err_tipindex_dup.
Proof. exact bipartition_tree_dup. Qed.
Print Assumptions C16_bipartition_tree_repeated_name.

(** exact domain of success; never a crash *)
Theorem C16_bipartition_tree_domain :
  forall lefts rights,
  bipartition_tree lefts rights <> GPanic /\
  ((exists t, bipartition_tree lefts rights = GOk t) <->
   (2 <= length lefts /\ 2 <= length rights /\ NoDup (lefts ++ rights))).
Proof. exact bipartition_tree_domain. Qed.
Print Assumptions C16_bipartition_tree_domain.

(** EdgeTree as a function of the tip names and of the side test of the branch *)
Theorem C16_edge_tree :
  forall alltips isright,
  let rights := filter isright alltips in
  let lefts := filter (fun nm => negb (isright nm)) alltips in
  1 <= length lefts -> 1 <= length rights -> NoDup alltips ->
  let t := edge_tree_of alltips isright in
  wf t = true /\ leaves t = rights ++ lefts /\ Permutation (leaves t) alltips /\
  lens_nonneg t = true /\
  (exists e c, internal_edges t = [(e, c)] /\ leaves c = rights) /\
  indexes_ready t.
Proof. exact edge_tree_ok. Qed.
Print Assumptions C16_edge_tree.

Local Open Scope string_scope.
Example C16_example_bipartition_tree :
  (2 <= length ["a"; "b"; "c"] /\ 2 <= length ["d"; "e"] /\
   nodup_strb (["a"; "b"; "c"] ++ ["d"; "e"]) = true) /\
  (exists t, bipartition_tree ["a"; "b"; "c"] ["d"; "e"] = GOk t /\
             leaves t = ["d"; "e"; "a"; "b"; "c"] /\ length (internal_edges t) = 1 /\ degree t = 4) /\
  bipartition_tree ["a"] ["d"; "e"] = GErr err_bip_small /\
  bipartition_tree ["a"; "d"] ["d"; "e"] = GErr err_bip_common /\
  bipartition_tree ["a"; "a"] ["d"; "e"] = GErr err_tipindex_dup /\
  leaves (edge_tree_of ["a"; "b"; "c"; "d"] (fun nm => String.eqb nm "b" || String.eqb nm "d")) =
    ["b"; "d"; "a"; "c"].
Proof. vm_compute. repeat split; try lia. eexists. repeat split. Qed.
Print Assumptions C16_example_bipartition_tree.

Local Close Scope string_scope.
(** * size: a well-formed binary tree with L tips has 2L-3 (unrooted) / 2L-2 (rooted) branches in
    Tree.Edges(); so has every tree the random generators return for n tips *)
Theorem C16_binary_edge_count :
  forall (rooted : bool) t, wf t = true -> binary rooted t = true ->
    length (edges t) + (if rooted then 2 else 3) = 2 * length (leaves t).
Proof. exact binary_edge_count. Qed.
Print Assumptions C16_binary_edge_count.

Theorem C16_good_tree_size :
  forall rooted n t, good_tree rooted n t ->
    length (leaves t) = n /\ length (edges t) + (if rooted then 2 else 3) = 2 * n.
Proof. exact good_tree_edge_count. Qed.
Print Assumptions C16_good_tree_size.

Theorem C16_uniform_size :
  forall n rooted cs ls, 3 <= n -> in_bounds cs (uniform_bounds n rooted) ->
  exists t, uniform_tree n rooted cs ls = GOk t /\ length (leaves t) = n /\
            length (edges t) = (if rooted then 2 * n - 2 else 2 * n - 3).
Proof. exact uniform_tree_size. Qed.
Print Assumptions C16_uniform_size.

Theorem C16_yule_size :
  forall n rooted cs ls, 3 <= n -> in_bounds cs (yule_bounds n rooted) ->
  exists t, yule_tree n rooted cs ls = GOk t /\ length (leaves t) = n /\
            length (edges t) = (if rooted then 2 * n - 2 else 2 * n - 3).
Proof. exact yule_tree_size. Qed.
Print Assumptions C16_yule_size.

Example C16_example_size :
  in_bounds [1; 3; 5] (uniform_bounds 5 true) /\
  (exists t, uniform_tree 5 true [1; 3; 5] [] = GOk t /\ length (edges t) = 8 /\ length (leaves t) = 5) /\
  (exists t, yule_tree 5 false [1; 2; 3] [] = GOk t /\ length (edges t) = 7).
Proof. split; [vm_compute; repeat constructor|]. split; eexists; vm_compute; repeat split. Qed.
Print Assumptions C16_example_size.
