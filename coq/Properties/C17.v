(** C17: the NNI neighbourhood is complete, minimal and reversible.
    Statements about the model Model/NNI.v of tree/rearrange.go (NNIRearranger.Rearrange =
    [nni_list], nni.Apply = [apply], nni.Undo = [undo], the Apply/Undo loop of cmd/nni.go =
    [rearrange]); proofs in Proofs/NNI{Base,Sem,Main,Count,Sets,Distinct,Top}.v.
    Vocabulary: Spec/Obs.v ([leaves]), Spec/Unrooted.v ([bsplits]: one entry (branch data,
    tips on the far side, far end is a tip) per branch; [bs_same]: same data, same side),
    Spec/NNISpec.v ([binary], [inner_branch_count], [same_splits]).
    Trees are all well-formed trees; where stated, binary with distinct tip names.  The
    proposals are those of the enumeration ([In r (nni_list t)]). *)
From Coq Require Import String ZArith QArith Bool Arith List Permutation.
From GT Require Import Base.UTree Spec.Obs Spec.Unrooted Spec.NNISpec Model.Reroot Model.NNI Model.Newick
     Proofs.RerootBase Proofs.NNIBase Proofs.NNIMain Proofs.NNICount Proofs.NNIDistinct Proofs.NNIList
     Proofs.NNIInner Proofs.USplits Proofs.NNIUSplits Proofs.NNITop.
Import ListNotations.
Local Close Scope Q_scope.
Local Open Scope string_scope.

(** * reversible *)
(** Apply is defined on every proposal and Undo gives back the very same structure
    (neighbour order, parent-slot positions, names, comments, branch data) *)
Theorem C17_undo_apply :
  forall t r, wf t = true -> In r (nni_list t) ->
    exists t', apply r t = Some t' /\ undo r t' = Some t.
Proof. exact undo_apply_list. Qed.
Print Assumptions C17_undo_apply.

(** the loop of cmd/nni.go (Apply, write, Undo on the same tree object for every proposal)
    proposes [apply r t] for every [r] of the enumeration of the ORIGINAL tree and leaves
    exactly [t] *)
Theorem C17_enumeration_restores :
  forall t, wf t = true ->
    exists l, rearrange t = Some (l, t) /\
              Forall2 (fun r t' => apply r t = Some t') (nni_list t) l.
Proof. exact rearrange_restores. Qed.
Print Assumptions C17_enumeration_restores.

(** hence identical text, lengths and names: any observation of the tree is unchanged *)
Theorem C17_enumeration_observation :
  forall (A : Type) (obs : utree -> A) t l tf,
    wf t = true -> rearrange t = Some (l, tf) -> obs tf = obs t.
Proof. exact rearrange_observation. Qed.
Print Assumptions C17_enumeration_observation.

Theorem C17_enumeration_text :
  forall fmt t l tf, wf t = true -> rearrange t = Some (l, tf) -> write fmt tf = write fmt t.
Proof. exact rearrange_text. Qed.
Print Assumptions C17_enumeration_text.

(** the proposal object and its [applied] flag ([run_ops]: the tree after every operation):
    Apply, Undo, Apply, Undo gives the neighbour, the original, the same neighbour, the
    original; a second Apply, an Undo before any Apply and a second Undo change nothing *)
Theorem C17_object_sequences :
  forall t r, wf t = true -> In r (nni_list t) ->
    exists t1, apply r t = Some t1 /\
      run_ops r [OpApply; OpUndo; OpApply; OpUndo] (false, t) = Some ([t1; t; t1; t], (false, t)) /\
      run_ops r [OpApply; OpApply; OpUndo; OpUndo] (false, t) = Some ([t1; t1; t; t], (false, t)) /\
      run_ops r [OpUndo; OpApply; OpUndo] (false, t) = Some ([t; t1; t], (false, t)).
Proof. exact object_sequences. Qed.
Print Assumptions C17_object_sequences.

(** proposals kept by the caller and used after the enumeration, in any order and any number
    of times ([pick t order]: the entries of the enumeration at the indexes [order]): each
    gives its own neighbour [apply r t] of the original tree, which is left as it was *)
Theorem C17_kept_proposals :
  forall t order rs, wf t = true -> Model.NNI.pick t order = Some rs ->
    exists l, enumerate rs t = Some (l, t) /\ Forall2 (fun r t' => apply r t = Some t') rs l.
Proof. exact kept_proposals. Qed.
Print Assumptions C17_kept_proposals.

(** * every proposal is a well-formed tree on the same tips with every branch's data *)
Theorem C17_neighbour :
  forall t r t', wf t = true -> In r (nni_list t) -> apply r t = Some t' ->
    wf t' = true /\
    Permutation (leaves t) (leaves t') /\
    Permutation (map fst (edges t)) (map fst (edges t')).
Proof. exact apply_neighbour. Qed.
Print Assumptions C17_neighbour.

(** * minimal: exactly one split is replaced *)
(** The tips fall into four groups A (behind n1_2), B (the moved child of n2), C (behind
    n1_1), D (the other child of n2), non-empty (A and C when the root has two children).
    The branch list of [t] is the central branch, separating B+D from A+C, plus [rest];
    that of [t'] is the same central branch data now separating A+D from C+B (stored from
    either side), plus [rest'], which is [rest] branch by branch (same data, same side). *)
Theorem C17_one_split :
  forall t r t', wf t = true -> In r (nni_list t) -> apply r t = Some t' ->
    exists ec A B C D old new rest rest',
      Permutation (leaves t) (A ++ B ++ C ++ D) /\
      B <> [] /\ D <> [] /\ (2 <= length (kids t) -> A <> [] /\ C <> []) /\
      Permutation old (B ++ D) /\
      (Permutation new (A ++ D) \/ Permutation new (C ++ B)) /\
      Permutation (bsplits t) ((ec, old, false) :: rest) /\
      Permutation (bsplits t') ((ec, new, false) :: rest') /\
      PermR bs_same rest rest'.
Proof. exact apply_one_split_list. Qed.
Print Assumptions C17_one_split.

(** * pairwise distinct *)
(** two different proposals (another branch, or the other exchange on the same branch)
    never give trees with the same set of splits *)
Theorem C17_neighbours_distinct :
  forall t r1 r2 t1 t2,
    wf t = true -> binary t = true -> NoDup (leaves t) ->
    In r1 (nni_list t) -> In r2 (nni_list t) ->
    (r_path r1, r_k r1, r_cross r1) <> (r_path r2, r_k r2, r_cross r2) ->
    apply r1 t = Some t1 -> apply r2 t = Some t2 ->
    ~ same_splits t1 t2.
Proof. exact neighbours_distinct_binary. Qed.
Print Assumptions C17_neighbours_distinct.

(** * complete: the number of proposals *)
(** two for every branch of Tree.Edges() both of whose ends have three neighbours *)
Theorem C17_count :
  forall t, wf t = true -> length (nni_list t) = 2 * length (filter both3 (edges_pc t)).
Proof. exact nni_count. Qed.
Print Assumptions C17_count.

Theorem C17_edges_pc_is_edges :
  forall t, map (fun x => (snd (fst x), snd x)) (edges_pc t) = edges t.
Proof. exact edges_pc_edges. Qed.
Print Assumptions C17_edges_pc_is_edges.

(** unrooted binary trees: two per inner branch *)
Theorem C17_two_per_inner_branch_partial_unrooted :
  forall t, wf t = true -> binary t = true -> degree t = 3 ->
    length (nni_list t) = 2 * inner_branch_count t.
Proof. exact nni_count_unrooted. Qed.
Print Assumptions C17_two_per_inner_branch_partial_unrooted.

(** rooted binary trees whose root has a tip child: two per inner branch *)
Theorem C17_two_per_inner_branch_partial_rooted_tip :
  forall t, wf t = true -> binary t = true -> degree t = 2 -> inner_root_kids t = 1 ->
    length (nni_list t) = 2 * inner_branch_count t.
Proof. exact nni_count_rooted_tip. Qed.
Print Assumptions C17_two_per_inner_branch_partial_rooted_tip.

(** rooted binary trees whose root children are both inner nodes: the inner branch through
    the root gets no proposal (no branch at a degree-2 root is ever proposed), two are missing *)
Theorem C17_rooted_two_missing :
  forall t, wf t = true -> binary t = true -> degree t = 2 -> inner_root_kids t = 2 ->
    length (nni_list t) + 2 = 2 * inner_branch_count t.
Proof. exact nni_count_rooted_inner. Qed.
Print Assumptions C17_rooted_two_missing.

Theorem C17_rooted_no_root_proposal :
  forall t r, rooted t = true -> In r (nni_list t) -> r_path r <> [].
Proof. exact rooted_no_root_proposal. Qed.
Print Assumptions C17_rooted_no_root_proposal.

(** the clause of the property as written, for all binary trees rooted or not, is false:
    witness ((a,b),(c,d)); -- one inner branch, no proposal *)
Theorem C17_two_per_inner_branch_refuted : ~ two_per_inner_branch.
Proof. exact two_per_inner_branch_refuted. Qed.
Print Assumptions C17_two_per_inner_branch_refuted.

Theorem C17_refutation_witness :
  wf witness_rooted = true /\ binary witness_rooted = true /\
  leaves witness_rooted = ["a"; "b"; "c"; "d"] /\
  inner_branch_count witness_rooted = 1 /\ inner_split_count witness_rooted = 1 /\
  nni_list witness_rooted = [].
Proof. exact witness_rooted_facts. Qed.
Print Assumptions C17_refutation_witness.

(** * the hypotheses are satisfiable: proposals exist, with and without inversion *)
Example C17_example_unrooted :
  wf witness_unrooted = true /\ binary witness_unrooted = true /\
  leaves witness_unrooted = ["a"; "b"; "c"; "d"] /\
  map (fun r => (r_edge r, r_path r, r_k r, r_j r, r_cross r, r_flip r)) (nni_list witness_unrooted)
  = [(2, [], 2, 0, false, false); (2, [], 2, 0, true, false)] /\
  inner_branch_count witness_unrooted = 1.
Proof. exact witness_unrooted_facts. Qed.
Print Assumptions C17_example_unrooted.

Example C17_example_rooted_tip :
  wf witness_rooted_tip = true /\ binary witness_rooted_tip = true /\
  leaves witness_rooted_tip = ["a"; "b"; "c"; "d"] /\
  map (fun r => (r_edge r, r_path r, r_k r, r_j r, r_cross r, r_flip r)) (nni_list witness_rooted_tip)
  = [(3, [1], 2, 0, false, true); (3, [1], 2, 0, true, true)] /\
  inner_branch_count witness_rooted_tip = 1 /\ inner_root_kids witness_rooted_tip = 1.
Proof. exact witness_rooted_tip_facts. Qed.
Print Assumptions C17_example_rooted_tip.

(** * the list of proposals itself *)
(** no proposal twice; two for every branch of Tree.Edges() both of whose ends have three
    neighbours; [r_edge] is the index of the branch in Tree.Edges() ([edge_locs] runs parallel
    to [edges_pc]); with a proposal its twin (the other exchange) is in the list; one
    proposal per (branch, exchange) *)
Theorem C17_proposals_exactly_two :
  forall t, wf t = true ->
    NoDup (nni_list t) /\
    length (nni_list t) = 2 * length (filter both3 (edges_pc t)) /\
    (forall r, In r (nni_list t) ->
       nth_error (edge_locs t) (r_edge r) = Some (r_path r, r_k r) /\
       In (mkNNI (r_edge r) (r_path r) (r_k r) (r_j r) (negb (r_cross r)) (r_flip r)) (nni_list t)) /\
    (forall r1 r2, In r1 (nni_list t) -> In r2 (nni_list t) ->
       r_path r1 = r_path r2 -> r_k r1 = r_k r2 -> r_cross r1 = r_cross r2 -> r1 = r2).
Proof. exact proposals_exactly_two. Qed.
Print Assumptions C17_proposals_exactly_two.

Theorem C17_edge_locs_designate :
  forall t, Forall2 (designates t) (edge_locs t) (edges_pc t).
Proof. exact edge_locs_designate. Qed.
Print Assumptions C17_edge_locs_designate.

(** * inner branches are the non-trivial bipartitions *)
(** for every binary tree with distinct tip names, rooted or not, the structural count
    ([internal_edges], the two root branches of a rooted tree counted once) is the number of
    non-trivial bipartitions of [usplits] *)
Theorem C17_inner_branches_are_splits :
  forall t, wf t = true -> binary t = true -> NoDup (leaves t) ->
    inner_branch_count t = inner_split_count t.
Proof. exact inner_counts. Qed.
Print Assumptions C17_inner_branches_are_splits.

Theorem C17_two_per_inner_split_unrooted :
  forall t, wf t = true -> binary t = true -> NoDup (leaves t) -> degree t = 3 ->
    length (nni_list t) = 2 * inner_split_count t.
Proof. exact two_per_inner_split_unrooted. Qed.
Print Assumptions C17_two_per_inner_split_unrooted.

(** * distinct as trees *)
Theorem C17_neighbours_distinct_trees :
  forall t r1 r2 t1 t2,
    wf t = true -> binary t = true -> NoDup (leaves t) ->
    In r1 (nni_list t) -> In r2 (nni_list t) ->
    (r_path r1, r_k r1, r_cross r1) <> (r_path r2, r_k r2, r_cross r2) ->
    apply r1 t = Some t1 -> apply r2 t = Some t2 ->
    t1 <> t2 /\ utree_eqb t1 t2 = false.
Proof. exact neighbours_distinct_trees. Qed.
Print Assumptions C17_neighbours_distinct_trees.

(** a neighbour is never the original tree *)
Theorem C17_neighbour_differs :
  forall t r t1,
    wf t = true -> binary t = true -> NoDup (leaves t) ->
    In r (nni_list t) -> apply r t = Some t1 ->
    ~ same_splits t1 t /\ t1 <> t /\ utree_eqb t1 t = false.
Proof. exact neighbour_differs. Qed.
Print Assumptions C17_neighbour_differs.

(** * outside the property: multifurcations *)
(** every proposal sits on a branch both of whose ends have exactly three neighbours; a
    branch with an end of another degree gets none.  (Reversibility, [C17_neighbour],
    [C17_one_split], [C17_count] above do not assume a binary tree.) *)
Theorem C17_proposal_degrees :
  forall t r, In r (nni_list t) ->
    exists n1 ec n2,
      node_at t (r_path r) = Some n1 /\ nth_error (uslots n1) (r_k r) = Some (Some (ec, n2)) /\
      degree n1 = 3 /\ degree n2 = 3.
Proof. exact nni_list_degrees. Qed.
Print Assumptions C17_proposal_degrees.

Theorem C17_skips_multifurcation :
  forall t r n1 ec n2,
    node_at t (r_path r) = Some n1 -> nth_error (uslots n1) (r_k r) = Some (Some (ec, n2)) ->
    degree n1 <> 3 \/ degree n2 <> 3 -> ~ In r (nni_list t).
Proof. exact nni_skips_multifurcation. Qed.
Print Assumptions C17_skips_multifurcation.

Example C17_example_multifurcation :
  wf witness_multi = true /\ binary witness_multi = false /\
  map (fun x => (degree (fst (fst x)), degree (snd x))) (filter (fun x => negb (is_tip (snd x))) (edges_pc witness_multi))
  = [(3, 3); (3, 3); (3, 3); (3, 4)] /\
  map (fun r => (r_edge r, r_path r, r_k r, r_cross r)) (nni_list witness_multi)
  = [(0, [], 0, false); (0, [], 0, true); (3, [], 1, false); (3, [], 1, true);
     (4, [1], 1, false); (4, [1], 1, true)].
Proof. exact witness_multi_facts. Qed.
Print Assumptions C17_example_multifurcation.

(** * stretch 5 *)
(** (1) the count for EVERY binary tree, rooted or not, any root position: two per inner
    branch, except that the inner branch through a degree-2 root (both root children inner
    nodes) gets none -- the open finding C17-nni-root-branch, characterised exactly; with the
    structural count and with the non-trivial bipartitions of [usplits] *)
Theorem C17_count_exact :
  forall t, wf t = true -> binary t = true ->
    length (nni_list t) =
    2 * (inner_branch_count t - (if rooted t && Nat.eqb (inner_root_kids t) 2 then 1 else 0)).
Proof. exact nni_count_exact. Qed.
Print Assumptions C17_count_exact.

Theorem C17_count_exact_splits :
  forall t, wf t = true -> binary t = true -> NoDup (leaves t) ->
    length (nni_list t) =
    2 * (inner_split_count t - (if rooted t && Nat.eqb (inner_root_kids t) 2 then 1 else 0)).
Proof. exact nni_count_exact_splits. Qed.
Print Assumptions C17_count_exact_splits.

(** (2) the neighbour differs from the original by exactly that one split, at the level of
    Spec/Obs.v: in [usplits] the central branch's bipartition [c_old] (found in t, not in t')
    is replaced by a new one [c_new] (found in t', not in t) with the same length and
    support; every other bipartition is found in both with the same data (up to Qeq) *)
Theorem C17_usplits_one_replaced :
  forall t r t',
    wf t = true -> binary t = true -> NoDup (leaves t) -> In r (nni_list t) -> apply r t = Some t' ->
    exists c_old c_new,
      (slen c_new == slen c_old)%Q /\ (ssup c_new == ssup c_old)%Q /\
      sside c_old <> sside c_new /\
      orel split_qeq (find_split (sside c_old) (usplits t)) (Some c_old) /\
      find_split (sside c_new) (usplits t) = None /\
      orel split_qeq (find_split (sside c_new) (usplits t')) (Some c_new) /\
      find_split (sside c_old) (usplits t') = None /\
      forall k, k <> sside c_old -> k <> sside c_new ->
                orel split_qeq (find_split k (usplits t')) (find_split k (usplits t)).
Proof. exact usplits_replaced_list. Qed.
Print Assumptions C17_usplits_one_replaced.

(** (3) pairwise distinct as unrooted topologies: different proposals give different sets of
    [usplits] keys, and no neighbour has the key set of the original; [same_splits] (used
    above) is equality of these key sets for trees on the same tips *)
Theorem C17_neighbours_distinct_usplits :
  forall t r1 r2 t1 t2,
    wf t = true -> binary t = true -> NoDup (leaves t) ->
    In r1 (nni_list t) -> In r2 (nni_list t) ->
    (r_path r1, r_k r1, r_cross r1) <> (r_path r2, r_k r2, r_cross r2) ->
    apply r1 t = Some t1 -> apply r2 t = Some t2 ->
    ~ (forall k, In k (map sside (usplits t1)) <-> In k (map sside (usplits t2))).
Proof. exact neighbours_distinct_usplits. Qed.
Print Assumptions C17_neighbours_distinct_usplits.

Theorem C17_neighbour_differs_usplits :
  forall t r t1,
    wf t = true -> binary t = true -> NoDup (leaves t) -> In r (nni_list t) -> apply r t = Some t1 ->
    ~ (forall k, In k (map sside (usplits t1)) <-> In k (map sside (usplits t))).
Proof. exact neighbour_differs_usplits. Qed.
Print Assumptions C17_neighbour_differs_usplits.

Theorem C17_same_keys_same_splits :
  forall t1 t2, NoDup (leaves t1) -> Permutation (leaves t1) (leaves t2) ->
    (forall k, In k (bkeys t1) <-> In k (bkeys t2)) -> same_splits t1 t2.
Proof. exact same_keys_same_splits. Qed.
Print Assumptions C17_same_keys_same_splits.

Theorem C17_usplits_keys :
  forall t k, In k (map sside (usplits t)) <-> In k (bkeys t).
Proof. exact usplits_keys. Qed.
Print Assumptions C17_usplits_keys.

(** (4)/(5) overlapping uses of the enumeration.  Re-entrant: while proposal [r] is applied
    the enumeration of the neighbour proposes its neighbours and leaves it as it is, and
    Undo then restores [t].  Interleaved: the steps (Apply, Undo of every proposal) of two
    enumerations, in any interleaving, leave both trees as they were -- the model has no
    state besides the trees, [nni_list t] is a function of [t]. *)
Theorem C17_nested_enumeration :
  forall t r, wf t = true -> In r (nni_list t) ->
    exists t1 l1, apply r t = Some t1 /\ wf t1 = true /\
                  rearrange t1 = Some (l1, t1) /\
                  Forall2 (fun r' t' => apply r' t1 = Some t') (nni_list t1) l1 /\
                  undo r t1 = Some t.
Proof. exact nested_enumeration. Qed.
Print Assumptions C17_nested_enumeration.

Theorem C17_two_enumerations_interleaved :
  forall ta tb sched,
    wf ta = true -> wf tb = true ->
    length (filter (fun x => x) sched) = length (enum_steps ta) ->
    length (filter negb sched) = length (enum_steps tb) ->
    run_two sched (enum_steps ta) (enum_steps tb) ta tb = Some (ta, tb).
Proof. exact two_enumerations_interleaved. Qed.
Print Assumptions C17_two_enumerations_interleaved.

(** non-vacuity: ((a,b),(c,d),(e,f)) -- three inner branches, six neighbours, in each one of
    the three non-trivial keys is replaced by a new one, six different key sets *)
Example C17_example_six_neighbours :
  wf witness6 = true /\ binary witness6 = true /\ leaves witness6 = ["a"; "b"; "c"; "d"; "e"; "f"] /\
  nt_keys witness6 = [["c"; "d"; "e"; "f"]; ["c"; "d"]; ["e"; "f"]] /\
  length (nni_list witness6) = 6 /\ inner_split_count witness6 = 3 /\ inner_branch_count witness6 = 3 /\
  map (fun r => match apply r witness6 with Some t' => nt_keys t' | None => [] end) (nni_list witness6) =
  [[["b"; "c"; "d"]; ["e"; "f"]; ["c"; "d"]];
   [["b"; "e"; "f"]; ["e"; "f"]; ["c"; "d"]];
   [["d"; "e"; "f"]; ["c"; "d"; "e"; "f"]; ["e"; "f"]];
   [["c"; "e"; "f"]; ["c"; "d"; "e"; "f"]; ["e"; "f"]];
   [["c"; "d"; "e"; "f"]; ["c"; "d"; "e"]; ["c"; "d"]];
   [["c"; "d"; "e"; "f"]; ["c"; "d"; "f"]; ["c"; "d"]]].
Proof. exact witness6_facts. Qed.
Print Assumptions C17_example_six_neighbours.
