(** C11, concurrency part, fourth round.
    (1) Model/PoolPipe.v — reader goroutine (records, optional error record, close), job channel
        (capacity cj, 0 = rendez-vous), workers, result channel (capacity cr), closer, caller: one
        small-step system.  Agents: 0 reader, 1 closer, 2 caller, i+3 worker i.
    (2) Model/PoolErr.v — the mutex hand-over: err is set to the first error, and kept.
    (3) regressions with the theorem for the original design and a *_refuted witness:
        a. Model/PoolErrGuard.v — guard clause in seterr that returns with errmux locked;
        b. Model/PoolCancel.v — `return` on cancellation without wg.Done();
        c. Model/PoolIds.v — result ids drawn from a shared counter after the receive.
    (The original of 3a terminates: fbp_mutex_handover_terminates in C11Pool3.v.) *)
From Coq Require Import Bool Arith List Permutation.
From GT Require Import Model.Pool Model.Pool2 Model.PoolPipe Model.PoolErr Model.PoolErrGuard
     Model.PoolCancel Model.PoolIds.
From GT Require Import Proofs.Pool Proofs.Pool2 Proofs.PoolPipe Proofs.PoolErr Proofs.PoolErrFirst
     Proofs.PoolErrGuard Proofs.PoolCancel Proofs.PoolIds Proofs.Pool4Main.
Import ListNotations.

Local Arguments run2 {job res err}.
Local Arguments init2 {job res err}.
Local Arguments precvd {job res err} _.
Local Arguments pcaller_done {job res err} _.
Local Arguments perrs {job res err} _.
Local Arguments prun {job res err}.
Local Arguments pinit {job res err}.
Local Arguments abs2 {job res err}.
Local Arguments olist {job}.
Local Arguments efirst {job err} _.
Local Arguments emutex {job err} _.
Local Arguments erun {job err}.
Local Arguments einit {job err}.
Local Arguments efinished {job err} _.
Local Arguments grun {job err}.
Local Arguments krun {job res}.
Local Arguments kinit {job res}.
Local Arguments kfinished {job res} _.
Local Arguments kout {job res} _.
Local Arguments iout {payload res} _.
Local Arguments irun {payload res}.
Local Arguments iinit {payload res}.
Local Arguments ifinished {payload res} _.

(** * (1) from the reader to the result *)

(** the composed system runs in lock-step (same schedule) with the pool of Model/Pool2.v on the
    job list "records ++ error record": every theorem of C11Pool2.v / C11Pool.v applies *)
Theorem pipe_is_pool2_on_the_produced_sequence :
  forall (job res err : Type) (f : job -> res) (fails : job -> bool) (e_of : job -> err)
         (on_fail : fail_mode) (done_on_exit : bool) (cj cr : nat)
         (items : list job) (e : option job) (k : nat) (sched : list nat),
    abs2 (prun f fails e_of on_fail done_on_exit cj cr sched (pinit items e k))
    = run2 f fails e_of on_fail done_on_exit cj cr sched (init2 (items ++ olist e) k).
Proof. exact pipe_lockstep. Qed.
Print Assumptions pipe_is_pool2_on_the_produced_sequence.

(** Stop mode (FBP), every schedule, capacities cj, cr >= 0, k >= 1 workers: when the caller's
    loop ends, the multiset of results is that of the records before the error, and the error
    (if the reader produced one) is reported — nothing is lost because the error record is the
    last thing sent *)
Theorem pipe_stop_mode_end_to_end :
  forall (job res err : Type) (f : job -> res) (fails : job -> bool) (e_of : job -> err)
         (done_on_exit : bool) (cj cr : nat) (items : list job) (e : option job) (k : nat)
         (sched : list nat),
    (forall x, In x items -> fails x = false) -> (forall x, e = Some x -> fails x = true) ->
    1 <= k ->
    let s := prun f fails e_of Stop done_on_exit cj cr sched (pinit items e k) in
    pcaller_done s = true ->
    Permutation (precvd s) (map f items) /\ perrs s = map e_of (olist e).
Proof. exact pipe_stop_end_to_end. Qed.
Print Assumptions pipe_stop_mode_end_to_end.

Theorem pipe_error_reaches_the_caller :
  forall (job res err : Type) (f : job -> res) (fails : job -> bool) (e_of : job -> err)
         (done_on_exit : bool) (cj cr : nat) (items : list job) (x : job) (k : nat)
         (sched : list nat),
    (forall y, In y items -> fails y = false) -> fails x = true -> 1 <= k ->
    let s := prun f fails e_of Stop done_on_exit cj cr sched (pinit items (Some x) k) in
    pcaller_done s = true ->
    Permutation (precvd s) (map f items) /\ perrs s = [e_of x].
Proof. exact pipe_error_reaches_caller. Qed.
Print Assumptions pipe_error_reaches_the_caller.

(** Continue mode (Compare): every record yields a result, every error is reported *)
Theorem pipe_continue_mode_end_to_end :
  forall (job res err : Type) (f : job -> res) (fails : job -> bool) (e_of : job -> err)
         (done_on_exit : bool) (cj cr : nat) (items : list job) (e : option job) (k : nat)
         (sched : list nat),
    1 <= k ->
    let s := prun f fails e_of Continue done_on_exit cj cr sched (pinit items e k) in
    pcaller_done s = true ->
    Permutation (precvd s) (map f (items ++ olist e))
    /\ Permutation (perrs s) (map e_of (filter fails (items ++ olist e))).
Proof. exact pipe_continue_end_to_end. Qed.
Print Assumptions pipe_continue_mode_end_to_end.

(** and the run can always finish: from every reachable state some continuation ends the
    caller's loop *)
Theorem pipe_deadlock_free :
  forall (job res err : Type) (f : job -> res) (fails : job -> bool) (e_of : job -> err)
         (on_fail : fail_mode) (cj cr : nat) (items : list job) (e : option job) (k : nat)
         (sched : list nat),
    exists cont,
      pcaller_done (prun f fails e_of on_fail true cj cr cont
                      (prun f fails e_of on_fail true cj cr sched (pinit items e k))) = true.
Proof. exact pipe_no_deadlock. Qed.
Print Assumptions pipe_deadlock_free.

Example pipe_example_run :
  let s := prun (fun j => 10 * j) (fun j => j =? 99) (fun j => 1000 + j) Stop true 1 0
                [0;3;0;4;0;3;4;3;0;4;3;1;2] (pinit [1;2] (Some 99) 2) in
  pcaller_done s = true /\ precvd s = [10; 20] /\ perrs s = [1099].
Proof. exact pipe_example. Qed.
Print Assumptions pipe_example_run.

(** * (2) FBP's mutex hand-over: the first error *)
Theorem fbp_mutex_first_error_is_set :
  forall (job err : Type) (fails : job -> bool) (e_of : job -> err)
         (jobs : list job) (n : nat) (sched : list nat),
    1 <= n ->
    let s := erun fails e_of ByMutex sched (einit jobs n) in
    efinished s = true -> (exists j, In j jobs /\ fails j = true) ->
    exists j, In j jobs /\ fails j = true /\ efirst s = Some (e_of j).
Proof. exact mutex_first_error_set. Qed.
Print Assumptions fbp_mutex_first_error_is_set.

Theorem fbp_mutex_first_error_is_kept :
  forall (job err : Type) (fails : job -> bool) (e_of : job -> err)
         (jobs : list job) (n : nat) (sched cont : list nat) (x : err),
    efirst (erun fails e_of ByMutex sched (einit jobs n)) = Some x ->
    efirst (erun fails e_of ByMutex cont (erun fails e_of ByMutex sched (einit jobs n))) = Some x.
Proof. exact mutex_first_error_kept. Qed.
Print Assumptions fbp_mutex_first_error_is_kept.

(** * (3a) guard clause returning with errmux locked: needs three failing workers *)
Theorem fbp_guard_clause_deadlocks :
  forall (job err : Type) (fails : job -> bool) (e_of : job -> err)
         (j1 j2 j3 : job) (rest : list job) (n : nat) (cont : list nat),
    fails j1 = true -> fails j2 = true -> fails j3 = true -> 3 <= n ->
    efinished (grun fails e_of cont (grun fails e_of [0;0;0; 1;2;3; 1;1;1; 2;2]
                                          (einit (j1 :: j2 :: j3 :: rest) n))) = false.
Proof. exact guard_deadlocks. Qed.
Print Assumptions fbp_guard_clause_deadlocks.

Theorem fbp_guard_clause_terminates_refuted :
  ~ (forall (fails : nat -> bool) (jobs : list nat) n sched,
       exists cont, efinished (grun fails (fun j => j) cont
                                    (grun fails (fun j => j) sched (einit jobs n))) = true).
Proof. exact guard_terminates_refuted. Qed.
Print Assumptions fbp_guard_clause_terminates_refuted.

Example fbp_guard_clause_two_failures_pass :
  let s := grun (fun _ => true) (fun j => j) [0;0;0; 1;2; 1;1;1; 2;2] (einit [1;2] 2) in
  efinished s = true /\ efirst s = Some 1 /\ emutex s = true.
Proof. exact guard_example_two. Qed.
Print Assumptions fbp_guard_clause_two_failures_pass.

(** * (3b) cancellation *)
Theorem fbp_cancel_through_done_terminates :
  forall (job res : Type) (f : job -> res) (jobs : list job) (n : nat) (sched : list nat),
    exists cont, kfinished (krun f true cont (krun f true sched (kinit jobs n))) = true.
Proof. exact cancel_done_terminates. Qed.
Print Assumptions fbp_cancel_through_done_terminates.

Theorem fbp_cancel_return_without_done_hangs :
  forall (job res : Type) (f : job -> res) (j : job) (rest : list job) (n : nat) (cont : list nat),
    1 <= n ->
    kfinished (krun f false cont (krun f false [1; 0; 2] (kinit (j :: rest) n))) = false.
Proof. exact cancel_return_hangs. Qed.
Print Assumptions fbp_cancel_return_without_done_hangs.

Theorem fbp_cancel_return_terminates_refuted :
  ~ (forall (jobs : list nat) n sched,
       exists cont, kfinished (krun (fun j => j) false cont
                                    (krun (fun j => j) false sched (kinit jobs n))) = true).
Proof. exact cancel_return_terminates_refuted. Qed.
Print Assumptions fbp_cancel_return_terminates_refuted.

Example fbp_cancel_example :
  let s := krun (fun j => 10 * j) true [0;0;0; 2;2; 1; 3; 2; 0; 2] (kinit [1;2;3] 2) in
  kfinished s = true /\ kout s = [10].
Proof. exact cancel_example. Qed.
Print Assumptions fbp_cancel_example.

(** * (3c) result ids *)
Theorem compare_own_id_results_are_labelled :
  forall (payload res : Type) (f : payload -> res) (jobs : list (nat * payload)) (n : nat)
         (sched : list nat) (k : nat) (r : res),
    In (k, r) (iout (irun f true sched (iinit jobs n))) ->
    exists j, In j jobs /\ k = fst j /\ r = f (snd j).
Proof. exact own_id_results_labelled. Qed.
Print Assumptions compare_own_id_results_are_labelled.

Theorem compare_shared_counter_results_are_labelled_refuted :
  ~ (forall (jobs : list (nat * nat)) n sched k r,
       In (k, r) (iout (irun (fun p : nat => p) false sched (iinit jobs n))) ->
       exists j, In j jobs /\ k = fst j /\ r = snd j).
Proof. exact shared_counter_results_labelled_refuted. Qed.
Print Assumptions compare_shared_counter_results_are_labelled_refuted.

(** the same schedule: ids exchanged with the shared counter, right with the record's own id *)
Example compare_ids_example :
  let go own := irun (fun p : nat => p) own ids_swap_sched (iinit [(0,10);(1,20)] 2) in
  ifinished (go false) = true /\ iout (go false) = [(1, 10); (0, 20)]
  /\ ifinished (go true) = true /\ iout (go true) = [(0, 10); (1, 20)].
Proof. exact shared_counter_example. Qed.
Print Assumptions compare_ids_example.
