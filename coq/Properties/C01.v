(** C01: Newick write/parse round trip preserves the whole tree.  Statements only; the
    proofs are in Proofs/Newick*.v. *)
From Coq Require Import String ZArith QArith Bool List.
From GT Require Import Base.UTree Model.Newick Proofs.NewickFuel.
Local Close Scope Q_scope.

(** The parser of Model/Newick.v, run with the fuel [S (length s)] that [parse] gives it,
    never stops for lack of fuel, whatever the input text and whatever ParseFloat does:
    the model of the reader is total. *)
Theorem C01_fuel_irrelevant :
  forall (numeric : string -> bool) (parse_num : string -> option Q) (s : string),
    parse numeric parse_num s <> POutOfFuel.
Proof. exact parse_no_fuel. Qed.
Print Assumptions C01_fuel_irrelevant.
