(** C01: Newick write/parse round trip preserves the whole tree.  Statements only; the
    proofs are in Proofs/Newick*.v.

    [write], [parse]: Model/Newick.v (Node.Newick/Tree.Newick, io/newick lexer and parser).
    [wfN]: Spec/NewickSpec.v, the boolean transcription of the quantifier of C01.
    [rose_of]: the rooted ordered tree with all decorations (parent slots dropped);
    [rose_eqb] compares names, comments, shape and child order exactly and lengths, supports,
    p-values as rationals ([Qeq]; the representation of numbers in the model is not
    canonical, so Leibniz equality on [Q] would be the wrong notion).
    [strconv_ok fmt numeric parse_num numok]: the assumed behaviour of
    strconv.FormatFloat(x,'f',-1,64) / strconv.ParseFloat on the numbers [numok]
    (Proofs/NewickCanon.v): the text of x is a non-empty token without ()[],:;/ and blanks,
    ParseFloat accepts it and reads back x, equal numbers have equal texts, no text
    containing '/' is a float. *)
From Coq Require Import String Ascii ZArith QArith Bool List Lia.
From GT Require Import Base.UTree Model.Newick Model.NewickNum Model.MultiTree Spec.NewickSpec
     Proofs.NewickFuel Proofs.NewickCanon Proofs.NewickTheorem Proofs.NewickNumC Proofs.NewickWf
     Proofs.NewickFmt Proofs.NewickExamples Proofs.NewickGlue.
Import ListNotations.
Local Close Scope Q_scope.
Local Open Scope string_scope.

(** (i) Round trip, for every tree inside the quantifier, under the assumed behaviour of
    strconv: the parser accepts the writer's text, the tree read back has the same rose view,
    and writing it again gives byte-identical text. *)
Theorem C01_round_trip :
  forall (fmt : Q -> string) (numeric : string -> bool) (parse_num : string -> option Q) (numok : Q -> bool),
    strconv_ok fmt numeric parse_num numok ->
    forall t, wfN numeric numok t = true ->
      exists t', parse numeric parse_num (write fmt t) = POk t' /\
                 rose_eqb (rose_of t') (rose_of t) = true /\
                 write fmt t' = write fmt t.
Proof. exact round_trip. Qed.
Print Assumptions C01_round_trip.

(** the tree read back, explicitly: parent slot first in every non-root node, every number
    replaced by what ParseFloat reads from its text *)
Theorem C01_parse_write :
  forall (fmt : Q -> string) (numeric : string -> bool) (parse_num : string -> option Q) (numok : Q -> bool),
    strconv_ok fmt numeric parse_num numok ->
    forall t, wfN numeric numok t = true ->
      parse numeric parse_num (write fmt t) = POk (canon_root fmt parse_num t).
Proof. exact parse_write. Qed.
Print Assumptions C01_parse_write.

(** The hypotheses are satisfiable: the executable model of strconv used by the
    correspondence check (Model/NewickNum.v: ParseFloat syntax, correct rounding to binary64,
    shortest round-tripping decimal) satisfies them on the numbers [numokC], those for which
    its own FormatFloat/ParseFloat pair round-trips (a decidable check, Proofs/NewickNumC.v). *)
Theorem C01_strconv_model_ok : strconv_ok fmt_go numericC parse_numC numokC.
Proof. exact strconv_ok_C. Qed.
Print Assumptions C01_strconv_model_ok.

(** ... hence the round trip of the executable model, without any hypothesis. *)
Theorem C01_round_trip_model :
  forall t, wfN numericC numokC t = true ->
    exists t', parse numericC parse_numC (write fmt_go t) = POk t' /\
               rose_eqb (rose_of t') (rose_of t) = true /\
               write fmt_go t' = write fmt_go t.
Proof. exact (round_trip fmt_go numericC parse_numC numokC strconv_ok_C). Qed.
Print Assumptions C01_round_trip_model.

(** (ii) The parser run with the fuel [S (length s)] that [parse] gives it never stops for
    lack of fuel, whatever the input text and whatever ParseFloat does: the model of the
    reader is total. *)
Theorem C01_fuel_irrelevant :
  forall (numeric : string -> bool) (parse_num : string -> option Q) (s : string),
    parse numeric parse_num s <> POutOfFuel.
Proof. exact parse_no_fuel. Qed.
Print Assumptions C01_fuel_irrelevant.

(** Whatever the text, a tree the reader delivers is a well-formed rooted structure: no
    parent slot in the root, exactly one in every other node (used by C02, C13). *)
Theorem C01_parsed_tree_wf :
  forall (numeric : string -> bool) (parse_num : string -> option Q) (s : string) (t : utree),
    parse numeric parse_num s = POk t -> wf t = true.
Proof. exact parse_wf. Qed.
Print Assumptions C01_parsed_tree_wf.

(** The quantifier is not vacuous: a rooted-at-a-trifurcation tree with a multifurcation, inner
    and root names, supports with and without p-value, numeric-looking tip names, node, root
    and branch comments with hostile content, a parent slot that is not first. *)
Definition ex_tree : utree :=
  UNode "root/x" ["r;1"; "(,):"]
    [Some (mkE (1#2) nilv nilv ["b c"], UNode "1e5" ["tip[c"] [None]);
     Some (mkE (3#64) (15#16) (1#1024) [],
           UNode "" [" n1 "; ""]
             [Some (mkE nilv nilv nilv [], UNode "a b" [] [None]);
              None;
              Some (mkE (0#1) nilv nilv [], UNode "0x1p-2" [] [None]);
              Some (mkE (12345#1) (7#8) nilv [";"], UNode "" [] [None; Some (mkE ((-3)#4) nilv nilv [], UNode "x" [] [None]);
                                                                Some (mkE nilv nilv nilv [], UNode "12" [] [None])])]);
     Some (mkE (1#1024) nilv nilv [], UNode "I 7" ["k:v"] [None; Some (mkE nilv nilv nilv [], UNode "y" [] [None]);
                                                           Some (mkE (5#1) nilv nilv [], UNode "z" [] [None])])].

Example C01_example_in_quantifier : wfN numericC numokC ex_tree = true.
Proof. vm_compute. reflexivity. Qed.
Print Assumptions C01_example_in_quantifier.

Example C01_example_text :
  write fmt_go ex_tree =
  "(1e5[tip[c]:0.5[b c],(a b,0x1p-2:0,(x:-0.75,12)0.875:12345[;])0.9375/0.0009765625[ n1 ][]:0.046875,(y,z:5)I 7[k:v]:0.0009765625)root/x[r;1][(,):];".
Proof. vm_compute. reflexivity. Qed.
Print Assumptions C01_example_text.

(** the numbers the generators use are numbers of the executable strconv model *)
Example C01_example_numbers :
  forallb numokC (map (fun k => Qmake (Z.of_nat k - 20) 64) (seq 0 60) ++
                  map (fun k => Qmake (Z.of_nat k) 1024) (seq 0 20) ++
                  [Qmake 3602879701896397 36028797018963968; Qmake 86719 262144; inject_Z 123456789012345]) = true.
Proof. vm_compute. reflexivity. Qed.
Print Assumptions C01_example_numbers.

(** * Stretch round: the numbers of the executable strconv model *)

(** Every finite binary64 value k * 2^E (|k| < 2^53, -1074 <= E <= 971: normal and
    subnormal numbers, both signs, zero) is a number [numokC] of the executable model: its
    text -- the shortest candidate that reads back (by construction of the search), else the
    exact expansion, which the rounding returns unchanged -- is a clean token that
    [parse_numC] reads back to the value.  So [C01_round_trip_model] covers every tree of
    the quantifier whose numbers are binary64 values. *)
Theorem C01_numok_binary64 :
  forall k E : Z, (Z.abs k < 2 ^ 53)%Z -> (-1074 <= E <= 971)%Z -> numokC (b64 k E) = true.
Proof. exact numokC_b64. Qed.
Print Assumptions C01_numok_binary64.

(** the same for k / 2^m as the generators write them (k/64, k/1024, k/2^20, k/2^40 ...) *)
Theorem C01_numok_dyadic :
  forall k m : Z, (Z.abs k < 2 ^ 53)%Z -> (0 <= m <= 1074)%Z ->
    numokC (Qmake k (Z.to_pos (2 ^ m))) = true.
Proof. exact numokC_dyadic. Qed.
Print Assumptions C01_numok_dyadic.

(** [fmt_go] prints decimal digits, '.' and '-' only, for every rational: no Newick
    metacharacter, no blank, no '/', no '=', no quote, no XML metacharacter *)
Theorem C01_fmt_go_chars : forall x : Q, forall_chars numch (fmt_go x) = true.
Proof. exact fmt_go_chars. Qed.
Print Assumptions C01_fmt_go_chars.

Theorem C01_numch_plain : forall c, numch c = true ->
    num_char c = true /\ Ascii.eqb c "=" = false /\ Ascii.eqb c " " = false /\
    Ascii.eqb c "'" = false /\ Ascii.eqb c """" = false /\ Ascii.eqb c "<" = false /\
    Ascii.eqb c ">" = false /\ Ascii.eqb c "&" = false.
Proof. exact numch_plain. Qed.
Print Assumptions C01_numch_plain.

(** the text of  l * 10^j  is read back by the model of ParseFloat as the correctly rounded
    value of  l * 10^j  (printer and reader of the model agree on every digit string) *)
Theorem C01_fmt_digits_read : forall (neg : bool) (l j : Z), (0 < l)%Z ->
    parse_numC ((if neg then "-" else "") ++ fmt_digits l j) =
    match dec_round l j with Some q => Some (neg_q neg q) | None => None end.
Proof. exact parse_numC_fmt. Qed.
Print Assumptions C01_fmt_digits_read.

(** * Stretch round: the quantifier, clause by clause *)

(** C01 as a computation on one tree of the executable model ([rt_ok]: accepted, same rose
    view, same second text) holds on every tree inside the quantifier *)
Theorem C01_rt_ok : forall t, wfC t = true -> rt_ok t = true.
Proof. exact rt_ok_wf. Qed.
Print Assumptions C01_rt_ok.

(** ** accepted at the boundary *)
(** a root with exactly two children, two tips *)
Example C01_in_two_tips :
  let t := root2 (S_ e_ (tip "A")) (S_ e_ (tip "B")) in
  wfC t = true /\ write_go t = "(A,B);".
Proof. vm_compute. split; reflexivity. Qed.
Print Assumptions C01_in_two_tips.

(** tip names with interior blanks and quotes *)
Example C01_in_blank_quote_names :
  let t := root2 (S_ e_ (tip "a b")) (S_ e_ (tip "it's 'q' ""d""")) in
  wfC t = true /\ write_go t = "(a b,it's 'q' ""d"");".
Proof. vm_compute. split; reflexivity. Qed.
Print Assumptions C01_in_blank_quote_names.

(** several node and root comments, comments with hostile characters and blanks, an empty
    comment, one branch comment on a branch with a length *)
Example C01_in_comments :
  let t := UNode "" [";,():[ "; ""; " x "]
                 [S_ e_ (UNode "A" ["c1"; "c2"; "("; ")"] [None]);
                  S_ (mkE (1#2) nilv nilv [";,():[ "]) (tip "B")] in
  wfC t = true /\ write_go t = "(A[c1][c2][(][)],B:0.5[;,():[ ])[;,():[ ][][ x ];".
Proof. vm_compute. split; reflexivity. Qed.
Print Assumptions C01_in_comments.

(** support with p-value on an unnamed inner node; inner names that contain '/' but are not
    float/float *)
Example C01_in_support_pvalue :
  let t := root2 (S_ (mkE nilv (3#4) (1#8) []) (inner "" AB)) (S_ e_ (inner "1/x" AB)) in
  wfC t = true /\ write_go t = "((A,B)0.75/0.125,(A,B)1/x);".
Proof. vm_compute. split; reflexivity. Qed.
Print Assumptions C01_in_support_pvalue.

(** an inner node with a single child, and a parent slot that is not the first slot *)
Example C01_in_single_child_and_slot_order :
  let t := root2 (S_ e_ (inner "" [S_ e_ (tip "A")]))
                 (S_ e_ (UNode "" [] [S_ e_ (tip "B"); None; S_ e_ (tip "C")])) in
  wfC t = true /\ write_go t = "((A),(B,C));".
Proof. vm_compute. split; reflexivity. Qed.
Print Assumptions C01_in_single_child_and_slot_order.

(** (4) negative lengths and supports other than -1 are inside the quantifier and are
    written ("finite ... other than the -1 'absent' sentinel") ... *)
Example C01_in_negative_numbers :
  let t := root2 (S_ (ed (-1#2)) (tip "A")) (S_ (mkE (-2#1) (-1#4) (-3#1) []) (inner "" AB)) in
  wfC t = true /\ rt_ok t = true /\ write_go t = "(A:-0.5,(A,B)-0.25/-3:-2);".
Proof. vm_compute. repeat split; reflexivity. Qed.
Print Assumptions C01_in_negative_numbers.

(** ... and -1 itself (in any representation) is the absent value: nothing is written *)
Example C01_minus_one_is_absent :
  let t := root2 (S_ (ed (-1#1)) (tip "A")) (S_ (ed (-2#2)) (tip "B")) in
  wfC t = true /\ rt_ok t = true /\ write_go t = "(A,B);".
Proof. vm_compute. repeat split; reflexivity. Qed.
Print Assumptions C01_minus_one_is_absent.

(** every negative binary64 value is a number of the model (instance of
    [C01_numok_binary64]), e.g. all -k/64 *)
Example C01_negative_numbers_ok : forall k : Z, (0 < k < 2 ^ 53)%Z ->
    numokC (Qmake (- k) (Z.to_pos (2 ^ 6))) = true.
Proof. intros k H. apply numokC_dyadic; [rewrite Z.abs_opp, Z.abs_eq|]; lia. Qed.
Print Assumptions C01_negative_numbers_ok.

(** ** excluded by the quantifier: [wfC] rejects, and the round trip does fail on the model
    ([reread] is the text of the tree read back) *)
(** root with a single child: the text does not start with "(" *)
Example C01_out_root_one_child :
  let t := UNode "r" [] [S_ e_ (tip "A")] in
  wfC t = false /\ rt_ok t = false /\ write_go t = "Ar;" /\ reread t = "ERR found".
Proof. vm_compute. repeat split; reflexivity. Qed.
Print Assumptions C01_out_root_one_child.

(** a numeric inner name is re-read as a support (same text, different tree) *)
Example C01_out_numeric_inner_name :
  let t := root2 (S_ e_ (inner "12" AB)) (S_ e_ (tip "C")) in
  wfC t = false /\ rt_ok t = false /\
  parse_go (write_go t) = POk (root2 (S_ (mkE nilv (12#1) nilv []) (inner "" AB)) (S_ e_ (tip "C"))).
Proof. vm_compute. repeat split; reflexivity. Qed.
Print Assumptions C01_out_numeric_inner_name.

(** a float/float inner name is re-read as support/p-value *)
Example C01_out_float_float_inner_name :
  let t := root2 (S_ e_ (inner "0.5/0.25" AB)) (S_ e_ (tip "C")) in
  wfC t = false /\ rt_ok t = false /\
  parse_go (write_go t) = POk (root2 (S_ (mkE nilv (1#2) (1#4) []) (inner "" AB)) (S_ e_ (tip "C"))).
Proof. vm_compute. repeat split; reflexivity. Qed.
Print Assumptions C01_out_float_float_inner_name.

(** a numeric root name is dropped *)
Example C01_out_numeric_root_name :
  let t := UNode "12" [] AB in
  wfC t = false /\ rt_ok t = false /\ write_go t = "(A,B)12;" /\ reread t = "(A,B);".
Proof. vm_compute. repeat split; reflexivity. Qed.
Print Assumptions C01_out_numeric_root_name.

(** the writer drops a support on a tip branch, a support next to a name, and a p-value
    without support *)
Example C01_out_support_on_tip :
  let t := root2 (S_ (mkE nilv (1#2) nilv []) (tip "A")) (S_ e_ (tip "B")) in
  wfC t = false /\ rt_ok t = false /\ write_go t = "(A,B);".
Proof. vm_compute. repeat split; reflexivity. Qed.
Print Assumptions C01_out_support_on_tip.

Example C01_out_name_and_support :
  let t := root2 (S_ (mkE nilv (1#2) nilv []) (inner "X" AB)) (S_ e_ (tip "C")) in
  wfC t = false /\ rt_ok t = false /\ write_go t = "((A,B)X,C);".
Proof. vm_compute. repeat split; reflexivity. Qed.
Print Assumptions C01_out_name_and_support.

Example C01_out_pvalue_without_support :
  let t := root2 (S_ (mkE nilv nilv (1#8) []) (inner "" AB)) (S_ e_ (tip "C")) in
  wfC t = false /\ rt_ok t = false /\ write_go t = "((A,B),C);".
Proof. vm_compute. repeat split; reflexivity. Qed.
Print Assumptions C01_out_pvalue_without_support.

(** a second branch comment is re-read as a node comment; a branch comment without a length
    as a node comment *)
Example C01_out_two_branch_comments :
  let t := root2 (S_ (mkE (1#2) nilv nilv ["e1"; "e2"]) (tip "A")) (S_ e_ (tip "B")) in
  wfC t = false /\ rt_ok t = false /\ write_go t = "(A:0.5[e1][e2],B);" /\ reread t = "(A[e2]:0.5[e1],B);".
Proof. vm_compute. repeat split; reflexivity. Qed.
Print Assumptions C01_out_two_branch_comments.

Example C01_out_branch_comment_without_length :
  let t := root2 (S_ (mkE nilv nilv nilv ["e1"]) (tip "A")) (S_ e_ (tip "B")) in
  wfC t = false /\ rt_ok t = false /\
  parse_go (write_go t) = POk (root2 (S_ e_ (UNode "A" ["e1"] [None])) (S_ e_ (tip "B"))).
Proof. vm_compute. repeat split; reflexivity. Qed.
Print Assumptions C01_out_branch_comment_without_length.

(** a ']' inside a comment ends it *)
Example C01_out_bracket_in_comment :
  let t := root2 (S_ e_ (UNode "A" ["a]b"] [None])) (S_ e_ (tip "B")) in
  wfC t = false /\ rt_ok t = false /\ write_go t = "(A[a]b],B);".
Proof. vm_compute. repeat split; reflexivity. Qed.
Print Assumptions C01_out_bracket_in_comment.

(** metacharacters in a name: another tree, or a rejected text *)
Example C01_out_metachar_names :
  wfC (root2 (S_ e_ (tip "a,b")) (S_ e_ (tip "B"))) = false /\
  rt_ok (root2 (S_ e_ (tip "a,b")) (S_ e_ (tip "B"))) = false /\
  rt_ok (root2 (S_ e_ (tip "a:b")) (S_ e_ (tip "B"))) = false /\
  rt_ok (root2 (S_ e_ (tip "a;b")) (S_ e_ (tip "B"))) = false /\
  rt_ok (root2 (S_ e_ (tip "a(b")) (S_ e_ (tip "B"))) = false /\
  rt_ok (root2 (S_ e_ (tip "a)b")) (S_ e_ (tip "B"))) = false /\
  rt_ok (root2 (S_ e_ (tip "a[b")) (S_ e_ (tip "B"))) = false /\
  rt_ok (root2 (S_ e_ (tip "a]b")) (S_ e_ (tip "B"))) = false.
Proof. vm_compute. repeat split; reflexivity. Qed.
Print Assumptions C01_out_metachar_names.

(** surrounding blanks of a tip name are trimmed, a leading blank of an inner name is lost,
    an empty tip name is rejected *)
Example C01_out_blank_and_empty_names :
  let t1 := root2 (S_ e_ (tip " a")) (S_ e_ (tip "B")) in
  let t2 := root2 (S_ e_ (tip "a ")) (S_ e_ (tip "B")) in
  let t3 := root2 (S_ e_ (inner " x" AB)) (S_ e_ (tip "C")) in
  let t4 := root2 (S_ e_ (tip "")) (S_ e_ (tip "B")) in
  wfC t1 = false /\ rt_ok t1 = false /\ reread t1 = "(a,B);" /\
  wfC t2 = false /\ rt_ok t2 = false /\ reread t2 = "(a,B);" /\
  wfC t3 = false /\ rt_ok t3 = false /\ reread t3 = "((A,B)x,C);" /\
  wfC t4 = false /\ rt_ok t4 = false.
Proof. vm_compute. repeat split; reflexivity. Qed.
Print Assumptions C01_out_blank_and_empty_names.

(** names that are not text: NUL ends the identifier, an undecodable byte becomes U+FFFD *)
Example C01_out_not_text :
  let t1 := root2 (S_ e_ (tip (String "A" (String "000" "B")))) (S_ e_ (tip "C")) in
  let t2 := root2 (S_ e_ (tip (String "A" (String "255" "")))) (S_ e_ (tip "C")) in
  wfC t1 = false /\ rt_ok t1 = false /\ wfC t2 = false /\ rt_ok t2 = false /\
  reread t2 = String "(" (String "A" (String "239" (String "191" (String "189" ",C);")))).
Proof. vm_compute. repeat split; reflexivity. Qed.
Print Assumptions C01_out_not_text.

(** a number that is not a binary64 value is outside (1/3 is read back as the nearest one) *)
Example C01_out_not_binary64 :
  let t := root2 (S_ (ed (1#3)) (tip "A")) (S_ e_ (tip "B")) in
  wfC t = false /\ rt_ok t = false.
Proof. vm_compute. repeat split; reflexivity. Qed.
Print Assumptions C01_out_not_binary64.

(** one clause is stronger than the round trip needs: an inner name with a trailing blank is
    excluded by the quantifier ("without surrounding blanks") although it survives *)
Example C01_out_but_survives :
  let t := root2 (S_ e_ (inner "x " AB)) (S_ e_ (tip "C")) in
  wfC t = false /\ rt_ok t = true.
Proof. vm_compute. repeat split; reflexivity. Qed.
Print Assumptions C01_out_but_survives.

(** * Stretch 5: the glue path, for all trees, buffer sizes and text lengths *)

(** Every command and API reader gets its Newick trees through utils.ReadMultiTrees:
    bufio.Reader.ReadLine chunks ([phys_reads], any buffer size), joined by
    fileutils.ReadUntilSemiColon ([read_until_semicolon], with fix b303e0a), then the parser
    ([read_multi]).  For every tree inside the quantifier whose text has no line feed (this
    reader is line based), for every buffer size (a one-byte buffer cannot get past a carriage
    return; bufio's minimum is 16, its default 4096) and every text length -- also an exact
    multiple of the buffer size -- exactly one record is delivered, id 0, the tree of
    [C01_parse_write].  A reader that stops at a ';' ending a chunk inside a comment, that
    forgets a chunk, or that reports EOF for a text ending with its last chunk (the code
    before b303e0a) contradicts this statement. *)
Theorem C01_glue_read :
  forall (fmt : Q -> string) (numeric : string -> bool) (parse_num : string -> option Q) (numok : Q -> bool),
    strconv_ok fmt numeric parse_num numok ->
    forall (bufsz : nat) (t : utree),
      1 <= bufsz -> (bufsz = 1 -> no_cr (write fmt t) = true) ->
      wfN numeric numok t = true -> no_lf (write fmt t) = true ->
      read_multi (nparse numeric parse_num) (phys_reads (S (String.length (write fmt t))) bufsz (write fmt t)) =
      MDone [ITree 0 (canon_root fmt parse_num t)].
Proof. exact glue_read. Qed.
Print Assumptions C01_glue_read.

Theorem C01_glue_read_length :
  forall (fmt : Q -> string) (numeric : string -> bool) (parse_num : string -> option Q) (numok : Q -> bool),
    strconv_ok fmt numeric parse_num numok ->
    forall (bufsz : nat) (t : utree),
      2 <= bufsz -> wfN numeric numok t = true -> no_lf (write fmt t) = true ->
      read_multi (nparse numeric parse_num) (phys_reads (S (String.length (write fmt t))) bufsz (write fmt t)) =
      MDone [ITree 0 (canon_root fmt parse_num t)].
Proof. exact glue_read_length. Qed.
Print Assumptions C01_glue_read_length.

(** the executable model with the buffer of bufio.NewReader *)
Theorem C01_glue_model : forall t,
    wfC t = true -> no_lf (write_go t) = true ->
    glue_go (64 * 64) (write_go t) = MDone [ITree 0 (canon_root fmt_go parse_numC t)].
Proof.
  intros t H1 H2.
  apply (glue_read_length fmt_go numericC parse_numC numokC strconv_ok_C (64 * 64) t); try assumption.
  apply Nat.leb_le. reflexivity.
Qed.
Print Assumptions C01_glue_model.

(** the case that the code before fix b303e0a lost (reported EOF): a text that ends exactly
    with a chunk, here 6 bytes read through buffers of 6, 3 and 2 bytes *)
Example C01_glue_text_fills_last_chunk :
  let t := root2 (S_ e_ (tip "A")) (S_ e_ (tip "B")) in
  wfC t = true /\ write_go t = "(A,B);" /\
  glue_go 6 (write_go t) = MDone [ITree 0 (canon_root fmt_go parse_numC t)] /\
  glue_go 3 (write_go t) = MDone [ITree 0 (canon_root fmt_go parse_numC t)] /\
  glue_go 2 (write_go t) = MDone [ITree 0 (canon_root fmt_go parse_numC t)].
Proof. vm_compute. repeat split; reflexivity. Qed.
Print Assumptions C01_glue_text_fills_last_chunk.

(** non-vacuity: a comment with ';' cut by every chunk boundary of a 4-byte buffer, and a
    text with carriage returns *)
Example C01_glue_example :
  let t := root2 (S_ (mkE (1#2) nilv nilv ["e;;;"]) (UNode "A" ["x;y;"; ";"] [None])) (S_ e_ (tip "B")) in
  wfC t = true /\ write_go t = "(A[x;y;][;]:0.5[e;;;],B);" /\
  glue_go 4 (write_go t) = MDone [ITree 0 (canon_root fmt_go parse_numC t)].
Proof. vm_compute. repeat split; reflexivity. Qed.
Print Assumptions C01_glue_example.

Example C01_glue_example_cr :
  let t := root2 (S_ e_ (UNode "A" [String "013" "x"; String "a" (String "013" "")] [None])) (S_ e_ (tip "B")) in
  wfC t = true /\ no_lf (write_go t) = true /\
  glue_go 5 (write_go t) = MDone [ITree 0 (canon_root fmt_go parse_numC t)] /\
  glue_go 2 (write_go t) = MDone [ITree 0 (canon_root fmt_go parse_numC t)].
Proof. vm_compute. repeat split; reflexivity. Qed.
Print Assumptions C01_glue_example_cr.

(** * Stretch 5: the remaining clauses, at full strength *)

(** "writing that tree again gives byte-identical text": for whatever tree the reader
    returns (deterministic form of [C01_round_trip]) *)
Theorem C01_rewrite_identical :
  forall (fmt : Q -> string) (numeric : string -> bool) (parse_num : string -> option Q) (numok : Q -> bool),
    strconv_ok fmt numeric parse_num numok ->
    forall t t', wfN numeric numok t = true ->
      parse numeric parse_num (write fmt t) = POk t' ->
      write fmt t' = write fmt t /\ rose_eqb (rose_of t') (rose_of t) = true.
Proof. exact rewrite_identical. Qed.
Print Assumptions C01_rewrite_identical.

(** lexer and parser totality on every byte string is [C01_fuel_irrelevant] (the result is a
    tree or an error, never fuel exhaustion) together with [C01_parsed_tree_wf]; on the bytes
    as the lexer sees them: *)
Theorem C01_parse_raw_total :
  forall (numeric : string -> bool) (parse_num : string -> option Q) (s : string),
    parse_raw numeric parse_num s <> POutOfFuel.
Proof. exact parse_raw_no_fuel. Qed.
Print Assumptions C01_parse_raw_total.

(** comments and names over the whole alphabet: a comment made of every ASCII character
    1..127 but ']' (and the line feed, for the glue), a tip name made of every ASCII character
    that is not a metacharacter or a blank -- quotes included -- are inside the quantifier, and
    the tree goes through the reader and through the glue *)
Example C01_full_alphabet :
  let t := root2 (S_ e_ (UNode "A" [ascii_but [93; 10]] [None]))
                 (S_ e_ (tip (ascii_but [9; 10; 11; 12; 13; 32; 40; 41; 44; 58; 59; 91; 93]))) in
  wfC t = true /\ rt_ok t = true /\ String.length (write_go t) = 246 /\
  glue_go 16 (write_go t) = MDone [ITree 0 (canon_root fmt_go parse_numC t)].
Proof. vm_compute. repeat split; reflexivity. Qed.
Print Assumptions C01_full_alphabet.
