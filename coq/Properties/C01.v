(** C01: Newick write/parse round trip preserves the whole tree.  Statements only; the
    proofs are in Proofs/Newick*.v.

    [write], [parse]: Model/Newick.v (Node.Newick/Tree.Newick, io/newick lexer and parser).
    [wfN]: Spec/NewickSpec.v, the boolean transcription of the quantifier of C01.
    [rose_of]: the rooted ordered tree with all decorations (parent slots dropped);
    [rose_eqb] compares names, comments, shape and child order exactly and lengths, supports,
    p-values as rationals ([Qeq]; the representation of numbers in the model is not
    canonical, so Leibniz equality on [Q] would be the wrong notion).
    [strconv_ok fmt numeric parse_num numok]: the assumed behaviour of
    strconv.FormatFloat(x,'f',-1,64) / strconv.ParseFloat on the numbers [numok]
    (Proofs/NewickCanon.v): the text of x is a non-empty token without ()[],:;/ and blanks,
    ParseFloat accepts it and reads back x, equal numbers have equal texts, no text
    containing '/' is a float. *)
From Coq Require Import String ZArith QArith Bool List.
From GT Require Import Base.UTree Model.Newick Model.NewickNum Spec.NewickSpec
     Proofs.NewickFuel Proofs.NewickCanon Proofs.NewickTheorem Proofs.NewickNumC Proofs.NewickWf.
Import ListNotations.
Local Close Scope Q_scope.
Local Open Scope string_scope.

(** (i) Round trip, for every tree inside the quantifier, under the assumed behaviour of
    strconv: the parser accepts the writer's text, the tree read back has the same rose view,
    and writing it again gives byte-identical text. *)
Theorem C01_round_trip :
  forall (fmt : Q -> string) (numeric : string -> bool) (parse_num : string -> option Q) (numok : Q -> bool),
    strconv_ok fmt numeric parse_num numok ->
    forall t, wfN numeric numok t = true ->
      exists t', parse numeric parse_num (write fmt t) = POk t' /\
                 rose_eqb (rose_of t') (rose_of t) = true /\
                 write fmt t' = write fmt t.
Proof. exact round_trip. Qed.
Print Assumptions C01_round_trip.

(** the tree read back, explicitly: parent slot first in every non-root node, every number
    replaced by what ParseFloat reads from its text *)
Theorem C01_parse_write :
  forall (fmt : Q -> string) (numeric : string -> bool) (parse_num : string -> option Q) (numok : Q -> bool),
    strconv_ok fmt numeric parse_num numok ->
    forall t, wfN numeric numok t = true ->
      parse numeric parse_num (write fmt t) = POk (canon_root fmt parse_num t).
Proof. exact parse_write. Qed.
Print Assumptions C01_parse_write.

(** The hypotheses are satisfiable: the executable model of strconv used by the
    correspondence check (Model/NewickNum.v: ParseFloat syntax, correct rounding to binary64,
    shortest round-tripping decimal) satisfies them on the numbers [numokC], those for which
    its own FormatFloat/ParseFloat pair round-trips (a decidable check, Proofs/NewickNumC.v). *)
Theorem C01_strconv_model_ok : strconv_ok fmt_go numericC parse_numC numokC.
Proof. exact strconv_ok_C. Qed.
Print Assumptions C01_strconv_model_ok.

(** ... hence the round trip of the executable model, without any hypothesis. *)
Theorem C01_round_trip_model :
  forall t, wfN numericC numokC t = true ->
    exists t', parse numericC parse_numC (write fmt_go t) = POk t' /\
               rose_eqb (rose_of t') (rose_of t) = true /\
               write fmt_go t' = write fmt_go t.
Proof. exact (round_trip fmt_go numericC parse_numC numokC strconv_ok_C). Qed.
Print Assumptions C01_round_trip_model.

(** (ii) The parser run with the fuel [S (length s)] that [parse] gives it never stops for
    lack of fuel, whatever the input text and whatever ParseFloat does: the model of the
    reader is total. *)
Theorem C01_fuel_irrelevant :
  forall (numeric : string -> bool) (parse_num : string -> option Q) (s : string),
    parse numeric parse_num s <> POutOfFuel.
Proof. exact parse_no_fuel. Qed.
Print Assumptions C01_fuel_irrelevant.

(** Whatever the text, a tree the reader delivers is a well-formed rooted structure: no
    parent slot in the root, exactly one in every other node (used by C02, C13). *)
Theorem C01_parsed_tree_wf :
  forall (numeric : string -> bool) (parse_num : string -> option Q) (s : string) (t : utree),
    parse numeric parse_num s = POk t -> wf t = true.
Proof. exact parse_wf. Qed.
Print Assumptions C01_parsed_tree_wf.

(** The quantifier is not vacuous: a rooted-at-a-trifurcation tree with a multifurcation, inner
    and root names, supports with and without p-value, numeric-looking tip names, node, root
    and branch comments with hostile content, a parent slot that is not first. *)
Definition ex_tree : utree :=
  UNode "root/x" ["r;1"; "(,):"]
    [Some (mkE (1#2) nilv nilv ["b c"], UNode "1e5" ["tip[c"] [None]);
     Some (mkE (3#64) (15#16) (1#1024) [],
           UNode "" [" n1 "; ""]
             [Some (mkE nilv nilv nilv [], UNode "a b" [] [None]);
              None;
              Some (mkE (0#1) nilv nilv [], UNode "0x1p-2" [] [None]);
              Some (mkE (12345#1) (7#8) nilv [";"], UNode "" [] [None; Some (mkE ((-3)#4) nilv nilv [], UNode "x" [] [None]);
                                                                Some (mkE nilv nilv nilv [], UNode "12" [] [None])])]);
     Some (mkE (1#1024) nilv nilv [], UNode "I 7" ["k:v"] [None; Some (mkE nilv nilv nilv [], UNode "y" [] [None]);
                                                           Some (mkE (5#1) nilv nilv [], UNode "z" [] [None])])].

Example C01_example_in_quantifier : wfN numericC numokC ex_tree = true.
Proof. vm_compute. reflexivity. Qed.
Print Assumptions C01_example_in_quantifier.

Example C01_example_text :
  write fmt_go ex_tree =
  "(1e5[tip[c]:0.5[b c],(a b,0x1p-2:0,(x:-0.75,12)0.875:12345[;])0.9375/0.0009765625[ n1 ][]:0.046875,(y,z:5)I 7[k:v]:0.0009765625)root/x[r;1][(,):];".
Proof. vm_compute. reflexivity. Qed.
Print Assumptions C01_example_text.

(** the numbers the generators use are numbers of the executable strconv model *)
Example C01_example_numbers :
  forallb numokC (map (fun k => Qmake (Z.of_nat k - 100) 64) (seq 0 300) ++
                  map (fun k => Qmake (Z.of_nat k) 1024) (seq 0 100) ++
                  [Qmake 3602879701896397 36028797018963968; Qmake 86719 262144; inject_Z 123456789012345]) = true.
Proof. vm_compute. reflexivity. Qed.
Print Assumptions C01_example_numbers.
