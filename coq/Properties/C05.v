(** C05: re-rooting, unrooting and reordering never change the tree itself.
    Statements about the model Model/Reroot.v (Reroot+ReorderEdges, UnRoot, RotateInternalNodes,
    SortNeighborsByTips), for all trees; proofs in Proofs/{RerootBase,Reroot,Unroot,Reorder,
    Splits,C05Main}.v.  Vocabulary: Spec/Obs.v ([leaves], [tipset], [pairdists], [branch_splits])
    and Spec/Unrooted.v ([dists_equiv] = same multiset of (tip, tip, distance) up to Qeq,
    [tperm] = same tree up to the order of every neighbour list, [bsplits]/[splits_equiv] =
    branches of the unrooted tree up to exchanging the two sides of a branch). *)
From Coq Require Import String ZArith QArith Bool Arith List Permutation.
From GT Require Import Base.UTree Spec.Obs Model.Reroot Spec.Unrooted
     Proofs.RerootBase Proofs.Reroot Proofs.Unroot Proofs.Reorder Proofs.Splits Proofs.USplits
     Proofs.C05Main.
Import ListNotations.
Local Close Scope Q_scope.

(** * the specification's leaves are Go's tips (Tree.Tips: nodes with exactly one neighbour) *)
Theorem C05_leaves_tip_names :
  forall t, wf t = true -> 2 <= degree t -> leaves t = tip_names t.
Proof. exact leaves_tip_names. Qed.
Print Assumptions C05_leaves_tip_names.

(** * (a) Reroot *)

(** one rotation step onto a non-tip child *)
Theorem C05_rotate_to :
  forall t k t',
    wf t = true -> 2 <= degree t -> path_ok t [k] -> rotate_to t k = Some t' ->
    wf t' = true /\ 2 <= degree t' /\ Permutation (leaves t') (leaves t) /\
    (forall w, dists_equiv (pairdists w t') (pairdists w t)).
Proof. exact rotate_to_preserves. Qed.
Print Assumptions C05_rotate_to.

(** a whole path through non-tip nodes: the rotations are defined and preserve everything *)
Theorem C05_reroot_path :
  forall p t,
    wf t = true -> 2 <= degree t -> path_ok t p ->
    exists t', reroot_path t p = Some t' /\
      wf t' = true /\ 2 <= degree t' /\ Permutation (leaves t') (leaves t) /\
      (forall w, dists_equiv (pairdists w t') (pairdists w t)).
Proof. exact reroot_path_preserves. Qed.
Print Assumptions C05_reroot_path.

(** Tree.Reroot: representation invariant, leaves, tip set, all tip-to-tip path lengths (any
    weight function of the branch data), branches of the unrooted tree, canonical splits *)
Theorem C05_reroot :
  forall t i t',
    wf t = true -> 2 <= degree t -> reroot t i = Ok t' ->
    wf t' = true /\ 2 <= degree t' /\
    Permutation (leaves t') (leaves t) /\ tipset t' = tipset t /\
    (forall w, dists_equiv (pairdists w t') (pairdists w t)) /\
    splits_equiv (leaves t) (bsplits t') (bsplits t) /\
    (NoDup (leaves t) ->
     Permutation (branch_splits (tipset t') t') (branch_splits (tipset t) t)).
Proof. exact reroot_all. Qed.
Print Assumptions C05_reroot.

(** the same distances, read entry by entry in both directions *)
Theorem C05_reroot_dists_pointwise :
  forall t i t' w,
    wf t = true -> 2 <= degree t -> reroot t i = Ok t' ->
    ((forall a b d, In (a, b, d) (pairdists w t') ->
                    exists d', In (a, b, d') (pairdists w t) /\ (d == d')%Q) /\
     (forall a b d, In (a, b, d) (pairdists w t) ->
                    exists d', In (a, b, d') (pairdists w t') /\ (d == d')%Q)) /\
    length (pairdists w t') = length (pairdists w t).
Proof. exact reroot_dists_pointwise. Qed.
Print Assumptions C05_reroot_dists_pointwise.

(** Reroot refuses exactly an index out of range or a node with fewer than two neighbours *)
Theorem C05_reroot_err_iff :
  forall t i,
    (exists msg, reroot t i = Err msg) <->
    (length (nodes t) <= i \/ exists m, nth_error (nodes t) i = Some m /\ degree m < 2).
Proof. exact reroot_err_iff. Qed.
Print Assumptions C05_reroot_err_iff.

Theorem C05_reroot_ok_iff :
  forall t i,
    (exists t', reroot t i = Ok t') <->
    (exists m, nth_error (nodes t) i = Some m /\ 2 <= degree m).
Proof. exact reroot_ok_iff. Qed.
Print Assumptions C05_reroot_ok_iff.

(** why tips are excluded: rotating onto a tip changes the leaves seen by the specification *)
Theorem C05_rotate_to_tip_refuted :
  exists t k t', wf t = true /\ 2 <= degree t /\ rotate_to t k = Some t' /\
                 ~ Permutation (leaves t') (leaves t).
Proof. exact rotate_to_tip_refuted. Qed.
Print Assumptions C05_rotate_to_tip_refuted.

(** * (b) UnRoot *)

Theorem C05_unroot_not_rooted : forall t, rooted t = false -> unroot t = t.
Proof. exact unroot_not_rooted. Qed.
Print Assumptions C05_unroot_not_rooted.

Theorem C05_unroot_wf : forall t, wf t = true -> wf (unroot t) = true.
Proof. exact unroot_wf_any. Qed.
Print Assumptions C05_unroot_wf.

(** rooted tree whose root children are not both tips: leaves, tip set, distances (absent
    lengths counted 0; any weight additive on the merged branch; raw lengths when the root
    branches carry one), degree of the new root *)
Theorem C05_unroot :
  forall t,
    wf t = true -> rooted t = true -> root_has_inner_child t = true ->
    wf (unroot t) = true /\
    Permutation (leaves (unroot t)) (leaves t) /\ tipset (unroot t) = tipset t /\
    dists_equiv (pairdists len0 (unroot t)) (pairdists len0 t) /\
    (forall w, (forall e1 e2 b1 b2, w (merged_edge e1 e2 b1 b2) == w e1 + w e2)%Q ->
               dists_equiv (pairdists w (unroot t)) (pairdists w t)) /\
    ((forall p, In p (kids t) -> 0 <= elen (fst p))%Q ->
     dists_equiv (pairdists elen (unroot t)) (pairdists elen t)) /\
    (no_single t = true -> 3 <= degree (unroot t)).
Proof. exact unroot_all. Qed.
Print Assumptions C05_unroot.

(** the two root branches become one branch (length = [merge_len], i.e. the sum with absent
    counted 0), every other branch is kept with its data *)
Theorem C05_unroot_splits :
  forall t,
    wf t = true -> rooted t = true ->
    exists e1 N1 e2 N2 e3 far,
      kids t = [(e1, N1); (e2, N2)] /\
      (far = N1 \/ far = N2) /\
      elen e3 = merge_len (elen e1) (elen e2) /\
      (len0 e3 == len0 e1 + len0 e2)%Q /\
      bsplits t = (e1, leaves N1, isleaf N1) :: bsplits N1 ++ (e2, leaves N2, isleaf N2) :: bsplits N2 /\
      Permutation (bsplits (unroot t)) ((e3, leaves far, isleaf far) :: bsplits N1 ++ bsplits N2) /\
      (forall all, Permutation (branch_splits all (unroot t))
                               (canon_split all (e3, leaves far, isleaf far)
                                :: branch_splits all N1 ++ branch_splits all N2)).
Proof. exact unroot_splits. Qed.
Print Assumptions C05_unroot_splits.

(** with only two tips the hypothesis [root_has_inner_child] is needed (the property is about
    trees with at least three tips) *)
Theorem C05_unroot_two_tips_refuted :
  exists t, wf t = true /\ rooted t = true /\ ~ Permutation (leaves (unroot t)) (leaves t).
Proof. exact unroot_two_tips_refuted. Qed.
Print Assumptions C05_unroot_two_tips_refuted.

(** exact degree of the new root: that of the root child kept as root *)
Theorem C05_unroot_degree :
  forall n0 c0 e1 n1 c1 sl1 e2 n2 c2 sl2,
    wf (UNode n0 c0 [Some (e1, UNode n1 c1 sl1); Some (e2, UNode n2 c2 sl2)]) = true ->
    degree (unroot (UNode n0 c0 [Some (e1, UNode n1 c1 sl1); Some (e2, UNode n2 c2 sl2)])) =
    if Nat.eqb (length sl1) 1 then length sl2 else length sl1.
Proof. exact unroot_degree. Qed.
Print Assumptions C05_unroot_degree.

(** so "at least three neighbours unless both root children are tips" needs [no_single]:
    without it a single-child node may become a root with two neighbours *)
Theorem C05_unroot_degree_refuted :
  exists t, wf t = true /\ rooted t = true /\ root_has_inner_child t = true /\
            Permutation (leaves (unroot t)) (leaves t) /\ degree (unroot t) = 2.
Proof. exact unroot_degree_refuted. Qed.
Print Assumptions C05_unroot_degree_refuted.

(** * (c) RotateInternalNodes, SortNeighborsByTips *)

(** trees equal up to the order of the neighbours of every node have the same observables *)
Theorem C05_tperm :
  forall t t',
    tperm t t' ->
    (wf t = true -> wf t' = true) /\ degree t' = degree t /\
    Permutation (leaves t') (leaves t) /\ tipset t' = tipset t /\
    (forall w, Permutation (pairdists w t') (pairdists w t)) /\
    (forall w, dists_equiv (pairdists w t') (pairdists w t)) /\
    PermR bs_same (bsplits t') (bsplits t) /\
    (forall all, Permutation (branch_splits all t') (branch_splits all t)).
Proof. exact tperm_all. Qed.
Print Assumptions C05_tperm.

Theorem C05_rotate_all :
  forall t cs,
    let t' := fst (rotate_all t cs) in
    tperm t t' /\
    (wf t = true -> wf t' = true) /\ degree t' = degree t /\
    Permutation (leaves t') (leaves t) /\ tipset t' = tipset t /\
    (forall w, Permutation (pairdists w t') (pairdists w t)) /\
    (forall w, dists_equiv (pairdists w t') (pairdists w t)) /\
    PermR bs_same (bsplits t') (bsplits t) /\
    (forall all, Permutation (branch_splits all t') (branch_splits all t)).
Proof. exact rotate_all_all. Qed.
Print Assumptions C05_rotate_all.

Theorem C05_sort_by_tips :
  forall t,
    let t' := sort_by_tips t in
    tperm t t' /\
    (wf t = true -> wf t' = true) /\ degree t' = degree t /\
    Permutation (leaves t') (leaves t) /\ tipset t' = tipset t /\
    (forall w, Permutation (pairdists w t') (pairdists w t)) /\
    (forall w, dists_equiv (pairdists w t') (pairdists w t)) /\
    PermR bs_same (bsplits t') (bsplits t) /\
    (forall all, Permutation (branch_splits all t') (branch_splits all t)).
Proof. exact sort_by_tips_all. Qed.
Print Assumptions C05_sort_by_tips.

(** * link between the un-canonicalised and the canonical splits *)
Theorem C05_branch_splits_bsplits :
  forall all t, branch_splits all t = map (canon_split all) (bsplits t).
Proof. exact branch_splits_bsplits. Qed.
Print Assumptions C05_branch_splits_bsplits.

Theorem C05_splits_equiv_branch_splits :
  forall L t t',
    NoDup L -> splits_equiv L (bsplits t') (bsplits t) ->
    Permutation (branch_splits (sset L) t') (branch_splits (sset L) t).
Proof. exact splits_equiv_branch_splits. Qed.
Print Assumptions C05_splits_equiv_branch_splits.

(** * [usplits] (same-bipartition branches merged, as the oracle of the judge sees the tree):
    looking up any bipartition [k] gives the same split, lengths and supports up to Qeq *)
Theorem C05_reroot_usplits :
  forall t i t',
    wf t = true -> 2 <= degree t -> NoDup (leaves t) -> reroot t i = Ok t' ->
    forall k, orel split_qeq (find_split k (usplits t')) (find_split k (usplits t)).
Proof. exact reroot_usplits. Qed.
Print Assumptions C05_reroot_usplits.

(** applies to [rotate_all t cs] and [sort_by_tips t] through C05_rotate_all / C05_sort_by_tips *)
Theorem C05_tperm_usplits :
  forall t t',
    tperm t t' ->
    forall k, orel split_qeq (find_split k (usplits t')) (find_split k (usplits t)).
Proof. exact tperm_usplits. Qed.
Print Assumptions C05_tperm_usplits.

(** unrooting: same bipartitions with the same lengths (the support of the merged root branch
    is recomputed by UnRoot, so supports are not part of this statement) *)
Theorem C05_unroot_usplits :
  forall t,
    wf t = true -> rooted t = true -> root_has_inner_child t = true -> NoDup (leaves t) ->
    forall k, orel split_weq (find_split k (usplits (unroot t))) (find_split k (usplits t)).
Proof. exact unroot_usplits. Qed.
Print Assumptions C05_unroot_usplits.

(** * the hypotheses are satisfiable on a multifurcating tree, and the operations act *)
Example C05_example_reroot :
  wf c05_tree = true /\ 2 <= degree c05_tree /\ NoDup (leaves c05_tree) /\
  exists t', reroot c05_tree 8 = Ok t' /\ uname t' = "z"%string /\ utree_eqb t' c05_tree = false.
Proof. exact c05_example_reroot. Qed.
Print Assumptions C05_example_reroot.

Example C05_example_reroot_refusals :
  (exists m, reroot c05_tree 1 = Err m) /\ (exists m, reroot c05_tree 11 = Err m).
Proof. exact c05_example_reroot_refusals. Qed.
Print Assumptions C05_example_reroot_refusals.

Example C05_example_unroot :
  wf c05_rooted_tree = true /\ rooted c05_rooted_tree = true /\
  root_has_inner_child c05_rooted_tree = true /\ no_single c05_rooted_tree = true /\
  utree_eqb (unroot c05_rooted_tree) c05_rooted_tree = false /\
  rooted c05_tree = false.
Proof. exact c05_example_unroot. Qed.
Print Assumptions C05_example_unroot.

Example C05_example_reorder :
  utree_eqb (fst (rotate_all c05_tree [0;0;1;0;1;1;0;0;0;2;1;0;1;0;0;1;2;0;0;0;0;0;0])) c05_tree = false /\
  utree_eqb (sort_by_tips c05_tree) c05_tree = false.
Proof. exact c05_example_reorder. Qed.
Print Assumptions C05_example_reorder.
