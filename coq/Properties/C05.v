(** C05: re-rooting, unrooting and reordering never change the tree itself.
    Statements about the model Model/Reroot.v (Reroot+ReorderEdges, UnRoot, RotateInternalNodes,
    SortNeighborsByTips), for all trees; proofs in Proofs/{RerootBase,Reroot,Unroot,Reorder,
    Splits,C05Main}.v.  Vocabulary: Spec/Obs.v ([leaves], [tipset], [pairdists], [branch_splits])
    and Spec/Unrooted.v ([dists_equiv] = same multiset of (tip, tip, distance) up to Qeq,
    [tperm] = same tree up to the order of every neighbour list, [bsplits]/[splits_equiv] =
    branches of the unrooted tree up to exchanging the two sides of a branch). *)
From Coq Require Import String ZArith QArith Bool Arith List Permutation.
From GT Require Import Base.UTree Spec.Obs Model.Reroot Model.Outgroup Spec.Unrooted
     Proofs.RerootBase Proofs.Reroot Proofs.Unroot Proofs.Reorder Proofs.Splits Proofs.USplits
     Proofs.C05Main
     Proofs.OutgroupBase Proofs.OutgroupCut Proofs.OutgroupKeep Proofs.OutgroupLCA Proofs.OutgroupClade
     Proofs.OutgroupMain Proofs.OutgroupSide Proofs.OutgroupRemove Proofs.OutgroupRemoveMain
     Proofs.OutgroupMidpoint Proofs.OutgroupMidDist Proofs.OutgroupMlp Proofs.OutgroupHalf
     Proofs.OutgroupHalfMain Proofs.OutgroupSplits Proofs.OutgroupSplitsMain Proofs.OutgroupMidErr
     Proofs.OutgroupTies Proofs.OutgroupWitness Proofs.OracleC05 Proofs.OutgroupRemoveSplits
     Proofs.OutgroupTwoTip Proofs.OutgroupNeg
     Proofs.OracleSup Proofs.OracleIndex Proofs.OracleMid Proofs.OracleSide Proofs.OracleOut Proofs.OracleRm Proofs.OracleAll.
From GT Require Import Model.Index Proofs.IndexSplit Judge.C05.
From GT Require Import Base.Sexp Judge.Common.
Import ListNotations.
Local Close Scope Q_scope.

(** * the specification's leaves are Go's tips (Tree.Tips: nodes with exactly one neighbour) *)
Theorem C05_leaves_tip_names :
  forall t, wf t = true -> 2 <= degree t -> leaves t = tip_names t.
Proof. exact leaves_tip_names. Qed.
Print Assumptions C05_leaves_tip_names.

(** * (a) Reroot *)

(** one rotation step onto a non-tip child *)
Theorem C05_rotate_to :
  forall t k t',
    wf t = true -> 2 <= degree t -> path_ok t [k] -> rotate_to t k = Some t' ->
    wf t' = true /\ 2 <= degree t' /\ Permutation (leaves t') (leaves t) /\
    (forall w, dists_equiv (pairdists w t') (pairdists w t)).
Proof. exact rotate_to_preserves. Qed.
Print Assumptions C05_rotate_to.

(** a whole path through non-tip nodes: the rotations are defined and preserve everything *)
Theorem C05_reroot_path :
  forall p t,
    wf t = true -> 2 <= degree t -> path_ok t p ->
    exists t', reroot_path t p = Some t' /\
      wf t' = true /\ 2 <= degree t' /\ Permutation (leaves t') (leaves t) /\
      (forall w, dists_equiv (pairdists w t') (pairdists w t)).
Proof. exact reroot_path_preserves. Qed.
Print Assumptions C05_reroot_path.

(** Tree.Reroot: representation invariant, leaves, tip set, all tip-to-tip path lengths (any
    weight function of the branch data), branches of the unrooted tree, canonical splits *)
Theorem C05_reroot :
  forall t i t',
    wf t = true -> 2 <= degree t -> reroot t i = Ok t' ->
    wf t' = true /\ 2 <= degree t' /\
    Permutation (leaves t') (leaves t) /\ tipset t' = tipset t /\
    (forall w, dists_equiv (pairdists w t') (pairdists w t)) /\
    splits_equiv (leaves t) (bsplits t') (bsplits t) /\
    (NoDup (leaves t) ->
     Permutation (branch_splits (tipset t') t') (branch_splits (tipset t) t)).
Proof. exact reroot_all. Qed.
Print Assumptions C05_reroot.

(** the same distances, read entry by entry in both directions *)
Theorem C05_reroot_dists_pointwise :
  forall t i t' w,
    wf t = true -> 2 <= degree t -> reroot t i = Ok t' ->
    ((forall a b d, In (a, b, d) (pairdists w t') ->
                    exists d', In (a, b, d') (pairdists w t) /\ (d == d')%Q) /\
     (forall a b d, In (a, b, d) (pairdists w t) ->
                    exists d', In (a, b, d') (pairdists w t') /\ (d == d')%Q)) /\
    length (pairdists w t') = length (pairdists w t).
Proof. exact reroot_dists_pointwise. Qed.
Print Assumptions C05_reroot_dists_pointwise.

(** Reroot refuses exactly an index out of range or a node with fewer than two neighbours *)
Theorem C05_reroot_err_iff :
  forall t i,
    (exists msg, reroot t i = Err msg) <->
    (length (nodes t) <= i \/ exists m, nth_error (nodes t) i = Some m /\ degree m < 2).
Proof. exact reroot_err_iff. Qed.
Print Assumptions C05_reroot_err_iff.

Theorem C05_reroot_ok_iff :
  forall t i,
    (exists t', reroot t i = Ok t') <->
    (exists m, nth_error (nodes t) i = Some m /\ 2 <= degree m).
Proof. exact reroot_ok_iff. Qed.
Print Assumptions C05_reroot_ok_iff.

(** why tips are excluded: rotating onto a tip changes the leaves seen by the specification *)
Theorem C05_rotate_to_tip_refuted :
  exists t k t', wf t = true /\ 2 <= degree t /\ rotate_to t k = Some t' /\
                 ~ Permutation (leaves t') (leaves t).
Proof. exact rotate_to_tip_refuted. Qed.
Print Assumptions C05_rotate_to_tip_refuted.

(** * (b) UnRoot *)

Theorem C05_unroot_not_rooted : forall t, rooted t = false -> unroot t = t.
Proof. exact unroot_not_rooted. Qed.
Print Assumptions C05_unroot_not_rooted.

Theorem C05_unroot_wf : forall t, wf t = true -> wf (unroot t) = true.
Proof. exact unroot_wf_any. Qed.
Print Assumptions C05_unroot_wf.

(** rooted tree whose root children are not both tips: leaves, tip set, distances (absent
    lengths counted 0; any weight additive on the merged branch; raw lengths when the root
    branches carry one), degree of the new root *)
Theorem C05_unroot :
  forall t,
    wf t = true -> rooted t = true -> root_has_inner_child t = true ->
    wf (unroot t) = true /\
    Permutation (leaves (unroot t)) (leaves t) /\ tipset (unroot t) = tipset t /\
    dists_equiv (pairdists len0 (unroot t)) (pairdists len0 t) /\
    (forall w, (forall e1 e2 b1 b2, w (merged_edge e1 e2 b1 b2) == w e1 + w e2)%Q ->
               dists_equiv (pairdists w (unroot t)) (pairdists w t)) /\
    ((forall p, In p (kids t) -> 0 <= elen (fst p))%Q ->
     dists_equiv (pairdists elen (unroot t)) (pairdists elen t)) /\
    (no_single t = true -> 3 <= degree (unroot t)).
Proof. exact unroot_all. Qed.
Print Assumptions C05_unroot.

(** the two root branches become one branch (length = [merge_len], i.e. the sum with absent
    counted 0), every other branch is kept with its data *)
Theorem C05_unroot_splits :
  forall t,
    wf t = true -> rooted t = true ->
    exists e1 N1 e2 N2 e3 far,
      kids t = [(e1, N1); (e2, N2)] /\
      (far = N1 \/ far = N2) /\
      elen e3 = merge_len (elen e1) (elen e2) /\
      (len0 e3 == len0 e1 + len0 e2)%Q /\
      bsplits t = (e1, leaves N1, isleaf N1) :: bsplits N1 ++ (e2, leaves N2, isleaf N2) :: bsplits N2 /\
      Permutation (bsplits (unroot t)) ((e3, leaves far, isleaf far) :: bsplits N1 ++ bsplits N2) /\
      (forall all, Permutation (branch_splits all (unroot t))
                               (canon_split all (e3, leaves far, isleaf far)
                                :: branch_splits all N1 ++ branch_splits all N2)).
Proof. exact unroot_splits. Qed.
Print Assumptions C05_unroot_splits.

(** with only two tips the hypothesis [root_has_inner_child] is needed (the property is about
    trees with at least three tips) *)
Theorem C05_unroot_two_tips_refuted :
  exists t, wf t = true /\ rooted t = true /\ ~ Permutation (leaves (unroot t)) (leaves t).
Proof. exact unroot_two_tips_refuted. Qed.
Print Assumptions C05_unroot_two_tips_refuted.

(** exact degree of the new root: that of the root child kept as root *)
Theorem C05_unroot_degree :
  forall n0 c0 e1 n1 c1 sl1 e2 n2 c2 sl2,
    wf (UNode n0 c0 [Some (e1, UNode n1 c1 sl1); Some (e2, UNode n2 c2 sl2)]) = true ->
    degree (unroot (UNode n0 c0 [Some (e1, UNode n1 c1 sl1); Some (e2, UNode n2 c2 sl2)])) =
    if Nat.eqb (length sl1) 1 then length sl2 else length sl1.
Proof. exact unroot_degree. Qed.
Print Assumptions C05_unroot_degree.

(** so "at least three neighbours unless both root children are tips" needs [no_single]:
    without it a single-child node may become a root with two neighbours *)
Theorem C05_unroot_degree_refuted :
  exists t, wf t = true /\ rooted t = true /\ root_has_inner_child t = true /\
            Permutation (leaves (unroot t)) (leaves t) /\ degree (unroot t) = 2.
Proof. exact unroot_degree_refuted. Qed.
Print Assumptions C05_unroot_degree_refuted.

(** * (c) RotateInternalNodes, SortNeighborsByTips *)

(** trees equal up to the order of the neighbours of every node have the same observables *)
Theorem C05_tperm :
  forall t t',
    tperm t t' ->
    (wf t = true -> wf t' = true) /\ degree t' = degree t /\
    Permutation (leaves t') (leaves t) /\ tipset t' = tipset t /\
    (forall w, Permutation (pairdists w t') (pairdists w t)) /\
    (forall w, dists_equiv (pairdists w t') (pairdists w t)) /\
    PermR bs_same (bsplits t') (bsplits t) /\
    (forall all, Permutation (branch_splits all t') (branch_splits all t)).
Proof. exact tperm_all. Qed.
Print Assumptions C05_tperm.

Theorem C05_rotate_all :
  forall t cs,
    let t' := fst (rotate_all t cs) in
    tperm t t' /\
    (wf t = true -> wf t' = true) /\ degree t' = degree t /\
    Permutation (leaves t') (leaves t) /\ tipset t' = tipset t /\
    (forall w, Permutation (pairdists w t') (pairdists w t)) /\
    (forall w, dists_equiv (pairdists w t') (pairdists w t)) /\
    PermR bs_same (bsplits t') (bsplits t) /\
    (forall all, Permutation (branch_splits all t') (branch_splits all t)).
Proof. exact rotate_all_all. Qed.
Print Assumptions C05_rotate_all.

Theorem C05_sort_by_tips :
  forall t,
    let t' := sort_by_tips t in
    tperm t t' /\
    (wf t = true -> wf t' = true) /\ degree t' = degree t /\
    Permutation (leaves t') (leaves t) /\ tipset t' = tipset t /\
    (forall w, Permutation (pairdists w t') (pairdists w t)) /\
    (forall w, dists_equiv (pairdists w t') (pairdists w t)) /\
    PermR bs_same (bsplits t') (bsplits t) /\
    (forall all, Permutation (branch_splits all t') (branch_splits all t)).
Proof. exact sort_by_tips_all. Qed.
Print Assumptions C05_sort_by_tips.

(** * link between the un-canonicalised and the canonical splits *)
Theorem C05_branch_splits_bsplits :
  forall all t, branch_splits all t = map (canon_split all) (bsplits t).
Proof. exact branch_splits_bsplits. Qed.
Print Assumptions C05_branch_splits_bsplits.

Theorem C05_splits_equiv_branch_splits :
  forall L t t',
    NoDup L -> splits_equiv L (bsplits t') (bsplits t) ->
    Permutation (branch_splits (sset L) t') (branch_splits (sset L) t).
Proof. exact splits_equiv_branch_splits. Qed.
Print Assumptions C05_splits_equiv_branch_splits.

(** * [usplits] (same-bipartition branches merged, as the oracle of the judge sees the tree):
    looking up any bipartition [k] gives the same split, lengths and supports up to Qeq *)
Theorem C05_reroot_usplits :
  forall t i t',
    wf t = true -> 2 <= degree t -> NoDup (leaves t) -> reroot t i = Ok t' ->
    forall k, orel split_qeq (find_split k (usplits t')) (find_split k (usplits t)).
Proof. exact reroot_usplits. Qed.
Print Assumptions C05_reroot_usplits.

(** applies to [rotate_all t cs] and [sort_by_tips t] through C05_rotate_all / C05_sort_by_tips *)
Theorem C05_tperm_usplits :
  forall t t',
    tperm t t' ->
    forall k, orel split_qeq (find_split k (usplits t')) (find_split k (usplits t)).
Proof. exact tperm_usplits. Qed.
Print Assumptions C05_tperm_usplits.

(** unrooting: same bipartitions with the same lengths (the support of the merged root branch
    is recomputed by UnRoot, so supports are not part of this statement) *)
Theorem C05_unroot_usplits :
  forall t,
    wf t = true -> rooted t = true -> root_has_inner_child t = true -> NoDup (leaves t) ->
    forall k, orel split_weq (find_split k (usplits (unroot t))) (find_split k (usplits t)).
Proof. exact unroot_usplits. Qed.
Print Assumptions C05_unroot_usplits.

(** * the hypotheses are satisfiable on a multifurcating tree, and the operations act *)
Example C05_example_reroot :
  wf c05_tree = true /\ 2 <= degree c05_tree /\ NoDup (leaves c05_tree) /\
  exists t', reroot c05_tree 8 = Ok t' /\ uname t' = "z"%string /\ utree_eqb t' c05_tree = false.
Proof. exact c05_example_reroot. Qed.
Print Assumptions C05_example_reroot.

Example C05_example_reroot_refusals :
  (exists m, reroot c05_tree 1 = Err m) /\ (exists m, reroot c05_tree 11 = Err m).
Proof. exact c05_example_reroot_refusals. Qed.
Print Assumptions C05_example_reroot_refusals.

Example C05_example_unroot :
  wf c05_rooted_tree = true /\ rooted c05_rooted_tree = true /\
  root_has_inner_child c05_rooted_tree = true /\ no_single c05_rooted_tree = true /\
  utree_eqb (unroot c05_rooted_tree) c05_rooted_tree = false /\
  rooted c05_tree = false.
Proof. exact c05_example_unroot. Qed.
Print Assumptions C05_example_unroot.

Example C05_example_reorder :
  utree_eqb (fst (rotate_all c05_tree [0;0;1;0;1;1;0;0;0;2;1;0;1;0;0;1;2;0;0;0;0;0;0])) c05_tree = false /\
  utree_eqb (sort_by_tips c05_tree) c05_tree = false.
Proof. exact c05_example_reorder. Qed.
Print Assumptions C05_example_reorder.

(** * (d) rooting on an outgroup: Model/Outgroup.v [reroot_outgroup remove strict t names]
    (RerootOutGroup + LeastCommonAncestorUnrooted/Recur), proofs in Proofs/Outgroup*.v.
    [group (unroot t) names] = the requested names that are tips, without repetition;
    [side_of t G] = some branch of [t] separates exactly the tips [G] from the others;
    [half_edge e] = what the code writes on the two new root branches: half the length of [e]
    (no length if [e] has none) and the support of [e]; p-value and comments are not copied. *)

(** the requested names that count *)
Theorem C05_group_In :
  forall t1 names x, wf t1 = true -> 2 <= degree t1 ->
    (In x (group t1 names) <-> In x names /\ In x (leaves t1) /\ x <> ""%string).
Proof. exact group_In. Qed.
Print Assumptions C05_group_In.

(** inserting a node in the middle of a branch and re-rooting on it: a root with exactly two
    children, same leaves, and the same tip-to-tip path lengths for every weight that gives the
    two new branches together the weight of the branch that was cut *)
Theorem C05_cut_and_root :
  forall w t2 pp k cf eP eC P e ch,
    wf t2 = true -> 2 <= degree t2 ->
    node_at t2 pp = Some P -> nth_error (uslots P) k = Some (Some (e, ch)) ->
    (w eP + w eC == w e)%Q ->
    exists t4 R,
      cut_and_root t2 pp k cf eP eC = Some t4 /\
      t4 = UNode "" [] (if cf then [Some (eC, cut_child ch); Some (eP, R)]
                        else [Some (eP, R); Some (eC, cut_child ch)]) /\
      wf t4 = true /\ Permutation (leaves t4) (leaves t2) /\
      dists_equiv (pairdists w t4) (pairdists w t2).
Proof. exact cut_and_root_spec. Qed.
Print Assumptions C05_cut_and_root.

(** (i) without removal: well-formed, root with two neighbours, same leaves, same path lengths
    (an absent length counting 0) *)
Theorem C05_outgroup_preserves :
  forall strict t names t',
    wf t = true -> 2 <= degree t -> (rooted t = true -> root_has_inner_child t = true) ->
    reroot_outgroup false strict t names = Ok t' ->
    wf t' = true /\ degree t' = 2 /\ Permutation (leaves t') (leaves t) /\
    dists_equiv (pairdists len0 t') (pairdists len0 t).
Proof. exact reroot_outgroup_keep_preserves. Qed.
Print Assumptions C05_outgroup_preserves.

(** what LeastCommonAncestorRecur returns (on every subtree / on the whole tree) *)
Theorem C05_lca_spec_sub :
  forall grp, 0 < length grp -> forall s, wf_sub s = true ->
    lca_spec grp s (lca_rec grp (length grp) s).
Proof. exact lca_spec_sub. Qed.
Print Assumptions C05_lca_spec_sub.

Theorem C05_lca_spec_root :
  forall grp, 0 < length grp -> forall t, wf t = true -> 2 <= degree t ->
    lca_spec grp t (lca_rec grp (length grp) t).
Proof. exact lca_spec_root. Qed.
Print Assumptions C05_lca_spec_root.

(** (iii) strict mode: a success implies that the requested tips are one side of a split of
    the input tree; hence a non-monophyletic outgroup is refused (with or without removal) *)
Theorem C05_outgroup_strict_side :
  forall remove t names t',
    wf t = true -> 2 <= degree t -> (rooted t = true -> root_has_inner_child t = true) ->
    NoDup (leaves t) ->
    reroot_outgroup remove true t names = Ok t' ->
    side_of t (group (unroot t) names).
Proof. exact outgroup_strict_side. Qed.
Print Assumptions C05_outgroup_strict_side.

Theorem C05_outgroup_strict_refuses :
  forall remove t names,
    wf t = true -> 2 <= degree t -> (rooted t = true -> root_has_inner_child t = true) ->
    NoDup (leaves t) ->
    ~ side_of t (group (unroot t) names) ->
    exists m, reroot_outgroup remove true t names = Err m.
Proof. exact outgroup_strict_refuses. Qed.
Print Assumptions C05_outgroup_strict_refuses.

(** (ii) strict mode, success: the new root has exactly two children, the leaves below one of
    them are exactly the requested tips, and both root branches are [half_edge] of the branch
    of the unrooted tree that separates the requested tips from the rest *)
Theorem C05_outgroup_strict_clade :
  forall t names t',
    wf t = true -> 2 <= degree t -> (rooted t = true -> root_has_inner_child t = true) ->
    NoDup (leaves t) ->
    reroot_outgroup false true t names = Ok t' ->
    let G := group (unroot t) names in
    exists e e1 c1 e2 c2,
      kids t' = [(e1, c1); (e2, c2)] /\ degree t' = 2 /\
      e1 = half_edge e /\ e2 = half_edge e /\
      side_of_e (unroot t) G e /\
      (Permutation (leaves c1) G \/ Permutation (leaves c2) G).
Proof. exact outgroup_strict_clade. Qed.
Print Assumptions C05_outgroup_strict_clade.

(** the separating branch is cut into two equal halves (a length 0 included), each with the
    support of the branch; a branch without length gives two branches without length *)
Theorem C05_half_edge_len :
  forall e, qeqb (elen e) nilv = false ->
    (elen (half_edge e) == elen e * (1 # 2))%Q /\
    (elen (half_edge e) + elen (half_edge e) == elen e)%Q.
Proof. exact half_edge_len. Qed.
Print Assumptions C05_half_edge_len.

Theorem C05_half_edge_sup : forall e, (esup (half_edge e) == esup e)%Q.
Proof. exact half_edge_sup. Qed.
Print Assumptions C05_half_edge_sup.

Theorem C05_half_edge_nil : forall e, qeqb (elen e) nilv = true -> elen (half_edge e) = nilv.
Proof. exact half_edge_nil. Qed.
Print Assumptions C05_half_edge_nil.

(** (ii) for an outgroup that is one side of a split, strict or not: same conclusion *)
Theorem C05_outgroup_side_clade :
  forall strict t names t',
    wf t = true -> 2 <= degree t -> (rooted t = true -> root_has_inner_child t = true) ->
    NoDup (leaves t) ->
    side_of t (group (unroot t) names) ->
    reroot_outgroup false strict t names = Ok t' ->
    let G := group (unroot t) names in
    exists e e1 c1 e2 c2,
      kids t' = [(e1, c1); (e2, c2)] /\ degree t' = 2 /\
      e1 = half_edge e /\ e2 = half_edge e /\
      side_of_e (unroot t) G e /\
      (Permutation (leaves c1) G \/ Permutation (leaves c2) G).
Proof. exact outgroup_side_clade. Qed.
Print Assumptions C05_outgroup_side_clade.

(** every success without removal, in particular a non-monophyletic outgroup in non-strict mode:
    the requested tips are all below one of the two children of the new root *)
Theorem C05_outgroup_inside_one_clade :
  forall strict t names t',
    wf t = true -> 2 <= degree t -> (rooted t = true -> root_has_inner_child t = true) ->
    NoDup (leaves t) ->
    reroot_outgroup false strict t names = Ok t' ->
    let G := group (unroot t) names in
    exists e1 c1 e2 c2,
      kids t' = [(e1, c1); (e2, c2)] /\ degree t' = 2 /\
      (incl G (leaves c1) \/ incl G (leaves c2)).
Proof. exact outgroup_inside_one_clade. Qed.
Print Assumptions C05_outgroup_inside_one_clade.

(** the separating branch of length 0 (the case repaired in /repo): two halves of length 0 that
    keep the support *)
Example C05_example_outgroup_zero_cut :
  exists t',
    wf og_w0 = true /\ 3 <= degree og_w0 /\ NoDup (leaves og_w0) /\
    reroot_outgroup false true og_w0 ["a"; "b"]%string = Ok t' /\
    Forall (fun p => (elen (fst p) == 0)%Q /\ (esup (fst p) == 4 # 5)%Q) (kids t').
Proof. exact outgroup_zero_cut_example. Qed.
Print Assumptions C05_example_outgroup_zero_cut.

(** (i) with removal: the result is the input tree minus a set of leaves [Rm] containing the
    requested tips -- exactly the requested tips in strict mode or when they are one side of a
    split; the remaining leaves keep their path lengths ([Em]: the entries of the distance
    list that involve a removed leaf) *)
Theorem C05_outgroup_remove :
  forall strict t names t',
    wf t = true -> 2 <= degree t -> (rooted t = true -> root_has_inner_child t = true) ->
    NoDup (leaves t) ->
    reroot_outgroup true strict t names = Ok t' ->
    let G := group (unroot t) names in
    wf t' = true /\ 2 <= degree t' /\
    exists Rm,
      Permutation (leaves t) (leaves t' ++ Rm) /\ incl G Rm /\
      (strict = true \/ side_of t G -> Permutation Rm G) /\
      exists Em, dists_equiv (pairdists len0 t) (pairdists len0 t' ++ Em) /\ Forall (ends_in Rm) Em.
Proof. exact reroot_outgroup_remove. Qed.
Print Assumptions C05_outgroup_remove.

(** * (e) midpoint rooting: Model/Outgroup.v [reroot_midpoint] (RerootMidPoint + MaxLengthPath) *)

(** what holds: well-formed, root with two neighbours, same leaves *)
Theorem C05_midpoint_wf_leaves :
  forall t t',
    wf t = true -> 2 <= degree t -> (rooted t = true -> root_has_inner_child t = true) ->
    reroot_midpoint t = Ok t' ->
    wf t' = true /\ degree t' = 2 /\ Permutation (leaves t') (leaves t).
Proof. exact reroot_midpoint_wf_leaves. Qed.
Print Assumptions C05_midpoint_wf_leaves.

(** (i) tip-to-tip path lengths are kept (raw lengths: a success means that every branch has
    one; the two root branches of a rooted input must not be negative, as for UnRoot) *)
Theorem C05_midpoint_preserves :
  forall t t',
    wf t = true -> 2 <= degree t -> (rooted t = true -> root_has_inner_child t = true) ->
    (rooted t = true -> forall p, In p (kids t) -> (0 <= elen (fst p))%Q) ->
    reroot_midpoint t = Ok t' ->
    wf t' = true /\ degree t' = 2 /\ Permutation (leaves t') (leaves t) /\
    dists_equiv (pairdists elen t') (pairdists elen t).
Proof. exact reroot_midpoint_preserves. Qed.
Print Assumptions C05_midpoint_preserves.

(** MaxLengthPath always ends at a leaf *)
Theorem C05_mlp_leaf :
  forall s p l, mlp s = Some (p, l) ->
    (kids s = [] /\ p = []) \/
    (kids s <> [] /\ p <> [] /\ exists b, node_at s p = Some b /\ kids b = []).
Proof. exact mlp_leaf. Qed.
Print Assumptions C05_mlp_leaf.

(** max_length_path_spec: the value returned by MaxLengthPath is the sum of the branch lengths
    along the returned path, and no leaf is deeper *)
Theorem C05_mlp_spec :
  forall s p l, mlp s = Some (p, l) ->
    (l == qsum (map elen (path_edges s p)))%Q /\
    Forall (fun x => (snd x <= l)%Q) (depths elen s).
Proof. exact mlp_spec. Qed.
Print Assumptions C05_mlp_spec.

(** (iv) the root lies halfway along a longest tip-to-tip path: there are two tips a, b whose
    distance d is the largest of all tip-to-tip distances of the input tree, both at depth d/2
    below the new root *)
Theorem C05_midpoint_halfway :
  forall t t',
    wf t = true -> 2 <= degree t -> (rooted t = true -> root_has_inner_child t = true) ->
    (rooted t = true -> forall p, In p (kids t) -> (0 <= elen (fst p))%Q) ->
    NoDup (leaves t) ->
    reroot_midpoint t = Ok t' ->
    exists a b d da db,
      In (a, b, d) (pairdists elen t) /\
      (forall x, In x (pairdists elen t) -> (snd x <= d)%Q) /\ (0 < d)%Q /\
      In (a, da) (depths elen t') /\ In (b, db) (depths elen t') /\
      (da == d * (1 # 2))%Q /\ (db == d * (1 # 2))%Q.
Proof. exact reroot_midpoint_halfway. Qed.
Print Assumptions C05_midpoint_halfway.

(** the inputs of the two midpoint defects repaired in /repo (zero-length tail of the longest
    path; all branches of length 0): root halfway, path lengths kept; clean refusal *)
Example C05_example_midpoint :
  (exists t', reroot_midpoint mp_w1 = Ok t' /\ halfway mp_w1 t' /\
              matrix_eqb (dist_matrix len0 t') (dist_matrix len0 mp_w1) = true) /\
  (exists t', reroot_midpoint mp_w2 = Ok t' /\ halfway mp_w2 t' /\
              matrix_eqb (dist_matrix len0 t') (dist_matrix len0 mp_w2) = true) /\
  reroot_midpoint mp_w3 = Err "cannot reroot at midpoint: all tip to tip paths have a null length"%string.
Proof. exact midpoint_examples. Qed.
Print Assumptions C05_example_midpoint.

(** * the hypotheses are satisfiable and the functions act *)
Example C05_example_outgroup :
  wf og_w1 = true /\ 2 <= degree og_w1 /\ rooted og_w1 = false /\ NoDup (leaves og_w1) /\
  (exists t', reroot_outgroup false true og_w1 ["a"; "b"]%string = Ok t' /\ utree_eqb t' og_w1 = false /\
              Forall (fun p => (elen (fst p) == 1)%Q /\ (esup (fst p) == 4 # 5)%Q) (kids t')) /\
  (exists t', reroot_outgroup true true og_w1 ["a"; "b"]%string = Ok t' /\ leaves t' = ["c"; "d"]%string) /\
  (exists m, reroot_outgroup false true og_w1 ["a"; "c"]%string = Err m) /\
  (exists t', reroot_outgroup false false og_w1 ["a"; "c"]%string = Ok t') /\
  (exists m, reroot_outgroup false false og_w1 ["zz"]%string = Err m) /\
  (exists t', reroot_midpoint og_w1 = Ok t' /\ halfway og_w1 t').
Proof. exact outgroup_example. Qed.
Print Assumptions C05_example_outgroup.

(** * (f) split-level statements for the two rootings, in the format of C05_reroot_usplits:
    looking up any bipartition [k] in [usplits] (same-bipartition branches merged, so the two
    root branches count as one branch whose length is the sum) gives the same split: same length,
    same support, same tip flag, up to Qeq.  [good_len]: the length is absent or >= 0. *)

(** the general step: a new root in the middle of a branch, then re-rooting on it *)
Theorem C05_cut_and_root_usplits :
  forall t2 pp k cf eP eC P e ch t4,
    wf t2 = true -> 2 <= degree t2 -> NoDup (leaves t2) ->
    node_at t2 pp = Some P -> nth_error (uslots P) k = Some (Some (e, ch)) ->
    (merge_len (elen eP) (elen eC) == elen e)%Q -> (qmax (esup eP) (esup eC) == esup e)%Q ->
    cut_and_root t2 pp k cf eP eC = Some t4 ->
    forall key, orel split_qeq (find_split key (usplits t4)) (find_split key (usplits t2)).
Proof. exact cut_and_root_usplits. Qed.
Print Assumptions C05_cut_and_root_usplits.

(** rooting on an outgroup without removal: every split of the unrooted tree is kept with its
    length (the cut branch = its two halves merged) and its support (the cut branch included) *)
Theorem C05_outgroup_usplits :
  forall strict t names t',
    wf t = true -> 2 <= degree t -> (rooted t = true -> root_has_inner_child t = true) ->
    NoDup (leaves t) ->
    (forall x, In x (bsplits (unroot t)) -> good_len (fst (fst x))) ->
    reroot_outgroup false strict t names = Ok t' ->
    forall k, orel split_qeq (find_split k (usplits t')) (find_split k (usplits (unroot t))).
Proof. exact outgroup_usplits. Qed.
Print Assumptions C05_outgroup_usplits.

(** the same against the input tree itself (a rooted input is first unrooted, which recomputes
    the support of the merged root branch: lengths only, as in C05_unroot_usplits) *)
Theorem C05_outgroup_usplits_input :
  forall strict t names t',
    wf t = true -> 2 <= degree t -> (rooted t = true -> root_has_inner_child t = true) ->
    NoDup (leaves t) ->
    (forall x, In x (bsplits (unroot t)) -> good_len (fst (fst x))) ->
    reroot_outgroup false strict t names = Ok t' ->
    forall k, orel split_weq (find_split k (usplits t')) (find_split k (usplits t)).
Proof. exact outgroup_usplits_input. Qed.
Print Assumptions C05_outgroup_usplits_input.

(** midpoint rooting (every branch with a length >= 0) *)
Theorem C05_midpoint_usplits :
  forall t t',
    wf t = true -> 2 <= degree t -> (rooted t = true -> root_has_inner_child t = true) ->
    NoDup (leaves t) ->
    (forall x, In x (bsplits (unroot t)) -> (0 <= elen (fst (fst x)))%Q) ->
    reroot_midpoint t = Ok t' ->
    forall k, orel split_qeq (find_split k (usplits t')) (find_split k (usplits (unroot t))).
Proof. exact midpoint_usplits. Qed.
Print Assumptions C05_midpoint_usplits.

Theorem C05_midpoint_usplits_input :
  forall t t',
    wf t = true -> 2 <= degree t -> (rooted t = true -> root_has_inner_child t = true) ->
    NoDup (leaves t) ->
    (forall x, In x (bsplits (unroot t)) -> (0 <= elen (fst (fst x)))%Q) ->
    reroot_midpoint t = Ok t' ->
    forall k, orel split_weq (find_split k (usplits t')) (find_split k (usplits t)).
Proof. exact midpoint_usplits_input. Qed.
Print Assumptions C05_midpoint_usplits_input.

(** * (g) the two refusals of midpoint rooting *)
Theorem C05_midpoint_missing_length :
  forall t,
    wf t = true -> 2 <= degree t -> (rooted t = true -> root_has_inner_child t = true) ->
    (exists x, In x (bsplits (unroot t)) /\ is_nil_len x = true) ->
    reroot_midpoint t = Err "some branches have no length"%string.
Proof. exact reroot_midpoint_missing_length. Qed.
Print Assumptions C05_midpoint_missing_length.

Theorem C05_midpoint_all_zero :
  forall t,
    wf t = true -> 2 <= degree t -> (rooted t = true -> root_has_inner_child t = true) ->
    (forall x, In x (bsplits (unroot t)) -> (elen (fst (fst x)) == 0)%Q) ->
    reroot_midpoint t = Err "cannot reroot at midpoint: all tip to tip paths have a null length"%string.
Proof. exact reroot_midpoint_all_zero. Qed.
Print Assumptions C05_midpoint_all_zero.

(** * (h) ties between longest paths: the first in scan order wins *)

(** MaxLengthPath takes the FIRST neighbour (smallest index in neigh[]) with the largest value
    (branch length + longest path behind it) *)
Theorem C05_mlp_first :
  forall n c sl j p l,
    mlp (UNode n c sl) = Some (j :: p, l) ->
    slot_value mlp sl j l /\
    (exists e ch l', nth_error sl j = Some (Some (e, ch)) /\ mlp ch = Some (p, l')) /\
    (forall j' v, j' < j -> slot_value mlp sl j' v -> (v < l)%Q) /\
    (forall j' v, j < j' -> slot_value mlp sl j' v -> (v <= l)%Q).
Proof. exact mlp_first. Qed.
Print Assumptions C05_mlp_first.

(** RerootMidPoint starts from the FIRST tip, in the order of Tree.Tips(), whose longest path
    has the largest length ([ecc t1 pn l]: the longest path from the tip [pn] has length [l]) *)
Theorem C05_midpoint_first_tip :
  forall t t',
    2 <= degree (unroot t) ->
    reroot_midpoint t = Ok t' ->
    let t1 := unroot t in
    exists d1 q lf d2 v pA cur ea,
      tip_paths t1 = d1 ++ (q, lf) :: d2 /\
      view_from t1 q = Some v /\ mlp_tip v = Some (Some pA, cur) /\
      (forall pn l, In pn d1 -> ecc t1 pn l -> (l < cur)%Q) /\
      (forall pn l, In pn d2 -> ecc t1 pn l -> (l <= cur)%Q) /\
      edge_at (tv_tree v) (tv_slot v) = Some ea /\ mp_result v pA cur ea = Some t'.
Proof. exact reroot_midpoint_first_tip. Qed.
Print Assumptions C05_midpoint_first_tip.

(** * (i) the oracle accepts the model: the boolean check [same_tree_obs] of Judge/Common.v (the
    whole oracle of the operations reroot / unroot / rotate / sort, and the generic part of the
    oracle of outgroup / midpoint: well-formed, same sorted tips, [splits_eq same_len] on
    [usplits], [matrix_eqb] on [dist_matrix len0]) finds nothing to complain about in the results
    of the model, for all well-formed trees with distinct tip names *)

(** the keys of [usplits] are pairwise distinct *)
Theorem C05_usplits_keys_nodup : forall t, NoDup (map sside (usplits t)).
Proof. exact usplits_keys_nodup. Qed.
Print Assumptions C05_usplits_keys_nodup.

(** from the Prop-level statements (leaves, split look-ups, distance multiset) to the boolean *)
Theorem C05_same_tree_obs_accepts :
  forall t g,
    wf g = true -> NoDup (leaves t) -> Permutation (leaves g) (leaves t) ->
    (forall k, orel split_weq (find_split k (usplits g)) (find_split k (usplits t))) ->
    dists_equiv (pairdists len0 g) (pairdists len0 t) ->
    same_tree_obs t g = None.
Proof. exact same_tree_obs_accepts. Qed.
Print Assumptions C05_same_tree_obs_accepts.

Theorem C05_oracle_accepts_reroot :
  forall t i t',
    wf t = true -> 2 <= degree t -> NoDup (leaves t) -> reroot t i = Ok t' ->
    same_tree_obs t t' = None.
Proof. exact oracle_accepts_reroot. Qed.
Print Assumptions C05_oracle_accepts_reroot.

Theorem C05_oracle_accepts_unroot :
  forall t,
    wf t = true -> (rooted t = true -> root_has_inner_child t = true) -> NoDup (leaves t) ->
    same_tree_obs t (unroot t) = None.
Proof. exact oracle_accepts_unroot. Qed.
Print Assumptions C05_oracle_accepts_unroot.

Theorem C05_oracle_accepts_rotate :
  forall t cs, wf t = true -> NoDup (leaves t) -> same_tree_obs t (fst (rotate_all t cs)) = None.
Proof. exact oracle_accepts_rotate. Qed.
Print Assumptions C05_oracle_accepts_rotate.

Theorem C05_oracle_accepts_sort :
  forall t, wf t = true -> NoDup (leaves t) -> same_tree_obs t (sort_by_tips t) = None.
Proof. exact oracle_accepts_sort. Qed.
Print Assumptions C05_oracle_accepts_sort.

Theorem C05_oracle_accepts_outgroup :
  forall strict t names t',
    wf t = true -> 2 <= degree t -> (rooted t = true -> root_has_inner_child t = true) ->
    NoDup (leaves t) ->
    (forall x, In x (bsplits (unroot t)) -> good_len (fst (fst x))) ->
    reroot_outgroup false strict t names = Ok t' ->
    same_tree_obs t t' = None.
Proof. exact oracle_accepts_outgroup. Qed.
Print Assumptions C05_oracle_accepts_outgroup.

(** midpoint: also the path lengths with absent-as-0 weights, every branch having a length >= 0 *)
Theorem C05_midpoint_len0 :
  forall t t',
    wf t = true -> 2 <= degree t -> (rooted t = true -> root_has_inner_child t = true) ->
    NoDup (leaves t) ->
    (forall x, In x (bsplits (unroot t)) -> (0 <= elen (fst (fst x)))%Q) ->
    reroot_midpoint t = Ok t' ->
    dists_equiv (pairdists len0 t') (pairdists len0 t).
Proof. exact midpoint_len0. Qed.
Print Assumptions C05_midpoint_len0.

Theorem C05_oracle_accepts_midpoint :
  forall t t',
    wf t = true -> 2 <= degree t -> (rooted t = true -> root_has_inner_child t = true) ->
    NoDup (leaves t) ->
    (forall x, In x (bsplits (unroot t)) -> (0 <= elen (fst (fst x)))%Q) ->
    reroot_midpoint t = Ok t' ->
    same_tree_obs t t' = None.
Proof. exact oracle_accepts_midpoint. Qed.
Print Assumptions C05_oracle_accepts_midpoint.

(** * (j) rooting on an outgroup with removal, branch by branch: the splits of the result are the
    restrictions of the splits of the (unrooted) input.
    [a_side L x S]: S is one of the two sides of the branch x of a tree with leaves L;
    [minus Rm S S']: S' is S without the removed leaves Rm (S ≡ S' or S ≡ S' ++ Rm);
    [restr_of L L' Rm x z]: same branch data and tip flag, and a side of z (in the result, leaves
    L') is a side of x (in the input, leaves L) minus Rm;
    [drop_ok L Rm d]: one side of the branch d lies inside the removed leaves.
    [Rm] is exactly the outgroup in strict mode or when it is one side of a split
    (C05_outgroup_remove). *)
Theorem C05_outgroup_remove_splits :
  forall strict t names t',
    wf t = true -> 2 <= degree t -> (rooted t = true -> root_has_inner_child t = true) ->
    NoDup (leaves t) ->
    reroot_outgroup true strict t names = Ok t' ->
    let G := group (unroot t) names in
    let L1 := leaves (unroot t) in
    exists Rm dropped kept kept',
      Permutation L1 (leaves t' ++ Rm) /\ incl G Rm /\
      Permutation (bsplits (unroot t)) (dropped ++ kept) /\ Permutation (bsplits t') kept' /\
      Forall (drop_ok L1 Rm) dropped /\
      Forall2 (restr_of L1 (leaves t') Rm) kept kept'.
Proof. exact reroot_outgroup_remove_splits. Qed.
Print Assumptions C05_outgroup_remove_splits.

(** * (k) the domain has no hole: a well-formed tree whose root has at least two neighbours
    either satisfies the hypothesis [rooted t -> root_has_inner_child t] of the theorems above, or
    is the rooted two-tip tree (a:x,b:y), on which the two functions do this: *)
Theorem C05_domain_cases :
  forall t, wf t = true -> 2 <= degree t ->
    (rooted t = true -> root_has_inner_child t = true) \/ two_tip t.
Proof. exact domain_cases. Qed.
Print Assumptions C05_domain_cases.

(** RerootOutGroup refuses it (fewer than 3 tips) *)
Theorem C05_outgroup_two_tip :
  forall remove strict t names, two_tip t ->
    reroot_outgroup remove strict t names = Err "cannot reroot on an outgroup a tree with less than 3 tips"%string.
Proof. exact outgroup_two_tip. Qed.
Print Assumptions C05_outgroup_two_tip.

(** RerootMidPoint gives (a:l/2,b:l/2) with l = x + y, or one of its two refusals *)
Theorem C05_midpoint_two_tip :
  forall n0 c0 e1 n1 c1 e2 n2 c2,
    let t := UNode n0 c0 [Some (e1, UNode n1 c1 [None]); Some (e2, UNode n2 c2 [None])] in
    let l := merge_len (elen e1) (elen e2) in
    let cut := (l - qhalf l)%Q in
    reroot_midpoint t =
    if qeqb l nilv then Err "some branches have no length"%string
    else if qltb 0 l
         then Ok (UNode "" [] [Some (mkE (l - cut)%Q nilv nilv [], UNode n1 c1 [None]);
                               Some (mkE cut nilv nilv [], UNode n2 c2 [None])])
         else Err "cannot reroot at midpoint: all tip to tip paths have a null length"%string.
Proof. exact midpoint_two_tip. Qed.
Print Assumptions C05_midpoint_two_tip.

Theorem C05_midpoint_two_tip_ok :
  forall n0 c0 e1 n1 c1 e2 n2 c2 t',
    let t := UNode n0 c0 [Some (e1, UNode n1 c1 [None]); Some (e2, UNode n2 c2 [None])] in
    let l := merge_len (elen e1) (elen e2) in
    reroot_midpoint t = Ok t' ->
    (0 < l)%Q /\
    exists ea eb, t' = UNode "" [] [Some (ea, UNode n1 c1 [None]); Some (eb, UNode n2 c2 [None])] /\
                  (elen ea == l * (1 # 2))%Q /\ (elen eb == l * (1 # 2))%Q /\
                  wf t' = true /\ leaves t' = leaves t /\
                  (len0 ea + len0 eb == len0 e1 + len0 e2)%Q.
Proof. exact midpoint_two_tip_ok. Qed.
Print Assumptions C05_midpoint_two_tip_ok.

(** * (l) negative lengths other than the "absent" code -1 are outside the property ("trees with
    branch lengths"): a separating branch of length -2 is cut into two halves of length -1, which
    read as absent, so its split keeps no length -- the reason for [good_len] in (f) *)
Theorem C05_outgroup_negative_length_refuted :
  exists t names t' k,
    wf t = true /\ 3 <= degree t /\ rooted t = false /\ NoDup (leaves t) /\
    (exists x, In x (bsplits t) /\ ~ good_len (fst (fst x))) /\
    reroot_outgroup false true t names = Ok t' /\
    ~ orel split_weq (find_split k (usplits t')) (find_split k (usplits (unroot t))).
Proof. exact outgroup_negative_length_refuted. Qed.
Print Assumptions C05_outgroup_negative_length_refuted.

(** * (m) the WHOLE oracle of Judge/C05.v accepts the model, for all six operations.
    Trees: well-formed, root with >= 2 neighbours, distinct tip names; for outgroup also no empty
    tip name (the judge takes the requested names that are tips, the code ignores an empty name);
    where the oracle looks at lengths / supports: every branch with a length >= 0, supports of the
    two root branches absent or >= 0.  The index clause ([index_ok_data]: tip-name index = tip set,
    ids = ranks, bitsets of that width) is evaluated on [tables_obs t'], the observation of the
    tables that ReinitIndexes computes on the result (C04: [index_tables]). *)

(** the index clause accepts the tables of any good tree *)
Theorem C05_index_ok_tables :
  forall t', good t' ->
    let '(idx, st, bs) := tables_obs t' in index_ok_data t' idx st bs = None.
Proof. exact index_ok_tables. Qed.
Print Assumptions C05_index_ok_tables.

(** the boolean test "one side of a split" of the judge is the statement used by the theorems *)
Theorem C05_is_side_side_of :
  forall t G, NoDup (leaves t) -> NoDup G -> incl G (leaves t) ->
    is_side t (sset G) = true -> side_of t G.
Proof. exact is_side_side_of. Qed.
Print Assumptions C05_is_side_side_of.

Theorem C05_side_of_is_side :
  forall t G, NoDup (leaves t) -> side_of t G -> G <> [] -> incl G (leaves t) ->
    (exists x, In x (leaves t) /\ ~ In x G) -> is_side t (sset G) = true.
Proof. exact side_of_is_side. Qed.
Print Assumptions C05_side_of_is_side.

(** UnRoot keeps the supports of the internal splits (root-branch supports absent or >= 0) *)
Theorem C05_unroot_usplits_sup :
  forall t,
    wf t = true -> rooted t = true -> root_has_inner_child t = true -> NoDup (leaves t) ->
    (forall p, In p (kids t) -> good_sup (fst p)) ->
    forall k, orel (split_seq (length (tipset t))) (find_split k (usplits (unroot t))) (find_split k (usplits t)).
Proof. exact unroot_usplits_sup. Qed.
Print Assumptions C05_unroot_usplits_sup.

Theorem C05_oracle_reroot_accepts :
  forall t i t',
    wf t = true -> 2 <= degree t -> NoDup (leaves t) -> reroot t i = Ok t' ->
    same_tree_obs t t' = None /\
    (let '(idx, st, bs) := tables_obs t' in index_ok_data t' idx st bs = None).
Proof. exact oracle_reroot_accepts. Qed.
Print Assumptions C05_oracle_reroot_accepts.

Theorem C05_oracle_unroot_accepts :
  forall t,
    wf t = true -> 2 <= degree t -> (rooted t = true -> root_has_inner_child t = true) -> NoDup (leaves t) ->
    same_tree_obs t (unroot t) = None /\
    (let '(idx, st, bs) := tables_obs (unroot t) in index_ok_data (unroot t) idx st bs = None).
Proof. exact oracle_unroot_accepts. Qed.
Print Assumptions C05_oracle_unroot_accepts.

Theorem C05_oracle_outgroup_accepts :
  forall strict t names t',
    wf t = true -> 2 <= degree t -> (rooted t = true -> root_has_inner_child t = true) ->
    NoDup (leaves t) -> ~ In ""%string (leaves t) ->
    (forall x, In x (bsplits t) -> (0 <= elen (fst (fst x)))%Q) ->
    (forall p, In p (kids t) -> good_sup (fst p)) ->
    reroot_outgroup false strict t names = Ok t' ->
    oracle_outgroup_ok false strict t t' names = None /\
    (let '(idx, st, bs) := tables_obs t' in index_ok_data t' idx st bs = None).
Proof. exact oracle_outgroup_accepts. Qed.
Print Assumptions C05_oracle_outgroup_accepts.

Theorem C05_oracle_outgroup_remove_accepts :
  forall strict t names t',
    wf t = true -> 2 <= degree t -> (rooted t = true -> root_has_inner_child t = true) ->
    NoDup (leaves t) -> ~ In ""%string (leaves t) ->
    reroot_outgroup true strict t names = Ok t' ->
    oracle_outgroup_ok true strict t t' names = None /\
    (let '(idx, st, bs) := tables_obs t' in index_ok_data t' idx st bs = None).
Proof. exact oracle_outgroup_remove_accepts. Qed.
Print Assumptions C05_oracle_outgroup_remove_accepts.

Theorem C05_oracle_midpoint_accepts :
  forall t t',
    wf t = true -> 2 <= degree t -> (rooted t = true -> root_has_inner_child t = true) ->
    NoDup (leaves t) ->
    (forall x, In x (bsplits t) -> (0 <= elen (fst (fst x)))%Q) ->
    (forall p, In p (kids t) -> good_sup (fst p)) ->
    reroot_midpoint t = Ok t' ->
    oracle_midpoint_ok t t' = None /\
    (let '(idx, st, bs) := tables_obs t' in index_ok_data t' idx st bs = None).
Proof. exact oracle_midpoint_accepts. Qed.
Print Assumptions C05_oracle_midpoint_accepts.
