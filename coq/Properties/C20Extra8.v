(** C20, round 8: the clause "in particular every input element has a non-zero chance of being
    selected", and the exact inclusion probability k/n of every item, for ALL input sizes n and
    sample sizes k, about the loops of cmd/sample.go (with and without --replace) and
    cmd/prune.go randomTips as modelled in Model/Sampling.v (index rand.Intn(i+1), [code_bound]).
    "probability" = count_where event (all_choices bounds) / length (all_choices bounds), as in
    Properties/C20.v.  Proofs in Proofs/C20Extra8.v. *)
From Coq Require Import String Bool Arith List.
From GT Require Import Base.UTree Model.Reroot Model.Rand Model.Sampling Spec.Counting
     Proofs.SamplingRes Proofs.SamplingRepl Proofs.C20Extra8.
Import ListNotations.

(** * without replacement (gotree sample, gotree prune --random): item x of 0..n-1 is in the
    selection for exactly the fraction k/n of the equally likely choice vectors *)
Theorem C20_noreplace_inclusion_exact :
  forall n k x, k <= n -> x < n ->
    count_where (fun cs => selected x (sample_noreplace k (seq 0 n) cs))
                (all_choices (reservoir_bounds code_bound k n)) * n
    = k * length (all_choices (reservoir_bounds code_bound k n)).
Proof. exact noreplace_inclusion_exact. Qed.
Print Assumptions C20_noreplace_inclusion_exact.

(** all sample sizes at once, k < n, k = n, k > n (and k = 0): inclusion probability min(k,n)/n *)
Theorem C20_noreplace_inclusion_all_sizes :
  forall n k x, x < n ->
    count_where (fun cs => selected x (sample_noreplace k (seq 0 n) cs))
                (all_choices (reservoir_bounds code_bound k n)) * n
    = Nat.min k n * length (all_choices (reservoir_bounds code_bound k n)).
Proof. exact noreplace_inclusion_all_sizes. Qed.
Print Assumptions C20_noreplace_inclusion_all_sizes.

(** hence at least (n-k)! > 0 of them select it (no unselectable first element, no position
    that is always or never taken) *)
Theorem C20_noreplace_item_selectable :
  forall n k x, 1 <= k -> k <= n -> x < n ->
    fact (n - k) <= count_where (fun cs => selected x (sample_noreplace k (seq 0 n) cs))
                                (all_choices (reservoir_bounds code_bound k n)).
Proof. exact noreplace_item_selectable. Qed.
Print Assumptions C20_noreplace_item_selectable.

Theorem C20_noreplace_item_witness :
  forall n k x, 1 <= k -> k <= n -> x < n ->
    exists cs out, in_bounds cs (reservoir_bounds code_bound k n) /\
                   sample_noreplace k (seq 0 n) cs = Some out /\ In (Some x) out.
Proof. exact noreplace_item_witness. Qed.
Print Assumptions C20_noreplace_item_witness.

(** every element belongs to some k-subset (used to transfer the subset-uniformity theorem) *)
Theorem C20_subsets_cover :
  forall l k x, In x l -> 1 <= k -> k <= length l -> exists s, In s (subsets k l) /\ In x s.
Proof. exact subsets_cover. Qed.
Print Assumptions C20_subsets_cover.

(** * the same on the items themselves: any duplicate-free list of names (tree files, tip names) *)
Theorem C20_names_inclusion_exact :
  forall (names : list string) k i,
    NoDup names -> k <= length names -> i < length names ->
    count_where (fun cs => selected_name (nth i names EmptyString) (reservoir code_bound k names cs))
                (all_choices (reservoir_bounds code_bound k (length names))) * length names
    = k * length (all_choices (reservoir_bounds code_bound k (length names))).
Proof. exact names_inclusion_exact. Qed.
Print Assumptions C20_names_inclusion_exact.

(** prune --random k on a tree: every tip is drawn with probability k/n (kept with -r, removed
    otherwise) *)
Theorem C20_random_tips_inclusion_exact :
  forall k t i,
    NoDup (tip_names t) -> k <= length (tip_names t) -> i < length (tip_names t) ->
    count_where (fun cs => selected_name (nth i (tip_names t) EmptyString) (random_tips k t cs))
                (all_choices (reservoir_bounds code_bound k (length (tip_names t)))) * length (tip_names t)
    = k * length (all_choices (reservoir_bounds code_bound k (length (tip_names t)))).
Proof. exact random_tips_inclusion_exact. Qed.
Print Assumptions C20_random_tips_inclusion_exact.

(** * with replacement: every item can fill all the k slots at once (so each slot, and any k) *)
Theorem C20_replace_item_selectable :
  forall n k x, x < n ->
    0 < count_where (fun cs => out_is (repeat x k) (sample_replace k (seq 0 n) cs))
                    (all_choices (replace_bounds k n)).
Proof. exact replace_item_selectable. Qed.
Print Assumptions C20_replace_item_selectable.

(** each slot alone is uniform: slot j holds item x for exactly 1/n of the choice vectors (any k, j, n) *)
Theorem C20_replace_slot_marginal :
  forall n k j x, j < k -> x < n ->
    count_where (fun cs => slot_is j x (sample_replace k (seq 0 n) cs)) (all_choices (replace_bounds k n)) * n
    = length (all_choices (replace_bounds k n)).
Proof. exact replace_slot_marginal. Qed.
Print Assumptions C20_replace_slot_marginal.

(** independence in product form: for EVERY partial specification [t] of the k slots ([None] = any
    content, [Some x] = item x) the number of choice vectors is the product of the per-slot
    numbers (n! for an unconstrained slot, (n-1)! for a constrained one) *)
Theorem C20_replace_pattern_product :
  forall k n t, length t = k -> Forall (ovalid n) t ->
    count_where (fun cs => omatch_o t (sample_replace k (seq 0 n) cs)) (all_choices (replace_bounds k n))
    = prod (map (wgt n) t).
Proof. exact replace_pattern_count. Qed.
Print Assumptions C20_replace_pattern_product.

(** * the hypotheses are satisfiable, instances computed *)
Example C20_example_slot_marginal :
  count_where (fun cs => slot_is 1 2 (sample_replace 2 (seq 0 3) cs)) (all_choices (replace_bounds 2 3)) = 12 /\
  length (all_choices (replace_bounds 2 3)) = 36 /\
  count_where (fun cs => omatch_o [None; Some 2] (sample_replace 2 (seq 0 3) cs)) (all_choices (replace_bounds 2 3))
  = prod (map (wgt 3) [None; Some 2]).
Proof. vm_compute. repeat split. Qed.
Print Assumptions C20_example_slot_marginal.

Example C20_example_inclusion :
  2 <= 5 /\ 0 < 5 /\
  count_where (fun cs => selected 0 (sample_noreplace 2 (seq 0 5) cs))
              (all_choices (reservoir_bounds code_bound 2 5)) = 24 /\
  count_where (fun cs => selected 4 (sample_noreplace 2 (seq 0 5) cs))
              (all_choices (reservoir_bounds code_bound 2 5)) = 24 /\
  length (all_choices (reservoir_bounds code_bound 2 5)) = 60.
Proof. vm_compute. repeat split; repeat constructor. Qed.
Print Assumptions C20_example_inclusion.

Example C20_example_random_tips_inclusion :
  let t := UNode EmptyString [] [Some (e0, UNode "a" [] [None]); Some (e0, UNode "b" [] [None]);
                                 Some (e0, UNode "c" [] [None]); Some (e0, UNode "d" [] [None])]%string in
  nth 3 (tip_names t) EmptyString = "d"%string /\
  count_where (fun cs => selected_name "d" (random_tips 2 t cs))
              (all_choices (reservoir_bounds code_bound 2 (length (tip_names t)))) = 6 /\
  count_where (fun cs => selected_name "a" (random_tips 2 t cs))
              (all_choices (reservoir_bounds code_bound 2 (length (tip_names t)))) = 6 /\
  length (all_choices (reservoir_bounds code_bound 2 (length (tip_names t)))) = 12.
Proof. vm_compute. repeat split. Qed.
Print Assumptions C20_example_random_tips_inclusion.

Example C20_example_replace_item :
  count_where (fun cs => out_is (repeat 2 2) (sample_replace 2 (seq 0 3) cs))
              (all_choices (replace_bounds 2 3)) = 4.
Proof. vm_compute. reflexivity. Qed.
Print Assumptions C20_example_replace_item.
