(** C14, round 8 additions (proofs in Proofs/C14Extra8.v):
    - the average over "collections of trees on the same taxa", whatever the order in which each
      tree lists its tips (the quantifier of the property), and failure exactly otherwise;
    - the matrix does not depend on the rooting nor on the order of the neighbour lists;
    - the cut compares the STORED length (-1 when absent) with the threshold: what follows for
      absent lengths and thresholds <= 0.
    [shaped t]: well-formed with at least two neighbours at the root (the tips of the code are
    the leaves); [sum_named m ts a b]: sum over the trees of the cell of tips [a] and [b];
    [all_edges P t]: every branch of [t] satisfies [P]. *)
From Coq Require Import String ZArith QArith Bool Arith List Permutation.
From GT Require Import Base.UTree Spec.Obs Model.Reroot Spec.Unrooted Model.Matrix
     Proofs.MatrixMain Spec.Cut Proofs.C05Main Model.C14Extra8 Proofs.C14Extra8.
Import ListNotations.
Local Close Scope Q_scope.

(** * average *)
Theorem C14_name_order_independent_of_tip_order :
  forall l l', Permutation l l' -> name_sort l = name_sort l'.
Proof. exact name_sort_perm_eq. Qed.
Print Assumptions C14_name_order_independent_of_tip_order.

Theorem C14_average_same_taxa_any_order :
  forall m t r,
    Forall shaped (t :: r) ->
    Forall (fun t' => Permutation (leaves t') (leaves t)) r ->
    exists M, avg_matrix m (t :: r) = Ok (name_sort (leaves t), M) /\
      forall i j, i < length (leaves t) -> j < length (leaves t) ->
        (mcell M i j ==
         sum_named m (t :: r) (nth i (name_sort (leaves t)) ""%string) (nth j (name_sort (leaves t)) ""%string)
         / inject_Z (Z.of_nat (length (t :: r))))%Q.
Proof. exact avg_same_taxa. Qed.
Print Assumptions C14_average_same_taxa_any_order.

Theorem C14_average_defined_iff_same_taxa :
  forall m t r,
    Forall shaped (t :: r) ->
    ((exists nms M, avg_matrix m (t :: r) = Ok (nms, M)) <->
     Forall (fun t' => Permutation (leaves t') (leaves t)) r).
Proof. exact avg_defined_iff_same_taxa. Qed.
Print Assumptions C14_average_defined_iff_same_taxa.

Theorem C14_average_fails_on_other_taxa :
  forall m t r t',
    Forall shaped (t :: r) -> In t' r -> ~ Permutation (leaves t') (leaves t) ->
    exists e, avg_matrix m (t :: r) = Err e.
Proof. exact avg_fails_on_other_taxa. Qed.
Print Assumptions C14_average_fails_on_other_taxa.

Example C14_example_average_tip_orders :
  Forall shaped [c14_tree; c14_tree_c] /\
  leaves c14_tree = ["a"; "b"; "c"; "d"]%string /\ leaves c14_tree_c = ["d"; "a"; "b"; "c"]%string /\
  match avg_matrix MBrlen [c14_tree; c14_tree_c] with
  | Ok (nms, M) => list_eqb String.eqb nms ["a"; "b"; "c"; "d"]%string &&
                   qmat_eqb M [[0; 3; 11#2; 3]; [3; 0; 11#2; 4]; [11#2; 11#2; 0; 7#2]; [3; 4; 7#2; 0]]%Q
  | Err _ => false
  end = true.
Proof. exact avg_example_orders. Qed.
Print Assumptions C14_example_average_tip_orders.

Example C14_example_average_other_taxa_fails :
  shaped c14_tree_3 /\
  avg_matrix MBrlen [c14_tree; c14_tree_3] = Err "index out of range"%string /\
  avg_matrix MBrlen [c14_tree_3; c14_tree] = Err "index out of range"%string.
Proof. exact avg_example_fails. Qed.
Print Assumptions C14_example_average_other_taxa_fails.

(** how the call fails on other taxa: [avg_matrix_x] (Model/C14Extra8.v) mirrors the two loops of
    AvgDistanceMatrix index by index: an error when a name differs at a position both trees
    have, an index out of range (a crash of the program: [APanic]) when a later tree has fewer
    tips all equal to the first ones, or more tips.  It agrees with [avg_matrix] on every
    success and fails when it fails; on the same taxa it succeeds. *)
Theorem C14_average_exact_model_agrees :
  forall m t r,
    fst (to_matrix m t) <> [] ->
    match avg_matrix_x m (t :: r) with
    | AOk x => avg_matrix m (t :: r) = Ok x
    | AErr _ | APanic => exists e, avg_matrix m (t :: r) = Err e
    end.
Proof. exact avg_matrix_x_agrees. Qed.
Print Assumptions C14_average_exact_model_agrees.

Theorem C14_average_no_crash_on_same_taxa :
  forall m t r,
    Forall shaped (t :: r) -> Forall (fun t' => Permutation (leaves t') (leaves t)) r ->
    exists M, avg_matrix_x m (t :: r) = AOk (name_sort (leaves t), M).
Proof. exact avg_x_same_taxa. Qed.
Print Assumptions C14_average_no_crash_on_same_taxa.

Example C14_example_average_crashes_on_other_taxa :
  avg_matrix_x MBrlen [c14_tree; c14_tree_3] = APanic /\
  avg_matrix_x MBrlen [c14_tree_3; c14_tree] = APanic /\
  avg_matrix_x MBrlen [c14_tree; c14_tree_abx] = AErr "trees do not have the same sets of tip names"%string.
Proof. exact avg_x_example. Qed.
Print Assumptions C14_example_average_crashes_on_other_taxa.

(** * invariance of the matrix *)
Theorem C14_matrix_invariant_under_reroot :
  forall m t i t',
    good t -> reroot t i = Ok t' ->
    fst (to_matrix m t') = fst (to_matrix m t) /\
    Forall2 (Forall2 Qeq) (snd (to_matrix m t')) (snd (to_matrix m t)) /\
    forall a b, (cell m t' a b == cell m t a b)%Q.
Proof. exact matrix_reroot. Qed.
Print Assumptions C14_matrix_invariant_under_reroot.

Theorem C14_matrix_invariant_under_neighbour_order :
  forall m t t',
    good t -> tperm t t' ->
    fst (to_matrix m t') = fst (to_matrix m t) /\
    Forall2 (Forall2 Qeq) (snd (to_matrix m t')) (snd (to_matrix m t)) /\
    forall a b, (cell m t' a b == cell m t a b)%Q.
Proof. exact matrix_tperm. Qed.
Print Assumptions C14_matrix_invariant_under_neighbour_order.

(** any two descriptions of the same unrooted weighted tree (same path sums) *)
Theorem C14_matrix_determined_by_path_sums :
  forall m t t',
    good t -> wf t' = true -> 2 <= degree t' -> Permutation (leaves t') (leaves t) ->
    (forall w, dists_equiv (pairdists w t') (pairdists w t)) ->
    fst (to_matrix m t') = fst (to_matrix m t) /\
    Forall2 (Forall2 Qeq) (snd (to_matrix m t')) (snd (to_matrix m t)) /\
    forall a b, (cell m t' a b == cell m t a b)%Q.
Proof. exact matrix_invariant. Qed.
Print Assumptions C14_matrix_determined_by_path_sums.

Example C14_example_reorder :
  good c14_tree /\ fst (to_matrix MBrlen c14_tree_b) = fst (to_matrix MBrlen c14_tree) /\
  leaves c14_tree_b <> leaves c14_tree /\
  qmat_eqb (snd (to_matrix MBrlen c14_tree_b)) (snd (to_matrix MBrlen c14_tree)) = true.
Proof. exact tperm_example. Qed.
Print Assumptions C14_example_reorder.

Example C14_example_reroot :
  match reroot c14_tree 1 with
  | Ok t' => negb (utree_eqb t' c14_tree) &&
             qmat_eqb (snd (to_matrix MBrlen t')) (snd (to_matrix MBrlen c14_tree)) &&
             qmat_eqb (snd (to_matrix MBoots t')) (snd (to_matrix MBoots c14_tree))
  | Err _ => false
  end = true.
Proof. exact reroot_example. Qed.
Print Assumptions C14_example_reroot.

(** * the cut: thresholds <= 0, absent lengths *)
Theorem C14_short_is_stored_length_below_threshold :
  forall maxlen e, short maxlen e = true <-> (elen e < maxlen)%Q.
Proof. exact short_iff. Qed.
Print Assumptions C14_short_is_stored_length_below_threshold.

Theorem C14_absent_length_is_minus_one_for_the_cut :
  forall maxlen e, (elen e == nilv)%Q -> (short maxlen e = true <-> (-1 < maxlen)%Q).
Proof. exact short_absent. Qed.
Print Assumptions C14_absent_length_is_minus_one_for_the_cut.

Theorem C14_short_at_low_thresholds :
  forall maxlen e,
    ((elen e == nilv)%Q \/ (0 <= elen e)%Q) ->
    ((maxlen <= -1)%Q -> short maxlen e = false) /\
    ((-1 < maxlen)%Q -> (maxlen <= 0)%Q -> (short maxlen e = true <-> (elen e == nilv)%Q)).
Proof. exact short_low_threshold. Qed.
Print Assumptions C14_short_at_low_thresholds.

Theorem C14_cut_no_short_branch_all_tips_alone :
  forall maxlen t,
    wf t = true -> 2 <= degree t -> NoDup (leaves t) ->
    all_edges (fun e => short maxlen e = false) t ->
    forall a b, In a (leaves t) -> In b (leaves t) -> a <> b ->
      ~ exists bag, In bag (cut maxlen t) /\ In a bag /\ In b bag.
Proof. exact cut_none_short. Qed.
Print Assumptions C14_cut_no_short_branch_all_tips_alone.

Theorem C14_cut_all_short_one_bag :
  forall maxlen t,
    wf t = true -> 2 <= degree t -> NoDup (leaves t) ->
    all_edges (fun e => short maxlen e = true) t ->
    forall a b, In a (leaves t) -> In b (leaves t) -> a <> b ->
      exists bag, In bag (cut maxlen t) /\ In a bag /\ In b bag.
Proof. exact cut_all_short. Qed.
Print Assumptions C14_cut_all_short_one_bag.

Theorem C14_cut_threshold_le_minus_one :
  forall maxlen t,
    wf t = true -> 2 <= degree t -> NoDup (leaves t) ->
    all_edges (fun e => (elen e == nilv)%Q \/ (0 <= elen e)%Q) t -> (maxlen <= -1)%Q ->
    forall a b, In a (leaves t) -> In b (leaves t) -> a <> b ->
      ~ exists bag, In bag (cut maxlen t) /\ In a bag /\ In b bag.
Proof. exact cut_threshold_le_minus1. Qed.
Print Assumptions C14_cut_threshold_le_minus_one.

Theorem C14_cut_threshold_le_zero_all_lengths_present :
  forall maxlen t,
    wf t = true -> 2 <= degree t -> NoDup (leaves t) ->
    all_edges (fun e => (0 <= elen e)%Q) t -> (maxlen <= 0)%Q ->
    forall a b, In a (leaves t) -> In b (leaves t) -> a <> b ->
      ~ exists bag, In bag (cut maxlen t) /\ In a bag /\ In b bag.
Proof. exact cut_threshold_le_0_all_lengths. Qed.
Print Assumptions C14_cut_threshold_le_zero_all_lengths_present.

Theorem C14_cut_no_lengths_one_bag :
  forall maxlen t,
    wf t = true -> 2 <= degree t -> NoDup (leaves t) ->
    all_edges (fun e => (elen e == nilv)%Q) t -> (-1 < maxlen)%Q ->
    forall a b, In a (leaves t) -> In b (leaves t) -> a <> b ->
      exists bag, In bag (cut maxlen t) /\ In a bag /\ In b bag.
Proof. exact cut_no_lengths. Qed.
Print Assumptions C14_cut_no_lengths_one_bag.

Example C14_example_cut_low_thresholds :
  cut 0 cut_tree0 = [["a"; "b"]; ["c"]; ["d"]]%string /\
  cut (-1#2) cut_tree0 = [["a"; "b"]; ["c"]; ["d"]]%string /\
  cut (-1) cut_tree0 = [["a"]; ["b"]; ["c"]; ["d"]]%string /\
  cut (1#2) cut_tree0 = [["a"; "b"; "c"]; ["d"]]%string.
Proof. exact cut_low_example. Qed.
Print Assumptions C14_example_cut_low_thresholds.

Example C14_example_cut_low_hypotheses :
  good cut_tree0 /\ all_edges (fun e => (elen e == nilv)%Q \/ (0 <= elen e)%Q) cut_tree0.
Proof. exact cut_low_example_hyps. Qed.
Print Assumptions C14_example_cut_low_hypotheses.

Example C14_example_cut_no_lengths :
  good nolen_tree /\ all_edges (fun e => (elen e == nilv)%Q) nolen_tree /\
  cut 0 nolen_tree = [["a"; "b"; "c"; "d"]]%string /\
  cut (-1) nolen_tree = [["a"]; ["b"]; ["c"]; ["d"]]%string.
Proof. exact nolen_example. Qed.
Print Assumptions C14_example_cut_no_lengths.
