(** C17, extra 8: (1) completeness of the NNI enumeration -- every branch of Tree.Edges()
    both of whose ends have three neighbours gets both exchanges, and the two proposals realise
    the only two other resolutions of the four tip groups around it; (2) Apply keeps the name
    and the comments of every node, tips and inner nodes alike (branch data: C17_neighbour,
    C17_one_split; Undo: C17_undo_apply gives back the very same tree).
    Proofs in Proofs/C17Extra8.v. *)
From Coq Require Import String ZArith QArith Bool Arith List Permutation.
From GT Require Import Base.UTree Spec.Obs Spec.Unrooted Spec.NNISpec Model.Reroot Model.NNI
     Proofs.RerootBase Proofs.NNIBase Proofs.NNICount Proofs.NNIList Proofs.NNITop Proofs.C17Extra8.
Import ListNotations.
Local Close Scope Q_scope.
Local Open Scope string_scope.

(** * complete: no eligible branch and no exchange is left out *)
(** [x] ranges over Tree.Edges() with both ends ([C17_edges_pc_is_edges]); [designates]: the
    proposal's central branch is [x] *)
Theorem C17_complete_every_branch_both_exchanges :
  forall t x cross, wf t = true -> In x (edges_pc t) -> both3 x = true ->
    exists r, In r (nni_list t) /\ designates t (r_path r, r_k r) x /\ r_cross r = cross.
Proof. exact nni_complete. Qed.
Print Assumptions C17_complete_every_branch_both_exchanges.

(** conversely every proposal sits on such a branch of Tree.Edges() *)
Theorem C17_proposals_only_eligible_branches :
  forall t r, In r (nni_list t) ->
    exists x, In x (edges_pc t) /\ both3 x = true /\ designates t (r_path r, r_k r) x.
Proof. exact nni_sound. Qed.
Print Assumptions C17_proposals_only_eligible_branches.

(** complete as a neighbourhood: around an eligible branch the tips fall into A, C (behind the
    other two neighbours of the upper end) and Y1, Y2 (behind the two children of the lower
    end); the branch separates Y1+Y2 from A+C.  The plain exchange gives a tree in which that
    branch (same data) separates A+Y1 from C+Y2, the cross exchange one in which it separates
    A+Y2 from C+Y1 -- the only two other ways of pairing four groups -- and in both every other
    branch keeps its data and its side ([resolves]).  Any well-formed tree, rooted or not. *)
Theorem C17_complete_both_resolutions :
  forall t x, wf t = true -> In x (edges_pc t) -> both3 x = true ->
  exists r0 r1 t0 t1 A C Y1 Y2 old rest,
    In r0 (nni_list t) /\ In r1 (nni_list t) /\
    designates t (r_path r0, r_k r0) x /\ designates t (r_path r1, r_k r1) x /\
    r_cross r0 = false /\ r_cross r1 = true /\
    apply r0 t = Some t0 /\ apply r1 t = Some t1 /\
    Permutation (leaves t) (A ++ C ++ Y1 ++ Y2) /\
    Y1 <> [] /\ Y2 <> [] /\ (2 <= length (kids t) -> A <> [] /\ C <> []) /\
    Permutation old (Y1 ++ Y2) /\
    Permutation (bsplits t) ((snd (fst x), old, false) :: rest) /\
    resolves t t0 (snd (fst x)) (A ++ Y1) (C ++ Y2) /\
    resolves t t1 (snd (fst x)) (A ++ Y2) (C ++ Y1).
Proof. exact nni_complete_splits. Qed.
Print Assumptions C17_complete_both_resolutions.

Example C17_example_complete :
  wf witness6 = true /\ binary witness6 = true /\
  map (fun x => (leaves (snd x))) (filter both3 (edges_pc witness6)) = [["a"; "b"]; ["c"; "d"]; ["e"; "f"]] /\
  map (fun r => (r_edge r, r_cross r)) (nni_list witness6) =
  [(0, false); (0, true); (3, false); (3, true); (6, false); (6, true)].
Proof. exact witness6_complete_facts. Qed.
Print Assumptions C17_example_complete.

(** * Apply keeps every node's name and comments *)
Theorem C17_apply_keeps_node_names_comments :
  forall t r t', wf t = true -> In r (nni_list t) -> apply r t = Some t' ->
    Permutation (node_data t) (node_data t').
Proof. exact apply_node_data. Qed.
Print Assumptions C17_apply_keeps_node_names_comments.

(** non-vacuity: named, commented inner nodes, six different lengths, a central branch with
    support exactly 0 and a comment, central branch inverted by Apply (root behind n1_2) *)
Example C17_example_named :
  wf witness_named = true /\ binary witness_named = true /\
  node_data witness_named = [("r", ["c0"]); ("a", []); ("n1", ["c1"]); ("b", []); ("n2", ["c2"]); ("c", []); ("d", [])] /\
  map (fun r => match apply r witness_named with
                | Some t' => (node_data t', map fst (edges t'))
                | None => ([], []) end) (nni_list witness_named) =
  [([("r", ["c0"]); ("a", []); ("n2", ["c2"]); ("n1", ["c1"]); ("b", []); ("d", []); ("c", [])],
    [ei 1 (-1); ei 2 (-1); mkE (inject_Z 4) 0 (-1) ["cc"]; ei 3 (-1); ei 6 (-1); ei 5 (-1)]);
   ([("r", ["c0"]); ("a", []); ("n2", ["c2"]); ("n1", ["c1"]); ("b", []); ("c", []); ("d", [])],
    [ei 1 (-1); ei 2 (-1); mkE (inject_Z 4) 0 (-1) ["cc"]; ei 3 (-1); ei 5 (-1); ei 6 (-1)])].
Proof. exact witness_named_facts. Qed.
Print Assumptions C17_example_named.
