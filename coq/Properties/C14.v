(** C14: distance matrices and length-threshold clusters are exact.
    Statements about the model Model/Matrix.v (ToDistanceMatrix / pathLengths,
    AvgDistanceMatrix, CutEdgesMaxLength / cutEdgesMaxLengthRecur / TipBag), for all trees;
    proofs in Proofs/{MatrixWalk,MatrixCells,MatrixMain,CutBase,CutSem,CutSpec}.v.
    Vocabulary: Spec/Obs.v ([leaves]; [pairdists w t] = one entry (a, b, sum of [w] over the
    path) for every ordered pair of distinct leaves) and Spec/Unrooted.v ([dists_equiv] = same
    multiset of entries up to Qeq).  [good t]: well-formed, at least two neighbours at the
    root (the tips of the code are then the leaves), distinct tip names.
    [cell m t a b] is the cell of the matrix in the row of tip [a] and the column of tip [b]. *)
From Coq Require Import String ZArith QArith Bool Arith List Permutation Sorted.
From GT Require Import Base.UTree Spec.Obs Model.Reroot Spec.Unrooted
     Proofs.RerootBase Model.Matrix Proofs.MatrixWalk Proofs.MatrixCells Proofs.MatrixMain
     Spec.Cut Proofs.CutBase Proofs.CutSem Proofs.CutSpec Proofs.CutPaths Judge.C14 Proofs.MatrixOracle Proofs.CutUF Proofs.CutReps Proofs.CutUnion Proofs.CutRoot1 Proofs.MatrixRelabel Proofs.C14Extra.
Import ListNotations.
Local Close Scope Q_scope.

(** the weight of a branch for the three metrics: length (0 when absent), support (1 when
    absent), 1 *)
Theorem C14_metric_weights :
  forall e,
    mweight MBrlen e = (if qeqb (elen e) nilv then 0%Q else elen e) /\
    mweight MBoots e = (if qeqb (esup e) nilv then 1%Q else esup e) /\
    mweight MNone e = 1%Q.
Proof. intros e. repeat split. Qed.
Print Assumptions C14_metric_weights.

(** what the walks write, taken all together, is exactly the specification's list of path
    sums (no hypothesis on the names) *)
Theorem C14_walks_are_path_sums :
  forall w t, wf t = true -> degree t <> 1 ->
              dists_equiv (triples (tip_rows w t)) (pairdists w t).
Proof. exact tip_rows_pairdists. Qed.
Print Assumptions C14_walks_are_path_sums.

(** shape of the result: rows and columns are the sorted tip names *)
Theorem C14_matrix_shape :
  forall m t, wf t = true -> 2 <= degree t ->
    to_matrix m t =
    (name_sort (leaves t),
     map (fun a => map (fun b => cell m t a b) (name_sort (leaves t))) (name_sort (leaves t))).
Proof. exact to_matrix_shape. Qed.
Print Assumptions C14_matrix_shape.

Theorem C14_rows_in_name_order :
  forall m t, wf t = true -> 2 <= degree t ->
    Permutation (leaves t) (fst (to_matrix m t)) /\ Sorted sle (fst (to_matrix m t)).
Proof. exact matrix_names. Qed.
Print Assumptions C14_rows_in_name_order.

Theorem C14_entry_at_position :
  forall m t i j,
    wf t = true -> 2 <= degree t ->
    i < length (fst (to_matrix m t)) -> j < length (fst (to_matrix m t)) ->
    mcell (snd (to_matrix m t)) i j =
    cell m t (nth i (fst (to_matrix m t)) ""%string) (nth j (fst (to_matrix m t)) ""%string).
Proof. exact to_matrix_entry. Qed.
Print Assumptions C14_entry_at_position.

(** every cell is the sum over the path of the metric's weight *)
Theorem C14_cell_is_path_sum :
  forall m t, good t ->
    forall a b d, In (a, b, d) (pairdists (mweight m) t) -> (cell m t a b == d)%Q.
Proof. exact cell_path_sum. Qed.
Print Assumptions C14_cell_is_path_sum.

Theorem C14_zero_diagonal :
  forall m t, good t -> forall a, cell m t a a = 0%Q.
Proof. exact cell_diag. Qed.
Print Assumptions C14_zero_diagonal.

Theorem C14_symmetric :
  forall m t, good t -> forall a b, (cell m t a b == cell m t b a)%Q.
Proof. exact cell_sym. Qed.
Print Assumptions C14_symmetric.

(** the specification itself: distinct keys, never a tip with itself, symmetric *)
Theorem C14_spec_keys :
  forall w t, NoDup (leaves t) ->
    NoDup (keys (pairdists w t)) /\ forall a b d, In (a, b, d) (pairdists w t) -> a <> b.
Proof. exact pairdists_keys. Qed.
Print Assumptions C14_spec_keys.

Theorem C14_spec_symmetric :
  forall w t x y d,
    In (x, y, d) (pairdists w t) -> exists d', In (y, x, d') (pairdists w t) /\ (d == d')%Q.
Proof. exact pairdists_sym. Qed.
Print Assumptions C14_spec_symmetric.

(** the average matrix: all trees have the same row names and every cell is the mean *)
Theorem C14_average_is_mean :
  forall m t r nms M,
    avg_matrix m (t :: r) = Ok (nms, M) ->
    Forall (fun t' => fst (to_matrix m t') = nms) (t :: r) /\
    forall i j, (mcell M i j == sum_cells m (t :: r) i j / inject_Z (Z.of_nat (length (t :: r))))%Q.
Proof. exact avg_matrix_mean. Qed.
Print Assumptions C14_average_is_mean.

Theorem C14_average_defined :
  forall m t r,
    Forall (fun t' => fst (to_matrix m t') = fst (to_matrix m t)) r ->
    exists M, avg_matrix m (t :: r) = Ok (fst (to_matrix m t), M).
Proof. exact avg_matrix_defined. Qed.
Print Assumptions C14_average_defined.

(** the hypotheses are satisfiable: ((a:1,b:2)0.5:3,c:4,d); *)
Example C14_example_good : good c14_tree.
Proof. exact c14_tree_good. Qed.
Print Assumptions C14_example_good.

Example C14_example_matrix :
  to_matrix MBrlen c14_tree =
  (["a"; "b"; "c"; "d"]%string,
   [[0; 3; 8; 4]; [3; 0; 9; 5]; [8; 9; 0; 4]; [4; 5; 4; 0]]%Q) /\
  to_matrix MBoots c14_tree =
  (["a"; "b"; "c"; "d"]%string,
   [[0; 2; 5#2; 5#2]; [2; 0; 5#2; 5#2]; [5#2; 5#2; 0; 2]; [5#2; 5#2; 2; 0]]%Q).
Proof. exact c14_tree_matrix. Qed.
Print Assumptions C14_example_matrix.

(** * cutting branches at a length threshold *)
(** [comp_down maxlen v]: the tips reached from [v] going down through branches shorter than
    the threshold; [tops_below maxlen t]: the nodes below [t] entered through a branch that is
    not shorter than the threshold.  The pieces of the tree without its long branches are
    exactly the sets of nodes reached downwards from the root and from these nodes.
    The bags returned by the cut are (each as a TipBag: sorted, without repetition, same
    members) groups of tips such that: every tip is in exactly one group, and every group is
    the set of tips of one piece. *)
Theorem C14_cut_is_the_partition :
  forall maxlen t, wf t = true ->
    exists gs, cut maxlen t = map bag_of gs /\
      Permutation (concat gs) (tip_names t) /\
      forall g, In g gs ->
        exists v, In v (t :: tops_below maxlen t) /\ Permutation g (comp_down maxlen v).
Proof. exact cut_correct. Qed.
Print Assumptions C14_cut_is_the_partition.

Theorem C14_bag_members : forall y l, In y (bag_of l) <-> In y l.
Proof. exact bag_of_In. Qed.
Print Assumptions C14_bag_members.

(** the groups in the order of the code, without ids, visited array or continuations *)
Theorem C14_cut_groups_in_order :
  forall maxlen t, wf t = true -> cut maxlen t = map bag_of (sgroups maxlen t false).
Proof. exact cut_sgroups. Qed.
Print Assumptions C14_cut_groups_in_order.

Theorem C14_groups_partition_tips :
  forall maxlen t, wf t = true -> Permutation (concat (sgroups maxlen t false)) (tipnames t).
Proof. exact sgroups_partition. Qed.
Print Assumptions C14_groups_partition_tips.

Example C14_example_cut :
  cut 3%Q (UNode "" [] [Some (mkE 3 (1#2) nilv [], UNode "" [] [None; Some (mkE 1 nilv nilv [], UNode "a" [] [None]);
                                                                 Some (mkE 2 nilv nilv [], UNode "b" [] [None])]);
                        Some (mkE 4 nilv nilv [], UNode "c" [] [None]);
                        Some (mkE nilv nilv nilv [], UNode "d" [] [None])]%string)
  = [["a"; "b"]; ["c"]; ["d"]]%string.
Proof. exact cut_example. Qed.
Print Assumptions C14_example_cut.

(** the property's wording.  [w_long maxlen] (Spec/Cut.v) gives 1 to a branch that is not
    shorter than the threshold and 0 to a shorter one, so the specification's path sum between
    two tips is the number of such branches on the path joining them: two tips are joined by a
    path of branches all shorter than the threshold exactly when it is 0.  Two tips are in
    the same bag of the cut exactly then (and, by C14_cut_is_the_partition, every tip is in
    exactly one bag).  The run-time oracle checks the same statement on the bags returned by
    the code ([bags_are_classes] in Spec/Cut.v), next to the union-find groups. *)
Theorem C14_cut_same_bag_iff_joined_by_short_branches :
  forall maxlen t, wf t = true -> 2 <= degree t -> NoDup (leaves t) ->
    forall a b d, In (a, b, d) (pairdists (w_long maxlen) t) ->
      ((d == 0)%Q <-> exists bag, In bag (cut maxlen t) /\ In a bag /\ In b bag).
Proof. exact cut_classes. Qed.
Print Assumptions C14_cut_same_bag_iff_joined_by_short_branches.

Theorem C14_groups_are_classes :
  forall maxlen t, wf t = true -> 2 <= degree t -> NoDup (leaves t) ->
    forall a b d, In (a, b, d) (pairdists (w_long maxlen) t) ->
      ((d == 0)%Q <-> exists g, In g (sgroups maxlen t false) /\ In a g /\ In b g).
Proof. exact groups_are_classes. Qed.
Print Assumptions C14_groups_are_classes.

(** * the specification is complete, and the run-time oracle accepts the model *)
(** every ordered pair of distinct leaves has a path sum *)
Theorem C14_spec_complete :
  forall w t a b, In a (leaves t) -> In b (leaves t) -> a <> b -> exists d, In (a, b, d) (pairdists w t).
Proof. exact pairdists_complete. Qed.
Print Assumptions C14_spec_complete.

(** the boolean checks of the judge (rows = sorted tip names, every cell equal to the
    specification's [dist_matrix], symmetric, zero diagonal) return no complaint on the
    model's own output *)
Theorem C14_oracle_accepts_model :
  forall m t, good t -> matrix_oracle m t (fst (to_matrix m t)) (snd (to_matrix m t)) = None.
Proof. exact matrix_oracle_accepts. Qed.
Print Assumptions C14_oracle_accepts_model.

(** * the oracle's specification, the path form and the model are one statement *)
(** the naive union-find of Spec/Cut.v computes connectivity: after the fold, two elements are
    in a common class iff they are related by the smallest equivalence containing the joined
    pairs *)
Theorem C14_union_find_is_connectivity :
  forall (A : Type) (p : A -> bool) n (ge : list (nat * nat * A)),
    (forall u v a, In (u, v, a) ge -> u < n /\ v < n) ->
    forall i j, i < n -> j < n ->
      (sc (fold_left (fun cl x => if p (snd x) then union (fst (fst x)) (snd (fst x)) cl else cl) ge
                     (map (fun i => [i]) (seq 0 n))) i j
       <-> conn (short_pairs p ge) i j).
Proof. exact (@uf_classes). Qed.
Print Assumptions C14_union_find_is_connectivity.

(** two tip names are in a common group of [cut_groups] (the union-find closure the run-time
    oracle computes) iff they are in a common bag of the model's [cut] *)
Theorem C14_cut_groups_iff_same_bag :
  forall maxlen t, wf t = true ->
    forall a b,
      (exists g, In g (cut_groups maxlen t) /\ In a g /\ In b g) <->
      (exists bag, In bag (cut maxlen t) /\ In a bag /\ In b bag).
Proof. exact cut_groups_same_bag. Qed.
Print Assumptions C14_cut_groups_iff_same_bag.

(** ... iff every branch on the path between them is shorter than the threshold *)
Theorem C14_cut_groups_iff_joined_by_short_branches :
  forall maxlen t, wf t = true -> 2 <= degree t -> NoDup (leaves t) ->
    forall a b d, In (a, b, d) (pairdists (w_long maxlen) t) ->
      ((d == 0)%Q <-> exists g, In g (cut_groups maxlen t) /\ In a g /\ In b g).
Proof. exact cut_groups_classes. Qed.
Print Assumptions C14_cut_groups_iff_joined_by_short_branches.

(** * inputs added to the judges in the later rounds *)
(** homonymous tips: the judge and the model work on [relabel_tips t] (the k-th tip named n,
    in the order of Tree.Tips(), renamed apart).  Only tip names change (same shape, branches,
    inner names: [erase]), the path sums are the same position by position, and the renamed
    tree has distinct leaves, so every theorem above applies to it.  (That the code lists
    homonyms in Tips() order rests on sort.Slice being an insertion sort up to 12 elements:
    an assumption about the Go runtime, exercised by the correspondence, bound stated in
    driver/props/c14.py.) *)
Theorem C14_relabel_only_tip_names : forall t seen, erase (fst (relabel t seen)) = erase t.
Proof. exact relabel_erase. Qed.
Print Assumptions C14_relabel_only_tip_names.

Theorem C14_relabel_same_path_sums :
  forall w t, map snd (depths w (relabel_tips t)) = map snd (depths w t).
Proof. exact relabel_depths. Qed.
Print Assumptions C14_relabel_same_path_sums.

Theorem C14_relabel_in_domain :
  forall t, wf t = true -> 2 <= degree t -> length (leaves t) < 200 ->
    good (relabel_tips t) /\ leaves (relabel_tips t) = rl (leaves t) [].
Proof. exact relabel_good. Qed.
Print Assumptions C14_relabel_in_domain.

Example C14_example_homonyms :
  good (relabel_tips homonym_tree) /\
  snd (to_matrix MBrlen (relabel_tips homonym_tree)) =
  [[0; 5; 2; 4]; [5; 0; 5; 3]; [2; 5; 0; 4]; [4; 3; 4; 0]]%Q.
Proof. exact homonym_example. Qed.
Print Assumptions C14_example_homonyms.

(** the cut for EVERY well-formed tree (single-child roots, negative or absent lengths): the
    groups partition the tips (C14_cut_is_the_partition, C14_groups_partition_tips), are
    pairwise disjoint, and - for a root with a single neighbour, which is a tip for the code -
    two tips are in one bag iff no branch on their path is as long as the threshold *)
Theorem C14_cut_groups_disjoint :
  forall maxlen t, wf t = true -> NoDup (tip_names t) -> NoDup (concat (sgroups maxlen t false)).
Proof. exact cut_groups_disjoint. Qed.
Print Assumptions C14_cut_groups_disjoint.

Theorem C14_cut_single_child_root :
  forall maxlen n cm e ch,
    let t := UNode n cm [Some (e, ch)] in
    wf t = true -> NoDup (n :: leaves ch) ->
    (forall a b d, In (a, b, d) (pairdists (w_long maxlen) ch) ->
       ((d == 0)%Q <-> exists bag, In bag (cut maxlen t) /\ In a bag /\ In b bag)) /\
    (forall a d, In (a, d) (depths (w_long maxlen) ch) ->
       ((w_long maxlen e + d == 0)%Q <-> exists bag, In bag (cut maxlen t) /\ In n bag /\ In a bag)).
Proof. exact cut_classes_root1. Qed.
Print Assumptions C14_cut_single_child_root.

Example C14_example_single_child_root_negative_length :
  wf root1_tree = true /\ tip_names root1_tree = ["r"; "A"; "B"]%string /\
  cut (1#2) root1_tree = [["r"]; ["A"]; ["B"]]%string /\
  cut 1 root1_tree = [["A"; "B"; "r"]]%string /\
  cut (-1#4) root1_tree = [["r"]; ["A"]; ["B"]]%string /\
  cut (-1#8) root1_tree = [["r"]; ["A"]; ["B"]]%string.
Proof. exact root1_example. Qed.
Print Assumptions C14_example_single_child_root_negative_length.

(** the average is the entrywise mean for every metric (C14_average_is_mean quantifies over
    the metric); the non-default metrics on a concrete pair of trees *)
Example C14_example_average_other_metrics :
  avg_is (avg_matrix MBoots [c14_tree; avg_tree2]) ["a"; "b"; "c"; "d"]%string
         [[0; 17#8; 19#8; 9#4]; [17#8; 0; 9#4; 19#8]; [19#8; 9#4; 0; 17#8]; [9#4; 19#8; 17#8; 0]]%Q = true /\
  avg_is (avg_matrix MNone [c14_tree; avg_tree2]) ["a"; "b"; "c"; "d"]%string
         [[0; 5#2; 3; 5#2]; [5#2; 0; 5#2; 3]; [3; 5#2; 0; 5#2]; [5#2; 3; 5#2; 0]]%Q = true.
Proof. exact avg_example. Qed.
Print Assumptions C14_example_average_other_metrics.
