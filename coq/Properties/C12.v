(** C12: parsimony reconstruction is optimal.
    Statements about the model Model/Parsimony.v (acr/parsimony.go, asr/parsimony.go, tied to the
    code by the correspondence check of Judge/C12.v) for ALL well-formed trees of any degree
    and all tip-state assignments.  Vocabulary: Spec/Parsimony.v ([cost] of a labelling =
    number of branches whose ends differ, a tip costing 0 against any state of its set;
    [is_mincost] = least cost over all labellings; [optimal]; [opt_state]).
    Nodes are addressed by their path from the root (slot indexes; Model.Reroot.paths lists
    them in the order of Tree.Nodes()); [vec_at t vt p] is the count vector the model holds at
    that node ([nth y v 0 = 1]: state y is reported there).
    Proofs in Proofs/Parsimony{Vec,Hartigan,Reroot,Main,Ctx,Down,Final,Acctran,Tips,Unamb,Deltran,Inst,Embed,Site,Random,Misc,Multi,Front,Delay}.v. *)
From Coq Require Import String ZArith QArith Bool Arith List.
From GT Require Import Base.UTree Spec.Obs Spec.Parsimony Model.Reroot Model.Parsimony Model.ParsimonyRand
     Proofs.ParsimonyVec Proofs.ParsimonyHartigan Proofs.ParsimonyReroot Proofs.ParsimonyMain
     Proofs.ParsimonyCtx Proofs.ParsimonyDown Proofs.ParsimonyFinal Proofs.ParsimonyAcctran
     Proofs.ParsimonyTips Proofs.ParsimonyUnamb Proofs.ParsimonyDeltran Proofs.ParsimonyInst Proofs.ParsimonyEmbed Proofs.ParsimonySite Proofs.ParsimonyRandom Proofs.ParsimonyMisc Proofs.ParsimonyMulti Proofs.ParsimonyFront Proofs.ParsimonyDelay.
Import ListNotations.
Local Close Scope Q_scope.
Local Open Scope string_scope.

(** * the up-pass (Hartigan's generalisation of Fitch), for any tip vectors that are the
      indicators of non-empty state sets (single states, or IUPAC sets) *)
Theorem C12_up_steps_minimum :
  forall tv ts k t,
    wf t = true -> degree t <> 1 ->
    (forall n, In n (leaves t) -> tip_ok tv ts k n) ->
    is_mincost ts t (up_steps tv k t).
Proof. exact up_steps_mincost. Qed.
Print Assumptions C12_up_steps_minimum.

(** the vector kept at the root marks exactly the states the root takes in the
    most-parsimonious labellings *)
Theorem C12_up_root_states :
  forall tv ts k t x,
    wf t = true -> degree t <> 1 -> is_leaf t = false ->
    (forall n, In n (leaves t) -> tip_ok tv ts k n) ->
    (nth x (U tv k t) 0 = 1 <-> exists l, optimal ts t l /\ lroot l = x).
Proof. exact up_root_states. Qed.
Print Assumptions C12_up_root_states.

(** * the specification's minimum does not depend on the rooting *)
Theorem C12_mincost_reroot :
  forall ts t i t' m,
    wf t = true -> degree t <> 1 -> reroot t i = Ok t' ->
    is_mincost ts t m -> (is_mincost ts t' m /\ wf t' = true /\ 2 <= degree t').
Proof. exact reroot_mincost. Qed.
Print Assumptions C12_mincost_reroot.

Theorem C12_up_steps_reroot :
  forall tv ts k t i t',
    wf t = true -> 2 <= degree t ->
    (forall n, In n (leaves t) -> tip_ok tv ts k n) ->
    reroot t i = Ok t' ->
    up_steps tv k t' = up_steps tv k t.
Proof. exact up_steps_reroot. Qed.
Print Assumptions C12_up_steps_reroot.

(** * ParsimonyAcr: the reported number of steps is the true minimum, for the three
      algorithms, and does not depend on the rooting *)
Theorem C12_acr_steps_optimal :
  forall t m a r,
    wf t = true -> 2 <= degree t -> parsimony_acr t m a = Ok r ->
    is_mincost (acr_ts m) t (acr_steps r).
Proof. exact acr_steps_optimal. Qed.
Print Assumptions C12_acr_steps_optimal.

Theorem C12_acr_steps_reroot :
  forall t m a r i t' r',
    wf t = true -> 2 <= degree t -> reroot t i = Ok t' ->
    parsimony_acr t m a = Ok r -> parsimony_acr t' m a = Ok r' ->
    acr_steps r' = acr_steps r.
Proof. exact acr_steps_reroot. Qed.
Print Assumptions C12_acr_steps_reroot.

Theorem C12_acr_reroot_defined :
  forall t m a r i t',
    wf t = true -> 2 <= degree t -> reroot t i = Ok t' ->
    parsimony_acr t m a = Ok r -> exists r', parsimony_acr t' m a = Ok r'.
Proof. exact acr_reroot_defined. Qed.
Print Assumptions C12_acr_reroot_defined.

(** * the state sets, for any tip vectors that are indicators of non-empty sets
      ([skip] = whether ACCTRAN skips tip children: false in acr, true in asr) *)

(** DOWNPASS reports at every inner node exactly the states the node takes in the
    most-parsimonious labellings of the whole tree *)
Theorem C12_downpass_exact :
  forall tv ts k T,
    wf T = true -> 2 <= degree T ->
    (forall n, In n (leaves T) -> tip_ok tv ts k n) ->
    forall skip q x v,
      node_at T q = Some x -> is_leaf x = false ->
      vec_at T (fst (parsimony skip tv k Downpass T)) q = Some v ->
      forall y, nth y v 0 = 1 <-> opt_state_at ts T q y.
Proof. exact downpass_exact. Qed.
Print Assumptions C12_downpass_exact.

(** DELTRAN and ACCTRAN: every state reported at an inner node occurs there in at least one
    most-parsimonious labelling *)
Theorem C12_deltran_sound :
  forall tv ts k T,
    wf T = true -> 2 <= degree T ->
    (forall n, In n (leaves T) -> tip_ok tv ts k n) ->
    forall skip q x v,
      node_at T q = Some x -> is_leaf x = false ->
      vec_at T (fst (parsimony skip tv k Deltran T)) q = Some v ->
      forall y, nth y v 0 = 1 -> opt_state_at ts T q y.
Proof. exact deltran_sound. Qed.
Print Assumptions C12_deltran_sound.

Theorem C12_acctran_sound :
  forall tv ts k T,
    wf T = true -> 2 <= degree T ->
    (forall n, In n (leaves T) -> tip_ok tv ts k n) ->
    forall skip q x v,
      node_at T q = Some x -> is_leaf x = false ->
      vec_at T (fst (parsimony skip tv k Acctran T)) q = Some v ->
      forall y, nth y v 0 = 1 -> opt_state_at ts T q y.
Proof. exact acctran_sound. Qed.
Print Assumptions C12_acctran_sound.

(** tip states are never altered: always for DOWNPASS / DELTRAN / no second pass; for ACCTRAN
    when tip children are skipped, or when no tip vector can be narrowed *)
Theorem C12_tips_unaltered :
  forall tv k ts skip a T q x v,
    wf T = true -> 2 <= degree T ->
    (forall n, In n (leaves T) -> tip_ok tv ts k n) ->
    (a = Acctran ->
     skip = true \/
     (forall n, In n (leaves T) -> forall p, good k p -> refine p (tv n) = tv n)) ->
    node_at T q = Some x -> is_leaf x = true ->
    vec_at T (fst (parsimony skip tv k a T)) q = Some v -> v = tv (uname x).
Proof. exact tips_unaltered. Qed.
Print Assumptions C12_tips_unaltered.

(** the hypothesis of the ACCTRAN case cannot be dropped: rewriting tip children (as the
    sequence variant did before the fix, and as acr/parsimony.go still does) narrows an
    ambiguous tip.  Witness: star tree (a,b,c), a in {A,G}, b = c = A: a becomes A. *)
Theorem C12_acctran_rewriting_tips_keeps_ambiguous_tip_refuted :
  exists t tv q x v, wf t = true /\ 2 <= degree t /\
    node_at t q = Some x /\ is_leaf x = true /\
    vec_at t (fst (parsimony false tv 6 Acctran t)) q = Some v /\ v <> tv (uname x).
Proof. exact acctran_rewriting_tips_keeps_ambiguous_tip_refuted. Qed.
Print Assumptions C12_acctran_rewriting_tips_keeps_ambiguous_tip_refuted.

(** an output that is unambiguous at every node is itself most parsimonious
    ([lab_of]: the labelling made of the single state of every node) *)
Theorem C12_acctran_unambiguous :
  forall tv ts k T,
    wf T = true -> 2 <= degree T ->
    (forall n, In n (leaves T) -> tip_ok tv ts k n) ->
    forall skip,
      vall single (fst (parsimony skip tv k Acctran T)) ->
      optimal ts T (lab_of T (fst (parsimony skip tv k Acctran T))).
Proof. exact acctran_unambiguous. Qed.
Print Assumptions C12_acctran_unambiguous.

Theorem C12_downpass_unambiguous :
  forall tv ts k T,
    wf T = true -> 2 <= degree T ->
    (forall n, In n (leaves T) -> tip_ok tv ts k n) ->
    forall skip,
      vall single (fst (parsimony skip tv k Downpass T)) ->
      optimal ts T (lab_of T (fst (parsimony skip tv k Downpass T))).
Proof. exact downpass_unambiguous. Qed.
Print Assumptions C12_downpass_unambiguous.

Theorem C12_deltran_unambiguous :
  forall tv ts k T,
    wf T = true -> 2 <= degree T ->
    (forall n, In n (leaves T) -> tip_ok tv ts k n) ->
    forall skip,
      vall single (fst (parsimony skip tv k Deltran T)) ->
      optimal ts T (lab_of T (fst (parsimony skip tv k Deltran T))).
Proof. exact deltran_unambiguous. Qed.
Print Assumptions C12_deltran_unambiguous.

(** * the same, on ParsimonyAcr itself (tips hold one state of the sorted alphabet) *)
Theorem C12_acr_result :
  forall m t,
    wf t = true -> 2 <= degree t ->
    (forall n, In n (leaves t) -> exists s, lookup n m = Some s) ->
    forall a, exists r,
      parsimony_acr t m a = Ok r /\
      acr_vecs r = vflat (acr_vt m t a) /\ acr_steps r = up_steps (acr_tv m) (acr_k m) t.
Proof. exact parsimony_acr_ok. Qed.
Print Assumptions C12_acr_result.

Theorem C12_acr_downpass_exact :
  forall m t,
    wf t = true -> 2 <= degree t ->
    (forall n, In n (leaves t) -> exists s, lookup n m = Some s) ->
    forall q x v,
      node_at t q = Some x -> is_leaf x = false ->
      vec_at t (acr_vt m t Downpass) q = Some v ->
      forall y, nth y v 0 = 1 <-> opt_state_at (acr_ts m) t q y.
Proof. exact acr_downpass_exact. Qed.
Print Assumptions C12_acr_downpass_exact.

Theorem C12_acr_deltran_sound :
  forall m t,
    wf t = true -> 2 <= degree t ->
    (forall n, In n (leaves t) -> exists s, lookup n m = Some s) ->
    forall q x v,
      node_at t q = Some x -> is_leaf x = false ->
      vec_at t (acr_vt m t Deltran) q = Some v ->
      forall y, nth y v 0 = 1 -> opt_state_at (acr_ts m) t q y.
Proof. exact acr_deltran_sound. Qed.
Print Assumptions C12_acr_deltran_sound.

Theorem C12_acr_acctran_sound :
  forall m t,
    wf t = true -> 2 <= degree t ->
    (forall n, In n (leaves t) -> exists s, lookup n m = Some s) ->
    forall q x v,
      node_at t q = Some x -> is_leaf x = false ->
      vec_at t (acr_vt m t Acctran) q = Some v ->
      forall y, nth y v 0 = 1 -> opt_state_at (acr_ts m) t q y.
Proof. exact acr_acctran_sound. Qed.
Print Assumptions C12_acr_acctran_sound.

(** character variant: tips are never altered, whatever the algorithm *)
Theorem C12_acr_tips_unaltered :
  forall m t,
    wf t = true -> 2 <= degree t ->
    (forall n, In n (leaves t) -> exists s, lookup n m = Some s) ->
    forall a q x v,
      node_at t q = Some x -> is_leaf x = true ->
      vec_at t (acr_vt m t a) q = Some v -> v = acr_tv m (uname x).
Proof. exact acr_tips_unaltered. Qed.
Print Assumptions C12_acr_tips_unaltered.

Theorem C12_acr_acctran_unambiguous :
  forall m t,
    wf t = true -> 2 <= degree t ->
    (forall n, In n (leaves t) -> exists s, lookup n m = Some s) ->
    vall single (acr_vt m t Acctran) -> optimal (acr_ts m) t (lab_of t (acr_vt m t Acctran)).
Proof. exact acr_acctran_unambiguous. Qed.
Print Assumptions C12_acr_acctran_unambiguous.

Theorem C12_acr_downpass_unambiguous :
  forall m t,
    wf t = true -> 2 <= degree t ->
    (forall n, In n (leaves t) -> exists s, lookup n m = Some s) ->
    vall single (acr_vt m t Downpass) -> optimal (acr_ts m) t (lab_of t (acr_vt m t Downpass)).
Proof. exact acr_downpass_unambiguous. Qed.
Print Assumptions C12_acr_downpass_unambiguous.

Theorem C12_acr_deltran_unambiguous :
  forall m t,
    wf t = true -> 2 <= degree t ->
    (forall n, In n (leaves t) -> exists s, lookup n m = Some s) ->
    vall single (acr_vt m t Deltran) -> optimal (acr_ts m) t (lab_of t (acr_vt m t Deltran)).
Proof. exact acr_deltran_unambiguous. Qed.
Print Assumptions C12_acr_deltran_unambiguous.

(** * sequence variant: ParsimonyAsr is the per-site computation over the alphabet
      A C G T - *, a tip holding the IUPAC set of its character *)
Theorem C12_asr_sites :
  forall t aln a r,
    parsimony_asr t aln a = Ok r ->
    asr_steps r = (map (fun j => snd (parsimony true (asr_tipvec aln j) 6 a t)) (seq 0 (aln_length aln)) ++ [0])%list /\
    asr_vecs r = map (fun j => vflat (fst (parsimony true (asr_tipvec aln j) 6 a t))) (seq 0 (aln_length aln)).
Proof. exact parsimony_asr_sites. Qed.
Print Assumptions C12_asr_sites.

(** the number of steps of a site is the minimum, ambiguity codes at tips meaning
    "any of these states" *)
Theorem C12_asr_site_steps_optimal :
  forall aln t j,
    wf t = true -> 2 <= degree t ->
    (forall n, In n (leaves t) -> exists x, nth x (asr_tipvec aln j n) 0 = 1) ->
    forall a, is_mincost (asr_ts aln j) t (snd (parsimony true (asr_tv aln j) 6 a t)).
Proof. exact asr_site_steps_optimal. Qed.
Print Assumptions C12_asr_site_steps_optimal.

Theorem C12_asr_downpass_exact :
  forall aln t j,
    wf t = true -> 2 <= degree t ->
    (forall n, In n (leaves t) -> exists x, nth x (asr_tipvec aln j n) 0 = 1) ->
    forall q x v,
      node_at t q = Some x -> is_leaf x = false ->
      vec_at t (asr_vt aln t j Downpass) q = Some v ->
      forall y, nth y v 0 = 1 <-> opt_state_at (asr_ts aln j) t q y.
Proof. exact asr_downpass_exact. Qed.
Print Assumptions C12_asr_downpass_exact.

Theorem C12_asr_deltran_sound :
  forall aln t j,
    wf t = true -> 2 <= degree t ->
    (forall n, In n (leaves t) -> exists x, nth x (asr_tipvec aln j n) 0 = 1) ->
    forall q x v,
      node_at t q = Some x -> is_leaf x = false ->
      vec_at t (asr_vt aln t j Deltran) q = Some v ->
      forall y, nth y v 0 = 1 -> opt_state_at (asr_ts aln j) t q y.
Proof. exact asr_deltran_sound. Qed.
Print Assumptions C12_asr_deltran_sound.

Theorem C12_asr_acctran_sound :
  forall aln t j,
    wf t = true -> 2 <= degree t ->
    (forall n, In n (leaves t) -> exists x, nth x (asr_tipvec aln j n) 0 = 1) ->
    forall q x v,
      node_at t q = Some x -> is_leaf x = false ->
      vec_at t (asr_vt aln t j Acctran) q = Some v ->
      forall y, nth y v 0 = 1 -> opt_state_at (asr_ts aln j) t q y.
Proof. exact asr_acctran_sound. Qed.
Print Assumptions C12_asr_acctran_sound.

(** after the fix of asr.parsimonyACCTRAN the IUPAC set of a tip is kept by the three algorithms *)
Theorem C12_asr_tips_unaltered :
  forall aln t j,
    wf t = true -> 2 <= degree t ->
    (forall n, In n (leaves t) -> exists x, nth x (asr_tipvec aln j n) 0 = 1) ->
    forall a q x v,
      node_at t q = Some x -> is_leaf x = true ->
      vec_at t (asr_vt aln t j a) q = Some v -> v = asr_tv aln j (uname x).
Proof. exact asr_tips_unaltered. Qed.
Print Assumptions C12_asr_tips_unaltered.

(** * the passes do not depend on the alphabet: embedding the tip vectors into a larger
      alphabet (injectively) embeds every vector and keeps the number of steps *)
Theorem C12_alphabet_embedding :
  forall pi k2, NoDup pi -> (forall j, In j pi -> j < k2) ->
  forall tv1 tv2 skip a t,
    wf t = true -> 2 <= degree t -> tips_emb pi k2 tv1 tv2 t ->
    parsimony skip tv2 k2 a t = emb_res pi k2 (parsimony skip tv1 (length pi) a t).
Proof. exact parsimony_embed. Qed.
Print Assumptions C12_alphabet_embedding.

(** * sequence reconstruction agrees site by site with single-character reconstruction:
      for an alignment that is unambiguous at site j (A C G T -, either case), the sequence
      variant at that site is the character variant run on the upper-cased characters of the
      site ([site_map]), with the same number of steps and every vector embedded in the
      six-letter alphabet ([site_pi]: the positions of the site's states) *)
Theorem C12_site_by_site :
  forall aln j t,
    wf t = true -> 2 <= degree t ->
    (forall n s, In (n, s) aln -> exists c, string_nth j s = Some c /\ In (upper c) unamb_chars) ->
    (forall n, In n (leaves t) -> exists s, lookup n aln = Some s) ->
    forall a,
      parsimony true (asr_tipvec aln j) 6 a t
      = emb_res (site_pi aln j) 6
                (parsimony false (acr_tipvec (site_map aln j) (acr_alphabet (site_map aln j)))
                           (length (acr_alphabet (site_map aln j))) a t).
Proof. exact site_agreement. Qed.
Print Assumptions C12_site_by_site.

Theorem C12_site_steps_agree :
  forall aln j t,
    wf t = true -> 2 <= degree t ->
    (forall n s, In (n, s) aln -> exists c, string_nth j s = Some c /\ In (upper c) unamb_chars) ->
    (forall n, In n (leaves t) -> exists s, lookup n aln = Some s) ->
    forall a,
      snd (parsimony true (asr_tipvec aln j) 6 a t)
      = snd (parsimony false (acr_tipvec (site_map aln j) (acr_alphabet (site_map aln j)))
                       (length (acr_alphabet (site_map aln j))) a t).
Proof. exact site_steps_agree. Qed.
Print Assumptions C12_site_steps_agree.

(** * the hypotheses are satisfiable: the hand-worked tree of acr/acr_test.go
      (t1,(t2,((t3,(t4,t5)),(t8,((t9,t10),((t12,t13),t15)))))) with states A/B: 4 steps *)
Definition ex_tip (n : string) : utree := UNode n [] [None].
Definition ex_in (l : list utree) : utree := UNode "" [] (None :: map (fun c => Some (e0, c)) l).
Definition ex_tree : utree :=
  UNode "" [] [Some (e0, ex_tip "t1");
               Some (e0, ex_in [ex_tip "t2";
                                ex_in [ex_in [ex_tip "t3"; ex_in [ex_tip "t4"; ex_tip "t5"]];
                                       ex_in [ex_tip "t8";
                                              ex_in [ex_in [ex_tip "t9"; ex_tip "t10"];
                                                     ex_in [ex_in [ex_tip "t12"; ex_tip "t13"]; ex_tip "t15"]]]]])].
Definition ex_states : list (string * string) :=
  [("t1","A"); ("t2","A"); ("t3","B"); ("t4","B"); ("t5","A"); ("t8","B");
   ("t9","B"); ("t10","A"); ("t12","A"); ("t13","A"); ("t15","A")].

Example C12_example_hypotheses :
  wf ex_tree = true /\ 2 <= degree ex_tree /\
  forallb (fun n => match lookup n ex_states with Some _ => true | None => false end) (leaves ex_tree) = true /\
  match parsimony_acr ex_tree ex_states Deltran with Ok r => acr_steps r = 4 | Err _ => False end.
Proof. vm_compute. repeat split; auto. Qed.
Print Assumptions C12_example_hypotheses.

(** * random resolution (randomResolve = true; Model/ParsimonyRand.v), for EVERY source of
      choices whose draws are below their bound (the recorded rand stream, any list of choices) *)

(** the number of steps is unchanged *)
Theorem C12_rr_steps :
  forall (S : Type) (draw : nat -> S -> nat * S) tv k T skip a s,
    snd (fst (parsimony_r S draw skip tv k a T s)) = snd (parsimony skip tv k a T).
Proof. exact rr_steps. Qed.
Print Assumptions C12_rr_steps.

(** exactly one state at every inner node, for the three algorithms *)
Theorem C12_rr_inner_single :
  forall (S : Type) (draw : nat -> S -> nat * S),
    (forall b s, 0 < b -> fst (draw b s) < b) ->
    forall tv ts k T,
      wf T = true -> 2 <= degree T ->
      (forall n, In n (leaves T) -> tip_ok tv ts k n) ->
      forall skip a s, a <> NoPass ->
        forall w, In w (vinners (rr_vt S draw tv k T skip a s)) -> single w.
Proof. exact rr_inner_single. Qed.
Print Assumptions C12_rr_inner_single.

(** DOWNPASS and DELTRAN: the state kept at an inner node belongs to the set the plain
    DOWNPASS reports there, hence occurs at that node in a most-parsimonious labelling *)
Theorem C12_rr_down_sound :
  forall (S : Type) (draw : nat -> S -> nat * S),
    (forall b s, 0 < b -> fst (draw b s) < b) ->
    forall tv ts k T,
      wf T = true -> 2 <= degree T ->
      (forall n, In n (leaves T) -> tip_ok tv ts k n) ->
      forall skip a s q x v, a = Downpass \/ a = Deltran ->
        node_at T q = Some x -> is_leaf x = false ->
        vec_at T (rr_vt S draw tv k T skip a s) q = Some v ->
        forall y, nth y v 0 = 1 -> opt_state_at ts T q y.
Proof. exact rr_down_sound. Qed.
Print Assumptions C12_rr_down_sound.

(** ACCTRAN (choices made top-down, each child rewritten with the state kept above it):
    the full labelling is most parsimonious, whatever the choices *)
Theorem C12_rr_acctran_optimal :
  forall (S : Type) (draw : nat -> S -> nat * S),
    (forall b s, 0 < b -> fst (draw b s) < b) ->
    forall tv ts k T,
      wf T = true -> 2 <= degree T ->
      (forall n, In n (leaves T) -> tip_ok tv ts k n) ->
      forall skip s, optimal ts T (lab_of T (rr_vt S draw tv k T skip Acctran s)).
Proof. exact rr_acctran_optimal. Qed.
Print Assumptions C12_rr_acctran_optimal.

(** DOWNPASS resolves every node independently of the state kept above it, DELTRAN picks
    freely in the final set of a node when the state kept above is not in it: the labelling
    can cost more than the minimum.
    Witnesses: (a,b,(c,d)) with a=c=0, b=d=1, choices 0,1: 3 changes instead of 2 (DOWNPASS);
    (a,b,(c,d,e)) with a=c=0, b=1, d=e=2, choices 1,0: 4 changes instead of 3 (DELTRAN). *)
Theorem C12_rr_downpass_labelling_optimal_refuted :
  exists cs, let R := fst (fst (parsimony_r (list nat) draw_list false rw_tv1 2 Downpass rw_tree1 cs)) in
    is_mincost rw_ts1 rw_tree1 (up_steps rw_tv1 2 rw_tree1) /\
    up_steps rw_tv1 2 rw_tree1 < cost rw_ts1 rw_tree1 (lab_of rw_tree1 R).
Proof. exact downpass_random_resolve_optimal_refuted. Qed.
Print Assumptions C12_rr_downpass_labelling_optimal_refuted.

Theorem C12_rr_deltran_labelling_optimal_refuted :
  exists cs, let R := fst (fst (parsimony_r (list nat) draw_list false rw_tv2 3 Deltran rw_tree2 cs)) in
    is_mincost rw_ts2 rw_tree2 (up_steps rw_tv2 3 rw_tree2) /\
    up_steps rw_tv2 3 rw_tree2 < cost rw_ts2 rw_tree2 (lab_of rw_tree2 R).
Proof. exact deltran_random_resolve_optimal_refuted. Qed.
Print Assumptions C12_rr_deltran_labelling_optimal_refuted.

(** a list of choices is such a source; ParsimonyAcr with random resolution is defined on it *)
Theorem C12_rr_choice_lists :
  forall b cs, 0 < b -> fst (draw_list b cs) < b.
Proof. exact draw_list_lt. Qed.
Print Assumptions C12_rr_choice_lists.

Theorem C12_rr_acr_result :
  forall m t a cs,
    wf t = true -> 2 <= degree t ->
    (forall n, In n (leaves t) -> exists s, lookup n m = Some s) ->
    exists r cs', parsimony_acr_r (list nat) draw_list t m a cs = Ok (r, cs') /\
      acr_vecs r = vflat (rr_vt (list nat) draw_list (acr_tv m) (acr_k m) t false a cs) /\
      acr_steps r = up_steps (acr_tv m) (acr_k m) t.
Proof. exact parsimony_acr_r_ok. Qed.
Print Assumptions C12_rr_acr_result.

(** * characters outside the IUPAC table in a nucleotide alignment (X . ? and the star): the tip
      gets no state; such a tip adds exactly one step at its parent, at every such site, and
      does not contribute to the parent's vector (documented behaviour, outside the property) *)
Theorem C12_stateless_tip_costs_one_step :
  forall tv k n cm sl i e d,
    nth_error sl i = Some (Some (e, d)) ->
    Nat.eqb (length (uslots d)) 1 = true -> tv (uname d) = vzero k ->
    Nat.eqb (length sl) 1 = false ->
    vroot (fst (uppass tv k (UNode n cm sl))) = vroot (fst (uppass tv k (UNode n cm (set_nth i None sl)))) /\
    snd (uppass tv k (UNode n cm sl)) = S (snd (uppass tv k (UNode n cm (set_nth i None sl)))).
Proof. exact stateless_tip_costs_one_step. Qed.
Print Assumptions C12_stateless_tip_costs_one_step.

Theorem C12_unknown_characters_have_no_state :
  forall c, iupac (upper c) = [] -> nt_vec c = vzero 6.
Proof. exact nt_vec_unknown. Qed.
Print Assumptions C12_unknown_characters_have_no_state.

(** * the returned map (buildInternalNamesToStatesMap): one entry per key; when several inner
      nodes have the same key (same name, or a name equal to the id of an unnamed node) the
      entry holds the states of the last of them in pre-order *)
Theorem C12_acr_map_last_wins :
  forall t alpha vs key,
    lookup key (acr_map_of t alpha vs) = lookup key (rev (map_entries t alpha vs)).
Proof. exact acr_map_last_wins. Qed.
Print Assumptions C12_acr_map_last_wins.

Theorem C12_acr_map_keys_unique :
  forall t alpha vs, NoDup (map fst (acr_map_of t alpha vs)).
Proof. exact acr_map_keys_unique. Qed.
Print Assumptions C12_acr_map_keys_unique.

(** * the sequence variant with random resolution: the draws are made node by node (all the
      sites of a node before the next node); projected on site j, the run is the one-character
      run with random resolution on the list of the draws made for that site *)
Theorem C12_rr_asr_site :
  forall (S : Type) (draw : nat -> S -> nat * S),
    (forall b s, 0 < b -> fst (draw b s) < b) ->
    forall t aln a s r s' j,
      2 <= degree t ->
      parsimony_asr_r S draw t aln a s = Ok (r, s') -> j < aln_length aln ->
      exists cs,
        nth j (asr_vecs r) [] = vflat (rr_vt (list nat) draw_list (asr_tipvec aln j) 6 t true a cs) /\
        nth j (asr_steps r) 0 = snd (parsimony true (asr_tipvec aln j) 6 a t).
Proof. exact parsimony_asr_r_site. Qed.
Print Assumptions C12_rr_asr_site.

(** per site: the step count is the minimum (unchanged by the random resolution); one state at
    every inner node; DOWNPASS / DELTRAN states occur in most-parsimonious labellings; the
    ACCTRAN labelling is most parsimonious *)
Theorem C12_rr_asr_site_props :
  forall (S : Type) (draw : nat -> S -> nat * S),
    (forall b s, 0 < b -> fst (draw b s) < b) ->
    forall t aln a s r s' j,
      wf t = true -> 2 <= degree t ->
      parsimony_asr_r S draw t aln a s = Ok (r, s') -> j < aln_length aln ->
      (forall n, In n (leaves t) -> exists x, nth x (asr_tipvec aln j n) 0 = 1) ->
      exists vt,
        nth j (asr_vecs r) [] = vflat vt /\
        is_mincost (asr_ts aln j) t (nth j (asr_steps r) 0) /\
        (forall w, In w (vinners vt) -> single w) /\
        (a = Downpass \/ a = Deltran ->
         forall q x v, node_at t q = Some x -> is_leaf x = false -> vec_at t vt q = Some v ->
                       forall y, nth y v 0 = 1 -> opt_state_at (asr_ts aln j) t q y) /\
        (a = Acctran -> optimal (asr_ts aln j) t (lab_of t vt)).
Proof. exact parsimony_asr_r_site_props. Qed.
Print Assumptions C12_rr_asr_site_props.

(** * the front ends *)
(** ParsimonyAcr refuses exactly when a tip has no state, with the message naming the first
    such tip in the depth-first order of the up-pass; with random resolution too, before any draw *)
Theorem C12_acr_error_iff :
  forall t m a e,
    parsimony_acr t m a = Err e <->
    exists n, first_missing m t n /\ e = "Tip " ++ n ++ " does not exist in the tip/state mapping file".
Proof. exact acr_error_iff. Qed.
Print Assumptions C12_acr_error_iff.

Theorem C12_acr_r_error_same :
  forall (S : Type) (draw : nat -> S -> nat * S) t m a s,
    (exists e, parsimony_acr_r S draw t m a s = Err e) <-> (exists e, parsimony_acr t m a = Err e).
Proof. exact acr_r_error_same. Qed.
Print Assumptions C12_acr_r_error_same.

(** ALGO_NONE: accepted by ParsimonyAcr (the up-pass vectors are returned), rejected by
    ParsimonyAsr although cmd/asr.go offers it; a missing sequence is reported first.
    (Any other algorithm number is outside the model's [algo] type: cmd maps the four names.) *)
Theorem C12_acr_none_is_uppass :
  forall skip tv k t, is_tip t = false ->
    fst (parsimony skip tv k NoPass t) = fst (uppass tv k t).
Proof. exact acr_none_is_uppass. Qed.
Print Assumptions C12_acr_none_is_uppass.

Theorem C12_asr_error_cases :
  forall t aln a,
    match find (fun n => match lookup n aln with Some _ => false | None => true end) (all_tip_names t) with
    | Some n => parsimony_asr t aln a = Err ("sequence " ++ n ++ " does not exist in the alignment") /\
                first_missing aln t n
    | None => match a with
              | NoPass => parsimony_asr t aln a = Err "parsimony algorithm 3 unkown"
              | _ => exists r, parsimony_asr t aln a = Ok r
              end
    end.
Proof. exact asr_error_cases. Qed.
Print Assumptions C12_asr_error_cases.

(** the step list of ParsimonyAsr has one entry per site and one more, always 0 *)
Theorem C12_asr_steps_trailing_zero :
  forall t aln a r, parsimony_asr t aln a = Ok r ->
    length (asr_steps r) = aln_length aln + 1 /\ nth (aln_length aln) (asr_steps r) 1 = 0.
Proof. exact asr_steps_trailing_zero. Qed.
Print Assumptions C12_asr_steps_trailing_zero.

(** * "delayed transformation": among the most-parsimonious labellings, those whose changes
      are as far from the root as possible ([delayed], Proofs/ParsimonyDelay.v).  The DELTRAN sets
      of the code are not the states of these labellings: on (a,(b,c)) with a=0, b=1, c=2 the code
      reports the three states at the root, every delayed labelling gives it state 0 (the code
      never resolves the root and only intersects a node with its parent's set).  Tested only,
      on all small trees: the delayed states are inside the DELTRAN sets, and the ACCTRAN sets
      are exactly the states of the accelerated labellings. *)
Theorem C12_deltran_sets_are_delayed_transformation_refuted :
  vroot (fst (parsimony false dw_tv 3 Deltran dw_tree)) = [1; 1; 1] /\
  forall l, shape_ok dw_tree l = true -> delayed dw_ts dw_tree l -> lroot l = 0.
Proof. exact deltran_sets_are_delayed_transformation_refuted. Qed.
Print Assumptions C12_deltran_sets_are_delayed_transformation_refuted.

(** * the remaining instantiations on the sequence variant *)
Theorem C12_asr_unambiguous :
  forall aln t j,
    wf t = true -> 2 <= degree t ->
    (forall n, In n (leaves t) -> exists x, nth x (asr_tipvec aln j n) 0 = 1) ->
    (vall single (asr_vt aln t j Downpass) -> optimal (asr_ts aln j) t (lab_of t (asr_vt aln t j Downpass))) /\
    (vall single (asr_vt aln t j Deltran) -> optimal (asr_ts aln j) t (lab_of t (asr_vt aln t j Deltran))) /\
    (vall single (asr_vt aln t j Acctran) -> optimal (asr_ts aln j) t (lab_of t (asr_vt aln t j Acctran))).
Proof.
  intros aln t j Hwf Hd Hv. split; [|split].
  - exact (asr_downpass_unambiguous aln t j Hwf Hd Hv).
  - exact (asr_deltran_unambiguous aln t j Hwf Hd Hv).
  - exact (asr_acctran_unambiguous aln t j Hwf Hd Hv).
Qed.
Print Assumptions C12_asr_unambiguous.

Theorem C12_asr_site_steps_reroot :
  forall aln t j,
    wf t = true -> 2 <= degree t ->
    (forall n, In n (leaves t) -> exists x, nth x (asr_tipvec aln j n) 0 = 1) ->
    forall a i t', reroot t i = Ok t' ->
      snd (parsimony true (asr_tv aln j) 6 a t') = snd (parsimony true (asr_tv aln j) 6 a t).
Proof. exact asr_site_steps_reroot. Qed.
Print Assumptions C12_asr_site_steps_reroot.

(** the theorems assume a root with at least two neighbours; on a root with one neighbour
    (a "tip" for the code) the reconstruction stops at the root: stated, not excused *)
Theorem C12_acr_root_with_one_neighbour_partial :
  forall t m a, is_tip t = true ->
    match lookup (uname t) m with
    | None => parsimony_acr t m a = Err ("Tip " ++ uname t ++ " does not exist in the tip/state mapping file")
    | Some _ => exists r, parsimony_acr t m a = Ok r /\ acr_steps r = 0
    end.
Proof. exact acr_root_with_one_neighbour. Qed.
Print Assumptions C12_acr_root_with_one_neighbour_partial.

(** * the statements are not vacuous: on the hand-worked tree of acr/acr_test.go *)
Lemma ex_hyps : wf ex_tree = true /\ 2 <= degree ex_tree /\
  forall n, In n (leaves ex_tree) -> exists s, lookup n ex_states = Some s.
Proof.
  split; [reflexivity|]. split; [unfold degree; simpl; auto|].
  intros n Hn. simpl in Hn.
  repeat (destruct Hn as [Hn|Hn]; [subst n; eexists; reflexivity|]). destruct Hn.
Qed.
Print Assumptions ex_hyps.

(** 4 steps is the minimum over all labellings (both bounds) *)
Example C12_example_minimum : is_mincost (acr_ts ex_states) ex_tree 4.
Proof.
  destruct ex_hyps as [Hw [Hd Hm]].
  destruct (parsimony_acr_ok ex_states ex_tree Hw Hd Hm Deltran) as [r [Hr [_ Hs]]].
  pose proof (acr_steps_optimal ex_tree ex_states Deltran r Hw Hd Hr) as M.
  rewrite Hs in M.
  assert (E : up_steps (acr_tv ex_states) (acr_k ex_states) ex_tree = 4) by (vm_compute; reflexivity).
  rewrite E in M. exact M.
Qed.
Print Assumptions C12_example_minimum.

(** DOWNPASS reports A and B at the inner node t19 (path 1,2) and both occur there in
    most-parsimonious labellings *)
Example C12_example_downpass_states :
  vec_at ex_tree (acr_vt ex_states ex_tree Downpass) [1; 2] = Some [1; 1] /\
  opt_state_at (acr_ts ex_states) ex_tree [1; 2] 0 /\ opt_state_at (acr_ts ex_states) ex_tree [1; 2] 1.
Proof.
  destruct ex_hyps as [Hw [Hd Hm]].
  assert (Hv : vec_at ex_tree (acr_vt ex_states ex_tree Downpass) [1; 2] = Some [1; 1]) by (vm_compute; reflexivity).
  split; [exact Hv|].
  assert (Hq : exists x, node_at ex_tree [1; 2] = Some x /\ is_leaf x = false) by (eexists; split; reflexivity).
  destruct Hq as [x [Hq Hx]].
  split; apply (acr_downpass_exact ex_states ex_tree Hw Hd Hm [1; 2] x [1; 1] Hq Hx Hv); reflexivity.
Qed.
Print Assumptions C12_example_downpass_states.

(** the DELTRAN output is unambiguous at every node, hence most parsimonious *)
Example C12_example_deltran_unambiguous :
  optimal (acr_ts ex_states) ex_tree (lab_of ex_tree (acr_vt ex_states ex_tree Deltran)).
Proof.
  destruct ex_hyps as [Hw [Hd Hm]].
  apply (acr_deltran_unambiguous ex_states ex_tree Hw Hd Hm).
  intros v Hv.
  replace (vflat (acr_vt ex_states ex_tree Deltran)) with
      [[1; 0]; [1; 0]; [1; 0]; [1; 0]; [1; 0]; [1; 0]; [0; 1]; [1; 0]; [0; 1]; [1; 0]; [1; 0]; [0; 1];
       [1; 0]; [1; 0]; [0; 1]; [1; 0]; [1; 0]; [1; 0]; [1; 0]; [1; 0]; [1; 0]] in Hv by (vm_compute; reflexivity).
  simpl in Hv.
  repeat (destruct Hv as [Hv|Hv];
          [subst v; first [ exists 0; split; [reflexivity|]; intros [|[|[|z]]] Hz; simpl in Hz; try reflexivity; discriminate
                          | exists 1; split; [reflexivity|]; intros [|[|[|z]]] Hz; simpl in Hz; try reflexivity; discriminate ]|]).
  destruct Hv.
Qed.
Print Assumptions C12_example_deltran_unambiguous.

(** re-rooting at the inner node t20 is defined and keeps the 4 steps *)
Example C12_example_reroot :
  exists t' r', reroot ex_tree 2 = Ok t' /\ parsimony_acr t' ex_states Acctran = Ok r' /\ acr_steps r' = 4.
Proof.
  destruct ex_hyps as [Hw [Hd Hm]].
  destruct (reroot ex_tree 2) as [t'|msg] eqn:E; [|vm_compute in E; discriminate].
  destruct (parsimony_acr_ok ex_states ex_tree Hw Hd Hm Acctran) as [r [Hr [_ Hs]]].
  destruct (acr_reroot_defined ex_tree ex_states Acctran r 2 t' Hw Hd E Hr) as [r' Hr'].
  exists t', r'. split; [reflexivity|]. split; [exact Hr'|].
  rewrite (acr_steps_reroot ex_tree ex_states Acctran r 2 t' r' Hw Hd E Hr Hr'), Hs. vm_compute. reflexivity.
Qed.
Print Assumptions C12_example_reroot.

(** a small alignment with ambiguity codes, a gap and lower case on (a,b,(c,d)): the hypotheses
    of the sequence-variant theorems hold at every site, and site 0 (a c A c: unambiguous) agrees
    with the character variant *)
Definition ex_aln : list (string * string) := [("a", "aR-"); ("b", "cAY"); ("c", "AnG"); ("d", "cGt")].
Example C12_example_alignment :
  wf rw_tree1 = true /\ 2 <= degree rw_tree1 /\
  (forall j, j < 3 -> forall n, In n (leaves rw_tree1) -> exists x, nth x (asr_tipvec ex_aln j n) 0 = 1) /\
  (forall n s, In (n, s) ex_aln -> exists c, string_nth 0 s = Some c /\ In (upper c) unamb_chars) /\
  snd (parsimony true (asr_tipvec ex_aln 0) 6 Downpass rw_tree1) = 2.
Proof.
  split; [reflexivity|]. split; [unfold degree; simpl; auto|]. split; [|split].
  - intros j Hj n Hn. simpl in Hn.
    destruct j as [|[|[|j]]]; [| | |exfalso; inversion Hj as [|? H1]; inversion H1 as [|? H2]; inversion H2 as [|? H3]; inversion H3];
      repeat (destruct Hn as [Hn|Hn];
              [subst n; first [exists 0; reflexivity | exists 1; reflexivity | exists 2; reflexivity
                              | exists 3; reflexivity | exists 4; reflexivity]|]); destruct Hn.
  - intros n s Hin. simpl in Hin.
    repeat (destruct Hin as [Hin|Hin]; [inversion Hin; subst; eexists; split; [reflexivity | vm_compute; auto 10]|]).
    destruct Hin.
  - vm_compute. reflexivity.
Qed.
Print Assumptions C12_example_alignment.
