(** C12: parsimony reconstruction is optimal.
    Statements about the model Model/Parsimony.v (acr/parsimony.go, asr/parsimony.go, tied to the
    code by the correspondence check of Judge/C12.v) for ALL well-formed trees of any degree
    and all tip-state assignments.  Vocabulary: Spec/Parsimony.v ([cost] of a labelling =
    number of branches whose ends differ, a tip costing 0 against any state of its set;
    [is_mincost] = least cost over all labellings; [optimal]; [opt_state]).
    Proofs in Proofs/Parsimony{Vec,Hartigan,Reroot,Main}.v. *)
From Coq Require Import String ZArith QArith Bool Arith List.
From GT Require Import Base.UTree Spec.Obs Spec.Parsimony Model.Reroot Model.Parsimony
     Proofs.ParsimonyVec Proofs.ParsimonyHartigan Proofs.ParsimonyReroot Proofs.ParsimonyMain.
Import ListNotations.
Local Close Scope Q_scope.
Local Open Scope string_scope.

(** * the up-pass (Hartigan's generalisation of Fitch), for any tip vectors that are the
      indicators of non-empty state sets (single states, or IUPAC sets) *)
Theorem C12_up_steps_minimum :
  forall tv ts k t,
    wf t = true -> degree t <> 1 ->
    (forall n, In n (leaves t) -> tip_ok tv ts k n) ->
    is_mincost ts t (up_steps tv k t).
Proof. exact up_steps_mincost. Qed.
Print Assumptions C12_up_steps_minimum.

(** the vector kept at the root marks exactly the states the root takes in the
    most-parsimonious labellings *)
Theorem C12_up_root_states :
  forall tv ts k t x,
    wf t = true -> degree t <> 1 -> is_leaf t = false ->
    (forall n, In n (leaves t) -> tip_ok tv ts k n) ->
    (nth x (U tv k t) 0 = 1 <-> exists l, optimal ts t l /\ lroot l = x).
Proof. exact up_root_states. Qed.
Print Assumptions C12_up_root_states.

(** * the specification's minimum does not depend on the rooting *)
Theorem C12_mincost_reroot :
  forall ts t i t' m,
    wf t = true -> degree t <> 1 -> reroot t i = Ok t' ->
    is_mincost ts t m -> (is_mincost ts t' m /\ wf t' = true /\ 2 <= degree t').
Proof. exact reroot_mincost. Qed.
Print Assumptions C12_mincost_reroot.

Theorem C12_up_steps_reroot :
  forall tv ts k t i t',
    wf t = true -> 2 <= degree t ->
    (forall n, In n (leaves t) -> tip_ok tv ts k n) ->
    reroot t i = Ok t' ->
    up_steps tv k t' = up_steps tv k t.
Proof. exact up_steps_reroot. Qed.
Print Assumptions C12_up_steps_reroot.

(** * ParsimonyAcr: the reported number of steps is the true minimum, for the three
      algorithms, and does not depend on the rooting *)
Theorem C12_acr_steps_optimal :
  forall t m a r,
    wf t = true -> 2 <= degree t -> parsimony_acr t m a = Ok r ->
    is_mincost (acr_ts m) t (acr_steps r).
Proof. exact acr_steps_optimal. Qed.
Print Assumptions C12_acr_steps_optimal.

Theorem C12_acr_steps_reroot :
  forall t m a r i t' r',
    wf t = true -> 2 <= degree t -> reroot t i = Ok t' ->
    parsimony_acr t m a = Ok r -> parsimony_acr t' m a = Ok r' ->
    acr_steps r' = acr_steps r.
Proof. exact acr_steps_reroot. Qed.
Print Assumptions C12_acr_steps_reroot.

Theorem C12_acr_reroot_defined :
  forall t m a r i t',
    wf t = true -> 2 <= degree t -> reroot t i = Ok t' ->
    parsimony_acr t m a = Ok r -> exists r', parsimony_acr t' m a = Ok r'.
Proof. exact acr_reroot_defined. Qed.
Print Assumptions C12_acr_reroot_defined.
