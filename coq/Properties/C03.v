(** C03: every successful edit leaves a well-formed tree; enumerations agree. *)
From Coq Require Import String ZArith QArith Bool Arith Permutation List.
From GT Require Import Base.UTree Model.Reroot Model.History Model.Newick Model.NewickNum Spec.Obs Spec.NewickSpec
     Proofs.Enum Proofs.Unroot Proofs.History.
Import ListNotations.
Local Close Scope Q_scope.
Local Open Scope string_scope.

(** branches = nodes - 1 *)
Theorem C03_edges_nodes : forall t, wf t = true -> length (edges t) + 1 = length (nodes t).
Proof. exact edges_nodes. Qed.
Print Assumptions C03_edges_nodes.

(** all branches = internal + external ones (as multisets), with the right kind in each list *)
Theorem C03_edges_split : forall t, Permutation (edges t) (internal_edges t ++ tip_edges t).
Proof. exact edges_split. Qed.
Print Assumptions C03_edges_split.

Theorem C03_tip_edges_are_tips : forall t p, In p (tip_edges t) -> is_tip (snd p) = true.
Proof. exact tip_edges_are_tips. Qed.
Print Assumptions C03_tip_edges_are_tips.

Theorem C03_internal_edges_are_inner : forall t p, In p (internal_edges t) -> is_tip (snd p) = false.
Proof. exact internal_edges_are_inner. Qed.
Print Assumptions C03_internal_edges_are_inner.

(** external branches = tips (the root of a tree with >= 2 root branches is not a tip) *)
Theorem C03_tip_edges_tips : forall t, wf t = true -> is_tip t = false ->
  length (tip_edges t) = length (tips t).
Proof. exact tip_edges_tips. Qed.
Print Assumptions C03_tip_edges_tips.

(** * Histories of edits on one tree object

    [op], [run_op], [run_step], [run]: Model/History.v -- the 19 public editing operations
    (reroot, unroot, reroot on an outgroup, midpoint, rotate, sort, prune, collapse by length /
    support / depth, resolve, remove single nodes, graft, insert identical tips, merge, NNI apply
    (undo), rename, clone, subtree), each dispatching to the model that is compared with the Go
    code after every step of every history by Judge/C03.v; a step optionally starts with
    ReinitIndexes; a history stops at the first refusal.

    [side s t] (Proofs/History.v): what the lemma of the operation of step [s] needs beyond
    [wf t] -- nothing for reroot, unroot, rotate, sort, the three collapses, resolve, remove single
    nodes, NNI, rename, clone, subtree; well-formed argument trees for graft and merge; root with
    at least two neighbours for outgroup (plus distinct tip names when the outgroup is removed),
    midpoint (plus: not the two-tip tree), prune (plus: no single-child inner node -- the
    proviso of the property -- and distinct tip names) and insert (plus: no empty tip name).
    Distinct tip names follow from the success of ReinitIndexes at the start of the step.
    [sides ops t0]: [side] holds at every state the history goes through. *)

(** one step *)
Theorem C03_step : forall s t t',
  wf t = true -> side s t -> run_step s t = Ok t' -> wf t' = true.
Proof. exact run_step_wf. Qed.
Print Assumptions C03_step.

(** any history: by induction on the list of operations *)
Theorem C03_history : forall ops t0 t,
  wf t0 = true -> sides ops t0 -> run ops t0 = Ok t -> wf t = true.
Proof. exact history_wf. Qed.
Print Assumptions C03_history.

(** every intermediate state too *)
Theorem C03_history_prefix : forall ops1 ops2 t0 t,
  wf t0 = true -> sides (ops1 ++ ops2) t0 -> run (ops1 ++ ops2) t0 = Ok t ->
  exists t1, run ops1 t0 = Ok t1 /\ wf t1 = true /\ run ops2 t1 = Ok t.
Proof. exact history_prefix_wf. Qed.
Print Assumptions C03_history_prefix.

(** no side condition at all for histories over reroot, unroot, rotate, sort, collapse by length /
    support / depth, resolve, remove single nodes, NNI apply/undo, rename, clone, subtree *)
Theorem C03_history_unconditional : forall ops t0 t,
  Forall (fun s => unconditional (snd s) = true) ops ->
  wf t0 = true -> run ops t0 = Ok t -> wf t = true.
Proof. exact history_wf_unconditional. Qed.
Print Assumptions C03_history_unconditional.

(** the side conditions are decidable: [sides_b] (Model/History.v) *)
Theorem C03_sides_decidable : forall ops t, sides_b ops t = true -> sides ops t.
Proof. exact sides_b_sound. Qed.
Print Assumptions C03_sides_decidable.

Theorem C03_history_decidable : forall ops t0 t,
  wf t0 = true -> sides_b ops t0 = true -> run ops t0 = Ok t -> wf t = true.
Proof. exact history_wf_b. Qed.
Print Assumptions C03_history_decidable.

(** when a step starts with a successful ReinitIndexes the tip names are pairwise distinct *)
Theorem C03_reinit_distinct : forall t u,
  wf t = true -> 2 <= degree t -> reinit t = Ok u -> NoDup (leaves t).
Proof. exact reinit_NoDup_leaves. Qed.
Print Assumptions C03_reinit_distinct.

(** a rooted tree with at least three tips is not the two-tip tree (RerootOutGroup refuses
    fewer than three tips since the fix of the crash found by this check) *)
Theorem C03_rooted_three_tips : forall t,
  wf t = true -> 3 <= length (tips t) -> rooted t = true -> root_has_inner_child t = true.
Proof. exact rooted_three_tips. Qed.
Print Assumptions C03_rooted_three_tips.

(** after any successful history the enumerations agree *)
Theorem C03_history_enumerations : forall ops t0 t,
  wf t0 = true -> sides ops t0 -> run ops t0 = Ok t ->
  length (edges t) + 1 = length (nodes t) /\
  Permutation (edges t) (internal_edges t ++ tip_edges t) /\
  (forall p, In p (tip_edges t) -> is_tip (snd p) = true) /\
  (forall p, In p (internal_edges t) -> is_tip (snd p) = false) /\
  (is_tip t = false -> length (tip_edges t) = length (tips t)).
Proof. exact history_enumerations. Qed.
Print Assumptions C03_history_enumerations.

(** ... and, when the final tree is inside the writer's domain (the quantifier of C01), the
    Newick text written for it is read back as the same rooted ordered tree with all its
    decorations, which is well formed and is written as the same text *)
Theorem C03_history_text : forall ops t0 t,
  wf t0 = true -> sides ops t0 -> run ops t0 = Ok t ->
  wfN numericC numokC t = true ->
  exists t', parse numericC parse_numC (write fmt_go t) = POk t' /\
             rose_eqb (rose_of t') (rose_of t) = true /\
             write fmt_go t' = write fmt_go t /\
             wf t' = true.
Proof. exact history_text. Qed.
Print Assumptions C03_history_text.

(** * the hypotheses are satisfiable: closed histories over all 19 operations, every side
    condition checked at the state where it is needed, running to the end *)
Definition lf (n : string) : utree := UNode n [] [None].
Definition ed (l : Q) : einfo := mkE l nilv nilv [].
Definition eds (l s : Q) : einfo := mkE l s nilv [].
(** ((a:1,b:2)0.5:1,(c:1,d:1)0.75:2,e:3);  and  ((a:1,b:2)0.5:1,(c:0,d:1)0.75:2); *)
Definition ex_start : utree :=
  UNode "" [] [Some (eds 1 (1#2), UNode "" [] [None; Some (ed 1, lf "a"); Some (ed 2, lf "b")]);
               Some (eds 2 (3#4), UNode "" [] [Some (ed 1, lf "c"); None; Some (ed 1, lf "d")]);
               Some (ed 3, lf "e")].
Definition ex_rooted : utree :=
  UNode "" [] [Some (eds 1 (1#2), UNode "" [] [None; Some (ed 1, lf "a"); Some (ed 2, lf "b")]);
               Some (eds 2 (3#4), UNode "" [] [Some (ed 0, lf "c"); None; Some (ed 1, lf "d")])].
Definition ex_graft : utree := UNode "" [] [Some (ed 1, lf "x"); Some (ed 1, lf "y")].
Definition ex_second : utree := UNode "" [] [Some (ed 1, lf "p"); Some (ed 1, lf "q")].
Definition ex_a : list (bool * op) :=
  [(true, OReroot 1); (true, OOutgroup false false ["c"; "d"]); (true, OPrune false ["e"]);
   (true, OMidpoint); (true, OInsert [["a"; "a2"]]); (true, OGraft "b" ex_graft)].
Definition ex_b : list (bool * op) :=
  [(true, OMerge ex_second); (false, ONni 0 true); (false, ONni 1 false);
   (true, OOutgroup true true ["p"; "q"]); (false, ORotate [0;0;1;0;1;2;0;0;0;1;0;0;1]); (false, OSort)].
Definition ex_c : list (bool * op) :=
  [(true, OCollapseLen 0 false false); (false, OResolve [0;1;0]); (false, ORmSingle);
   (true, ORename "a" "z"); (false, OClone); (false, OSubtree 1)].
Definition ex_d : list (bool * op) :=
  [(true, OUnroot); (true, OCollapseDepth 2 2 false false); (true, OCollapseSup (7#8) false)].
Definition ex_ok (ops : list (bool * op)) (t : utree) : bool := wf t && sides_b ops t && run_ok_b ops t.

Example C03_example_a : ex_ok ex_a ex_start = true.
Proof. vm_compute. reflexivity. Qed.
Print Assumptions C03_example_a.
Example C03_example_b : ex_ok ex_b ex_rooted = true.
Proof. vm_compute. reflexivity. Qed.
Print Assumptions C03_example_b.
Example C03_example_c : ex_ok ex_c ex_rooted = true.
Proof. vm_compute. reflexivity. Qed.
Print Assumptions C03_example_c.
Example C03_example_d : ex_ok ex_d ex_rooted = true.
Proof. vm_compute. reflexivity. Qed.
Print Assumptions C03_example_d.
Example C03_example_text :
  match run ex_a ex_start with Ok t => write fmt_go t | Err m => m end =
  "(((a2:0,a:0):1,(x:1,y:1):2)0.75:1,(c:1,d:1)0.75:2);".
Proof. vm_compute. reflexivity. Qed.
Print Assumptions C03_example_text.
