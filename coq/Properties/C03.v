(** C03: every successful edit leaves a well-formed tree; enumerations agree. *)
From Coq Require Import String ZArith QArith Bool Arith Permutation List.
From GT Require Import Base.UTree Proofs.Enum.
Import ListNotations.
Local Close Scope Q_scope.

(** branches = nodes - 1 *)
Theorem C03_edges_nodes : forall t, wf t = true -> length (edges t) + 1 = length (nodes t).
Proof. exact edges_nodes. Qed.
Print Assumptions C03_edges_nodes.

(** all branches = internal + external ones (as multisets), with the right kind in each list *)
Theorem C03_edges_split : forall t, Permutation (edges t) (internal_edges t ++ tip_edges t).
Proof. exact edges_split. Qed.
Print Assumptions C03_edges_split.

Theorem C03_tip_edges_are_tips : forall t p, In p (tip_edges t) -> is_tip (snd p) = true.
Proof. exact tip_edges_are_tips. Qed.
Print Assumptions C03_tip_edges_are_tips.

Theorem C03_internal_edges_are_inner : forall t p, In p (internal_edges t) -> is_tip (snd p) = false.
Proof. exact internal_edges_are_inner. Qed.
Print Assumptions C03_internal_edges_are_inner.

(** external branches = tips (the root of a tree with >= 2 root branches is not a tip) *)
Theorem C03_tip_edges_tips : forall t, wf t = true -> is_tip t = false ->
  length (tip_edges t) = length (tips t).
Proof. exact tip_edges_tips. Qed.
Print Assumptions C03_tip_edges_tips.
