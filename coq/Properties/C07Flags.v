(** C07, companion: removeRoot = true at oracle level, alone and together with removeTips = true.
    On a tree of the unrooted domain removeRoot has no effect, so the clauses of Judge/C07.v
    ([collapse_ok], and [collapse_ok_tips] for --tips) hold for the model's output with
    removeRoot = true as well; the judge applies them there.  On a tree of the rooted domain the
    same holds whenever neither root branch is a selected inner branch. *)
From Coq Require Import String ZArith QArith Bool Arith List.
From GT Require Import Base.UTree Spec.Obs Spec.Contract Model.Reroot Model.Collapse Proofs.CollapseExact
     Proofs.CollapseOracleFull Proofs.RootedUSplits Proofs.CollapseFlags.
Import ListNotations.
Local Close Scope Q_scope.

Theorem C07_oracle_accepts_removeRoot_len :
  forall l t, unrooted t -> collapse_ok (CLen l) t (collapse_len l true false t) = None.
Proof. exact rr_len_oracle. Qed.
Print Assumptions C07_oracle_accepts_removeRoot_len.

Theorem C07_oracle_accepts_removeRoot_sup :
  forall x t, unrooted t -> collapse_ok (CSup x) t (collapse_sup x true t) = None.
Proof. exact rr_sup_oracle. Qed.
Print Assumptions C07_oracle_accepts_removeRoot_sup.

Theorem C07_oracle_accepts_removeRoot_depth :
  forall mn mx t, unrooted t ->
  exists g, collapse_depth mn mx true false t = Ok g /\ collapse_ok (CDepth mn mx) t g = None.
Proof. exact rr_depth_oracle. Qed.
Print Assumptions C07_oracle_accepts_removeRoot_depth.

Theorem C07_oracle_accepts_removeRoot_tips_len :
  forall l t, unrooted t -> collapse_ok_tips (CLen l) t (collapse_len l true true t) = None.
Proof. exact rr_tips_len_oracle. Qed.
Print Assumptions C07_oracle_accepts_removeRoot_tips_len.

Theorem C07_oracle_accepts_removeRoot_tips_depth :
  forall mn mx t, unrooted t ->
  exists g, collapse_depth mn mx true true t = Ok g /\ collapse_ok_tips (CDepth mn mx) t g = None.
Proof. exact rr_tips_depth_oracle. Qed.
Print Assumptions C07_oracle_accepts_removeRoot_tips_depth.

(** rooted trees: neither root branch is a selected inner branch *)
Theorem C07_rooted_oracle_accepts_removeRoot_len :
  forall l (rt : bool) t,
  rooted_dom t -> root_branches_stay (fun e _ => sel_len l e) t ->
  (if rt then collapse_ok_tips (CLen l) t (collapse_len l true rt t) else collapse_ok (CLen l) t (collapse_len l true rt t)) = None.
Proof. exact rooted_rr_len_oracle. Qed.
Print Assumptions C07_rooted_oracle_accepts_removeRoot_len.

Theorem C07_rooted_oracle_accepts_removeRoot_sup :
  forall x t, rooted_dom t -> root_branches_stay (fun e _ => sel_sup x e) t ->
  collapse_ok (CSup x) t (collapse_sup x true t) = None.
Proof. exact rooted_rr_sup_oracle. Qed.
Print Assumptions C07_rooted_oracle_accepts_removeRoot_sup.

Theorem C07_rooted_oracle_accepts_removeRoot_depth :
  forall mn mx (rt : bool) t,
  rooted_dom t -> root_branches_stay (fun _ c => sel_depth t mn mx c) t ->
  exists g, collapse_depth mn mx true rt t = Ok g /\
            (if rt then collapse_ok_tips (CDepth mn mx) t g else collapse_ok (CDepth mn mx) t g) = None.
Proof. exact rooted_rr_depth_oracle. Qed.
Print Assumptions C07_rooted_oracle_accepts_removeRoot_depth.

(** * non-vacuity: ((a:1,b:1/4,(f:1,g:1):1/4)0.9:2,(c:1,d:1,e:1)0.3:3) with -l 1/2 --tips and
    removeRoot: both root branches stay (lengths 2 and 3), the inner branch of length 1/4 is
    contracted and the tip branch of b is set to 0 *)
Local Open Scope string_scope.
Definition ft (n : string) (l : Q) : slot := Some (mkE l nilv nilv [], UNode n [] [None]).
Definition fr : utree :=
  UNode "" [] [Some (mkE 2 (9#10) nilv [], UNode "" [] [None; ft "a" 1; ft "b" (1#4);
                      Some (mkE (1#4) nilv nilv [], UNode "" [] [None; ft "f" 1; ft "g" 1])]);
               Some (mkE 3 (3#10) nilv [], UNode "" [] [None; ft "c" 1; ft "d" 1; ft "e" 1])]%Q.
Example C07_flags_example :
  root_branches_stay (fun e _ => sel_len (1#2)%Q e) fr /\
  collapse_len (1#2)%Q true true fr <> fr /\
  collapse_ok_tips (CLen (1#2)%Q) fr (collapse_len (1#2)%Q true true fr) = None /\
  (* the clause rejects the output of the call without --tips *)
  collapse_ok_tips (CLen (1#2)%Q) fr (collapse_len (1#2)%Q true false fr) <> None.
Proof.
  split.
  - intros e c H. simpl in H. destruct H as [H|[H|[]]]; injection H as <- <-; reflexivity.
  - vm_compute. repeat split; try reflexivity; discriminate.
Qed.
Print Assumptions C07_flags_example.
