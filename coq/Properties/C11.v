(** C11: threaded computations are schedule-independent and terminate.
    [Gen.Pools.goroutines] is regenerated from /repo by tools/gotrans on every run.  The
    theorems about the pool model itself (every schedule, every worker count) are in
    Properties/C11Pool.v; here the hypotheses of that model are discharged on the current
    source. *)
From Coq Require Import String Bool Arith List.
From GT Require Import Model.PoolFacts Model.PoolTargets Gen.Pools.
Import ListNotations.

(** the four worker literals (Compare, CompareWeighted, FBP, TBE) are present in the source *)
Theorem C11_targets_found : all_targets_found goroutines = true.
Proof. vm_compute. reflexivity. Qed.
Print Assumptions C11_targets_found.

(** in each of them: no captured variable is assigned outside a mutex-protected statement (the
    job body is a function of the job), the worker ranges over its job channel, signals
    completion, and no return path skips the signal *)
Theorem C11_workers_satisfy_pool_hypotheses : all_targets_ok goroutines = true.
Proof. vm_compute. reflexivity. Qed.
Print Assumptions C11_workers_satisfy_pool_hypotheses.

Theorem C11_each_target_ok :
  forall g, In g goroutines -> is_target g = true -> worker_ok g = true.
Proof.
  intros g Hin Ht.
  pose proof C11_workers_satisfy_pool_hypotheses as H. unfold all_targets_ok, target_facts in H.
  rewrite forallb_forall in H. apply H. apply filter_In. split; assumption.
Qed.
Print Assumptions C11_each_target_ok.
