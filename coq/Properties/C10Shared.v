(** C10, all interleavings with other work in the same process: the functions this property is anchored in
    keep no state outside their arguments.
    [globals] (Gen/Globals.v) is regenerated from the Go sources on every run: every package-level
    variable of the library packages with the functions that refer to it and write it.  A variable
    is [shared] when some function writes it after initialisation, or when its type can alias
    storage (slice, map, pointer, ...) and some function refers to it.  Such a variable is state
    that a call on one tree leaves behind for a call on another tree, in the same or in another
    goroutine (a scratch buffer, a cache); the functional model of the operations has no place
    for it, so a new one must be reviewed (Model/Globals.v [reviewed_globals]) or the model extended. *)
From Coq Require Import String List Arith.
From GT Require Import Model.Globals Gen.Globals Proofs.Independence Model.Narrow Gen.Narrow Proofs.Narrow Model.Structs Gen.Structs.
Import ListNotations.
Local Open Scope string_scope.

Definition C10_packages : list string := ["support"; "tree"].

Theorem C10_no_shared_state : unreviewed_shared C10_packages globals = [].
Proof. vm_compute. reflexivity. Qed.
Print Assumptions C10_no_shared_state.

(** [narrow_sites] (Gen/Narrow.v, regenerated on every run): every place of the library packages where
    a numeric type narrower than 64 bits is spelled out.  The models count with unbounded numbers;
    a count kept in such a type wraps (Proofs/Narrow.v [count_w_wraps]) at sizes the theorems
    cover, so every such place in the packages of this property is either in the reviewed table
    (character data, colour components, flags: Model/Narrow.v) or an open obligation. *)
Theorem C10_no_narrow_counters : unreviewed_narrow C10_packages narrow_sites = [].
Proof. vm_compute. reflexivity. Qed.
Print Assumptions C10_no_narrow_counters.

(** [structs] (Gen/Structs.v, regenerated on every run): the fields of every named struct type of
    the library packages.  Every field of the types in this property's packages is in the reviewed
    table (Model/Structs.v): the objects hold exactly the state the models give them, no cache,
    scratch buffer or flag has been added to a tree, node, branch, index, scanner, rearranger ... *)
Theorem C10_no_new_fields : unreviewed_fields C10_packages structs = [].
Proof. vm_compute. reflexivity. Qed.
Print Assumptions C10_no_new_fields.

(** what it buys: when no step reads or writes the shared store, every interleaving of calls made by
    different threads on their own data leaves the store alone and gives each thread the result of
    running alone ([alone]); see Proofs/Independence.v for the converse example (a shared scratch
    buffer makes the result depend on the schedule) *)
Theorem C10_independent_of_schedule :
  forall (L G : Type) (step : nat -> L -> G -> L * G), local_only L G step ->
  forall sch ls g,
    snd (run L G step sch (ls, g)) = g /\
    forall i, fst (run L G step sch (ls, g)) i = alone L G step i (count_occ Nat.eq_dec sch i) (ls i) g.
Proof. exact run_independent. Qed.
Print Assumptions C10_independent_of_schedule.
