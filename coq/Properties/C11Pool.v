(** C11 (concurrency part): the goroutine worker pool of tree.Compare / CompareWeighted /
    support.FBP / support.TBE, as modelled in Model/Pool.v (small-step interleaving; a schedule
    is a list of agent indexes, 0 = producer, i+1 = worker i).
    Every theorem holds for EVERY schedule, every number of workers [n], every job list, every
    job body [f], every error predicate [fails] / error value [e_of].
    [on_fail]: Continue = the error is put in the result and the worker goes on (Compare,
    CompareWeighted); Stop = the worker records the error and returns (FBP).
    [done_on_exit]: every return path of the worker runs wg.Done(). *)
From Coq Require Import Bool Arith List Permutation.
From GT Require Import Model.Pool Proofs.Pool Proofs.PoolLive Proofs.PoolMain.
Import ListNotations.

Local Arguments pending {job res err} s.
Local Arguments closed {job res err} s.
Local Arguments queue {job res err} s.
Local Arguments ws {job res err} s.
Local Arguments out {job res err} s.
Local Arguments errs {job res err} s.
Local Arguments run {job res err}.
Local Arguments init {job res err}.
Local Arguments finished {job res err} s.
Local Arguments busy_jobs {job res err} s.
Local Arguments drain_schedule {job res err} s.

(** * T1 conservation: at every moment every job is in exactly one place
    (not yet sent, in the channel, held by a worker, processed); the results received so far
    and the errors reported so far are those of the processed jobs, in completion order
    (under Stop the erroneous job yields no result) *)
Theorem pool_conservation_jobs :
  forall (job res err : Type) (f : job -> res) (fails : job -> bool) (e_of : job -> err)
         (on_fail : fail_mode) (done_on_exit : bool) (jobs : list job) (n : nat) (sched : list nat),
    let s := run f fails e_of on_fail done_on_exit sched (init jobs n) in
    exists processed,
      Permutation jobs (pending s ++ queue s ++ busy_jobs s ++ processed)
      /\ out s = match on_fail with
                 | Continue => map f processed
                 | Stop => map f (filter (fun j => negb (fails j)) processed)
                 end
      /\ errs s = map e_of (filter fails processed).
Proof. exact conservation_jobs. Qed.
Print Assumptions pool_conservation_jobs.

Theorem pool_conservation_results_continue :
  forall (job res err : Type) (f : job -> res) (fails : job -> bool) (e_of : job -> err)
         (done_on_exit : bool) (jobs : list job) (n : nat) (sched : list nat),
    let s := run f fails e_of Continue done_on_exit sched (init jobs n) in
    Permutation (map f jobs)
                (out s ++ map f (busy_jobs s) ++ map f (queue s) ++ map f (pending s)).
Proof. exact conservation_results_continue. Qed.
Print Assumptions pool_conservation_results_continue.

(** no erroneous job: the same for both fail modes (in particular Stop) *)
Theorem pool_conservation_results_nofail :
  forall (job res err : Type) (f : job -> res) (fails : job -> bool) (e_of : job -> err)
         (on_fail : fail_mode) (done_on_exit : bool) (jobs : list job) (n : nat) (sched : list nat),
    (forall j, In j jobs -> fails j = false) ->
    let s := run f fails e_of on_fail done_on_exit sched (init jobs n) in
    Permutation (map f jobs)
                (out s ++ map f (busy_jobs s) ++ map f (queue s) ++ map f (pending s)).
Proof. exact conservation_results_nofail. Qed.
Print Assumptions pool_conservation_results_nofail.

(** * T2 the multiset of results depends neither on the interleaving nor on [n] *)
Theorem pool_results_continue :
  forall (job res err : Type) (f : job -> res) (fails : job -> bool) (e_of : job -> err)
         (done_on_exit : bool) (jobs : list job) (n : nat) (sched : list nat),
    1 <= n ->
    let s := run f fails e_of Continue done_on_exit sched (init jobs n) in
    finished s = true -> Permutation (out s) (map f jobs).
Proof. exact results_continue. Qed.
Print Assumptions pool_results_continue.

Theorem pool_results_nofail :
  forall (job res err : Type) (f : job -> res) (fails : job -> bool) (e_of : job -> err)
         (on_fail : fail_mode) (done_on_exit : bool) (jobs : list job) (n : nat) (sched : list nat),
    (forall j, In j jobs -> fails j = false) -> 1 <= n ->
    let s := run f fails e_of on_fail done_on_exit sched (init jobs n) in
    finished s = true -> Permutation (out s) (map f jobs).
Proof. exact results_nofail. Qed.
Print Assumptions pool_results_nofail.

Theorem pool_results_two_runs :
  forall (job res err : Type) (f : job -> res) (fails : job -> bool) (e_of : job -> err)
         (on_fail : fail_mode) (done_on_exit : bool) (jobs : list job)
         (n1 n2 : nat) (sched1 sched2 : list nat),
    on_fail = Continue \/ (forall j, In j jobs -> fails j = false) ->
    1 <= n1 -> 1 <= n2 ->
    let s1 := run f fails e_of on_fail done_on_exit sched1 (init jobs n1) in
    let s2 := run f fails e_of on_fail done_on_exit sched2 (init jobs n2) in
    finished s1 = true -> finished s2 = true -> Permutation (out s1) (out s2).
Proof. exact results_two_runs. Qed.
Print Assumptions pool_results_two_runs.

(** the hypothesis 1 <= n cannot be dropped: without workers wg.Wait() returns at once *)
Theorem pool_results_need_a_worker :
  forall (job res err : Type) (f : job -> res) (fails : job -> bool) (e_of : job -> err)
         (on_fail : fail_mode) (done_on_exit : bool) (jobs : list job) (sched : list nat),
    let s := run f fails e_of on_fail done_on_exit sched (init jobs 0) in
    finished s = true /\ out s = [] /\ errs s = [].
Proof. exact results_need_a_worker. Qed.
Print Assumptions pool_results_need_a_worker.

(** * T3 errors reach the caller (both fail modes; holds whatever [done_on_exit] is, in
    particular for [done_on_exit = true]) *)
Theorem pool_errors_reach_caller :
  forall (job res err : Type) (f : job -> res) (fails : job -> bool) (e_of : job -> err)
         (on_fail : fail_mode) (done_on_exit : bool) (jobs : list job) (n : nat) (sched : list nat),
    1 <= n ->
    let s := run f fails e_of on_fail done_on_exit sched (init jobs n) in
    finished s = true -> (exists j, In j jobs /\ fails j = true) -> errs s <> [].
Proof. exact errors_reach_caller'. Qed.
Print Assumptions pool_errors_reach_caller.

Theorem pool_errors_all_reported_continue :
  forall (job res err : Type) (f : job -> res) (fails : job -> bool) (e_of : job -> err)
         (done_on_exit : bool) (jobs : list job) (n : nat) (sched : list nat),
    1 <= n ->
    let s := run f fails e_of Continue done_on_exit sched (init jobs n) in
    finished s = true -> Permutation (errs s) (map e_of (filter fails jobs)).
Proof. exact errors_all_reported_continue. Qed.
Print Assumptions pool_errors_all_reported_continue.

(** * T4 no deadlock: from every reachable state the bounded schedule of Model/Pool.v
    (producer |pending|+1 times, then 2(|pending|+|queue|+1)+1 round-robin rounds) completes.
    Holds when every exit path signals Done, and for the Continue pattern in any case. *)
Theorem pool_termination_reachable :
  forall (job res err : Type) (f : job -> res) (fails : job -> bool) (e_of : job -> err)
         (on_fail : fail_mode) (jobs : list job) (n : nat) (sched : list nat),
    let s := run f fails e_of on_fail true sched (init jobs n) in
    finished (run f fails e_of on_fail true (drain_schedule s) s) = true.
Proof. exact termination_reachable_done. Qed.
Print Assumptions pool_termination_reachable.

Theorem pool_termination_reachable_continue :
  forall (job res err : Type) (f : job -> res) (fails : job -> bool) (e_of : job -> err)
         (done_on_exit : bool) (jobs : list job) (n : nat) (sched : list nat),
    let s := run f fails e_of Continue done_on_exit sched (init jobs n) in
    finished (run f fails e_of Continue done_on_exit (drain_schedule s) s) = true.
Proof. exact termination_reachable_continue. Qed.
Print Assumptions pool_termination_reachable_continue.

(** * T5 fairness bound: the producer gets |jobs|+1 steps, afterwards every worker gets
    2|jobs|+2 steps, interleaved with anything: the run ends finished *)
Theorem pool_fair_schedule_finishes :
  forall (job res err : Type) (f : job -> res) (fails : job -> bool) (e_of : job -> err)
         (on_fail : fail_mode) (jobs : list job) (n : nat) (sched1 sched2 : list nat),
    length jobs + 1 <= count_occ Nat.eq_dec sched1 0 ->
    (forall k, k < n -> 2 * length jobs + 2 <= count_occ Nat.eq_dec sched2 (S k)) ->
    finished (run f fails e_of on_fail true (sched1 ++ sched2) (init jobs n)) = true.
Proof. exact fair_schedule_done. Qed.
Print Assumptions pool_fair_schedule_finishes.

Theorem pool_fair_schedule_finishes_continue :
  forall (job res err : Type) (f : job -> res) (fails : job -> bool) (e_of : job -> err)
         (done_on_exit : bool) (jobs : list job) (n : nat) (sched1 sched2 : list nat),
    length jobs + 1 <= count_occ Nat.eq_dec sched1 0 ->
    (forall k, k < n -> 2 * length jobs + 2 <= count_occ Nat.eq_dec sched2 (S k)) ->
    finished (run f fails e_of Continue done_on_exit (sched1 ++ sched2) (init jobs n)) = true.
Proof. exact fair_schedule_continue. Qed.
Print Assumptions pool_fair_schedule_finishes_continue.

(** the same without letting the producer run ahead: 3|jobs|+3 blocks, every agent occurs in
    every block (plain round-robin over all agents, lock-step of an unbuffered channel, ...) *)
Theorem pool_fair_blocks_finish :
  forall (job res err : Type) (f : job -> res) (fails : job -> bool) (e_of : job -> err)
         (on_fail : fail_mode) (jobs : list job) (n : nat) (blocks : list (list nat)),
    (forall b, In b blocks -> In 0 b /\ forall k, k < n -> In (S k) b) ->
    3 * length jobs + 3 <= length blocks ->
    finished (run f fails e_of on_fail true (concat blocks) (init jobs n)) = true.
Proof. exact fair_blocks_done. Qed.
Print Assumptions pool_fair_blocks_finish.

Theorem pool_fair_blocks_finish_continue :
  forall (job res err : Type) (f : job -> res) (fails : job -> bool) (e_of : job -> err)
         (done_on_exit : bool) (jobs : list job) (n : nat) (blocks : list (list nat)),
    (forall b, In b blocks -> In 0 b /\ forall k, k < n -> In (S k) b) ->
    3 * length jobs + 3 <= length blocks ->
    finished (run f fails e_of Continue done_on_exit (concat blocks) (init jobs n)) = true.
Proof. exact fair_blocks_continue. Qed.
Print Assumptions pool_fair_blocks_finish_continue.

(** * T6 the defect pattern: Stop and a return path without wg.Done().
    If the first job is erroneous, the prefix "send it, worker 0 receives it, worker 0 returns"
    makes every continuation hang (wg.Wait() never returns), for every n >= 1 *)
Theorem pool_stop_without_done_can_hang :
  forall (job res err : Type) (f : job -> res) (fails : job -> bool) (e_of : job -> err)
         (j : job) (rest : list job) (n : nat) (sched : list nat),
    fails j = true -> 1 <= n ->
    finished (run f fails e_of Stop false ([0; 1; 1] ++ sched) (init (j :: rest) n)) = false.
Proof. exact stop_without_done_can_hang. Qed.
Print Assumptions pool_stop_without_done_can_hang.

(** one worker, one erroneous job: no schedule at all finishes *)
Theorem pool_stop_without_done_always_hangs :
  forall (job res err : Type) (f : job -> res) (fails : job -> bool) (e_of : job -> err)
         (j : job) (sched : list nat),
    fails j = true -> finished (run f fails e_of Stop false sched (init [j] 1)) = false.
Proof. exact stop_without_done_one_worker_one_job. Qed.
Print Assumptions pool_stop_without_done_always_hangs.

(** * the hypotheses are satisfiable and the statements are not trivial *)
Example pool_example_two_interleavings :
  let sa := run ex_f ex_fails ex_err Continue true ex_sched_a (init [1;2;3] 2) in
  let sb := run ex_f ex_fails ex_err Continue true ex_sched_b (init [1;2;3] 2) in
  finished sa = true /\ finished sb = true
  /\ out sa = [10; 20; 30] /\ out sb = [20; 10; 30]
  /\ errs sa = [102] /\ errs sb = [102].
Proof. exact example_two_interleavings. Qed.
Print Assumptions pool_example_two_interleavings.

Example pool_example_stop_loses_results :
  let s := run ex_f ex_fails ex_err Stop true [0;0;0;0;1;1;1;1] (init [1;2;3] 1) in
  finished s = true /\ out s = [10] /\ queue s = [3] /\ errs s = [102].
Proof. exact example_stop_loses_results. Qed.
Print Assumptions pool_example_stop_loses_results.

Example pool_example_hang :
  let run_from d :=
    let s := run ex_f ex_fails ex_err Stop d [0;1;2] (init [1;2;3] 2) in
    run ex_f ex_fails ex_err Stop d (drain_schedule s) s in
  finished (run_from true) = true /\ finished (run_from false) = false
  /\ ws (run_from false) = [Exited; Dead].
Proof. exact example_hang. Qed.
Print Assumptions pool_example_hang.
