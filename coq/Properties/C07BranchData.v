(** C07, companion: the clause [branches_kept] of Judge/C07.v for resolve (Spec/Contract.v).
    For every well-formed tree - with or without single-child inner nodes, rooted or not - and every
    choice vector, every branch of the input, seen as (leaf set below, length, support, p-value),
    appears in the result of Resolve (multiset inclusion; values up to Qeq), tip branches
    included: a support or a p-value carried by a tip branch, or the p-value of an inner branch
    directly below a multifurcation, survives the regrouping. *)
From Coq Require Import String ZArith QArith Bool Arith List Permutation.
From GT Require Import Base.UTree Spec.Obs Spec.Contract Model.Reroot Model.Collapse Proofs.ResolveBranchesKept.
Import ListNotations.
Local Close Scope Q_scope.

Theorem C07_resolve_keeps_branch_data :
  forall t cs, wf t = true ->
  exists extra, Permutation (branch_data (resolve t cs)) (branch_data t ++ extra).
Proof. exact resolve_branch_data. Qed.
Print Assumptions C07_resolve_keeps_branch_data.

Theorem C07_oracle_accepts_resolve_branch_data :
  forall t cs, wf t = true -> branches_kept t (resolve t cs) = None.
Proof. exact resolve_branches_kept. Qed.
Print Assumptions C07_oracle_accepts_resolve_branch_data.

(** * non-vacuity: (A[0.7/0.01]:1,B:1,C[0.4]:1,(D:1,E:1)0.9/0.05:2,F:1) - supports and p-values on
    the tip branches of A and C, a p-value on the inner branch *)
Local Open Scope string_scope.
Definition bt (n : string) (s p : Q) : slot := Some (mkE 1%Q s p [], UNode n [] [None]).
Definition bex : utree :=
  UNode "" [] [bt "A" (7#10) (1#100); bt "B" nilv nilv; bt "C" (2#5) nilv;
               Some (mkE 2 (9#10) (1#20) [], UNode "" [] [None; bt "D" nilv nilv; bt "E" nilv nilv]);
               bt "F" nilv nilv]%Q.
(** the same tree with the support of the tip branch of A, resp. the p-value of the inner branch, dropped *)
Definition bex_nosup : utree :=
  UNode "" [] [bt "A" nilv nilv; bt "B" nilv nilv; bt "C" (2#5) nilv;
               Some (mkE 2 (9#10) (1#20) [], UNode "" [] [None; bt "D" nilv nilv; bt "E" nilv nilv]);
               bt "F" nilv nilv]%Q.
Definition bex_nopv : utree :=
  UNode "" [] [bt "A" (7#10) (1#100); bt "B" nilv nilv; bt "C" (2#5) nilv;
               Some (mkE 2 (9#10) nilv [], UNode "" [] [None; bt "D" nilv nilv; bt "E" nilv nilv]);
               bt "F" nilv nilv]%Q.
Example C07_branch_data_example :
  wf bex = true /\ resolve bex [3; 0; 2; 1; 0] <> bex /\
  length (branch_data (resolve bex [3; 0; 2; 1; 0])) = length (branch_data bex) + 2 /\
  branches_kept bex (resolve bex [3; 0; 2; 1; 0]) = None /\
  branches_kept bex bex_nosup <> None /\ branches_kept bex bex_nopv <> None.
Proof. vm_compute. repeat split; try reflexivity; discriminate. Qed.
Print Assumptions C07_branch_data_example.
