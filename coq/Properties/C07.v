(** C07: collapse removes exactly the targeted branches; resolve only refines.
    Model: Model/Collapse.v.  [remove_edges removeRoot removeTips sel] is Tree.RemoveEdges on the
    branches selected by [sel] (position in Edges(), branch data, subtree below), in Edges()
    order; CollapseShortBranches / CollapseLowSupport / CollapseTopoDepth are
      collapse_len l rr rt t      = remove_edges rr rt (fun _ e _ => sel_len l e) t
      collapse_sup s rr t         = remove_edges rr false (fun _ e _ => sel_sup s e) t
      collapse_depth mn mx rr rt t = Ok (remove_edges rr rt (fun _ _ c => sel_depth t mn mx c) t)
    so every statement about [remove_edges] holds for the three of them.
    [branches t]: every branch with the subtree below it;  [view]: (branch data, leaves below);
    [veq]: same multiset of views, leaf lists up to order;  [stays s (e, c)]: the branch is a tip
    branch or is not selected;  [view_adj]: the view of a remaining branch (a selected tip
    branch gets length 0 under removeTips). *)
From Coq Require Import String ZArith QArith Bool Arith List Permutation.
From GT Require Import Base.UTree Spec.Obs Spec.Unrooted Model.Reroot Model.Rand Model.Prune Model.Collapse
     Proofs.PruneBase Proofs.CollapseBase Proofs.CollapseSplits Proofs.CollapseExact Proofs.CollapseDist
     Proofs.CollapseResolve.
Import ListNotations.
Local Close Scope Q_scope.
Local Open Scope string_scope.

(** * Collapse, any flags, any selection *)
Theorem C07_collapse_wf :
  forall rr rt sel t, wf t = true -> wf (remove_edges rr rt sel t) = true.
Proof. exact remove_edges_wf. Qed.
Print Assumptions C07_collapse_wf.

(** names untouched, no tip removed *)
Theorem C07_collapse_leaves :
  forall rr rt sel t, wf t = true -> Permutation (leaves (remove_edges rr rt sel t)) (leaves t).
Proof. exact remove_edges_leaves. Qed.
Print Assumptions C07_collapse_leaves.

(** every branch of the result is a branch of the input with the same leaves below and the
    same data (only a selected tip branch under removeTips gets length 0): no new split, and
    every remaining split keeps its length and support *)
Theorem C07_collapse_branches_sound :
  forall rr rt sel t, wf t = true ->
  forall e' c', In (e', c') (branches (remove_edges rr rt sel t)) ->
  exists e c, In (e, c) (branches t) /\ Permutation (leaves c') (leaves c) /\
              (e' = e \/ (rt = true /\ is_tip c = true /\ (exists k, sel k e c = true) /\ e' = set_len0 e)).
Proof. exact remove_edges_branches_sound. Qed.
Print Assumptions C07_collapse_branches_sound.

(** a tip branch and a branch that is not selected are never removed *)
Theorem C07_collapse_branches_complete :
  forall rr rt sel t, wf t = true ->
  forall e c, In (e, c) (branches t) -> (is_tip c = true \/ forall k, sel k e c = false) ->
  exists e' c', In (e', c') (branches (remove_edges rr rt sel t)) /\ Permutation (leaves c') (leaves c) /\
                (e' = e \/ (rt = true /\ is_tip c = true /\ e' = set_len0 e)).
Proof. exact remove_edges_branches_complete. Qed.
Print Assumptions C07_collapse_branches_complete.

(** * Collapse, the exact set *)
(** with removeRoot: exactly the tip branches and the non-selected branches remain *)
Theorem C07_collapse_exact_removeRoot :
  forall rt s t, wf t = true ->
  veq (map view (branches (remove_edges true rt (fun _ e c => s e c) t)))
      (map (view_adj rt s) (filter (stays s) (branches t))).
Proof. exact remove_edges_exact. Qed.
Print Assumptions C07_collapse_exact_removeRoot.

(** the commands' default (removeRoot = false) on an unrooted tree without single-child nodes *)
Theorem C07_collapse_exact_unrooted :
  forall rt s t, wf t = true -> no_single t = true -> 3 <= degree t ->
  veq (map view (branches (remove_edges false rt (fun _ e c => s e c) t)))
      (map (view_adj rt s) (filter (stays s) (branches t))).
Proof. exact remove_edges_exact_unrooted. Qed.
Print Assumptions C07_collapse_exact_unrooted.

(** ... and on a rooted tree: the two root branches stay, exactness for all the others *)
Theorem C07_collapse_exact_rooted :
  forall rt s n cm e1 c1 e2 c2,
  wf (UNode n cm [Some (e1, c1); Some (e2, c2)]) = true ->
  no_single (UNode n cm [Some (e1, c1); Some (e2, c2)]) = true ->
  veq (map view (branches (remove_edges false rt (fun _ e c => s e c) (UNode n cm [Some (e1, c1); Some (e2, c2)]))))
      ((view_adj rt s (e1, c1) :: map (view_adj rt s) (filter (stays s) (branches c1))) ++
       (view_adj rt s (e2, c2) :: map (view_adj rt s) (filter (stays s) (branches c2)))).
Proof. exact remove_edges_exact_rooted. Qed.
Print Assumptions C07_collapse_exact_rooted.

(** without removeRoot nothing else changes on an unrooted tree: same result as with it *)
Theorem C07_collapse_removeRoot_irrelevant_unrooted :
  forall rt sel t, wf t = true -> no_single t = true -> 3 <= degree t ->
  remove_edges false rt sel t = remove_edges true rt sel t.
Proof. exact remove_edges_transfer. Qed.
Print Assumptions C07_collapse_removeRoot_irrelevant_unrooted.

(** * Collapse and distances *)
(** contracting only branches of length 0 (absent counts as 0) keeps every path length *)
Theorem C07_collapse_zero_length_keeps_distances :
  forall rr rt sel, (forall k e c, sel k e c = true -> (len0 e == 0)%Q) ->
  forall t, wf t = true ->
  dists_equiv (pairdists len0 (remove_edges rr rt sel t)) (pairdists len0 t).
Proof. exact remove_edges_dists. Qed.
Print Assumptions C07_collapse_zero_length_keeps_distances.

Theorem C07_collapse_len_zero_keeps_distances :
  forall rr rt t, wf t = true ->
  dists_equiv (pairdists len0 (collapse_len 0%Q rr rt t)) (pairdists len0 t).
Proof. exact collapse_len_zero_dists. Qed.
Print Assumptions C07_collapse_len_zero_keeps_distances.

(** * Resolve, every choice vector *)
Theorem C07_resolve_wf : forall t cs, wf t = true -> wf (resolve t cs) = true.
Proof. exact resolve_wf. Qed.
Print Assumptions C07_resolve_wf.

Theorem C07_resolve_leaves : forall t cs, wf t = true -> Permutation (leaves (resolve t cs)) (leaves t).
Proof. exact resolve_leaves. Qed.
Print Assumptions C07_resolve_leaves.

(** fully binary: no node keeps more than three neighbours *)
Theorem C07_resolve_binary :
  forall t cs, wf t = true -> Forall (fun x => degree x <= 3) (nodes (resolve t cs)).
Proof. exact resolve_binary. Qed.
Print Assumptions C07_resolve_binary.

Theorem C07_resolve_distances :
  forall t cs, wf t = true -> dists_equiv (pairdists len0 (resolve t cs)) (pairdists len0 t).
Proof. exact resolve_dists. Qed.
Print Assumptions C07_resolve_distances.

(** every original branch is kept with its length, support, p-value and leaves below; every
    other branch of the result has length 0, no support and no p-value *)
Theorem C07_resolve_refines :
  forall t cs, wf t = true ->
  exists news, Forall is_new news /\
               veq2 (map view2 (branches (resolve t cs))) (map view2 (branches t) ++ news).
Proof. exact resolve_branches. Qed.
Print Assumptions C07_resolve_refines.

(** * non-vacuity *)
Definition xt (n : string) (l : Q) : slot := Some (mkE l nilv nilv [], UNode n [] [None]).
Definition xin (l s : Q) (sl : list slot) : slot := Some (mkE l s nilv [], UNode "" [] (None :: sl)).
(** (a:1,b:1,(c:1,d:1,(e:1,f:1)0.9:0)0.2:2,g:1,h:1) *)
Definition ex7 : utree :=
  UNode "" [] [xt "a" 1; xt "b" 1;
               xin 2 (1#5) [xt "c" 1; xt "d" 1; xin 0 (9#10) [xt "e" 1; xt "f" 1]];
               xt "g" 1; xt "h" 1]%Q.

Example C07_example_collapse :
  wf ex7 = true /\ no_single ex7 = true /\ 3 <= degree ex7 /\
  length (branches ex7) = 10 /\
  length (branches (collapse_len 0%Q false false ex7)) = 9 /\
  length (branches (collapse_sup (1#2)%Q false ex7)) = 9 /\
  leaves (collapse_len 2%Q false false ex7) = ["a"; "b"; "g"; "h"; "c"; "d"; "e"; "f"].
Proof. vm_compute. repeat split; auto. Qed.
Print Assumptions C07_example_collapse.

Example C07_example_resolve :
  resolve_bounds ex7 = [1; 2; 3; 1; 2; 3; 4; 5] /\
  forallb (fun x => Nat.leb (degree x) 3) (nodes (resolve ex7 [0; 1; 0; 0; 1; 0; 2; 3])) = true /\
  length (branches (resolve ex7 [0; 1; 0; 0; 1; 0; 2; 3])) = 13.
Proof. vm_compute. repeat split; auto. Qed.
Print Assumptions C07_example_resolve.
