(** C07: collapse removes exactly the targeted branches; resolve only refines.
    Model: Model/Collapse.v.  [remove_edges removeRoot removeTips sel] is Tree.RemoveEdges on the
    branches selected by [sel] (position in Edges(), branch data, subtree below), in Edges()
    order; CollapseShortBranches / CollapseLowSupport / CollapseTopoDepth are
      collapse_len l rr rt t      = remove_edges rr rt (fun _ e _ => sel_len l e) t
      collapse_sup s rr t         = remove_edges rr false (fun _ e _ => sel_sup s e) t
      collapse_depth mn mx rr rt t = Ok (remove_edges rr rt (fun _ _ c => sel_depth t mn mx c) t)
    so every statement about [remove_edges] holds for the three of them.
    [branches t]: every branch with the subtree below it;  [view]: (branch data, leaves below);
    [veq]: same multiset of views, leaf lists up to order;  [stays s (e, c)]: the branch is a tip
    branch or is not selected;  [view_adj]: the view of a remaining branch (a selected tip
    branch gets length 0 under removeTips). *)
From Coq Require Import String ZArith QArith Bool Arith List Permutation.
From GT Require Import Base.UTree Spec.Obs Spec.Induced Spec.Unrooted Model.Reroot Model.Rand Model.Prune Model.Collapse
     Proofs.PruneBase Proofs.CollapseBase Proofs.CollapseSplits Proofs.CollapseExact Proofs.CollapseDist
     Proofs.CollapseResolve Proofs.CollapseDepth Proofs.OracleDist Proofs.CollapseOracle.
Import ListNotations.
Local Close Scope Q_scope.
Local Open Scope string_scope.

(** * Collapse, any flags, any selection *)
Theorem C07_collapse_wf :
  forall rr rt sel t, wf t = true -> wf (remove_edges rr rt sel t) = true.
Proof. exact remove_edges_wf. Qed.
Print Assumptions C07_collapse_wf.

(** names untouched, no tip removed *)
Theorem C07_collapse_leaves :
  forall rr rt sel t, wf t = true -> Permutation (leaves (remove_edges rr rt sel t)) (leaves t).
Proof. exact remove_edges_leaves. Qed.
Print Assumptions C07_collapse_leaves.

(** every branch of the result is a branch of the input with the same leaves below and the
    same data (only a selected tip branch under removeTips gets length 0): no new split, and
    every remaining split keeps its length and support *)
Theorem C07_collapse_branches_sound :
  forall rr rt sel t, wf t = true ->
  forall e' c', In (e', c') (branches (remove_edges rr rt sel t)) ->
  exists e c, In (e, c) (branches t) /\ Permutation (leaves c') (leaves c) /\
              (e' = e \/ (rt = true /\ is_tip c = true /\ (exists k, sel k e c = true) /\ e' = set_len0 e)).
Proof. exact remove_edges_branches_sound. Qed.
Print Assumptions C07_collapse_branches_sound.

(** a tip branch and a branch that is not selected are never removed *)
Theorem C07_collapse_branches_complete :
  forall rr rt sel t, wf t = true ->
  forall e c, In (e, c) (branches t) -> (is_tip c = true \/ forall k, sel k e c = false) ->
  exists e' c', In (e', c') (branches (remove_edges rr rt sel t)) /\ Permutation (leaves c') (leaves c) /\
                (e' = e \/ (rt = true /\ is_tip c = true /\ e' = set_len0 e)).
Proof. exact remove_edges_branches_complete. Qed.
Print Assumptions C07_collapse_branches_complete.

(** * Collapse, the exact set *)
(** with removeRoot: exactly the tip branches and the non-selected branches remain *)
Theorem C07_collapse_exact_removeRoot :
  forall rt s t, wf t = true ->
  veq (map view (branches (remove_edges true rt (fun _ e c => s e c) t)))
      (map (view_adj rt s) (filter (stays s) (branches t))).
Proof. exact remove_edges_exact. Qed.
Print Assumptions C07_collapse_exact_removeRoot.

(** the commands' default (removeRoot = false) on an unrooted tree without single-child nodes *)
Theorem C07_collapse_exact_unrooted :
  forall rt s t, wf t = true -> no_single t = true -> 3 <= degree t ->
  veq (map view (branches (remove_edges false rt (fun _ e c => s e c) t)))
      (map (view_adj rt s) (filter (stays s) (branches t))).
Proof. exact remove_edges_exact_unrooted. Qed.
Print Assumptions C07_collapse_exact_unrooted.

(** ... and on a rooted tree: the two root branches stay, exactness for all the others *)
Theorem C07_collapse_exact_rooted :
  forall rt s n cm e1 c1 e2 c2,
  wf (UNode n cm [Some (e1, c1); Some (e2, c2)]) = true ->
  no_single (UNode n cm [Some (e1, c1); Some (e2, c2)]) = true ->
  veq (map view (branches (remove_edges false rt (fun _ e c => s e c) (UNode n cm [Some (e1, c1); Some (e2, c2)]))))
      ((view_adj rt s (e1, c1) :: map (view_adj rt s) (filter (stays s) (branches c1))) ++
       (view_adj rt s (e2, c2) :: map (view_adj rt s) (filter (stays s) (branches c2)))).
Proof. exact remove_edges_exact_rooted. Qed.
Print Assumptions C07_collapse_exact_rooted.

(** without removeRoot nothing else changes on an unrooted tree: same result as with it *)
Theorem C07_collapse_removeRoot_irrelevant_unrooted :
  forall rt sel t, wf t = true -> no_single t = true -> 3 <= degree t ->
  remove_edges false rt sel t = remove_edges true rt sel t.
Proof. exact remove_edges_transfer. Qed.
Print Assumptions C07_collapse_removeRoot_irrelevant_unrooted.

(** * Collapse and distances *)
(** contracting only branches of length 0 (absent counts as 0) keeps every path length *)
Theorem C07_collapse_zero_length_keeps_distances :
  forall rr rt sel, (forall k e c, sel k e c = true -> (len0 e == 0)%Q) ->
  forall t, wf t = true ->
  dists_equiv (pairdists len0 (remove_edges rr rt sel t)) (pairdists len0 t).
Proof. exact remove_edges_dists. Qed.
Print Assumptions C07_collapse_zero_length_keeps_distances.

Theorem C07_collapse_len_zero_keeps_distances :
  forall rr rt t, wf t = true ->
  dists_equiv (pairdists len0 (collapse_len 0%Q rr rt t)) (pairdists len0 t).
Proof. exact collapse_len_zero_dists. Qed.
Print Assumptions C07_collapse_len_zero_keeps_distances.

(** * Resolve, every choice vector *)
Theorem C07_resolve_wf : forall t cs, wf t = true -> wf (resolve t cs) = true.
Proof. exact resolve_wf. Qed.
Print Assumptions C07_resolve_wf.

Theorem C07_resolve_leaves : forall t cs, wf t = true -> Permutation (leaves (resolve t cs)) (leaves t).
Proof. exact resolve_leaves. Qed.
Print Assumptions C07_resolve_leaves.

(** fully binary: no node keeps more than three neighbours *)
Theorem C07_resolve_binary :
  forall t cs, wf t = true -> Forall (fun x => degree x <= 3) (nodes (resolve t cs)).
Proof. exact resolve_binary. Qed.
Print Assumptions C07_resolve_binary.

Theorem C07_resolve_distances :
  forall t cs, wf t = true -> dists_equiv (pairdists len0 (resolve t cs)) (pairdists len0 t).
Proof. exact resolve_dists. Qed.
Print Assumptions C07_resolve_distances.

(** every original branch is kept with its length, support, p-value and leaves below; every
    other branch of the result has length 0, no support and no p-value *)
Theorem C07_resolve_refines :
  forall t cs, wf t = true ->
  exists news, Forall is_new news /\
               veq2 (map view2 (branches (resolve t cs))) (map view2 (branches t) ++ news).
Proof. exact resolve_branches. Qed.
Print Assumptions C07_resolve_refines.

(** * non-vacuity *)
Definition xt (n : string) (l : Q) : slot := Some (mkE l nilv nilv [], UNode n [] [None]).
Definition xin (l s : Q) (sl : list slot) : slot := Some (mkE l s nilv [], UNode "" [] (None :: sl)).
(** (a:1,b:1,(c:1,d:1,(e:1,f:1)0.9:0)0.2:2,g:1,h:1) *)
Definition ex7 : utree :=
  UNode "" [] [xt "a" 1; xt "b" 1;
               xin 2 (1#5) [xt "c" 1; xt "d" 1; xin 0 (9#10) [xt "e" 1; xt "f" 1]];
               xt "g" 1; xt "h" 1]%Q.

Example C07_example_collapse :
  wf ex7 = true /\ no_single ex7 = true /\ 3 <= degree ex7 /\
  length (branches ex7) = 10 /\
  length (branches (collapse_len 0%Q false false ex7)) = 9 /\
  length (branches (collapse_sup (1#2)%Q false ex7)) = 9 /\
  leaves (collapse_len 2%Q false false ex7) = ["a"; "b"; "g"; "h"; "c"; "d"; "e"; "f"].
Proof. vm_compute. repeat split; auto. Qed.
Print Assumptions C07_example_collapse.

Example C07_example_resolve :
  resolve_bounds ex7 = [1; 2; 3; 1; 2; 3; 4; 5] /\
  forallb (fun x => Nat.leb (degree x) 3) (nodes (resolve ex7 [0; 1; 0; 0; 1; 0; 2; 3])) = true /\
  length (branches (resolve ex7 [0; 1; 0; 0; 1; 0; 2; 3])) = 13.
Proof. vm_compute. repeat split; auto. Qed.
Print Assumptions C07_example_resolve.

(** * the two root branches of a rooted tree, in each mode *)
(** removeRoot = false: the two root branches stay where they are, in the same order, with their
    data (only a selected tip branch gets length 0 under removeTips); the root keeps its two
    neighbours; each side is collapsed on its own as with removeRoot ([rebuilt]) *)
Theorem C07_rooted_default_root_branches :
  forall rt sel n cm e1 c1 e2 c2,
  wf (UNode n cm [Some (e1, c1); Some (e2, c2)]) = true ->
  no_single (UNode n cm [Some (e1, c1); Some (e2, c2)]) = true ->
  remove_edges false rt sel (UNode n cm [Some (e1, c1); Some (e2, c2)]) =
  UNode n cm [Some (adj rt sel 0 e1 c1, rebuilt rt sel c1 1);
              Some (adj rt sel (1 + span c1) e2 c2, rebuilt rt sel c2 (S (1 + span c1)))].
Proof. exact remove_edges_rooted. Qed.
Print Assumptions C07_rooted_default_root_branches.

(** removeRoot = true: the two root branches are ordinary branches, each judged on its own
    (C07_collapse_exact_removeRoot holds for every tree); in particular the number of branches of
    the result is the number of tip branches and non-selected branches, root branches included *)
Theorem C07_removeRoot_branch_count :
  forall rt s t, wf t = true ->
  length (branches (remove_edges true rt (fun _ e c => s e c) t)) = length (filter (stays s) (branches t)).
Proof. exact remove_edges_count. Qed.
Print Assumptions C07_removeRoot_branch_count.

(** * collapse by depth *)
(** the depth of a branch is the number of tips on the light side of its bipartition *)
Theorem C07_depth_is_light_side :
  forall t e c, wf t = true -> 2 <= degree t -> In (e, c) (branches t) ->
  topo_depth t c = Nat.min (length (leaves t) - length (leaves c)) (length (leaves c)).
Proof. exact topo_depth_light. Qed.
Print Assumptions C07_depth_is_light_side.

(** CollapseTopoDepth never refuses on such trees and is [remove_edges] with that predicate, so
    all the statements above apply to it *)
Theorem C07_collapse_depth_ok :
  forall mn mx rr rt t, wf t = true -> 2 <= degree t ->
  collapse_depth mn mx rr rt t = Ok (remove_edges rr rt (fun _ _ c => sel_depth t mn mx c) t).
Proof. exact collapse_depth_ok. Qed.
Print Assumptions C07_collapse_depth_ok.

(** * the observables of the judge *)
(** [ukeys t]: the bipartitions of t as the judge sees them (canonical sides of [usplits t]) *)

(** Resolve: same tip set, same distance matrix, every original bipartition kept *)
Theorem C07_resolve_matrix :
  forall t cs, wf t = true -> NoDup (leaves t) ->
  matrix_eqb (dist_matrix len0 t) (dist_matrix len0 (resolve t cs)) = true.
Proof. exact resolve_matrix. Qed.
Print Assumptions C07_resolve_matrix.

Theorem C07_resolve_tips :
  forall t cs, wf t = true -> sset_eqb (ssort (leaves t)) (ssort (leaves (resolve t cs))) = true.
Proof. exact resolve_tips. Qed.
Print Assumptions C07_resolve_tips.

Theorem C07_resolve_usplits_kept :
  forall t cs key, wf t = true -> In key (ukeys t) -> In key (ukeys (resolve t cs)).
Proof. exact resolve_keys. Qed.
Print Assumptions C07_resolve_usplits_kept.

(** Collapse: same tip set; no new bipartition; tip branches and non-selected branches keep
    theirs; exact set with removeRoot and for the default on unrooted trees *)
Theorem C07_collapse_tips :
  forall rr rt sel t, wf t = true ->
  sset_eqb (ssort (leaves t)) (ssort (leaves (remove_edges rr rt sel t))) = true.
Proof. exact collapse_tips. Qed.
Print Assumptions C07_collapse_tips.

Theorem C07_collapse_usplits_sound :
  forall rr rt sel t key, wf t = true -> In key (ukeys (remove_edges rr rt sel t)) -> In key (ukeys t).
Proof. exact collapse_keys_sound. Qed.
Print Assumptions C07_collapse_usplits_sound.

Theorem C07_collapse_usplits_complete :
  forall rr rt sel t e c, wf t = true -> In (e, c) (branches t) ->
  (is_tip c = true \/ forall k, sel k e c = false) ->
  In (canon_side (tipset t) (sset (leaves c))) (ukeys (remove_edges rr rt sel t)).
Proof. exact collapse_keys_complete. Qed.
Print Assumptions C07_collapse_usplits_complete.

Theorem C07_collapse_usplits_exact_unrooted :
  forall rt s t key, wf t = true -> no_single t = true -> 3 <= degree t ->
  (In key (ukeys (remove_edges false rt (fun _ e c => s e c) t)) <->
   exists p, In p (branches t) /\ stays s p = true /\ key = canon_side (tipset t) (sset (leaves (snd p)))).
Proof. exact collapse_keys_exact_unrooted. Qed.
Print Assumptions C07_collapse_usplits_exact_unrooted.

Theorem C07_collapse_usplits_exact_removeRoot :
  forall rt s t key, wf t = true ->
  (In key (ukeys (remove_edges true rt (fun _ e c => s e c) t)) <->
   exists p, In p (branches t) /\ stays s p = true /\ key = canon_side (tipset t) (sset (leaves (snd p)))).
Proof. exact collapse_keys_exact. Qed.
Print Assumptions C07_collapse_usplits_exact_removeRoot.

(** contracting zero-length branches: same distance matrix *)
Theorem C07_collapse_zero_matrix :
  forall rr rt sel t, (forall k e c, sel k e c = true -> (len0 e == 0)%Q) ->
  wf t = true -> NoDup (leaves t) ->
  matrix_eqb (dist_matrix len0 t) (dist_matrix len0 (remove_edges rr rt sel t)) = true.
Proof. exact collapse_zero_matrix. Qed.
Print Assumptions C07_collapse_zero_matrix.

(** Resolve keeps "no single-child node" and the root ends with min(3, its degree) neighbours:
    with C07_resolve_binary, an unrooted tree becomes fully binary (every inner node has exactly
    three neighbours) and a rooted one stays rooted *)
Theorem C07_resolve_no_single :
  forall t cs, wf t = true -> no_single t = true -> no_single (resolve t cs) = true.
Proof. exact resolve_no_single. Qed.
Print Assumptions C07_resolve_no_single.

Theorem C07_resolve_root_degree :
  forall t cs, wf t = true -> degree (resolve t cs) = Nat.min 3 (degree t).
Proof. exact resolve_root_degree. Qed.
Print Assumptions C07_resolve_root_degree.
