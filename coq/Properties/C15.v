(** C15: local edits leave the rest of the tree intact; copies are independent.
    Statements about the model Model/LocalEdit.v (Clone, SubTree, Merge, GraftTreeOnTip,
    InsertIdenticalTips / InsertIdenticalTip, RemoveSingleNodes), for all trees; proofs in
    Proofs/LocalEdit{Base,,Insert,InsertAll,Single,Clone}.v.
    Vocabulary: Spec/Obs.v ([leaves]; [pairdists w t] = one entry (a, b, sum of [w] over the
    path) per ordered pair of distinct leaves; [len0] = the length of a branch, 0 when absent),
    Spec/Unrooted.v ([dists_equiv] = same multiset of entries up to Qeq), Proofs/PruneBase.v
    ([fP k l] = the entries of [l] whose two tips satisfy [k]), Spec/NewickSpec.v ([rose_of] =
    the tree without the position of the parent in the neighbour arrays), Model/Newick.v
    ([write fmt] = Tree.Newick() for any rendering [fmt] of numbers).
    The independence of a copy from its source (aliasing) is not a statement about a
    functional model: it is decided at run time by the correspondence check only. *)
From Coq Require Import String ZArith QArith Bool Arith List Permutation.
From GT Require Import Base.UTree Spec.Obs Model.Reroot Spec.Unrooted Model.Newick Spec.NewickSpec
     Proofs.RerootBase Proofs.PruneBase Model.LocalEdit Proofs.LocalEditBase Proofs.LocalEdit
     Proofs.LocalEditInsert Proofs.LocalEditInsertAll Proofs.LocalEditSingle Proofs.LocalEditClone
     Judge.C15 Proofs.LocalEditOracle Model.HeapClone Proofs.HeapClone.
Import ListNotations.
Local Close Scope Q_scope.

(** * Clone: an exact copy *)
(** same names, comments, children in the same order, branch data incl. comments *)
Theorem C15_clone_exact_copy : forall t, rose_of (clone t) = rose_of t.
Proof. exact clone_rose. Qed.
Print Assumptions C15_clone_exact_copy.

(** structurally the same tree when the parent is the first neighbour of every node (as in
    every tree that comes out of a parser) *)
Theorem C15_clone_identity : forall t, upfirst t = true -> clone t = t.
Proof. exact clone_id. Qed.
Print Assumptions C15_clone_identity.

(** the same text, whatever the rendering of numbers *)
Theorem C15_clone_same_text : forall fmt t, wf t = true -> write fmt (clone t) = write fmt t.
Proof. exact write_clone. Qed.
Print Assumptions C15_clone_same_text.

Theorem C15_clone_wf : forall t, wf (clone t) = true.
Proof. exact clone_wf. Qed.
Print Assumptions C15_clone_wf.

Theorem C15_clone_dists : forall w t, pairdists w (clone t) = pairdists w t.
Proof. exact clone_pairdists. Qed.
Print Assumptions C15_clone_dists.

Theorem C15_clone_leaves : forall t, leaves (clone t) = leaves t.
Proof. exact clone_leaves. Qed.
Print Assumptions C15_clone_leaves.

(** * SubTree: the copy of the node's subtree *)
Theorem C15_subtree :
  forall t i s, subtree t i = Some s ->
    exists node, nth_error (nodes t) i = Some node /\
                 rose_of s = rose_of node /\ wf s = true /\
                 leaves s = leaves node /\ forall w, pairdists w s = pairdists w node.
Proof. exact subtree_spec. Qed.
Print Assumptions C15_subtree.

Theorem C15_subtree_defined : forall t i, i < length (nodes t) -> exists s, subtree t i = Some s.
Proof. exact subtree_defined. Qed.
Print Assumptions C15_subtree_defined.

(** * Merge *)
Theorem C15_merge_leaves :
  forall t1 t2 t' i1 i2, merge t1 t2 i1 i2 = Ok t' -> leaves t' = leaves t1 ++ leaves t2.
Proof. exact merge_leaves. Qed.
Print Assumptions C15_merge_leaves.

Theorem C15_merge_wf :
  forall t1 t2 t' i1 i2, merge t1 t2 i1 i2 = Ok t' ->
    wf t1 = true -> wf t2 = true -> wf t' = true /\ rooted t' = true.
Proof. exact merge_wf. Qed.
Print Assumptions C15_merge_wf.

(** all path sums of the result: those of the two trees, unchanged, and the new paths through
    the new root, each joining a tip of one tree to a tip of the other *)
Theorem C15_merge_dists :
  forall t1 t2 t' i1 i2, merge t1 t2 i1 i2 = Ok t' ->
    forall w, dists_equiv (pairdists w t')
                (pairdists w t1 ++ pairdists w t2 ++
                 symcross (shift (w e0) (depths w t1)) (shift (w e0) (depths w t2))).
Proof. exact merge_pairdists. Qed.
Print Assumptions C15_merge_dists.

Theorem C15_merge_dists_within :
  forall t1 t2 t' i1 i2, merge t1 t2 i1 i2 = Ok t' ->
    forall w, (forall x, In x (leaves t1) -> In x (leaves t2) -> False) ->
      dists_equiv (fP (fun x => smem x (leaves t1)) (pairdists w t')) (pairdists w t1) /\
      dists_equiv (fP (fun x => smem x (leaves t2)) (pairdists w t')) (pairdists w t2).
Proof. exact merge_dists_within. Qed.
Print Assumptions C15_merge_dists_within.

Theorem C15_merge_refusals :
  forall t1 t2 i1 i2,
    (exists m, merge t1 t2 i1 i2 = Err m) <->
    rooted t1 = false \/ rooted t2 = false \/ i1 = [] \/ i2 = [] \/ exists a, In a i1 /\ In a i2.
Proof. exact merge_err. Qed.
Print Assumptions C15_merge_refusals.

(** * GraftTreeOnTip *)
Theorem C15_graft_wf :
  forall t g t' idx tip, graft t idx tip g = Ok t' -> wf t = true -> wf g = true -> wf t' = true.
Proof. exact graft_wf. Qed.
Print Assumptions C15_graft_wf.

(** the grafted-on tip is gone, the tips of the graft are added *)
Theorem C15_graft_leaves :
  forall t g t' idx tip, graft t idx tip g = Ok t' -> wf t = true ->
    Permutation (leaves t' ++ [tip]) (leaves t ++ leaves g).
Proof. exact graft_leaves. Qed.
Print Assumptions C15_graft_leaves.

(** for every selection [k] of names that leaves out the grafted-on tip and the tips of the
    graft: the path sums between selected tips are unchanged *)
Theorem C15_graft_dists :
  forall t g t' idx tip, graft t idx tip g = Ok t' -> wf t = true ->
    forall w k, k tip = false -> (forall x, In x (leaves g) -> k x = false) ->
      dists_equiv (fP k (pairdists w t')) (fP k (pairdists w t)).
Proof. exact graft_dists. Qed.
Print Assumptions C15_graft_dists.

(** for every selection [k] of names that leaves out the tips of [t]: the path sums between
    selected tips of the result are those of the grafted tree *)
Theorem C15_graft_dists_inside :
  forall t g t' idx tip w k, graft t idx tip g = Ok t' -> wf t = true ->
    (forall x, In x (leaves t) -> k x = false) ->
    dists_equiv (fP k (pairdists w t')) (fP k (pairdists w g)).
Proof. exact graft_dists_inside. Qed.
Print Assumptions C15_graft_dists_inside.

(** * InsertIdenticalTip: one insertion *)
Theorem C15_insert_tip :
  forall old nm t t', istep old nm t t' ->
    wf t' = true /\ Permutation (leaves t') (nm :: leaves t) /\ In old (leaves t) /\
    forall w, (forall e, qeqb (elen e) 0%Q = true -> (w e == 0)%Q) ->
      (forall k, k nm = false -> dists_equiv (fP k (pairdists w t)) (fP k (pairdists w t'))) /\
      zero_dist w old nm t'.
Proof. exact insert_tip_all. Qed.
Print Assumptions C15_insert_tip.

(** * InsertIdenticalTips *)
Theorem C15_insert_wf :
  forall t t' idx groups,
    wf t = true -> (forall x, In x (leaves t) -> In x idx) -> ~ In ""%string idx ->
    Forall (fun g => ~ In ""%string g) groups ->
    insert_identical t idx groups = Ok t' -> wf t' = true.
Proof. exact insert_identical_wf. Qed.
Print Assumptions C15_insert_wf.

(** exactly the requested tips are added (the names of the groups that the index did not
    hold) and the path sums between the other tips are unchanged, for every weight that gives
    0 to a branch of length 0 *)
Theorem C15_insert_leaves_dists :
  forall t t' idx groups,
    wf t = true -> (forall x, In x (leaves t) -> In x idx) -> ~ In ""%string idx ->
    Forall (fun g => ~ In ""%string g) groups ->
    insert_identical t idx groups = Ok t' ->
    exists added, NoDup added /\
      (forall n, In n added <-> In n (concat groups) /\ ~ In n idx) /\
      Permutation (leaves t') (added ++ leaves t) /\
      (forall w, (forall e, qeqb (elen e) 0%Q = true -> (w e == 0)%Q) ->
                 dists_equiv (fP (fun x => negb (smem x added)) (pairdists w t')) (pairdists w t)).
Proof. exact insert_identical_leaves. Qed.
Print Assumptions C15_insert_leaves_dists.

(** identical tips sit at distance zero from their model *)
Theorem C15_insert_zero_distance :
  forall t t' idx groups,
    wf t = true -> (forall x, In x (leaves t) -> In x idx) -> ~ In ""%string idx ->
    Forall (fun g => ~ In ""%string g) groups ->
    insert_identical t idx groups = Ok t' ->
    forall w, (forall e, qeqb (elen e) 0%Q = true -> (w e == 0)%Q) ->
    NoDup (concat groups) -> NoDup (leaves t) ->
    forall g o n d, In g groups -> In o g -> In n g -> In o idx -> ~ In n idx ->
                    In (o, n, d) (pairdists w t') -> (d == 0)%Q.
Proof. exact insert_identical_zero. Qed.
Print Assumptions C15_insert_zero_distance.

Theorem C15_path_length_weight : forall e, qeqb (elen e) 0%Q = true -> (len0 e == 0)%Q.
Proof. exact len0_zero. Qed.
Print Assumptions C15_path_length_weight.

(** * RemoveSingleNodes *)
Theorem C15_remove_single_dists :
  forall t, dists_equiv (pairdists len0 (remove_single t)) (pairdists len0 t).
Proof. exact remove_single_dists. Qed.
Print Assumptions C15_remove_single_dists.

Theorem C15_remove_single_leaves :
  forall t, Permutation (leaves (remove_single t)) (leaves t).
Proof. exact remove_single_leaves. Qed.
Print Assumptions C15_remove_single_leaves.

Theorem C15_remove_single_none_left :
  forall t, wf t = true -> wf (remove_single t) = true /\ no_single (remove_single t) = true.
Proof. exact remove_single_wf. Qed.
Print Assumptions C15_remove_single_none_left.

Theorem C15_remove_single_degree : forall t, degree (remove_single t) = degree t.
Proof. exact remove_single_degree. Qed.
Print Assumptions C15_remove_single_degree.

(** the length of the merged branch is the sum of the two lengths (absent = 0) *)
Theorem C15_merged_branch_length :
  forall pe e2, (len0 (rs_edge pe e2) == len0 pe + len0 e2)%Q.
Proof. exact len0_rs_edge. Qed.
Print Assumptions C15_merged_branch_length.

(** * the same results in the form the run-time oracle uses *)
(** [same_dists t g names] (Judge/C15.v): every path length [dist_opt len0] between two of the
    given tips is defined in [t] and equal in [g]. *)
Theorem C15_oracle_form :
  forall t g k names,
    NoDup (leaves t) -> NoDup (leaves g) ->
    dists_equiv (fP k (pairdists len0 g)) (fP k (pairdists len0 t)) ->
    (forall x, In x names -> k x = true /\ In x (leaves t) /\ In x (leaves g)) ->
    same_dists t g names = true.
Proof. exact same_dists_intro. Qed.
Print Assumptions C15_oracle_form.

Theorem C15_merge_oracle :
  forall t1 t2 t' i1 i2 names,
    merge t1 t2 i1 i2 = Ok t' -> NoDup (leaves t1) -> NoDup (leaves t2) ->
    (forall x, In x (leaves t1) -> In x (leaves t2) -> False) ->
    (forall x, In x names -> In x (leaves t1)) ->
    same_dists t1 t' names = true.
Proof. exact merge_same_dists. Qed.
Print Assumptions C15_merge_oracle.

Theorem C15_graft_oracle :
  forall t g t' idx tip names,
    graft t idx tip g = Ok t' -> wf t = true ->
    NoDup (leaves t) -> NoDup (leaves g) ->
    (forall x, In x (leaves t) -> In x (leaves g) -> False) ->
    (forall x, In x names -> In x (leaves t) /\ x <> tip) ->
    same_dists t t' names = true.
Proof. exact graft_same_dists. Qed.
Print Assumptions C15_graft_oracle.

Theorem C15_insert_oracle :
  forall t t' idx groups names,
    wf t = true -> (forall x, In x (leaves t) -> In x idx) -> ~ In ""%string idx ->
    Forall (fun g => ~ In ""%string g) groups ->
    insert_identical t idx groups = Ok t' ->
    NoDup (leaves t) ->
    (forall x, In x names -> In x (leaves t)) ->
    same_dists t t' names = true.
Proof. exact insert_same_dists. Qed.
Print Assumptions C15_insert_oracle.

Theorem C15_remove_single_oracle :
  forall t names,
    NoDup (leaves t) -> (forall x, In x names -> In x (leaves t)) ->
    same_dists t (remove_single t) names = true.
Proof. exact remove_single_same_dists. Qed.
Print Assumptions C15_remove_single_oracle.

(** * copies are independent: Clone on a store with ids (Model/HeapClone.v) *)
(** [repr P h nid par t]: in the store [h] the node [nid] carries the tree [t] and every node,
    branch and comment cell used has its id in the region [P].  [repr] reads the store only
    inside the region: *)
Theorem C15_heap_frame :
  forall P h h2 t nid par, agree P h h2 -> repr P h nid par t -> repr P h2 nid par t.
Proof. exact repr_frame. Qed.
Print Assumptions C15_heap_frame.

(** Clone of a store region below [k] that carries [t] (fresh ids start at [hnext h] >= k):
    the source region is untouched and still carries [t]; the copy lives in the fresh region
    and carries the abstract clone [clone t] of Model/LocalEdit.v *)
Theorem C15_heap_clone :
  forall t fuel h root k,
    repr (below k) h root None t -> k <= hnext h -> usize t <= fuel ->
    exists m', hnext (fst (clone_h fuel h root)) = m' /\ hnext h <= snd (clone_h fuel h root) < m' /\
      agree (below k) h (fst (clone_h fuel h root)) /\
      repr (below k) (fst (clone_h fuel h root)) root None t /\
      repr (between (hnext h) m') (fst (clone_h fuel h root)) (snd (clone_h fuel h root)) None (clone t).
Proof. exact clone_h_ok. Qed.
Print Assumptions C15_heap_clone.

Theorem C15_heap_regions_disjoint :
  forall k m m' i, k <= m -> below k i -> between m m' i -> False.
Proof. exact regions_disjoint. Qed.
Print Assumptions C15_heap_regions_disjoint.

(** hence: after Clone, any later store that differs from the result only outside the source
    region (every write to a node, branch or comment cell of the copy is such a change) still
    carries [t] at the source; and symmetrically for the copy *)
Theorem C15_heap_independent :
  forall t fuel h root k,
    repr (below k) h root None t -> k <= hnext h -> usize t <= fuel ->
    let h' := fst (clone_h fuel h root) in
    let r' := snd (clone_h fuel h root) in
    (forall h2, agree (below k) h' h2 -> repr (below k) h2 root None t) /\
    (forall h2, agree (between (hnext h) (hnext h')) h' h2 ->
                repr (between (hnext h) (hnext h')) h2 r' None (clone t)).
Proof. exact clone_independent. Qed.
Print Assumptions C15_heap_independent.

Example C15_heap_example : repr (below 15) ex_heap 0 None ex_tree.
Proof. exact ex_heap_repr. Qed.
Print Assumptions C15_heap_example.

(** field writes (SetName, SetLength/SetSupport/SetPValue, AddComment/ClearComments on nodes and
    branches) are store updates at the id of the record and, for comments, of its comment cell
    ([touched]); a sequence is [confined Q] when every write touches only ids of [Q] in the
    store it is applied to.  What a region carries is unchanged by ANY sequence of writes
    confined to a disjoint region: *)
Theorem C15_heap_writes_frame :
  forall (P Q : nat -> Prop) h nid par t ws,
    (forall i, P i -> Q i -> False) -> confined Q h ws ->
    repr P h nid par t -> repr P (apply_writes h ws) nid par t.
Proof. exact repr_writes. Qed.
Print Assumptions C15_heap_writes_frame.

(** Clone: editing either one never changes the other *)
Theorem C15_heap_clone_edits :
  forall t fuel h root k,
    repr (below k) h root None t -> k <= hnext h -> usize t <= fuel ->
    let h' := fst (clone_h fuel h root) in
    let r' := snd (clone_h fuel h root) in
    (forall ws, confined (between (hnext h) (hnext h')) h' ws ->
                repr (below k) (apply_writes h' ws) root None t) /\
    (forall ws, confined (below k) h' ws ->
                repr (between (hnext h) (hnext h')) (apply_writes h' ws) r' None (clone t)).
Proof. exact clone_edits. Qed.
Print Assumptions C15_heap_clone_edits.

(** SubTree(n) on the store: the source is untouched, the fresh region carries the copy of the
    node's subtree (its parent slot dropped), and editing either one never changes the other *)
Theorem C15_heap_subtree :
  forall t fuel h nid par k,
    repr (below k) h nid par t ->
    (forall pe pn, par = Some (pe, pn) -> exists hpe, hedges h pe = Some hpe /\ he_left hpe <> nid) ->
    k <= hnext h -> usize t <= fuel ->
    exists m', hnext (fst (subtree_h fuel h nid)) = m' /\ hnext h <= snd (subtree_h fuel h nid) < m' /\
      agree (below k) h (fst (subtree_h fuel h nid)) /\
      repr (below k) (fst (subtree_h fuel h nid)) nid par t /\
      repr (between (hnext h) m') (fst (subtree_h fuel h nid)) (snd (subtree_h fuel h nid)) None
           (copy_node true t).
Proof. exact subtree_h_ok. Qed.
Print Assumptions C15_heap_subtree.

Theorem C15_heap_subtree_edits :
  forall t fuel h nid par k,
    repr (below k) h nid par t ->
    (forall pe pn, par = Some (pe, pn) -> exists hpe, hedges h pe = Some hpe /\ he_left hpe <> nid) ->
    k <= hnext h -> usize t <= fuel ->
    let h' := fst (subtree_h fuel h nid) in
    let r' := snd (subtree_h fuel h nid) in
    (forall ws, confined (between (hnext h) (hnext h')) h' ws ->
                repr (below k) (apply_writes h' ws) nid par t) /\
    (forall ws, confined (below k) h' ws ->
                repr (between (hnext h) (hnext h')) (apply_writes h' ws) r' None (copy_node true t)).
Proof. exact subtree_edits. Qed.
Print Assumptions C15_heap_subtree_edits.

(** * GraftTreeOnTip on the store: what IS shared afterwards *)
(** [graft_h h tn tr] replaces the tip node [tn] of the host by the root [tr] of the graft in
    the host's branch [pe] and in the neighbours of the host's node [pn]; nothing is copied
    or allocated.  Afterwards the handle of the graft tree denotes a subtree of the host: the
    root [tr] keeps its id and everything below it (region [Q]), it has [pn] as a new last
    neighbour through the host's branch [pe], whose right end it now is.  The nodes of the
    graft tree belong to the host from then on (the documented behaviour: "it is advised not
    to use the graft after"): writes through the old handle are writes in the host. *)
Theorem C15_heap_graft_shares :
  forall h tn tr h' (Q : nat -> Prop) n c sl root,
    graft_h h tn tr = Some h' ->
    hnodes h tr = Some root -> hn_name root = n -> hcells h (hn_com root) = Some c ->
    slots_repr Q h (repr Q h) tr None (hn_neigh root) (hn_br root) sl ->
    exists pe pn hpe,
      hedges h pe = Some hpe /\ he_right hpe = tn /\ he_left hpe = pn /\
      (pn <> tr -> ~ Q tr -> ~ Q pn -> ~ Q pe ->
       hnext h' = hnext h /\
       hedges h' pe = Some (mkHE pn tr (he_len hpe) (he_sup hpe) (he_pv hpe) (he_com hpe)) /\
       (forall i, i <> pn -> i <> tr -> hnodes h' i = hnodes h i) /\
       (forall i, i <> pe -> hedges h' i = hedges h i) /\
       (forall i, hcells h' i = hcells h i) /\
       repr (fun i => Q i \/ i = tr \/ i = hn_com root) h' tr (Some (pe, pn))
            (add_up_end (UNode n c sl))).
Proof. exact graft_h_shares. Qed.
Print Assumptions C15_heap_graft_shares.

(** * inputs added to the judges in the later rounds *)
(** chained groups (a group anchored on a tip that an earlier group of the same call added):
    [anchor_pairs idx groups] lists, in the order of the insertions, every added tip with the
    member of its group that the index held when the group was processed.  Exactly these tips
    are added, and each is at distance zero from that member. *)
Theorem C15_insert_chained_added :
  forall t t' idx groups,
    wf t = true -> (forall x, In x (leaves t) -> In x idx) -> ~ In ""%string idx ->
    Forall (fun g => ~ In ""%string g) groups ->
    insert_identical t idx groups = Ok t' ->
    NoDup (map snd (anchor_pairs idx groups)) /\
    Permutation (leaves t') (map snd (anchor_pairs idx groups) ++ leaves t).
Proof. exact insert_identical_added. Qed.
Print Assumptions C15_insert_chained_added.

Theorem C15_insert_chained_zero_distance :
  forall t t' idx groups,
    wf t = true -> (forall x, In x (leaves t) -> In x idx) -> ~ In ""%string idx ->
    Forall (fun g => ~ In ""%string g) groups ->
    insert_identical t idx groups = Ok t' ->
    forall w, (forall e, qeqb (elen e) 0%Q = true -> (w e == 0)%Q) -> NoDup (leaves t) ->
    forall o n d, In (o, n) (anchor_pairs idx groups) -> In (o, n, d) (pairdists w t') -> (d == 0)%Q.
Proof. exact insert_identical_zero_chained. Qed.
Print Assumptions C15_insert_chained_zero_distance.

Example C15_example_chained_groups :
  anchor_pairs ["a"; "b"; "c"; "d"]%string [["x"; "b"]; ["y"; "x"]; ["d"; "z"]]%string
  = [("b", "x"); ("x", "y"); ("d", "z")]%string /\
  exists t', insert_identical ins_tree ["a"; "b"; "c"; "d"]%string [["x"; "b"]; ["y"; "x"]; ["d"; "z"]]%string = Ok t' /\
             leaves t' = ["a"; "x"; "b"; "y"; "c"; "d"; "z"]%string.
Proof. exact ins_example. Qed.
Print Assumptions C15_example_chained_groups.

(** GraftTreeOnTip asks nothing of the names of the grafted tree: it is accepted as soon as the
    index holds the name and a tip of that name exists below the root; in particular a graft
    that re-uses the name of the replaced tip is accepted *)
Theorem C15_graft_accepts :
  forall t idx tip g,
    idx <> [] -> In tip idx -> (is_tip t && String.eqb (uname t) tip) = false ->
    has_tip_child tip t = true ->
    exists t', graft t idx tip g = Ok t'.
Proof. exact graft_accepts. Qed.
Print Assumptions C15_graft_accepts.

Example C15_example_graft_reuses_name :
  exists t', graft (UNode "" [] [Some (mkE 1 nilv nilv [], UNode "l1" [] [None]);
                                 Some (mkE 2 nilv nilv [], UNode "x" [] [None]);
                                 Some (mkE 3 nilv nilv [], UNode "y" [] [None])])
                   ["l1"; "x"; "y"]%string "l1"
                   (UNode "" [] [Some (mkE 1 nilv nilv [], UNode "l1" [] [None]);
                                 Some (mkE 1 nilv nilv [], UNode "z" [] [None])]) = Ok t' /\
             leaves t' = ["l1"; "z"; "x"; "y"]%string.
Proof. exact graft_reuse_example. Qed.
Print Assumptions C15_example_graft_reuses_name.

(** Heap level, branch bitsets (Model/HeapBits.v of C03 paired with the store of
    Model/HeapClone.v): [rbr h t nid] lists the branch ids of the tree [t] carried by node
    [nid]; [reindex len es rows b] = ClearBitSets on the branches [es] then UpdateBitSet
    writing the tip bits [rows].  Re-indexing the clone leaves every bitset of the source as
    it was, and re-indexing the source leaves every bitset of the clone as it was. *)
From GT Require Import Model.HeapBits Model.HeapClone Proofs.HeapClone Proofs.HeapCloneBits.

Theorem C15_heap_reindex_clone_source_bitsets_untouched :
  forall t fuel h root k (b : bits),
    repr (below k) h root None t -> k <= hnext h -> usize t <= fuel ->
    let h' := fst (clone_h fuel h root) in
    let r' := snd (clone_h fuel h root) in
    let es_source := rbr h' t root in
    let es_clone := rbr h' (clone t) r' in
    (forall len rows b', (forall e, In e (map fst rows) -> In e es_clone) ->
        reindex len es_clone rows b = Some b' -> forall x, In x es_source -> b' x = b x) /\
    (forall len rows b', (forall e, In e (map fst rows) -> In e es_source) ->
        reindex len es_source rows b = Some b' -> forall x, In x es_clone -> b' x = b x).
Proof. exact clone_reindex_bitsets. Qed.
Print Assumptions C15_heap_reindex_clone_source_bitsets_untouched.

Example C15_example_heap_reindex_clone :
  ex_es_source = [3; 4] /\ length ex_es_clone = 2 /\
  (forall e, In e ex_es_clone -> ~ In e ex_es_source) /\
  match reindex 2 ex_es_clone (map (fun e => (e, [1])) ex_es_clone) ex_bits with
  | Some b' => map b' ex_es_source = [Some [true; false]; Some [true; false]] /\
               map b' ex_es_clone = [Some [false; true]; Some [false; true]]
  | None => False
  end /\
  match reindex 2 ex_es_source (map (fun e => (e, [1])) ex_es_source) ex_bits with
  | Some b' => map b' ex_es_clone = [Some [true; false]; Some [true; false]] /\
               map b' ex_es_source = [Some [false; true]; Some [false; true]]
  | None => False
  end.
Proof. exact ex_reindex_clone. Qed.
Print Assumptions C15_example_heap_reindex_clone.
