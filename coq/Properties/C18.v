(** C18: results never depend on hash-map iteration order.
    [Gen.MapRanges.sites] is regenerated from /repo by tools/gotrans on every run: it lists every
    `range` statement whose operand has map type.  A Go map range is modelled as a fold over an
    arbitrary permutation of the key list. *)
From Coq Require Import String Bool Arith List Permutation.
From GT Require Import Model.MapSites Model.MapSitesTable Proofs.MapOrder Gen.MapRanges.
Import ListNotations.

(** every map-range site of the current source is a reviewed site with an unchanged loop body *)
Theorem C18_sites_covered : uncovered sites = [].
Proof. vm_compute. reflexivity. Qed.
Print Assumptions C18_sites_covered.

(** order independence, for every permutation of the keys, of each reviewed loop shape *)
Theorem C18_collect_then_sort :
  forall keys keys', Permutation keys keys' -> ssort keys = ssort keys'.
Proof. exact collect_then_sort_order_independent. Qed.
Print Assumptions C18_collect_then_sort.

Theorem C18_collect_distinct_then_sort :
  forall vals vals', Permutation vals vals' -> ssort (dedup [] vals) = ssort (dedup [] vals').
Proof. exact collect_distinct_then_sort_order_independent. Qed.
Print Assumptions C18_collect_distinct_then_sort.

Theorem C18_insert_only :
  forall (V : Type) (g : string -> V) (dst : fmap V) keys keys', Permutation keys keys' ->
  feq (fold_left (fun d k => upd d k (Some (g k))) keys dst)
      (fold_left (fun d k => upd d k (Some (g k))) keys' dst).
Proof. exact @insert_only_order_independent. Qed.
Print Assumptions C18_insert_only.

Theorem C18_idempotent_marks :
  forall idx keep c keys keys', Permutation keys keys' ->
  peq (fold_left (mark idx keep) keys c) (fold_left (mark idx keep) keys' c).
Proof. exact marks_order_independent. Qed.
Print Assumptions C18_idempotent_marks.

Theorem C18_commutative_aggregate :
  forall dst kvs kvs', Permutation kvs kvs' -> feq (fold_left addto kvs dst) (fold_left addto kvs' dst).
Proof. exact aggregate_order_independent. Qed.
Print Assumptions C18_commutative_aggregate.

Theorem C18_insert_distinct_or_error :
  forall (V : Type) (src : string -> V) (dst : fmap V) keys keys', NoDup keys -> Permutation keys keys' ->
  ofeq (fold_left (append_step src) keys (Some dst)) (fold_left (append_step src) keys' (Some dst)).
Proof. exact @append_order_independent. Qed.
Print Assumptions C18_insert_distinct_or_error.

Theorem C18_delete_all :
  forall (V : Type) (m : fmap V) keys keys', Permutation keys keys' ->
  feq (fold_left (fun d k => upd d k None) keys m) (fold_left (fun d k => upd d k None) keys' m).
Proof. exact @delete_all_order_independent. Qed.
Print Assumptions C18_delete_all.

Theorem C18_existential :
  forall (p : string -> bool) keys keys', Permutation keys keys' -> forallb p keys = forallb p keys'.
Proof. exact existential_order_independent. Qed.
Print Assumptions C18_existential.

Theorem C18_independent_updates :
  forall index names kvs kvs',
  (forall a b id, index a = Some id -> index b = Some id -> a = b) ->
  NoDup (map fst kvs) -> Permutation kvs kvs' ->
  seq_eq (fold_left (rename_step index) kvs names) (fold_left (rename_step index) kvs' names).
Proof. exact independent_updates_order_independent. Qed.
Print Assumptions C18_independent_updates.

(** non-vacuity: the inventory is not empty and the sort really sorts *)
Example C18_inventory_nonempty : 10 <= length sites.
Proof. vm_compute. repeat constructor. Qed.
Print Assumptions C18_inventory_nonempty.

Example C18_sort_example : ssort ["t2"; "t10"; "a"; "t1"]%string = ["a"; "t1"; "t10"; "t2"]%string.
Proof. vm_compute. reflexivity. Qed.
Print Assumptions C18_sort_example.
