(** C09: the consensus contains exactly the sufficiently frequent splits.
    Statements about the model Model/Consensus.v ([consensus_gen] over the association-list index
    = tree.Consensus; the judge checks on every case that the model over the real hash index
    counts the same splits and compares the Go tree with it structurally); proofs in
    Proofs/Consensus{Float,Count,Main,Freq}.v (on top of Proofs/Compare*.v and of
    Proofs/IndexTree.v, Proofs/IndexSplit.v of C04).
    Vocabulary: [class_count k ks] / [class_len k ks] = number of branches of [ks] defining the
    bipartition of [k] / sum of their lengths; [ok_input t] = the tree as the loop sees it
    ([prep_input]: a rooted input is cloned and unrooted) is good (well formed, root degree >= 2,
    distinct tip names); [member t0 t] = ok, on the taxa of [t0], branches defining pairwise
    distinct bipartitions; [tree_freq s ts] = number of trees containing the split;
    [keep_split c64 n c] = the test of the code on a stored Count (binary64 modelled exactly);
    [freq64 c n] = float64(c)/float64(n). *)
From Coq Require Import String NArith ZArith QArith Bool Arith List Permutation.
From GT Require Import Base.UTree Spec.Obs Spec.ConsensusSpec Model.Reroot Model.Index Model.EdgeIndex Model.Compare Model.Consensus
     Proofs.IndexSplit Proofs.CompareTree Proofs.CompareMain Proofs.ConsensusFloat Proofs.ConsensusCount
     Proofs.ConsensusMain Proofs.ConsensusFreq Proofs.CompareDomain Proofs.CompareBridge Proofs.ConsensusRooted.
From GT Require Import Spec.Unrooted Proofs.Unroot Proofs.ConsensusRound Proofs.ConsensusCompat Proofs.CompareTotal Proofs.ConsensusFold Proofs.ConsensusInsert Proofs.ConsensusTreeMain.
From GT Require Import Model.ConsensusTree Proofs.CompareDomain Proofs.ConsensusCompat Proofs.CompareReject Proofs.ConsensusReject Proofs.CompareCor.
Import ListNotations.
Local Close Scope Q_scope.
Local Open Scope string_scope.

(** * selection *)
(** a stored Count c (among n trees) is kept iff 0 < c <= n and (c/n computed in binary64 is
    strictly greater than the binary64 threshold, or c = n) *)
Theorem C09_keep_split_iff :
  forall c64 n c, (0 < n)%Z ->
    (keep_split c64 n c = true <-> (0 < c <= n)%Z /\ ((c64 < freq64 c n)%Q \/ c = n)).
Proof. exact keep_split_iff. Qed.
Print Assumptions C09_keep_split_iff.

(** in exact arithmetic the bound ]cutoff*n, n] of EdgeIndex.Edges is "frequency > cutoff or
    in every tree" *)
Theorem C09_keep_exact :
  forall (cutoff : Q) (n c : Z), (0 < n)%Z -> (0 < c <= n)%Z ->
    (keep_count (Qround.Qfloor (cutoff * inject_Z n)) n c = true <->
     (cutoff < inject_Z c / inject_Z n)%Q \/ c = n).
Proof. exact keep_exact. Qed.
Print Assumptions C09_keep_exact.

(** with the binary64 bound int(cutoff*float64(n)) of the code before the fix 27ef6c9 a split whose
    frequency EQUALS the threshold is kept (0.58, 50 trees, 29 of them) *)
Theorem C09_keep_old_refuted :
  exists (cutoff : Q) (n c : Z),
    (0 < c <= n)%Z /\ c <> n /\ (inject_Z c / inject_Z n == cutoff)%Q /\
    keep_split_old (round53 cutoff) n c = true.
Proof. exact keep_old_refuted. Qed.
Print Assumptions C09_keep_old_refuted.

Example C09_keep_new_witness : keep_split (round53 (58 # 100)) 50 29 = false.
Proof. exact keep_new_witness. Qed.
Print Assumptions C09_keep_new_witness.

(** on the thresholds of the generators, all n <= 52 and all counts, the test of the code is exactly
    "frequency > decimal threshold or c = n", and the old bound differed exactly once.
    (Proofs/ConsensusFloat.v [round53_matches_primitive_floats_on_grid] checks on the same grid that
    the rational model of binary64 agrees with Coq's primitive floats; it is not restated here
    because Print Assumptions lists the primitive float operations as axioms.) *)
Theorem C09_keep_split_exact_on_grid : new_agrees 52 = true.
Proof. exact keep_split_exact_on_grid. Qed.
Print Assumptions C09_keep_split_exact_on_grid.

Theorem C09_keep_split_old_differs_on_grid : old_differs 52 = [(58, 100, 50, 29)%Z].
Proof. exact keep_split_old_differs_on_grid. Qed.
Print Assumptions C09_keep_split_old_differs_on_grid.

(** * counting *)
(** after any sequence of AddEdgeCount: one entry per bipartition, holding the number of
    branches defining it and the sum of their lengths *)
Theorem C09_add_all_counts :
  forall ks, exists a, add_all aindex ai_add [] ks = Some a /\
    (forall k c l, In (k, (c, l)) a -> c = class_count k ks /\ (l == class_len k ks)%Q) /\
    (forall k', In k' ks -> exists kv, In kv a /\ ekey_eqb k' (fst kv) = true) /\
    (forall pre k v post, a = (pre ++ (k, v) :: post)%list ->
                          forall kv, In kv (pre ++ post)%list -> ekey_eqb k (fst kv) = false).
Proof. exact add_all_counts. Qed.
Print Assumptions C09_add_all_counts.

(** the counts and the sums do not depend on the order of the branches *)
Theorem C09_class_count_perm :
  forall k ks ks', Permutation ks ks' -> class_count k ks = class_count k ks'.
Proof. exact class_count_perm. Qed.
Print Assumptions C09_class_count_perm.

Theorem C09_class_len_perm :
  forall k ks ks', Permutation ks ks' -> (class_len k ks == class_len k ks')%Q.
Proof. exact class_len_perm. Qed.
Print Assumptions C09_class_len_perm.

(** the loop over a collection of good trees on the same taxa does not fail and leaves these
    entries ([keys_from 0 ts] = all the branches of all the prepared trees) *)
Theorem C09_cons_counts_entries :
  forall ts, collection_ok ts ->
    exists a, cons_counts_assoc ts = Some (Ok (a, Z.of_nat (length ts))) /\
      (forall k c l, In (k, (c, l)) a ->
                     c = class_count k (keys_from 0 ts) /\ (l == class_len k (keys_from 0 ts))%Q) /\
      (forall k', In k' (keys_from 0 ts) -> exists kv, In kv a /\ ekey_eqb k' (fst kv) = true) /\
      (forall pre k v post, a = (pre ++ (k, v) :: post)%list ->
                            forall kv, In kv (pre ++ post)%list -> ekey_eqb k (fst kv) = false).
Proof. exact cons_counts_entries. Qed.
Print Assumptions C09_cons_counts_entries.

(** the Count of a bipartition is the number of TREES containing it *)
Theorem C09_count_is_tree_frequency :
  forall t0 ts i tj k s,
    Forall (member t0) ts -> member t0 tj -> key_of (prep_input tj) k s ->
    class_count k (keys_from i ts) = Z.of_nat (tree_freq s ts).
Proof. exact count_is_tree_frequency. Qed.
Print Assumptions C09_count_is_tree_frequency.

Theorem C09_tree_freq_perm :
  forall s ts ts', Permutation ts ts' -> tree_freq s ts = tree_freq s ts'.
Proof. exact tree_freq_perm. Qed.
Print Assumptions C09_tree_freq_perm.

(** every entry is the split [s] of a branch of some tree, its Count is [tree_freq s], and it is
    selected exactly when [tree_freq s] passes the test *)
Theorem C09_selected_iff_frequency :
  forall t0 r c64,
    ok_input t0 -> dupfree (prep_input t0) -> Forall (member t0) r ->
    exists a, cons_counts_assoc (t0 :: r) = Some (Ok (a, Z.of_nat (length (t0 :: r)))) /\
      forall k c l, In (k, (c, l)) a ->
        exists tj s, In tj (t0 :: r) /\ key_of (prep_input tj) k s /\
                     c = Z.of_nat (tree_freq s (t0 :: r)) /\
                     (In (k, (c, l)) (filter (fun kv => keep_split c64 (Z.of_nat (length (t0 :: r))) (fst (snd kv))) a)
                      <-> keep_split c64 (Z.of_nat (length (t0 :: r))) (Z.of_nat (tree_freq s (t0 :: r))) = true).
Proof. exact selected_iff_frequency. Qed.
Print Assumptions C09_selected_iff_frequency.

(** for unrooted inputs of the domain ([unrooted], Proofs/CompareDomain.v: good, root of degree >= 3,
    no node with a single child) [tree_freq] is the frequency of the specification
    ([freq_count], Spec/ConsensusSpec.v, over [usplits]), and the selection reads: *)
Theorem C09_tree_freq_spec :
  forall s ts, Forall unrooted ts -> tree_freq s ts = freq_count ts (sside s).
Proof. exact tree_freq_spec. Qed.
Print Assumptions C09_tree_freq_spec.

Theorem C09_selected_iff_freq_count :
  forall t0 r c64,
    unrooted t0 -> Forall (fun t => unrooted t /\ Permutation (leaves t) (leaves t0)) r ->
    exists a, cons_counts_assoc (t0 :: r) = Some (Ok (a, Z.of_nat (length (t0 :: r)))) /\
      forall k c l, In (k, (c, l)) a ->
        exists tj s, In tj (t0 :: r) /\ key_of tj k s /\
                     c = Z.of_nat (freq_count (t0 :: r) (sside s)) /\
                     (In (k, (c, l)) (filter (fun kv => keep_split c64 (Z.of_nat (length (t0 :: r))) (fst (snd kv))) a)
                      <-> keep_split c64 (Z.of_nat (length (t0 :: r))) (Z.of_nat (freq_count (t0 :: r) (sside s))) = true).
Proof. exact selected_iff_freq_count. Qed.
Print Assumptions C09_selected_iff_freq_count.

(** * rejections *)
Theorem C09_bad_cutoff :
  forall ts (c64 : Q), cutoff_ok c64 = false ->
    consensus_gen aindex ai_new ai_add (fun a => a) ts c64 =
    Some (Err "min frequency for bipartition must be >=0.5 and <=1").
Proof. exact consensus_bad_cutoff. Qed.
Print Assumptions C09_bad_cutoff.

Theorem C09_other_taxa :
  forall t0 pre t post c64,
    ok_input t0 ->
    Forall (fun u => ok_input u /\ Permutation (leaves (prep_input u)) (leaves (prep_input t0))) pre ->
    ok_input t -> ~ (forall x, In x (leaves (prep_input t)) <-> In x (leaves (prep_input t0))) ->
    cutoff_ok c64 = true ->
    consensus_gen aindex ai_new ai_add (fun a => a) (t0 :: pre ++ t :: post)%list c64 =
    Some (Err "Trees do not have the same set of tips").
Proof. exact consensus_other_taxa. Qed.
Print Assumptions C09_other_taxa.

(** * bridge: the counting loop over the real hash index (NewEdgeIndex(128, .75)) leaves the same
    entries as over the association list, up to their order (C04: [ei_add_ref], [inv_new]);
    conditional on the hash-index model returning *)
Theorem C09_cons_counts_hm_refines :
  forall ts kvs n,
    collection_ok ts ->
    cons_counts_hm ts = Some (Ok (kvs, n)) ->
    exists a, cons_counts_assoc ts = Some (Ok (a, n)) /\ Permutation kvs a.
Proof. exact cons_counts_hm_refines. Qed.
Print Assumptions C09_cons_counts_hm_refines.

(** * rooted inputs: the tree the loop works on (Clone + UnRoot) has exactly the bipartitions of the
    input in the sense of the specification ([tree_has t k]: [usplits t], which merges the two
    root branches, contains the key [k]); [input_ok t] = well formed, distinct tip names, a rooted
    input has an inner root child, the prepared tree has pairwise distinct bipartitions *)
Theorem C09_prep_tree_has :
  forall t k, wf t = true -> NoDup (leaves t) -> (rooted t = true -> root_has_inner_child t = true) ->
    tree_has (prep_input t) k = tree_has t k.
Proof. exact prep_tree_has. Qed.
Print Assumptions C09_prep_tree_has.

Theorem C09_tree_freq_spec_gen :
  forall s ts, Forall input_ok ts -> tree_freq s ts = freq_count ts (sside s).
Proof. exact tree_freq_spec_gen. Qed.
Print Assumptions C09_tree_freq_spec_gen.

Theorem C09_selected_iff_freq_count_gen :
  forall t0 r c64,
    ok_input t0 -> dupfree (prep_input t0) -> Forall (member t0) r -> Forall input_ok (t0 :: r) ->
    exists a, cons_counts_assoc (t0 :: r) = Some (Ok (a, Z.of_nat (length (t0 :: r)))) /\
      forall k c l, In (k, (c, l)) a ->
        exists tj s, In tj (t0 :: r) /\ key_of (prep_input tj) k s /\
                     c = Z.of_nat (freq_count (t0 :: r) (sside s)) /\
                     (In (k, (c, l)) (filter (fun kv => keep_split c64 (Z.of_nat (length (t0 :: r))) (fst (snd kv))) a)
                      <-> keep_split c64 (Z.of_nat (length (t0 :: r))) (Z.of_nat (freq_count (t0 :: r) (sside s))) = true).
Proof. exact selected_iff_freq_count_gen. Qed.
Print Assumptions C09_selected_iff_freq_count_gen.

(** * the frequency of a split, hence the decision of the code on it, does not depend on the order
    of the collection, nor on the rooting or the order of the children of any input *)
Theorem C09_freq_count_perm :
  forall ts ts' k, Permutation ts ts' -> freq_count ts k = freq_count ts' k.
Proof. exact freq_count_perm. Qed.
Print Assumptions C09_freq_count_perm.

Theorem C09_freq_count_tperm :
  forall ts ts' k, Forall2 tperm ts ts' -> freq_count ts' k = freq_count ts k.
Proof. exact freq_count_tperm. Qed.
Print Assumptions C09_freq_count_tperm.

Theorem C09_freq_count_reroot :
  forall ts ts' k,
    Forall2 (fun t t' => wf t = true /\ 2 <= degree t /\ NoDup (leaves t) /\ exists i, reroot t i = Ok t') ts ts' ->
    freq_count ts' k = freq_count ts k.
Proof. exact freq_count_reroot. Qed.
Print Assumptions C09_freq_count_reroot.

Theorem C09_selection_invariant :
  forall c64 ts ts' k,
    (exists ts1, Permutation ts ts1 /\ Forall2 (fun t t' => tree_has t' k = tree_has t k) ts1 ts') ->
    keep_split c64 (Z.of_nat (length ts')) (Z.of_nat (freq_count ts' k)) =
    keep_split c64 (Z.of_nat (length ts)) (Z.of_nat (freq_count ts k)).
Proof. exact selection_invariant. Qed.
Print Assumptions C09_selection_invariant.

(** the hypotheses on rooted inputs are satisfiable: ((a,b),(c,d)) *)
Example C09_rooted_input_inhabited :
  rooted wit_rooted = true /\ ok_input wit_rooted /\ input_ok wit_rooted /\ member wit_rooted wit_rooted.
Proof. exact rooted_input_inhabited. Qed.
Print Assumptions C09_rooted_input_inhabited.

(** * the rational model of binary64 rounding, for all positive rationals (normal range): relative
    error at most 2^-53, monotone; hence the test of the code is exactly "frequency > threshold
    or in every tree" whenever (denominator of the threshold) * n < 2^52 -- no grid *)
Theorem C09_round53_error :
  forall x : Q, (0 < x)%Q -> (Qabs.Qabs (round53 x - x) <= x * (1 # 2 ^ 53))%Q.
Proof. exact round53_error. Qed.
Print Assumptions C09_round53_error.

Theorem C09_round53_mono :
  forall x y : Q, (0 < x)%Q -> (x <= y)%Q -> (round53 x <= round53 y)%Q.
Proof. exact round53_mono. Qed.
Print Assumptions C09_round53_mono.

Theorem C09_keep_split_exact :
  forall (cutoff : Q) (n c : Z),
    (0 < cutoff)%Q -> (cutoff <= 1)%Q -> (0 < c <= n)%Z -> (Zpos (Qden cutoff) * n < 2 ^ 52)%Z ->
    (keep_split (round53 cutoff) n c = true <-> ((cutoff < inject_Z c / inject_Z n)%Q \/ c = n)).
Proof. exact keep_split_exact. Qed.
Print Assumptions C09_keep_split_exact.

(** * compatibility: the precondition of the construction of the consensus tree.
    [compatible all A B]: the sides A, B naming two bipartitions of [all] are disjoint, nested or
    cover [all].  Two bipartitions that are each in more than half of the trees share a tree; the
    branches of one tree are laminar; hence the splits the code keeps at a threshold >= 0.5 are
    pairwise compatible. *)
Theorem C09_majority_share_a_tree :
  forall ts k1 k2,
    length ts < 2 * freq_count ts k1 -> length ts < 2 * freq_count ts k2 ->
    exists t, In t ts /\ tree_has t k1 = true /\ tree_has t k2 = true.
Proof. exact majority_share_a_tree. Qed.
Print Assumptions C09_majority_share_a_tree.

Theorem C09_majority_splits_compatible :
  forall ts all k1 k2,
    Forall (fun t => good t /\ tipset t = all) ts ->
    length ts < 2 * freq_count ts k1 -> length ts < 2 * freq_count ts k2 ->
    compatible all k1 k2.
Proof. exact majority_splits_compatible. Qed.
Print Assumptions C09_majority_splits_compatible.

Theorem C09_kept_is_majority :
  forall (c64 : Q) (n c : Z),
    ((1 # 2) <= c64)%Q -> (0 < n)%Z -> keep_split c64 n c = true -> (n < 2 * c)%Z.
Proof. exact kept_is_majority. Qed.
Print Assumptions C09_kept_is_majority.

Theorem C09_kept_splits_compatible :
  forall ts all (c64 : Q) k1 k2,
    Forall (fun t => good t /\ tipset t = all) ts -> ts <> [] -> ((1 # 2) <= c64)%Q ->
    keep_split c64 (Z.of_nat (length ts)) (Z.of_nat (freq_count ts k1)) = true ->
    keep_split c64 (Z.of_nat (length ts)) (Z.of_nat (freq_count ts k2)) = true ->
    compatible all k1 k2.
Proof. exact kept_splits_compatible. Qed.
Print Assumptions C09_kept_splits_compatible.

(** * totality of the counting loop over the real hash index (fewer than 2^58 branches in the
    whole collection): it returns, with the entries of the association-list instance up to order *)
Theorem C09_cons_counts_hm_eq :
  forall ts, collection_ok ts -> length (keys_from 0 ts) < 2 ^ 58 ->
    exists kvs, cons_counts_hm ts = Some (Ok (kvs, Z.of_nat (length ts))) /\
                Permutation kvs (add_list [] (keys_from 0 ts)).
Proof. exact cons_counts_hm_eq. Qed.
Print Assumptions C09_cons_counts_hm_eq.

(** * construction of the consensus tree, the fold, CONDITIONAL on the single-step specification of
    one insertion (AddBipartition at the LCA adds exactly the requested bipartition with its data
    and keeps the others) -- the hypothesis [STEP] below, which is NOT proved for the
    neighbour-list graph of Model/Consensus.v (there the construction is checked structurally by
    the correspondence on every case).  Given it, inserting pairwise compatible, pairwise
    distinct bipartitions one after the other never fails and yields exactly them (with their
    data) plus those of the initial tree; "pairwise compatible" is [C09_kept_splits_compatible]. *)
Theorem C09_ins_all_spec :
  forall (T D : Type) (all : list string) (sp : T -> list (ConsensusFold.key * D))
         (ins : T -> ConsensusFold.key * D -> option T),
    (forall t kd, fits T D all sp t (fst kd) ->
                  exists t', ins t kd = Some t' /\ forall x, In x (sp t') <-> x = kd \/ In x (sp t)) ->
    forall l t,
      NoDup (map fst l) ->
      (forall kd, In kd l -> fits T D all sp t (fst kd)) ->
      (forall kd kd', In kd l -> In kd' l -> fst kd <> fst kd' -> compatible all (fst kd) (fst kd')) ->
      exists t', ins_all T D ins t l = Some t' /\ forall x, In x (sp t') <-> In x l \/ In x (sp t).
Proof. exact ins_all_spec. Qed.
Print Assumptions C09_ins_all_spec.

(** * the constructed consensus tree.
    [consensus_utree] (Model/ConsensusTree.v) builds the tree on [utree]: star tree, then each kept
    bipartition inserted as a clade ([insert_clade]) below the deepest node containing its
    canonical side.  It is tied to the code by the correspondence: on every case the judge checks
    that it has the same bipartitions, lengths and supports as the Go tree (whose exact neighbour
    structure is compared with [consensus_hm], the model of the pointer surgery of AddBipartition).
    The theorems below are about [consensus_utree]. *)

(** the single step: inserting a side laminar with every clade adds exactly one branch with the
    given data and keeps all the others *)
Theorem C09_insert_clade_spec :
  forall (all k : list string) (d : einfo),
    Sorted.StronglySorted Splits.slt k -> 2 <= length k ->
    forall u,
      IndexTree.children_wf (uslots u) = true -> NoDup (leaves u) -> incl k (leaves u) -> kids u <> [] ->
      (forall ec, In ec (edges_below u) -> nested_or_disjoint k (EL ec)) ->
      step_ok all k d u (insert_clade k d u).
Proof. exact insert_clade_spec. Qed.
Print Assumptions C09_insert_clade_spec.

(** the whole tree: its branches are the kept bipartitions with (mean length, frequency) and the
    tip branches with their mean lengths; it is a well-formed tree on the taxa *)
Theorem C09_consensus_utree_spec :
  forall (t0 : utree) (r : list utree) (c64 : Q),
    Forall (fun t => good t /\ tipset t = tipset t0) (t0 :: r) -> ((1 # 2) <= c64)%Q ->
    Permutation (branch_splits (tipset t0) (consensus_utree (t0 :: r) c64))
                (map (fun k => mkSplit k (mean (lens_of (t0 :: r) k))
                                       (inject_Z (Z.of_nat (freq_count (t0 :: r) k)) / inject_Z (Z.of_nat (length (t0 :: r))))%Q false)
                     (kept_keys (t0 :: r) c64)
                 ++ map (fun x => mkSplit (tip_key (tipset t0) x) (mean (lens_of (t0 :: r) (tip_key (tipset t0) x))) nilv true)
                        (tipset t0))
    /\ wf (consensus_utree (t0 :: r) c64) = true
    /\ (forall x, In x (leaves (consensus_utree (t0 :: r) c64)) <-> In x (tipset t0))
    /\ NoDup (leaves (consensus_utree (t0 :: r) c64)).
Proof. exact consensus_utree_spec. Qed.
Print Assumptions C09_consensus_utree_spec.

(** in the words of the property: the inner branches of the consensus are exactly the non-trivial
    bipartitions whose frequency is strictly greater than the threshold or that occur in every
    tree, each with that frequency as support and the mean of its lengths as length *)
Theorem C09_consensus_headline :
  forall (t0 : utree) (r : list utree) (cutoff : Q),
    let ts := t0 :: r in
    let all := tipset t0 in
    let n := length ts in
    Forall (fun t => good t /\ tipset t = all) ts ->
    ((1 # 2) <= cutoff)%Q -> (cutoff <= 1)%Q -> (Zpos (Qden cutoff) * Z.of_nat n < 2 ^ 52)%Z ->
    forall s,
      (In s (branch_splits all (consensus_utree ts (round53 cutoff))) /\ stip s = false) <->
      (exists k, In k (all_keys ts) /\ 2 <= length k /\ 2 <= length all - length k /\
                 ((cutoff < inject_Z (Z.of_nat (freq_count ts k)) / inject_Z (Z.of_nat n))%Q \/ freq_count ts k = n) /\
                 s = mkSplit k (mean (lens_of ts k))
                             (inject_Z (Z.of_nat (freq_count ts k)) / inject_Z (Z.of_nat n))%Q false).
Proof. exact consensus_headline. Qed.
Print Assumptions C09_consensus_headline.

(** * the rejection clause at full strength: a tree with a tip name twice (as the loop sees it), at
    the first or at any later position, makes Consensus fail; with [C09_other_taxa] (another taxon
    set) and [C09_bad_cutoff] these are all the ways taxon multisets or the threshold can be wrong *)
Theorem C09_consensus_dup_first :
  forall t post c64, dup_input t -> cutoff_ok c64 = true ->
    consensus_gen aindex ai_new ai_add (fun a => a) (t :: post) c64 = Some (Err dup_msg).
Proof. exact consensus_dup_first. Qed.
Print Assumptions C09_consensus_dup_first.

Theorem C09_consensus_dup_later :
  forall t0 pre t post c64,
    ok_input t0 ->
    Forall (fun u => ok_input u /\ Permutation (leaves (prep_input u)) (leaves (prep_input t0))) pre ->
    dup_input t -> cutoff_ok c64 = true ->
    consensus_gen aindex ai_new ai_add (fun a => a) (t0 :: pre ++ t :: post)%list c64 = Some (Err dup_msg).
Proof. exact consensus_dup_later. Qed.
Print Assumptions C09_consensus_dup_later.

Example C09_consensus_dup_example :
  consensus [wit_ref; wit_dup] (1 # 2) = Some (Err dup_msg) /\ consensus [wit_dup; wit_ref] (1 # 2) = Some (Err dup_msg).
Proof. exact consensus_dup_example. Qed.
Print Assumptions C09_consensus_dup_example.

(** the headline is not vacuous: ((a,b),c,d) twice and (a,b,c,d), threshold 0.5 *)
Example C09_headline_example :
  let ts := [wit_ref; wit_ref; wit_star] in
  Forall (fun t => good t /\ tipset t = tipset wit_ref) ts /\
  ((1 # 2) <= 1 # 2)%Q /\ (Zpos (Qden (1 # 2)) * Z.of_nat (length ts) < 2 ^ 52)%Z /\
  (exists s, In s (branch_splits (tipset wit_ref) (consensus_utree ts (round53 (1 # 2)))) /\
             stip s = false /\ sside s = ["c"; "d"]%string /\ (ssup s == 2 # 3)%Q /\ (slen s == 1)%Q).
Proof. exact headline_example. Qed.
Print Assumptions C09_headline_example.

(** the set of kept bipartitions does not depend on the order of the collection *)
Theorem C09_kept_keys_perm :
  forall t0 r t0' r' c64 k,
    Permutation (t0 :: r) (t0' :: r') -> tipset t0' = tipset t0 ->
    (In k (kept_keys (t0 :: r) c64) <-> In k (kept_keys (t0' :: r') c64)).
Proof. exact kept_keys_perm. Qed.
Print Assumptions C09_kept_keys_perm.
