(** C02: tree readers are total: never crash, never hang.
    Models: Model/MultiTree.v (fileutils.ReadUntilSemiColon, the Newick loop of
    utils.ReadMultiTrees), Model/Nexus.v (nexus scanner and parser), Model/Clade.v
    (PhyloXML / Nextstrain cladeToTree), Model/Newick.v (C01: the single-tree Newick parser).
    A model result [..Panic] is an array read outside its bounds, [..Fuel] / [OutOfFuel] a
    loop that did not stop within its fuel.  All statements quantify over every input
    (every sequence of bufio.ReadLine results, every byte string, every decoded clade value)
    and over every single-tree parser [np] where one is called. *)
From Coq Require Import String Ascii ZArith QArith Bool Arith List.
From GT Require Import Base.UTree Model.Newick Model.MultiTree Model.Nexus Model.Clade
     Proofs.NewickFuel Proofs.NewickWf Proofs.MultiTree Proofs.NexusLex Proofs.NexusTotal Proofs.NexusFirst Proofs.Clade
     Proofs.ReadersWf.
Import ListNotations.
Local Close Scope Q_scope.
Local Open Scope string_scope.

(** * multi-Newick stream *)
(** the splitter never reads its line buffer outside the bounds (code after the fix 114996a) *)
Theorem C02_splitter_safe : forall reads, read_until_semicolon reads <> RPanic.
Proof. exact read_until_semicolon_no_panic. Qed.
Print Assumptions C02_splitter_safe.

Theorem C02_splitter_terminates : forall reads, read_until_semicolon reads <> RFuel.
Proof. exact read_until_semicolon_no_fuel. Qed.
Print Assumptions C02_splitter_terminates.

(** the reader loop of ReadMultiTrees(newick) always reaches close(channel): it delivers
    finitely many records, then stops, without panic *)
Theorem C02_multi_reader_total :
  forall (np : string -> utree + string) reads, exists l, read_multi np reads = MDone l.
Proof. exact read_multi_total. Qed.
Print Assumptions C02_multi_reader_total.

(** the unchanged code read ln[-1] on a line made of one blank *)
Theorem C02_splitter_safe_unfixed_refuted : back_scan_unfixed 3 " " 0 " "%char = ScanPanic.
Proof. exact back_scan_unfixed_panics. Qed.
Print Assumptions C02_splitter_safe_unfixed_refuted.

(** * Nexus *)
(** the scanner: at the end of the input the EOF token forever, otherwise every token
    consumes at least one byte *)
Theorem C02_nexus_scanner_consumes :
  forall s t l r, Nexus.scan s = (t, l, r) ->
                  String.length r <= String.length s /\ (t <> Nexus.EOF -> String.length r < String.length s).
Proof. exact scan_spec. Qed.
Print Assumptions C02_nexus_scanner_consumes.

(** every parser loop returns, having consumed input, when its fuel exceeds the length of
    the remaining input (each iteration consumes a token or stops) *)
Theorem C02_nexus_comment_loop : forall fuel s,
    String.length s < fuel -> good (String.length s) (consume_comment fuel s).
Proof. exact consume_comment_total. Qed.
Print Assumptions C02_nexus_comment_loop.

Theorem C02_nexus_taxa_loop : forall fuel ntax labels err s,
    String.length s < fuel -> good (String.length s) (parse_taxa fuel ntax labels err s).
Proof. exact parse_taxa_total. Qed.
Print Assumptions C02_nexus_taxa_loop.

Theorem C02_nexus_trees_loop : forall fuel st err s,
    String.length s < fuel -> good (String.length s) (parse_trees fuel st err s).
Proof. exact parse_trees_total. Qed.
Print Assumptions C02_nexus_trees_loop.

Theorem C02_nexus_translate_loop : forall fuel tbl s,
    String.length s < fuel -> good (String.length s) (parse_translate fuel tbl s).
Proof. exact parse_translate_total. Qed.
Print Assumptions C02_nexus_translate_loop.

Theorem C02_nexus_data_loop : forall fuel st err s,
    String.length s < fuel -> good (String.length s) (parse_data fuel st err s).
Proof. exact parse_data_total. Qed.
Print Assumptions C02_nexus_data_loop.

Theorem C02_nexus_unsupported_command_loop : forall fuel s,
    String.length s < fuel -> good (String.length s) (unsupported_command fuel s).
Proof. exact unsupported_command_total. Qed.
Print Assumptions C02_nexus_unsupported_command_loop.

Theorem C02_nexus_unsupported_block_loop : forall fuel s,
    String.length s < fuel -> good (String.length s) (unsupported_block fuel s).
Proof. exact unsupported_block_total. Qed.
Print Assumptions C02_nexus_unsupported_block_loop.

(** nexus.Parser.Parse: never out of fuel (fuel = length + 2), never a panic (code after the
    fixes fcf4ced and 4b7059e) *)
Theorem C02_nexus_total :
  forall (np : string -> utree + string) s,
    let r := nexus_parse np s in r <> Nexus.POutOfFuel /\ r <> Nexus.PPanic.
Proof. intros np s. destruct (nexus_parse_total np s) as [A B]. split; assumption. Qed.
Print Assumptions C02_nexus_total.

Theorem C02_nexus_fuel_irrelevant :
  forall (np : string -> utree + string) s fuel,
    String.length s + 2 <= fuel ->
    nexus_parse_fuel np fuel s <> Nexus.POutOfFuel /\ nexus_parse_fuel np fuel s <> Nexus.PPanic.
Proof. intros np s fuel H. destruct (nexus_parse_fuel_safe np s fuel H) as [A B]. split; assumption. Qed.
Print Assumptions C02_nexus_fuel_irrelevant.

(** the unchanged consumeComment never left its loop at the end of the input *)
Theorem C02_nexus_comment_loop_unfixed_refuted :
  forall fuel err, consume_comment_unfixed fuel err "" = OutOfFuel.
Proof. exact consume_comment_unfixed_hangs. Qed.
Print Assumptions C02_nexus_comment_loop_unfixed_refuted.

(** the trees a Nexus file delivers have the structure the Newick parser built (Rename only
    changes names) *)
Theorem C02_nexus_rename_keeps_structure :
  forall tbl t t', rename_tree tbl t = inl t' -> wf t' = wf t.
Proof. exact rename_tree_wf. Qed.
Print Assumptions C02_nexus_rename_keeps_structure.

(** * single Newick (the model and the termination argument are C01's) *)
Theorem C02_newick_terminates :
  forall (numeric : string -> bool) (parse_num : string -> option Q) (s : string),
    Newick.parse numeric parse_num s <> Newick.POutOfFuel.
Proof. exact parse_no_fuel. Qed.
Print Assumptions C02_newick_terminates.

(** * PhyloXML / Nextstrain: the clade conversions are structural, hence total; a delivered
    tree is a well-formed rooted structure, the only error is the unnamed tip *)
Theorem C02_clade_to_tree_total : forall c,
    (exists t, clade_to_tree c = inl t /\ wf t = true) \/ clade_to_tree c = inr "One tip has no name".
Proof. exact clade_to_tree_total. Qed.
Print Assumptions C02_clade_to_tree_total.

Theorem C02_nextstrain_to_tree_total : forall c,
    (exists t, ns_to_tree c = inl t) \/ ns_to_tree c = inr "one tip has no name".
Proof. intros c. exact (ns_node_total c true). Qed.
Print Assumptions C02_nextstrain_to_tree_total.

(** * every delivered tree can be traversed, indexed and written: in the model this is
    well-formedness of the delivered structure ([wf]: no parent slot in the root, exactly one
    in every other node); the model's traversals ([nodes], [edges], [tips]), index
    computations and writers are total Coq functions on every [utree].  What remains observed
    only (oracle of Judge/C02.v on every case): that the Go methods Nodes/Edges/Tips/
    ReinitIndexes/Newick terminate without panic on the pointer structure the readers build
    (e.g. the nil-edge dereference of computeEdgeHashesRightRecur on a single-child root was
    found there), and the decoding layers encoding/xml, encoding/json. *)
(** single Newick (C01_parsed_tree_wf), lifted to the other readers *)
Theorem C02_newick_delivered_wf :
  forall (numeric : string -> bool) (parse_num : string -> option Q) s t,
    Newick.parse numeric parse_num s = Newick.POk t -> wf t = true.
Proof. exact parse_wf. Qed.
Print Assumptions C02_newick_delivered_wf.

Theorem C02_multi_delivered_wf :
  forall (np : string -> utree + string),
    (forall s t, np s = inl t -> wf t = true) ->
    forall reads l, read_multi np reads = MDone l -> Forall item_wf l.
Proof. exact read_multi_wf. Qed.
Print Assumptions C02_multi_delivered_wf.

Theorem C02_nexus_delivered_wf :
  forall (np : string -> utree + string),
    (forall s t, np s = inl t -> wf t = true) ->
    forall s d, nexus_parse np s = Nexus.POk d -> Forall (fun p => wf (snd p) = true) (doc_trees d).
Proof. exact nexus_parse_wf. Qed.
Print Assumptions C02_nexus_delivered_wf.

Theorem C02_phyloxml_delivered_wf : forall c t, clade_to_tree c = inl t -> wf t = true.
Proof. exact clade_to_tree_wf. Qed.
Print Assumptions C02_phyloxml_delivered_wf.

Theorem C02_nextstrain_delivered_wf : forall c t, ns_to_tree c = inl t -> wf t = true.
Proof. exact ns_to_tree_wf. Qed.
Print Assumptions C02_nextstrain_delivered_wf.

(** * totality on every byte string, assembled: whatever the bytes and the buffer size, the
    multi-Newick reader closes its channel after finitely many records (trees, then possibly one
    error) and the Nexus parser returns a document or an error; with the Newick parser of C01
    embedded, which itself never runs out of fuel (C01_parse_raw_total / C02_newick_terminates) *)
Theorem C02_multi_total_on_bytes :
  forall (np : string -> utree + string) (bufsz : nat) (s : string),
    exists l, read_multi np (phys_reads (S (String.length s)) bufsz s) = MDone l.
Proof. intros np bufsz s. apply read_multi_total. Qed.
Print Assumptions C02_multi_total_on_bytes.

Theorem C02_nexus_error_or_trees :
  forall (np : string -> utree + string) (s : string),
    (exists d, nexus_parse np s = Nexus.POk d) \/ (exists e, nexus_parse np s = Nexus.PErr e).
Proof.
  intros np s. destruct (nexus_parse_total np s) as [A B].
  destruct (nexus_parse np s) as [d|e| |]; [left; eauto|right; eauto|contradiction|contradiction].
Qed.
Print Assumptions C02_nexus_error_or_trees.

Theorem C02_readers_total_with_newick :
  forall (numeric : string -> bool) (parse_num : string -> option Q) (bufsz : nat) (s : string),
    Newick.parse numeric parse_num s <> Newick.POutOfFuel /\
    (exists l, read_multi (fun x => match Newick.parse numeric parse_num x with
                                    | Newick.POk t => inl t | Newick.PErr m => inr m | Newick.POutOfFuel => inr "" end)
                          (phys_reads (S (String.length s)) bufsz s) = MDone l) /\
    ((exists d, nexus_parse (fun x => match Newick.parse numeric parse_num x with
                                      | Newick.POk t => inl t | Newick.PErr m => inr m | Newick.POutOfFuel => inr "" end) s = Nexus.POk d) \/
     (exists e, nexus_parse (fun x => match Newick.parse numeric parse_num x with
                                      | Newick.POk t => inl t | Newick.PErr m => inr m | Newick.POutOfFuel => inr "" end) s = Nexus.PErr e)).
Proof.
  intros numeric parse_num bufsz s. split; [apply parse_no_fuel|]. split.
  - apply read_multi_total.
  - apply C02_nexus_error_or_trees.
Qed.
Print Assumptions C02_readers_total_with_newick.
