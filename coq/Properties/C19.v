(** C19: omitting a command-line option means its documented default.
    [Gen.Flags.regs] is regenerated from /repo/cmd/*.go by tools/gotrans on every run. *)
From Coq Require Import String Bool List.
From GT Require Import Model.Flags Proofs.Flags Gen.Flags.
Import ListNotations.

(** general: for every registration sequence, "every documented default is the value used"
    is equivalent to "no two registrations bind one variable to different defaults" *)
Theorem C19_consistent_iff_no_conflict :
  forall rs, consistent rs = true <-> no_conflict rs = true.
Proof. exact consistent_iff_no_conflict. Qed.
Print Assumptions C19_consistent_iff_no_conflict.

Theorem C19_register_other_preserves :
  forall rs extra r, In r rs -> (forall r', In r' extra -> rvar r' <> rvar r) ->
  used_when_omitted (rs ++ extra) r = used_when_omitted rs r.
Proof. exact register_other_preserves. Qed.
Print Assumptions C19_register_other_preserves.

(** the translator understood every registration of the current source *)
Theorem C19_translation_complete : translation_problems = [].
Proof. vm_compute. reflexivity. Qed.
Print Assumptions C19_translation_complete.

(** the current source: after all init() functions have run, every option of every command,
    when omitted, has the default its help text shows *)
Theorem C19_defaults_of_current_source :
  forall r, In r regs -> used_when_omitted regs r = Some (rdef r).
Proof.
  intros r Hr. apply consistent_used; [vm_compute; reflexivity|exact Hr].
Qed.
Print Assumptions C19_defaults_of_current_source.

(** non-vacuity: there are registrations, some variables are shared by many commands *)
Example C19_regs_nonempty :
  200 <= length regs /\ 30 <= length (filter (fun r => String.eqb (rvar r) "outtreefile") regs).
Proof. vm_compute. split; repeat constructor. Qed.
Print Assumptions C19_regs_nonempty.

(** behaviour may depend on an option's VALUE only: every `Flags().Changed(..)` presence test of
    the current source is one of the reviewed ones (which are reported as a known finding) *)
Theorem C19_no_unreviewed_presence_test : unreviewed_changed changed_sites = [].
Proof. vm_compute. reflexivity. Qed.
Print Assumptions C19_no_unreviewed_presence_test.

(** nothing is done to an option besides registering it and (reviewed) presence tests: no
    NoOptDefVal / DefValue / Hidden edits, no Lookup / Set / normalisation calls in the current source *)
Theorem C19_no_unreviewed_option_edit : unreviewed_touch flag_touch_sites = [].
Proof. vm_compute. reflexivity. Qed.
Print Assumptions C19_no_unreviewed_option_edit.

(** "passing the default value": for an option that consumes its value (every non-Bool option as
    registered), each way of writing `name default` on the command line leaves the default and no
    stray positional argument; an option given a non-empty NoOptDefVal loses that *)
Theorem C19_passing_default_is_default :
  forall f d, parse_given ""%string f d = (d, 0).
Proof. exact parse_given_default. Qed.
Print Assumptions C19_passing_default_is_default.

Theorem C19_noopt_breaks_space_form :
  forall noopt d, noopt <> ""%string -> parse_given noopt LongSpace d <> (d, 0).
Proof. exact parse_given_noopt_refuted. Qed.
Print Assumptions C19_noopt_breaks_space_form.

(** no numeric option is compared with its own documented default besides the five reviewed,
    documented "-1" sentinels: the default is never silently "not set" *)
Theorem C19_no_unreviewed_default_sentinel : unreviewed_sentinels default_sentinel_sites = [].
Proof. vm_compute. reflexivity. Qed.
Print Assumptions C19_no_unreviewed_default_sentinel.
