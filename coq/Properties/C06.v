(** C06: pruning yields exactly the induced subtree.
    Model: Model/Prune.v (Tree.RemoveTips / Tree.removeTip).  Observables: Spec/Obs.v.
    [kept revert names x]: the tip named x must remain;  [fP k l]: the entries (a, b, d) of a
    pair-distance list whose two tips satisfy k;  [dists_equiv]: same multiset of
    (tip, tip, distance) entries, distances up to Qeq;  [len0]: a branch length, absent = 0. *)
From Coq Require Import String ZArith QArith Bool Arith List Permutation.
From GT Require Import Base.UTree Spec.Obs Spec.Induced Spec.Unrooted Model.Reroot Model.Prune
     Proofs.PruneBase Proofs.PruneStep Proofs.PruneRoot Proofs.Prune Proofs.PruneSplits Proofs.PruneTotal Proofs.PruneOracle Proofs.PruneNegative.
Import ListNotations.
Local Close Scope Q_scope.
Local Open Scope string_scope.

(** one call of removeTip: every invariant is kept, exactly the tip [nm] disappears, every
    path length between two other tips is unchanged *)
Theorem C06_remove_tip :
  forall nm t t',
    wf t = true -> no_single t = true -> degree t <> 1 -> NoDup (leaves t) ->
    remove_tip nm t = Ok t' ->
    wf t' = true /\ no_single t' = true /\ degree t' <> 1 /\ In nm (leaves t) /\
    Permutation (leaves t') (filter (knm nm) (leaves t)) /\
    dists_equiv (pairdists len0 t') (fP (knm nm) (pairdists len0 t)).
Proof. exact remove_tip_ok. Qed.
Print Assumptions C06_remove_tip.

(** RemoveTips(revert, names...) on any well-formed tree without single-child nodes and with
    distinct tip names: the result is well formed, has no single-child inner node, its tips
    are exactly the requested ones (names that are not in the tree are ignored: [names] is
    arbitrary), and the path length between any two remaining tips is unchanged.
    HYPOTHESIS OF THE PATH-LENGTH CLAUSE: lengths are read through [len0] (Spec/Obs.v), which
    counts the absent sentinel -1 AND every other negative length as 0.  For trees whose present
    lengths are all >= 0 this is the path length; for trees with negative lengths the clause
    speaks about the clamped lengths only, and with the lengths read as themselves it is false:
    [C06_path_lengths_negative_refuted] below (known finding C06-negative-length-clamped-on-merge). *)
Theorem C06_remove_tips_induced :
  forall revert names t t',
    wf t = true -> no_single t = true -> 2 <= degree t -> NoDup (leaves t) ->
    remove_tips revert names t = Ok t' ->
    wf t' = true /\ no_single t' = true /\
    Permutation (leaves t') (filter (kept revert names) (leaves t)) /\
    dists_equiv (pairdists len0 t') (fP (kept revert names) (pairdists len0 t)).
Proof. exact remove_tips_ok. Qed.
Print Assumptions C06_remove_tips_induced.

(** REFUTED with every present length read as itself ([len_raw], Spec/Induced.v): on
    (t0:15/32,(t2,t1:-17/16):97/32,t3:-105/64) minus t2 the model (as the Go code: removeTip gives
    the merged branch the length max(0,l1) + max(0,l2)) returns (t0:15/32,t3:-105/64,t1:97/32): the
    t0-t1 path length goes from 39/16 to 7/2, while through [len0] it is 7/2 before and after.
    The witness is inside the domain of the theorem above. *)
Theorem C06_path_lengths_negative_refuted :
  wf ng_wit = true /\ no_single ng_wit = true /\ degree ng_wit = 3 /\
  exists t', remove_tips false ["t2"] ng_wit = Ok t' /\
             dist_is len_raw ng_wit "t0" "t1" (39#16)%Q = true /\ dist_is len_raw t' "t0" "t1" (7#2)%Q = true /\
             induced_dists_raw ng_wit t' ["t0"; "t1"; "t3"] = false /\
             dist_is len0 ng_wit "t0" "t1" (7#2)%Q = true /\ dist_is len0 t' "t0" "t1" (7#2)%Q = true /\
             induced_dists ng_wit t' ["t0"; "t1"; "t3"] = true.
Proof. exact path_lengths_negative_refuted. Qed.
Print Assumptions C06_path_lengths_negative_refuted.

(** afterwards the tip-name table lists exactly the remaining tips (code after the fix
    "RemoveTips left the tip name index stale") *)
Theorem C06_name_index :
  forall revert names t t',
    wf t = true -> no_single t = true -> 2 <= degree t -> NoDup (leaves t) ->
    remove_tips revert names t = Ok t' -> 2 <= length (leaves t') ->
    Permutation (tip_index_after (tip_names t) t') (filter (kept revert names) (leaves t)) /\
    NoDup (tip_index_after (tip_names t) t').
Proof. exact remove_tips_index. Qed.
Print Assumptions C06_name_index.

(** the hypotheses are satisfiable and the function does succeed: a rooted tree
    ((a,b)x,(c,d,e)y) from which a clade, a root child and an absent name are removed *)
Definition ex_tip (n : string) (l : Q) : slot := Some (mkE l nilv nilv [], UNode n [] [None]).
Definition ex_tree : utree :=
  UNode "" [] [Some (mkE 1 nilv nilv [], UNode "x" [] [None; ex_tip "a" 2; ex_tip "b" 3]);
               Some (mkE 4 (1#2) nilv [], UNode "y" [] [ex_tip "c" 5; None; ex_tip "d" 6; ex_tip "e" 7])]%Q.
Example C06_example :
  wf ex_tree = true /\ no_single ex_tree = true /\ 2 <= degree ex_tree /\ NoDup (leaves ex_tree) /\
  exists t', remove_tips false ["a"; "b"; "zz"] ex_tree = Ok t' /\ leaves t' = ["c"; "d"; "e"].
Proof.
  split; [reflexivity|]. split; [reflexivity|]. split; [vm_compute; auto|]. split.
  - vm_compute. repeat constructor; simpl; intuition discriminate.
  - eexists. split; vm_compute; reflexivity.
Qed.
Print Assumptions C06_example.

(** splits: [clades t] are the leaf sets below the branches of t.  Every clade of the pruned tree
    is the restriction of a clade of the input; every non-empty restriction of a clade of the
    input is, in the pruned tree seen as unrooted, the whole leaf set, one side of a branch, or
    the other side of a branch ([cover]).  Hence the bipartitions of the result are exactly the
    restrictions of the bipartitions of the input. *)
Theorem C06_remove_tips_splits :
  forall revert names t t',
    wf t = true -> no_single t = true -> 2 <= degree t -> NoDup (leaves t) ->
    remove_tips revert names t = Ok t' ->
    (forall L', In L' (clades t') ->
                exists L, In L (clades t) /\ Permutation L' (filter (kept revert names) L)) /\
    (forall L, In L (clades t) -> filter (kept revert names) L <> [] ->
               cover t' (filter (kept revert names) L)).
Proof. exact remove_tips_clades. Qed.
Print Assumptions C06_remove_tips_splits.

(** * totality: the property's quantifier ("all subsets that leave >= 3 tips") *)
(** none of removeTip's error branches is reachable when at least three tips remain *)
Theorem C06_remove_tips_total :
  forall revert names t,
    wf t = true -> no_single t = true -> 2 <= degree t -> NoDup (leaves t) ->
    3 <= length (filter (kept revert names) (leaves t)) ->
    exists t', remove_tips revert names t = Ok t'.
Proof. exact remove_tips_total. Qed.
Print Assumptions C06_remove_tips_total.

(** a refusal means that at most two tips would remain, and it is one of two messages:
    "The node named X is not a tip" or "The tree after tip removal is only made of two tips
    after removing tip X"; the other error branches of removeTip / UpdateTipIndex are dead code
    on such trees *)
Theorem C06_remove_tips_refusals :
  forall revert names t m,
    wf t = true -> no_single t = true -> 2 <= degree t -> NoDup (leaves t) ->
    remove_tips revert names t = Err m ->
    length (filter (kept revert names) (leaves t)) <= 2 /\
    exists nm, m = err_not_tip nm \/ m = err_two_tips nm.
Proof. exact remove_tips_errors. Qed.
Print Assumptions C06_remove_tips_refusals.

(** one call of removeTip: success, "not a tip" (the name is not a leaf, or the tree is a single
    node), or "only made of two tips" (exactly two other tips, both attached to the root) *)
Theorem C06_remove_tip_cases :
  forall nm t,
    wf t = true -> no_single t = true -> degree t <> 1 -> NoDup (leaves t) ->
    (exists t', remove_tip nm t = Ok t') \/
    (remove_tip nm t = Err (err_not_tip nm) /\ (degree t = 0 \/ ~ In nm (leaves t))) \/
    (remove_tip nm t = Err (err_two_tips nm) /\ In nm (leaves t) /\ length (filter (knm nm) (leaves t)) = 2).
Proof. exact remove_tip_cases. Qed.
Print Assumptions C06_remove_tip_cases.

(** removing every tip is always refused *)
Theorem C06_remove_all_refused :
  forall revert names t,
    wf t = true -> no_single t = true -> 2 <= degree t -> NoDup (leaves t) ->
    filter (kept revert names) (leaves t) = [] ->
    exists m, remove_tips revert names t = Err m.
Proof. exact remove_tips_all_refused. Qed.
Print Assumptions C06_remove_all_refused.

(** with one or two tips left both outcomes occur (it depends on the shape and on the order of
    the tips): no simpler characterisation than the two theorems above *)
Definition ex_abc : utree := UNode "" [] [ex_tip "a" 1; ex_tip "b" 1; ex_tip "c" 1]%Q.
Definition ex_ab_c : utree :=
  UNode "" [] [Some (mkE 1 nilv nilv [], UNode "" [] [None; ex_tip "a" 1; ex_tip "b" 1]); ex_tip "c" 1]%Q.
Definition ex_ab : utree := UNode "" [] [ex_tip "a" 1; ex_tip "b" 1]%Q.
Example C06_two_left_both_outcomes :
  remove_tips false ["c"] ex_abc = Err (err_two_tips "c") /\
  (exists t', remove_tips false ["c"] ex_ab_c = Ok t' /\ leaves t' = ["a"; "b"]).
Proof. split; [vm_compute; reflexivity|]. eexists. split; vm_compute; reflexivity. Qed.
Print Assumptions C06_two_left_both_outcomes.
Example C06_one_left_both_outcomes :
  remove_tips false ["a"] ex_ab = Err (err_not_tip "b") /\
  (exists t', remove_tips false ["b"] ex_ab = Ok t' /\ leaves t' = ["a"]).
Proof. split; [vm_compute; reflexivity|]. eexists. split; vm_compute; reflexivity. Qed.
Print Assumptions C06_one_left_both_outcomes.

(** * the judge's oracle accepts the model's output *)
(** the five clauses that Judge/C06.v checks on the pruned tree (well-formed; tip set exactly the
    requested one; no single-child inner node; [usplits] of the result = the non-trivial
    restrictions of [usplits] of the input, as sets of canonical sides; [dist_matrix len0] of the
    result = the sub-matrix of the input on the kept tips) hold for every successful
    [remove_tips]; with C06_remove_tips_total they hold whenever at least three tips remain *)
Theorem C06_oracle_accepts_model :
  forall revert names t t',
    wf t = true -> no_single t = true -> 2 <= degree t -> NoDup (leaves t) ->
    remove_tips revert names t = Ok t' ->
    let R := ssort (filter (kept revert names) (leaves t)) in
    wf t' = true /\ induced_tips t' R = true /\ no_single t' = true /\
    induced_splits t t' R = true /\ induced_dists t t' R = true.
Proof. exact remove_tips_oracle. Qed.
Print Assumptions C06_oracle_accepts_model.
