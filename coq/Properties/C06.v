(** C06: pruning yields exactly the induced subtree.
    Model: Model/Prune.v (Tree.RemoveTips / Tree.removeTip).  Observables: Spec/Obs.v.
    [kept revert names x]: the tip named x must remain;  [fP k l]: the entries (a, b, d) of a
    pair-distance list whose two tips satisfy k;  [dists_equiv]: same multiset of
    (tip, tip, distance) entries, distances up to Qeq;  [len0]: a branch length, absent = 0. *)
From Coq Require Import String ZArith QArith Bool Arith List Permutation.
From GT Require Import Base.UTree Spec.Obs Spec.Unrooted Model.Reroot Model.Prune
     Proofs.PruneBase Proofs.PruneStep Proofs.PruneRoot Proofs.Prune Proofs.PruneSplits.
Import ListNotations.
Local Close Scope Q_scope.
Local Open Scope string_scope.

(** one call of removeTip: every invariant is kept, exactly the tip [nm] disappears, every
    path length between two other tips is unchanged *)
Theorem C06_remove_tip :
  forall nm t t',
    wf t = true -> no_single t = true -> degree t <> 1 -> NoDup (leaves t) ->
    remove_tip nm t = Ok t' ->
    wf t' = true /\ no_single t' = true /\ degree t' <> 1 /\ In nm (leaves t) /\
    Permutation (leaves t') (filter (knm nm) (leaves t)) /\
    dists_equiv (pairdists len0 t') (fP (knm nm) (pairdists len0 t)).
Proof. exact remove_tip_ok. Qed.
Print Assumptions C06_remove_tip.

(** RemoveTips(revert, names...) on any well-formed tree without single-child nodes and with
    distinct tip names: the result is well formed, has no single-child inner node, its tips
    are exactly the requested ones (names that are not in the tree are ignored: [names] is
    arbitrary), and the path length between any two remaining tips is unchanged *)
Theorem C06_remove_tips_induced :
  forall revert names t t',
    wf t = true -> no_single t = true -> 2 <= degree t -> NoDup (leaves t) ->
    remove_tips revert names t = Ok t' ->
    wf t' = true /\ no_single t' = true /\
    Permutation (leaves t') (filter (kept revert names) (leaves t)) /\
    dists_equiv (pairdists len0 t') (fP (kept revert names) (pairdists len0 t)).
Proof. exact remove_tips_ok. Qed.
Print Assumptions C06_remove_tips_induced.

(** afterwards the tip-name table lists exactly the remaining tips (code after the fix
    "RemoveTips left the tip name index stale") *)
Theorem C06_name_index :
  forall revert names t t',
    wf t = true -> no_single t = true -> 2 <= degree t -> NoDup (leaves t) ->
    remove_tips revert names t = Ok t' -> 2 <= length (leaves t') ->
    Permutation (tip_index_after (tip_names t) t') (filter (kept revert names) (leaves t)) /\
    NoDup (tip_index_after (tip_names t) t').
Proof. exact remove_tips_index. Qed.
Print Assumptions C06_name_index.

(** the hypotheses are satisfiable and the function does succeed: a rooted tree
    ((a,b)x,(c,d,e)y) from which a clade, a root child and an absent name are removed *)
Definition ex_tip (n : string) (l : Q) : slot := Some (mkE l nilv nilv [], UNode n [] [None]).
Definition ex_tree : utree :=
  UNode "" [] [Some (mkE 1 nilv nilv [], UNode "x" [] [None; ex_tip "a" 2; ex_tip "b" 3]);
               Some (mkE 4 (1#2) nilv [], UNode "y" [] [ex_tip "c" 5; None; ex_tip "d" 6; ex_tip "e" 7])]%Q.
Example C06_example :
  wf ex_tree = true /\ no_single ex_tree = true /\ 2 <= degree ex_tree /\ NoDup (leaves ex_tree) /\
  exists t', remove_tips false ["a"; "b"; "zz"] ex_tree = Ok t' /\ leaves t' = ["c"; "d"; "e"].
Proof.
  split; [reflexivity|]. split; [reflexivity|]. split; [vm_compute; auto|]. split.
  - vm_compute. repeat constructor; simpl; intuition discriminate.
  - eexists. split; vm_compute; reflexivity.
Qed.
Print Assumptions C06_example.

(** splits: [clades t] are the leaf sets below the branches of t.  Every clade of the pruned tree
    is the restriction of a clade of the input; every non-empty restriction of a clade of the
    input is, in the pruned tree seen as unrooted, the whole leaf set, one side of a branch, or
    the other side of a branch ([cover]).  Hence the bipartitions of the result are exactly the
    restrictions of the bipartitions of the input. *)
Theorem C06_remove_tips_splits :
  forall revert names t t',
    wf t = true -> no_single t = true -> 2 <= degree t -> NoDup (leaves t) ->
    remove_tips revert names t = Ok t' ->
    (forall L', In L' (clades t') ->
                exists L, In L (clades t) /\ Permutation L' (filter (kept revert names) L)) /\
    (forall L, In L (clades t) -> filter (kept revert names) L <> [] ->
               cover t' (filter (kept revert names) L)).
Proof. exact remove_tips_clades. Qed.
Print Assumptions C06_remove_tips_splits.
