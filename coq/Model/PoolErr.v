(** How a failing FBP worker hands its error to the caller (support/fbp.go).
    [ByMutex] (the source): `errmux.Lock(); if err == nil { err = e }; errmux.Unlock(); return`
    with `defer wg.Done()`.
    [ByChan] (a seeded regression): `errchan <- e` on a channel of capacity 1, a BLOCKING send
    that happens before wg.Done(); the caller reads the channel only after wg.Wait().
    Workers range over the tree channel as in Model/Pool.v (0 = producer, i+1 = worker i).
    A worker that meets an erroneous tree hands the error over and returns.
    No proofs in this file. *)
From Coq Require Import Bool Arith List.
From GT Require Import Model.Pool.
Import ListNotations.

Inductive handover := ByMutex | ByChan.

Section ErrHand.
  Variables (job err : Type).
  Variable fails : job -> bool.
  Variable e_of : job -> err.
  Variable mode : handover.

  Inductive estate :=
  | EIdle
  | EBusy (j : job)
  | ECrit (j : job)      (* holds errmux, has not looked at err yet *)
  | ELeave               (* holds errmux, err is set; next: Unlock, return, Done *)
  | EExited.

  Record est := mkE {
    epending : list job;
    eclosed : bool;
    equeue : list job;
    ews : list estate;
    emutex : bool;              (* errmux is held *)
    efirst : option err;        (* the shared variable err *)
    echan : list err            (* the error channel (capacity 1) *)
  }.

  Definition eproducer_step (s : est) : est :=
    match epending s with
    | j :: p => mkE p (eclosed s) (equeue s ++ [j]) (ews s) (emutex s) (efirst s) (echan s)
    | [] => mkE [] true (equeue s) (ews s) (emutex s) (efirst s) (echan s)
    end.

  Definition eworker_step (s : est) (i : nat) : est :=
    match nth_error (ews s) i with
    | None | Some EExited => s
    | Some EIdle =>
      match equeue s with
      | j :: q => mkE (epending s) (eclosed s) q (set_nth i (EBusy j) (ews s)) (emutex s) (efirst s) (echan s)
      | [] => if eclosed s
              then mkE (epending s) (eclosed s) [] (set_nth i EExited (ews s)) (emutex s) (efirst s) (echan s)
              else s
      end
    | Some (EBusy j) =>
      if fails j then
        match mode with
        | ByMutex =>
          if emutex s then s                                          (* blocked in Lock() *)
          else mkE (epending s) (eclosed s) (equeue s) (set_nth i (ECrit j) (ews s)) true (efirst s) (echan s)
        | ByChan =>
          if length (echan s) <? 1
          then mkE (epending s) (eclosed s) (equeue s) (set_nth i EExited (ews s)) (emutex s) (efirst s)
                   (echan s ++ [e_of j])
          else s                                                      (* blocked in the send *)
        end
      else mkE (epending s) (eclosed s) (equeue s) (set_nth i EIdle (ews s)) (emutex s) (efirst s) (echan s)
    | Some (ECrit j) =>
      mkE (epending s) (eclosed s) (equeue s) (set_nth i ELeave (ews s)) (emutex s)
          (match efirst s with None => Some (e_of j) | x => x end) (echan s)
    | Some ELeave =>
      mkE (epending s) (eclosed s) (equeue s) (set_nth i EExited (ews s)) false (efirst s) (echan s)
    end.

  Definition estep (s : est) (a : nat) : est :=
    match a with 0 => eproducer_step s | S i => eworker_step s i end.
  Definition erun (sched : list nat) (s : est) : est := fold_left estep sched s.
  Definition einit (jobs : list job) (n : nat) : est :=
    mkE jobs false [] (repeat EIdle n) false None [].

  Definition e_exited (w : estate) : bool := match w with EExited => true | _ => false end.
  (** every worker has reached wg.Done(): wg.Wait() returns *)
  Definition efinished (s : est) : bool := forallb e_exited (ews s).
End ErrHand.

Arguments EIdle {job}. Arguments EBusy {job}. Arguments ECrit {job}.
Arguments ELeave {job}. Arguments EExited {job}.
