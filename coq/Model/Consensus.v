(** Model of tree/algo.go Consensus (cpus are irrelevant: one loop over the channel), with
    tree/edgeindex.go AddEdgeCount / Edges(min,max), tree/treegen.go StarTree / StarTreeFromTree,
    tree/algo.go LeastCommonAncestorUnrooted / LeastCommonAncestorRecur / AddBipartition.

    Counting is per BRANCH of Tree.Edges(), as coded; since the fix c884a9e a rooted input (root of
    degree 2) is first replaced by an unrooted copy (Clone + UnRoot), so that its root split is
    one branch.  Lengths are summed as numbers, the -1 "absent" sentinel included
    (Len += e.Length()).

    The split index is a parameter ([Section Gen]); instances: the model of the real hash index
    (NewEdgeIndex(128, .75); this fixes the ORDER in which Edges(min,max) lists the selected
    splits, hence the neighbour order of the consensus tree) -> [consensus_hm]; a plain
    association list in first-insertion order -> [consensus].  Theorems are about the latter;
    the judge compares the Go tree structurally with [consensus_hm] and checks that both
    instances select the same splits with the same counts and sums.

    binary64: the only floating-point expression whose rounding decides anything is the test
    [float64(Count)/float64(nbtrees) <= cutoff] (since the fix 27ef6c9; before: the bound
    [int(cutoff*float64(nbtrees))], kept as [keep_split_old]).  It is modelled EXACTLY on
    rationals: [round53] rounds a rational to the nearest binary64 (ties to even; normal range
    only, which covers 1/nbtrees .. 1 and 0.5 <= cutoff <= 1 for nbtrees < 2^53), the integer
    conversions are exact, the quotient is rounded once.  The command line gives Consensus the
    binary64 nearest to the decimal threshold the user typed: [consensus] takes that decimal as a
    rational and rounds it first.  Proofs/ConsensusFloat.v cross-checks [round53] and both
    expressions against Coq's primitive floats (FloatOps) by [vm_compute] on the thresholds the
    generators use.
    The divisions Len/Count and Count/nbtrees that only produce output values are exact rationals
    in the model; the judge accepts Go's float64 when it is within 2^-50 relative of that rational.

    The star tree is modified through pointers (neighbour lists of nodes): the model keeps an
    explicit graph (node ids, per-node neighbour list [(node id, edge id)] in Node.neigh order,
    edge table) and converts it to a [utree] from the root at the end.
    Results: [None] = Go run-time panic; [Some (Err m)] = Consensus returns an error.
    No proofs in this file. *)
From Coq Require Import String NArith ZArith QArith Qround Bool Arith List.
From GT Require Import Base.UTree Model.Reroot Model.Index Model.HashMap Model.EdgeIndex Model.Compare.
Import ListNotations.
Local Close Scope Q_scope.
Local Open Scope string_scope.

(** * binary64 on rationals *)
Definition pow2Q (e : Z) : Q :=
  if (0 <=? e)%Z then inject_Z (2 ^ e) else (1 / inject_Z (2 ^ (- e)))%Q.

(** nearest binary64 (53-bit significand, ties to even) of the positive rational num/den *)
Definition round53_pos (num den : positive) : Q :=
  let e0 := (Z.log2 (Zpos num) - Z.log2 (Zpos den) - 52)%Z in
  let scaled := fun e : Z =>
      if (0 <=? e)%Z then (Zpos num, (Zpos den * 2 ^ e)%Z) else ((Zpos num * 2 ^ (- e))%Z, Zpos den) in
  let e := let '(n', d') := scaled e0 in if (n' / d' <? 2 ^ 52)%Z then (e0 - 1)%Z else e0 in
  let '(n', d') := scaled e in
  let q := (n' / d')%Z in
  let r := (n' mod d')%Z in
  let q' := if (2 * r <? d')%Z then q
            else if (d' <? 2 * r)%Z then (q + 1)%Z
            else if Z.even q then q else (q + 1)%Z in
  Qred (inject_Z q' * pow2Q e)%Q.

Definition round53 (x : Q) : Q :=
  match Qnum x with
  | Zpos n => round53_pos n (Qden x)
  | Z0 => 0%Q
  | Zneg n => (- round53_pos n (Qden x))%Q
  end.

(** EdgeIndex.Edges(minCount, maxCount) keeps v.Count when
    (v.Count > minCount && v.Count <= maxCount) || v.Count == maxCount *)
Definition keep_count (minc maxc c : Z) : bool :=
  ((minc <? c)%Z && (c <=? maxc)%Z) || (c =? maxc)%Z.

(** float64(count)/float64(nbtrees): both conversions exact, one rounded division *)
Definition freq64 (c n : Z) : Q := round53 (inject_Z c / inject_Z n)%Q.

(** a split listed by Edges(0, nbtrees) is kept unless
    float64(Count)/float64(nbtrees) <= cutoff && Count != nbtrees *)
Definition keep_split (cutoff64 : Q) (n c : Z) : bool :=
  keep_count 0 n c && negb (Qle_bool (freq64 c n) cutoff64 && negb (c =? n)%Z).

(** the selection before the fix 27ef6c9, kept for the record (Proofs/ConsensusFloat.v shows where it
    differs): Edges(int(cutoff*float64(nbtrees)), nbtrees) *)
Definition min_count (cutoff64 : Q) (nbtrees : Z) : Z :=
  Qfloor (round53 (cutoff64 * inject_Z nbtrees)%Q).
Definition keep_split_old (cutoff64 : Q) (n c : Z) : bool := keep_count (min_count cutoff64 n) n c.

(** * the star tree as a graph *)
Record gedge : Type := mkGE { ge_l : nat; ge_r : nat; ge_len : Q; ge_sup : Q; ge_pv : Q }.
Record graph : Type := mkG { g_nodes : list (string * list (nat * nat)); g_edges : list gedge; g_root : nat }.

Definition g_nb (g : graph) (v : nat) : list (nat * nat) := snd (nth v (g_nodes g) ("", [])).
Definition g_name (g : graph) (v : nat) : string := fst (nth v (g_nodes g) ("", [])).
Definition g_edge (g : graph) (e : nat) : gedge := nth e (g_edges g) (mkGE 0 0 nilv nilv nilv).

Definition set_nb (g : graph) (v : nat) (nb : list (nat * nat)) : graph :=
  mkG (set_nth v (g_name g v, nb) (g_nodes g)) (g_edges g) (g_root g).
Definition set_edge (g : graph) (e : nat) (x : gedge) : graph :=
  mkG (g_nodes g) (set_nth e x (g_edges g)) (g_root g).

(** Tree.NewNode *)
Definition new_node (g : graph) (name : string) : graph * nat :=
  (mkG (g_nodes g ++ [(name, [])]) (g_edges g) (g_root g), length (g_nodes g)).

(** Tree.ConnectNodes(parent, child): fresh edge, appended at the END of both neighbour lists *)
Definition connect (g : graph) (p c : nat) (len sup pv : Q) : graph * nat :=
  let e := length (g_edges g) in
  let g1 := mkG (g_nodes g) (g_edges g ++ [mkGE p c len sup pv]) (g_root g) in
  let g2 := set_nb g1 p (g_nb g1 p ++ [(c, e)]) in
  (set_nb g2 c (g_nb g2 c ++ [(p, e)]), e).

(** Node.delNeighbor(n2): remove the first position holding n2 *)
Fixpoint remove_first_nb (w : nat) (l : list (nat * nat)) : list (nat * nat) :=
  match l with
  | [] => []
  | (x, e) :: r => if Nat.eqb x w then r else (x, e) :: remove_first_nb w r
  end.
Definition del_neighbor (g : graph) (v w : nat) : graph := set_nb g v (remove_first_nb w (g_nb g v)).

(** StarTree(n) + StarTreeFromTree: centre = node 0 (root), tip i = node i+1 with the name and
    length of the i-th branch of TipEdges() of the first tree; no support, no p-value *)
Definition star_graph (tipedges : list (string * Q)) : graph :=
  fold_left (fun g nl => let '(g1, v) := new_node g (fst nl) in fst (connect g1 0 v (snd nl) nilv nilv))
            tipedges (mkG [("", [])] [] 0).

(** Tree.Tips(): pre-order from the root, never back to the previous node *)
Fixpoint g_tips (fuel : nat) (g : graph) (cur : nat) (prev : option nat) : list nat :=
  match fuel with
  | O => []
  | S f =>
    (if Nat.eqb (length (g_nb g cur)) 1 then [cur] else []) ++
    flat_map (fun ne => match prev with
                        | Some p => if Nat.eqb (fst ne) p then [] else g_tips f g (fst ne) (Some cur)
                        | None => g_tips f g (fst ne) (Some cur)
                        end) (g_nb g cur)
  end.

Definition is_prev (prev : option nat) (n : nat) : bool :=
  match prev with Some p => Nat.eqb n p | None => false end.

(** LeastCommonAncestorRecur(current, prev, tipIndex) ->
      (node, edges, common, different, allFound);  [None] = the error return *)
Definition lca_res : Type := (option (nat * list nat) * Z * Z * bool)%type.

Fixpoint lca_recur (fuel : nat) (g : graph) (sel : list string) (cur : nat) (prev : option nat)
  : option lca_res :=
  match fuel with
  | O => None
  | S f =>
    let nbs := g_nb g cur in
    let istip := Nat.eqb (length nbs) 1 in
    let found_here := istip && existsb (String.eqb (g_name g cur)) sel in
    (* a found tip: edges = [current.br[NodeIndex(prev)]]; NodeIndex(nil) is an error *)
    match (if found_here
           then match find (fun ne => is_prev prev (fst ne)) nbs with
                | Some ne => Some [snd ne]
                | None => None
                end
           else Some []) with
    | None => None
    | Some edges0 =>
      let common0 := if found_here then 1%Z else 0%Z in
      let diff0 := if istip && negb found_here then 1%Z else 0%Z in
      (fix loop (l : list (nat * nat)) (edges : list nat) (common different tmpdiff : Z) : option lca_res :=
         match l with
         | [] =>
           if (common =? Z.of_nat (length sel))%Z
           then Some (Some (cur, edges), common, different, true)
           else Some (None, common, (different + tmpdiff)%Z, false)
         | (n, e) :: r =>
           if is_prev prev n then loop r edges common different tmpdiff
           else match lca_recur f g sel n (Some cur) with
                | None => None
                | Some (node, com, diff, fnd) =>
                  if fnd then Some (node, com, diff, fnd)
                  else if (0 <? com)%Z then loop r (edges ++ [e])%list (common + com)%Z (different + diff)%Z tmpdiff
                  else loop r edges common different (tmpdiff + diff)%Z
                end
         end) nbs edges0 common0 diff0 0%Z
    end
  end.

Inductive lca_out : Type :=
| LcaErr (m : string)
| LcaPanic
| LcaOk (node : option (nat * list nat)) (mono : bool).

(** LeastCommonAncestorUnrooted(nodeindex, tips...) on the star tree: every given name is a tip
    of the star tree (same taxa), so tipindex has [length sel] entries *)
Definition lca_unrooted (g : graph) (sel : list string) : lca_out :=
  if Nat.eqb (length sel) 0 then LcaErr "none of the given tips are present in the tree" else
  let fuel := S (length (g_nodes g)) in
  match find (fun v => negb (existsb (String.eqb (g_name g v)) sel)) (g_tips fuel g (g_root g) None) with
  | None => LcaErr "all tips of the tree given : Nothing to do"
  | Some temproot =>
    match g_nb g temproot with
    | [] => LcaPanic
    | (start, _) :: _ =>
      match lca_recur fuel g sel start None with
      | None => LcaOk None false     (* err2 is dropped ("if err != nil"): ancestor == nil *)
      | Some (node, _, diff, _) => LcaOk node (diff =? 0)%Z
      end
    end
  end.

(** AddBipartition(n, edges, length, support); the caller ignores its error, so an error
    leaves the graph as it is (the node allocated before the test is never connected) *)
Definition add_bipartition (g : graph) (n : nat) (edges : list nat) (len sup : Q) : graph :=
  if Nat.leb (length edges) 1 || Nat.leb (length (g_nb g n) - 1) (length edges) then g else
  let '(g0, n2) := new_node g "" in
  let '(g1, nbin) :=
      fold_left (fun (st : graph * nat) (e : nat) =>
                   let '(g, nbin) := st in
                   let ed := g_edge g e in
                   if Nat.eqb (ge_l ed) n then
                     let other := ge_r ed in
                     let g := del_neighbor g other n in
                     let g := del_neighbor g n other in
                     (fst (connect g n2 other (ge_len ed) (ge_sup ed) (ge_pv ed)), nbin)
                   else
                     let other := ge_l ed in
                     let g := del_neighbor g other n in
                     let g := del_neighbor g n other in
                     (fst (connect g other n2 (ge_len ed) (ge_sup ed) (ge_pv ed)), S nbin))
                edges (g0, 0) in
  if Nat.eqb nbin 0 then fst (connect g1 n n2 len sup nilv)
  else fst (connect g1 n2 n len sup nilv).

(** dump of the graph from the root, as a [utree] *)
Fixpoint g_to_utree (fuel : nat) (g : graph) (cur : nat) (prev : option nat) : utree :=
  match fuel with
  | O => UNode (g_name g cur) [] []
  | S f =>
    UNode (g_name g cur) []
          (map (fun ne => if is_prev prev (fst ne) then None
                          else let ed := g_edge g (snd ne) in
                               Some (mkE (ge_len ed) (ge_sup ed) (ge_pv ed) [], g_to_utree f g (fst ne) (Some cur)))
               (g_nb g cur))
  end.

(** * one selected split -> the star tree *)
(** the tip node of the star tree with this name: nodeindex.GetNode *)
Definition g_find_name (g : graph) (name : string) : option nat :=
  (fix go (i : nat) (l : list (string * list (nat * nat))) : option nat :=
     match l with
     | [] => None
     | x :: r => if String.eqb (fst x) name then Some i else go (S i) r
     end) 0 (g_nodes g).

Definition apply_split (alltips ids : list string) (nbtrees : Z) (g : graph) (kv : ekey * einfo_v)
  : option (res graph) :=
  let '(key, (count, lensum)) := kv in
  let names := filter (fun nm => test_bit (r_bits (ek_row key)) (index_of nm ids)) alltips in
  let mean := (lensum / inject_Z count)%Q in
  match names with
  | [] => Some (Err "this bipartition has a side with no taxa")
  | [nm] =>
    match g_find_name g nm with
    | None => Some (Err ("this taxon name does not exist in the consensus: " ++ nm))
    | Some v =>
      match g_nb g v with
      | [(_, e)] => let ed := g_edge g e in
                    Some (Ok (set_edge g e (mkGE (ge_l ed) (ge_r ed) mean (ge_sup ed) (ge_pv ed))))
      | [] => None
      | _ => Some (Err ("this taxon name does not exist in the consensus: " ++ nm))
      end
    end
  | _ =>
    match lca_unrooted g names with
    | LcaErr m => Some (Err m)
    | LcaPanic => None
    | LcaOk None _ => Some (Err "consensus error: No common ancestor found for biparition")
    | LcaOk (Some (_, [])) _ => Some (Err "consensus error: No common ancestor Edges found")
    | LcaOk (Some (node, edges)) mono =>
      if negb mono then Some (Err "the group should be monophyletic")
      else Some (Ok (add_bipartition g node edges mean (inject_Z count / inject_Z nbtrees)%Q))
    end
  end.

Fixpoint apply_splits (alltips ids : list string) (nbtrees : Z) (g : graph) (kvs : list (ekey * einfo_v))
  : option (res graph) :=
  match kvs with
  | [] => Some (Ok g)
  | kv :: r =>
    match apply_split alltips ids nbtrees g kv with
    | Some (Ok g') => apply_splits alltips ids nbtrees g' r
    | x => x
    end
  end.

(** * rooted inputs: if curtree.Tree.Rooted() { curtree.Tree = curtree.Tree.Clone(); curtree.Tree.UnRoot() }
    Tree.Clone rebuilds the tree from the root with ConnectNodes(parent, child) before the child's
    own children are connected: in the copy every non-root node has its parent FIRST, then its
    children in their original order; names, node comments, lengths, supports, p-values and branch
    comments are copied.  UnRoot is Model.Reroot.unroot. *)
Fixpoint clone_sub (t : utree) : utree :=
  match t with
  | UNode n c sl =>
    UNode n c (None :: flat_map (fun s => match s with
                                          | Some (e, ch) => [Some (e, clone_sub ch)]
                                          | None => [] end) sl)
  end.
Definition clone (t : utree) : utree :=
  match t with
  | UNode n c sl =>
    UNode n c (flat_map (fun s => match s with
                                  | Some (e, ch) => [Some (e, clone_sub ch)]
                                  | None => [] end) sl)
  end.
Definition prep_input (t : utree) : utree := if rooted t then unroot (clone t) else t.

(** * the loop over the input trees *)
Record star_info : Type := mkStar { st_alltips : list string; st_tipedges : list (string * Q); st_ids : list string }.

Section Gen.
  Variable IX : Type.
  Variable ix_new : N -> IX.
  Variable ix_add : IX -> ekey -> option IX.
  Variable ix_kvs : IX -> list (ekey * einfo_v).

  Fixpoint add_all (m : IX) (ks : list ekey) : option IX :=
    match ks with
    | [] => Some m
    | k :: r => match ix_add m k with Some m' => add_all m' r | None => None end
    end.

  (** the body of "for curtree := range trees" *)
  Definition cons_step (i : nat) (m : IX) (star : option star_info) (t0 : utree)
    : option (res (IX * star_info)) :=
    let t := prep_input t0 in
    match reinit i t with
    | None => None
    | Some (Err e) => Some (Err e)
    | Some (Ok (names, ks)) =>
      let star' : res star_info :=
          match star with
          | None =>
            let te := map (fun p => (uname (snd p), elen (fst p))) (tip_edges t) in
            if Nat.ltb (length te) 2 then Err "Cannot create a star tree with less than 2 tips"
            else let ids := sort_names (map fst te) in
                 if has_dup_sorted ids then Err "Cannot create a tip index when several tips have the same name"
                 else Ok (mkStar (all_tip_names t) te ids)
          | Some s =>
            let nm := all_tip_names t in
            if negb (Nat.eqb (length nm) (length (st_alltips s))) then Err "Trees do not have the same set of tips"
            else if forallb (fun x => existsb (String.eqb x) (st_ids s)) nm then Ok s
            else Err "Trees do not have the same set of tips"
          end in
      match star' with
      | Err e => Some (Err e)
      | Ok s => match add_all m ks with
                | None => None
                | Some m' => Some (Ok (m', s))
                end
      end
    end.

  Fixpoint cons_loop (i : nat) (m : IX) (star : option star_info) (ts : list utree)
    : option (res (IX * option star_info * Z)) :=
    match ts with
    | [] => Some (Ok (m, star, Z.of_nat i))
    | t :: r =>
      match cons_step i m star t with
      | None => None
      | Some (Err e) => Some (Err e)
      | Some (Ok (m', s)) => cons_loop (S i) m' (Some s) r
      end
    end.

  (** the counting phase alone: (key, (Count, Len)) of every stored split in KeyValues() order,
      and the number of trees *)
  Definition cons_counts (ts : list utree) : option (res (list (ekey * einfo_v) * Z)) :=
    match cons_loop 0 (ix_new 128%N) None ts with
    | None => None
    | Some (Err e) => Some (Err e)
    | Some (Ok (m, _, n)) => Some (Ok (ix_kvs m, n))
    end.

  (** selection:
        for _, bs := range edgeindex.Edges(0, nbtrees) {
          if float64(bs.val.Count)/float64(nbtrees) <= cutoff && bs.val.Count != nbtrees { continue } ... *)
  Definition select (cutoff64 : Q) (n : Z) (kvs : list (ekey * einfo_v)) : list (ekey * einfo_v) :=
    filter (fun kv => keep_split cutoff64 n (fst (snd kv))) kvs.

  (** Consensus(trees, cutoff); [cutoff64] is the float64 the function receives *)
  Definition consensus_gen (ts : list utree) (cutoff64 : Q) : option (res utree) :=
    if Qle_bool (1 # 2) cutoff64 && Qle_bool cutoff64 1 then
      match cons_loop 0 (ix_new 128%N) None ts with
      | None => None
      | Some (Err e) => Some (Err e)
      | Some (Ok (_, None, _)) => None           (* empty channel: startree is nil *)
      | Some (Ok (m, Some s, n)) =>
        match apply_splits (st_alltips s) (st_ids s) n (star_graph (st_tipedges s)) (select cutoff64 n (ix_kvs m)) with
        | None => None
        | Some (Err e) => Some (Err e)
        | Some (Ok g) => Some (Ok (g_to_utree (S (length (g_nodes g))) g (g_root g) None))
        end
      end
    else Some (Err "min frequency for bipartition must be >=0.5 and <=1").
End Gen.

(** * instance 1: the hash index as coded *)
Definition consensus_hm (ts : list utree) (cutoff : Q) : option (res utree) :=
  consensus_gen eindex new_edge_index (ei_add need75) (key_values ekey einfo_v) ts (round53 cutoff).
Definition cons_counts_hm := cons_counts eindex new_edge_index (ei_add need75) (key_values ekey einfo_v).

(** * instance 2: association list, first-insertion order *)
Definition ai_add (a : aindex) (k : ekey) : option aindex :=
  match assoc_value ekey einfo_v ekey_eqb a k with
  | None => Some (assoc_put ekey einfo_v ekey_eqb a k (1%Z, ek_len k))
  | Some (c, l) => Some (assoc_put ekey einfo_v ekey_eqb a k ((c + 1)%Z, (l + ek_len k)%Q))
  end.
Definition consensus (ts : list utree) (cutoff : Q) : option (res utree) :=
  consensus_gen aindex ai_new ai_add (fun a => a) ts (round53 cutoff).
Definition cons_counts_assoc := cons_counts aindex ai_new ai_add (fun a => a).
