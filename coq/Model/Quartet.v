(** Model of the kernels of tree/quartets.go: Quartet.HashCode, Quartet.Compare,
    Quartet.HashEquals.  Taxon ids are Go [uint] (64 bits) = [N] below 2^64.
    HashCode converts them with int(...) (two's complement) and sorts with SIGNED comparisons,
    then converts back with uint64(...); Compare uses == on the uint values.
    No proofs in this file. *)
From Coq Require Import NArith ZArith Bool List.
From GT Require Import Model.Index.
Import ListNotations.

Record quartet : Type := mkQ { qt1 : N; qt2 : N; qt3 : N; qt4 : N }.

(** int(x) for a uint x *)
Definition to_int (x : N) : Z := if (x <? 9223372036854775808)%N then Z.of_N x else (Z.of_N x - 18446744073709551616)%Z.
(** uint64(i) for an int i *)
Definition of_int (i : Z) : N := Z.to_N (i mod 18446744073709551616)%Z.

(** if b < a { a, b = b, a } *)
Definition cswap_lt (a b : Z) : Z * Z := if (b <? a)%Z then (b, a) else (a, b).

(** Quartet.HashCode, statement by statement *)
Definition q_hash_code (q : quartet) : N :=
  let i1 := to_int (qt1 q) in let i2 := to_int (qt2 q) in
  let i3 := to_int (qt3 q) in let i4 := to_int (qt4 q) in
  (* if i2 < i1 { i1, i2 = i2, i1 } *)
  let '(i1, i2) := cswap_lt i1 i2 in
  (* if i4 < i3 { i3, i4 = i4, i3 } *)
  let '(i3, i4) := cswap_lt i3 i4 in
  (* if i3 < i1 { i1, i3 = i3, i1 } *)
  let '(i1, i3) := cswap_lt i1 i3 in
  (* if i4 < i2 { i2, i4 = i4, i2 } *)
  let '(i2, i4) := cswap_lt i2 i4 in
  (* if i3 < i2 { i3, i2 = i2, i3 } *)
  let '(i2, i3) := cswap_lt i2 i3 in
  (* 31*(31*(31*(31+uint64(i1))+uint64(i2))+uint64(i3)) + uint64(i4) *)
  w64 (31 * w64 (31 * w64 (31 * w64 (31 + of_int i1) + of_int i2) + of_int i3) + of_int i4).

Inductive qcmp : Type := QEquals | QConflict | QDiff.     (* QUARTET_EQUALS = 0, _CONFLICT = 1, _DIFF = 2 *)
Definition qcmp_code (c : qcmp) : nat := match c with QEquals => 0 | QConflict => 1 | QDiff => 2 end.

(** Quartet.Compare, condition by condition *)
Definition q_compare (q q2 : quartet) : qcmp :=
  let e := N.eqb in
  let a1 := qt1 q in let a2 := qt2 q in let a3 := qt3 q in let a4 := qt4 q in
  let b1 := qt1 q2 in let b2 := qt2 q2 in let b3 := qt3 q2 in let b4 := qt4 q2 in
  if ((e a1 b1 && e a2 b2) || (e a1 b2 && e a2 b1)) && ((e a3 b3 && e a4 b4) || (e a3 b4 && e a4 b3)) then QEquals
  else if ((e a1 b3 && e a2 b4) || (e a1 b4 && e a2 b3)) && ((e a3 b1 && e a4 b2) || (e a3 b2 && e a4 b1)) then QEquals
  else if ((e a3 b1 && e a2 b2) || (e a3 b2 && e a2 b1)) && ((e a1 b3 && e a4 b4) || (e a1 b4 && e a4 b3)) then QConflict
  else if ((e a3 b3 && e a2 b4) || (e a3 b4 && e a2 b3)) && ((e a1 b1 && e a4 b2) || (e a1 b2 && e a4 b1)) then QConflict
  else if ((e a4 b1 && e a2 b2) || (e a4 b2 && e a2 b1)) && ((e a3 b3 && e a1 b4) || (e a3 b4 && e a1 b3)) then QConflict
  else if ((e a4 b3 && e a2 b4) || (e a4 b4 && e a2 b3)) && ((e a3 b1 && e a1 b2) || (e a3 b2 && e a1 b1)) then QConflict
  else QDiff.

(** Quartet.HashEquals: Compare != QUARTET_DIFF *)
Definition q_hash_equals (q q2 : quartet) : bool :=
  match q_compare q q2 with QDiff => false | _ => true end.
