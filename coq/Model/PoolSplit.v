(** Two ways of distributing the reference edges over [cpu] workers (support/tbe.go).
    - through a channel: that is the pool of Model/Pool.v / Model/PoolCells.v;
    - the static split of a seeded regression: worker i gets the contiguous block
      edges[i*q : (i+1)*q] with q = len(edges)/cpu — the last len mod cpu edges belong to nobody.
    No proofs in this file. *)
From Coq Require Import Arith List.
Import ListNotations.

Section Split.
  Variable edge : Type.

  Definition block (edges : list edge) (q i : nat) : list edge := firstn q (skipn (i * q) edges).

  (** the blocks of the workers 0 .. cpu-1 *)
  Definition block_split (edges : list edge) (cpu : nat) : list (list edge) :=
    map (block edges (length edges / cpu)) (seq 0 cpu).

  (** everything some worker processes *)
  Definition split_processed (edges : list edge) (cpu : nat) : list edge :=
    concat (block_split edges cpu).
End Split.
