(** Reader, channel, workers, result channel, caller in ONE small-step system: the producer of
    Model/PoolFeed.v (blocking sends: the records [psrc], then the optional error record
    [perr], then close) feeds the job channel of the pool of Model/Pool2.v (capacity cj, 0 =
    rendez-vous), whose workers send their results through the result channel (capacity cr) to
    the caller; the closer does wg.Wait(); close.
    Agents: 0 producer (the reader goroutine), 1 closer, 2 caller, i+3 worker i.
    No proofs in this file. *)
From Coq Require Import Bool Arith List.
From GT Require Import Model.Pool Model.Pool2.
Import ListNotations.

Section Pipe.
  Variables (job res err : Type).
  Variable f : job -> res.
  Variable fails : job -> bool.       (* the record carries an error *)
  Variable e_of : job -> err.
  Variable on_fail : fail_mode.
  Variable done_on_exit : bool.
  Variable cj : nat.
  Variable cr : nat.

  Record pst := mkP {
    psrc : list job;               (* parsed trees still to send *)
    perr : option job;             (* the error record still to send (malformed input) *)
    pclosed : bool;
    pqueue : list job;
    pws : list (wstate job);
    prchan : list res;
    pclosed_out : bool;
    precvd : list res;
    pcaller_done : bool;
    perrs : list err
  }.

  Definition olist (o : option job) : list job := match o with Some e => [e] | None => [] end.

  Definition pproducer_step (s : pst) : pst :=
    match psrc s with
    | x :: r =>
      if length (pqueue s) <? cj
      then mkP r (perr s) (pclosed s) (pqueue s ++ [x]) (pws s) (prchan s) (pclosed_out s)
               (precvd s) (pcaller_done s) (perrs s)
      else s
    | [] =>
      match perr s with
      | Some e =>
        if length (pqueue s) <? cj
        then mkP [] None (pclosed s) (pqueue s ++ [e]) (pws s) (prchan s) (pclosed_out s)
                 (precvd s) (pcaller_done s) (perrs s)
        else s
      | None => mkP [] None true (pqueue s) (pws s) (prchan s) (pclosed_out s)
                    (precvd s) (pcaller_done s) (perrs s)
      end
    end.

  Definition pcloser_step (s : pst) : pst :=
    if forallb (is_exited job) (pws s)
    then mkP (psrc s) (perr s) (pclosed s) (pqueue s) (pws s) (prchan s) true (precvd s)
             (pcaller_done s) (perrs s)
    else s.

  Definition pcaller_step (s : pst) : pst :=
    if pcaller_done s then s else
    match prchan s with
    | r :: rc => mkP (psrc s) (perr s) (pclosed s) (pqueue s) (pws s) rc (pclosed_out s)
                     (precvd s ++ [r]) false (perrs s)
    | [] => if pclosed_out s
            then mkP (psrc s) (perr s) (pclosed s) (pqueue s) (pws s) [] true (precvd s) true (perrs s)
            else s
    end.

  Definition psend_result (s : pst) (i : nat) (j : job) (e' : list err) : pst :=
    if length (prchan s) <? cr
    then mkP (psrc s) (perr s) (pclosed s) (pqueue s) (set_nth i Idle (pws s)) (prchan s ++ [f j])
             (pclosed_out s) (precvd s) (pcaller_done s) e'
    else match cr, prchan s with
         | 0, [] =>
           if pcaller_done s then s
           else mkP (psrc s) (perr s) (pclosed s) (pqueue s) (set_nth i Idle (pws s)) []
                    (pclosed_out s) (precvd s ++ [f j]) false e'
         | _, _ => s
         end.

  Definition pworker_step (s : pst) (i : nat) : pst :=
    match nth_error (pws s) i with
    | None => s
    | Some Idle =>
      match pqueue s with
      | j :: q => mkP (psrc s) (perr s) (pclosed s) q (set_nth i (Busy j) (pws s)) (prchan s)
                      (pclosed_out s) (precvd s) (pcaller_done s) (perrs s)
      | [] =>
        match cj, psrc s, perr s with
        | 0, x :: r, _ =>
          mkP r (perr s) (pclosed s) [] (set_nth i (Busy x) (pws s)) (prchan s)
              (pclosed_out s) (precvd s) (pcaller_done s) (perrs s)
        | 0, [], Some e =>
          mkP [] None (pclosed s) [] (set_nth i (Busy e) (pws s)) (prchan s)
              (pclosed_out s) (precvd s) (pcaller_done s) (perrs s)
        | _, _, _ =>
          if pclosed s
          then mkP (psrc s) (perr s) (pclosed s) [] (set_nth i Exited (pws s)) (prchan s)
                   (pclosed_out s) (precvd s) (pcaller_done s) (perrs s)
          else s
        end
      end
    | Some (Busy j) =>
      if fails j then
        match on_fail with
        | Continue => psend_result s i j (perrs s ++ [e_of j])
        | Stop => mkP (psrc s) (perr s) (pclosed s) (pqueue s)
                      (set_nth i (if done_on_exit then Exited else Dead) (pws s)) (prchan s)
                      (pclosed_out s) (precvd s) (pcaller_done s) (perrs s ++ [e_of j])
        end
      else psend_result s i j (perrs s)
    | Some Exited => s
    | Some Dead => s
    end.

  Definition pstep (s : pst) (a : nat) : pst :=
    match a with
    | 0 => pproducer_step s
    | 1 => pcloser_step s
    | 2 => pcaller_step s
    | S (S (S i)) => pworker_step s i
    end.

  Definition prun (sched : list nat) (s : pst) : pst := fold_left pstep sched s.

  Definition pinit (items : list job) (e : option job) (k : nat) : pst :=
    mkP items e false [] (repeat Idle k) [] false [] false [].

  (** the reader's pending output seen as one list: a state of Model/Pool2.v *)
  Definition abs2 (s : pst) : st2 job res err :=
    mkSt2 job res err (psrc s ++ olist (perr s)) (pclosed s) (pqueue s) (pws s) (prchan s)
          (pclosed_out s) (precvd s) (pcaller_done s) (perrs s).
End Pipe.
