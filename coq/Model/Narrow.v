(** Numeric types narrower than 64 bits spelled out in the library packages (generated table:
    Gen/Narrow.v).  The models count and index with unbounded numbers ([nat], [N], [Z]); Go's [int]
    is 64 bits wide on the platforms gotree is built for, so the models agree with the code for all
    sizes below 2^63.  A counter, an index or a size stored in an 8-, 16- or 32-bit type wraps
    long before that (Proofs/Narrow.v), which no theorem here accounts for: every spelled-out
    narrow type must therefore be reviewed. *)
From Coq Require Import String Bool Arith List.
Import ListNotations.
Local Open Scope string_scope.

Record nsite : Type := mkN {
  nfile : string;     (* path relative to /repo *)
  ndecl : string;     (* enclosing function, or "declarations" for type/var/const declarations of the file *)
  ntyp : string;      (* int8 int16 int32 uint8 uint16 uint32 float32 *)
  ncount : nat        (* occurrences *)
}.

(** reviewed at the pinned commit:
    - asr/, mutations/: [uint8] is one alignment character (the value is a residue, never a count);
    - draw/: [uint8] colour components;
    - support/fbp.go FBP: [int32] atomic counter of bootstrap trees read (more than 2^31 trees are
      outside what the theorems cover; the value is only used for the division by the number of trees,
      which the C10 model takes from the length of the input);
    - support/supporter.go: [int32] atomic stop flag, 0 or 1;
    - support/support.go min_uint: [uint16] helper that nothing calls. *)
Definition reviewed_narrow : list nsite := [
  mkN "asr/parsimony.go" "ParsimonyAsr" "uint8" 3;
  mkN "asr/parsimony.go" "assignSequencesToTree" "uint8" 1;
  mkN "asr/parsimony.go" "parsimonyACCTRAN" "uint8" 1;
  mkN "asr/parsimony.go" "parsimonyDELTRAN" "uint8" 1;
  mkN "asr/parsimony.go" "parsimonyDOWNPASS" "uint8" 1;
  mkN "asr/parsimony.go" "parsimonyUPPASS" "uint8" 3;
  mkN "draw/circular.go" "NewCircularLayout" "uint8" 1;
  mkN "draw/circular.go" "circularLayout.SetTipColors" "uint8" 1;
  mkN "draw/circular.go" "declarations" "uint8" 1;
  mkN "draw/cytoscape.go" "cytoscapeLayout.SetTipColors" "uint8" 1;
  mkN "draw/draw.go" "declarations" "uint8" 2;
  mkN "draw/normal.go" "NewNormalLayout" "uint8" 1;
  mkN "draw/normal.go" "declarations" "uint8" 1;
  mkN "draw/normal.go" "normalLayout.SetTipColors" "uint8" 1;
  mkN "draw/pngtreedrawer.go" "pngTreeDrawer.DrawColoredCircle" "uint8" 1;
  mkN "draw/radial.go" "NewRadialLayout" "uint8" 1;
  mkN "draw/radial.go" "declarations" "uint8" 1;
  mkN "draw/radial.go" "radialLayout.SetTipColors" "uint8" 1;
  mkN "draw/svgtreedrawer.go" "svgTreeDrawer.DrawColoredCircle" "uint8" 1;
  mkN "draw/texttreedrawer.go" "textTreeDrawer.DrawColoredCircle" "uint8" 1;
  mkN "mutations/counteems.go" "countEEMSiteBranch" "uint8" 2;
  mkN "mutations/countmutations.go" "countMutationSiteBranch" "uint8" 5;
  mkN "mutations/mutations.go" "declarations" "uint8" 2;
  mkN "support/fbp.go" "FBP" "int32" 1;
  mkN "support/support.go" "min_uint" "uint16" 3;
  mkN "support/supporter.go" "declarations" "int32" 1
].

Definition covers (r s : nsite) : bool :=
  String.eqb (nfile r) (nfile s) && String.eqb (ndecl r) (ndecl s) && String.eqb (ntyp r) (ntyp s) &&
  Nat.leb (ncount s) (ncount r).

Definition in_pkg_file (pk : list string) (f : string) : bool :=
  existsb (fun p => String.prefix (p ++ "/") f) pk.

(** sites of the given packages that are not covered by a reviewed entry (same file, declaration
    and type, at most as many occurrences) *)
Definition unreviewed_narrow (pk : list string) (ss : list nsite) : list nsite :=
  filter (fun s => in_pkg_file pk (nfile s) && negb (existsb (fun r => covers r s) reviewed_narrow)) ss.
