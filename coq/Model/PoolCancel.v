(** Cancellation in FBP's worker loop (support/fbp.go): `if sup.Canceled() { break }` at the head
    of the loop body.  The source leaves the loop and runs the deferred wg.Done()
    ([done_on_cancel = true]); a seeded regression `return`s on a path without Done
    ([done_on_cancel = false]).  Agents: 0 producer, 1 the canceller (sets the flag, at any
    time), i+2 worker i.  No proofs in this file. *)
From Coq Require Import Bool Arith List.
From GT Require Import Model.Pool.
Import ListNotations.

Section Cancel.
  Variables (job res : Type).
  Variable f : job -> res.
  Variable done_on_cancel : bool.

  Record kst := mkK {
    kpending : list job;
    kclosed : bool;
    kqueue : list job;
    kws : list (wstate job);
    kcanceled : bool;
    kout : list res
  }.

  Definition kproducer_step (s : kst) : kst :=
    match kpending s with
    | j :: p => mkK p (kclosed s) (kqueue s ++ [j]) (kws s) (kcanceled s) (kout s)
    | [] => mkK [] true (kqueue s) (kws s) (kcanceled s) (kout s)
    end.

  Definition kcancel_step (s : kst) : kst :=
    mkK (kpending s) (kclosed s) (kqueue s) (kws s) true (kout s).

  Definition kworker_step (s : kst) (i : nat) : kst :=
    match nth_error (kws s) i with
    | Some Idle =>
      match kqueue s with
      | j :: q =>
        mkK (kpending s) (kclosed s) q
            (set_nth i (if kcanceled s then (if done_on_cancel then Exited else Dead) else Busy j) (kws s))
            (kcanceled s) (kout s)
      | [] => if kclosed s
              then mkK (kpending s) (kclosed s) [] (set_nth i Exited (kws s)) (kcanceled s) (kout s)
              else s
      end
    | Some (Busy j) =>
      mkK (kpending s) (kclosed s) (kqueue s) (set_nth i Idle (kws s)) (kcanceled s) (kout s ++ [f j])
    | _ => s
    end.

  Definition kstep (s : kst) (a : nat) : kst :=
    match a with 0 => kproducer_step s | 1 => kcancel_step s | S (S i) => kworker_step s i end.
  Definition krun (sched : list nat) (s : kst) : kst := fold_left kstep sched s.
  Definition kinit (jobs : list job) (n : nat) : kst := mkK jobs false [] (repeat Idle n) false [].
  Definition kfinished (s : kst) : bool := forallb (is_exited job) (kws s).
End Cancel.
