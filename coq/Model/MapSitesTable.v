(** The reviewed `range`-over-map sites of /repo, each with the shape of its loop body (read from
    the source; the digest pins the loop and the ten statements after it, so an edited loop
    re-opens the obligation [C18_sites_covered]).  Shapes and their order-independence
    theorems are in Proofs/MapOrder.v. *)
From Coq Require Import String Bool Arith List.
From GT Require Import Model.MapSites.
Import ListNotations.
Local Open Scope string_scope.

Inductive shape : Type :=
| CollectThenSort          (* keys appended to a slice which is sorted before any use *)
| CollectDistinctThenSort  (* values appended when first seen, slice sorted before any use *)
| InsertOnly               (* dst[k] = g(k): distinct keys, or idempotent stores *)
| IdempotentMarks          (* counts[idx(k)] = 1 for the keys passing a test *)
| CommutativeAggregate     (* dst[k] += n *)
| InsertDistinctOrError    (* dst[k] = v, error if k present; keys of a map are distinct *)
| DeleteAll                (* delete(m, k) for every k *)
| Existential              (* return a key-independent error on the first key failing a test *)
| IndependentUpdates.      (* each key updates a distinct object found through an index built before the loop *)

Definition reviewed : list (site * shape) := [
  (mkSite "acr/parsimony.go" "ParsimonyAcr" 0 "43cdc13b1bef656c", CollectDistinctThenSort);
  (mkSite "asr/parsimony.go" "parsimonyUPPASS" 0 "5d8eced83aa4ccf8", IdempotentMarks);
  (mkSite "cmd/acr.go" "var acrCmd" 0 "26cf664a4cb89409", CollectThenSort);
  (mkSite "cmd/comparetips.go" "var difftipsCmd" 0 "f3d70faca298cb93", CollectThenSort);
  (mkSite "cmd/extractmutations.go" "sortedMutationKeys" 0 "bd93381434b25d1c", CollectThenSort);
  (mkSite "cmd/rename.go" "writeNameMap" 0 "b95434a1cbcaf4fb", CollectThenSort);
  (mkSite "download/itol.go" "ItolImageDownloader.Download" 0 "b73b8e9352251166", InsertOnly);
  (mkSite "download/ncbitax.go" "NcbiTreeDownloader.writeMapfile" 0 "0316967048a7dc6d", CollectThenSort);
  (mkSite "draw/pngtreedrawer.go" "pngTreeDrawer.initFonts" 0 "cb8c277c9b2300ae", InsertOnly);
  (mkSite "mutations/counteems.go" "CountEEMs" 0 "f990812cec42bfc0", CollectThenSort);
  (mkSite "mutations/countmutations.go" "countMutationSiteBranch" 0 "df2183dc17f328b9", CommutativeAggregate);
  (mkSite "mutations/mutations.go" "MutationList.Append" 0 "a7d6b192011ea343", InsertDistinctOrError);
  (mkSite "tree/tipbags.go" "TipBag.Tips" 0 "35a059408034a440", CollectThenSort);
  (mkSite "tree/tree.go" "Tree.UpdateTipIndex" 0 "6a685b914254308f", DeleteAll);
  (mkSite "tree/tree.go" "Tree.CompareTipIndexes" 0 "f35ea4423f9f486a", Existential);
  (mkSite "tree/tree.go" "Tree.Rename" 0 "3fa21ba6bffe6b4f", IndependentUpdates);
  (mkSite "tree/tree.go" "Tree.Merge" 0 "f8691e174577f759", Existential)
].

Definition covered (s : site) : bool := existsb (fun p => site_eqb s (fst p)) reviewed.
Definition uncovered (sites : list site) : list site := filter (fun s => negb (covered s)) sites.
