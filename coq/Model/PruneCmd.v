(** Model of the loop of cmd/prune.go (RunE): every tree of the input file is pruned on its own;
    with -c the list of names is recomputed for every tree (specificTips); the first refusal stops
    the command.  Also: RemoveTips with the tip-name table made explicit.  No proofs here. *)
From Coq Require Import String Bool Arith List.
From GT Require Import Base.UTree Model.Reroot Model.Prune.
Import ListNotations.

(** RemoveTips on (tree, tip-name table): the table on entry is not read *)
Definition remove_tips_indexed (idx : list string) (revert : bool) (names : list string) (t : utree)
  : res (utree * list string) :=
  match remove_tips revert names t with
  | Ok t' => Ok (t', tip_index_after idx t')
  | Err m => Err m
  end.

(** names on the command line or from the tip file: the same list for every tree *)
Fixpoint prune_file (revert : bool) (names : list string) (ts : list utree) : res (list utree) :=
  match ts with
  | [] => Ok []
  | t :: r =>
    match remove_tips revert names t with
    | Err m => Err m
    | Ok t' => match prune_file revert names r with Ok l => Ok (t' :: l) | Err m => Err m end
    end
  end.

(** specificTips(ref, comp): the tips of ref that are not tips of comp *)
Definition specific_tips (t comp : utree) : list string :=
  filter (fun x => negb (name_in x (tip_names comp))) (tip_names t).

Fixpoint prune_file_comp (revert : bool) (comp : utree) (ts : list utree) : res (list utree) :=
  match ts with
  | [] => Ok []
  | t :: r =>
    match remove_tips revert (specific_tips t comp) t with
    | Err m => Err m
    | Ok t' => match prune_file_comp revert comp r with Ok l => Ok (t' :: l) | Err m => Err m end
    end
  end.
