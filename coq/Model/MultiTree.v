(** Model of the multi-Newick stream reader.
      io/fileutils/readln.go  [ReadUntilSemiColon]
      io/utils/readtrees.go   [ReadMultiTrees], case FORMAT_NEWICK (the loop of the reader
                              goroutine; the channel hand-off is not modelled) and
                              [ReadTreeReader], case FORMAT_NEWICK.
    No proofs in this file.

    The input is the sequence of results of the successive [bufio.Reader.ReadLine] calls
    before end of file: a *physical read* is (fragment, isPrefix), the fragment being a line
    without its terminator ("\n" or "\r\n"), or, when the line does not fit the reader's
    buffer, a buffer-sized piece of it with isPrefix = true.  After the last read ReadLine
    returns (nil, false, io.EOF) forever.  [phys_reads] computes the reads of a byte string
    as bufio does (buffer size = parameter; 4096 for bufio.NewReader).

    The byte slice [ln] is a string, indexes are in [Z], an array read is an [option]:
    reading outside [0, len) is the distinguished result [Panic] ("index out of range"). *)
From Coq Require Import String Ascii ZArith Bool Arith List.
From GT Require Import Base.UTree.
Import ListNotations.
Local Open Scope string_scope.

Definition phys_read : Type := (string * bool)%type.

(** ln[i] *)
Definition byte_at (ln : string) (i : Z) : option ascii :=
  if (i <? 0)%Z then None else String.get (Z.to_nat i) ln.

Definition zlen (s : string) : Z := Z.of_nat (String.length s).

Definition is_blank (c : ascii) : bool := Ascii.eqb c " " || Ascii.eqb c "009".
Definition is_semi (c : ascii) : bool := Ascii.eqb c ";".

Inductive scan_res : Type := ScanOk (last : ascii) | ScanPanic | ScanFuel.

(** for (lastChar == ' ' || lastChar == '\t') && i > 0 { i--; lastChar = ln[i] }
    (the code after the fix 114996a; before it the test was i >= 0 and a buffer made of
    blanks only read ln[-1]) *)
Fixpoint back_scan (fuel : nat) (ln : string) (i : Z) (last : ascii) : scan_res :=
  match fuel with
  | O => ScanFuel
  | S f =>
    if is_blank last && (0 <? i)%Z then
      match byte_at ln (i - 1) with
      | None => ScanPanic
      | Some c => back_scan f ln (i - 1) c
      end
    else ScanOk last
  end.

(** if len(ln) > 0 { i := len(ln)-1; lastChar = ln[i]; <back scan> }   -- [last] is the
    value of lastChar before; the loop runs at most len(ln)+1 times *)
Definition last_char (ln : string) (last : ascii) : scan_res :=
  if (0 <? zlen ln)%Z then
    let i := (zlen ln - 1)%Z in
    match byte_at ln i with
    | None => ScanPanic
    | Some c => back_scan (S (S (String.length ln))) ln i c
    end
  else ScanOk last.

(** result of one call of ReadUntilSemiColon: the string, the reads left, err == nil or EOF *)
Inductive rus_res : Type :=
| RLine (ln : string) (rest : list phys_read)    (* err == nil *)
| REof (ln : string)                             (* err == io.EOF *)
| RPanic
| RFuel.

(** for err == nil && (isPrefix || lastChar != ';') { line, isPrefix, err = r.ReadLine(); ... } *)
Fixpoint rus_loop (reads : list phys_read) (ln : string) (last : ascii) (is_prefix : bool) : rus_res :=
  if is_prefix || negb (is_semi last) then
    match reads with
    | [] =>
      (* ReadLine: nil, false, io.EOF; ln unchanged, the scan is done once more.
         After the loop (fix b303e0a): if err == io.EOF && lastChar == ';' { err = nil } --
         the input ended right after a chunk that filled the buffer; the tree is complete
         and the end of file is for the next call *)
      match last_char ln last with
      | ScanOk c => if is_semi c then RLine ln [] else REof ln
      | ScanPanic => RPanic
      | ScanFuel => RFuel
      end
    | (frag, pre) :: rest =>
      let ln' := ln ++ frag in
      match last_char ln' last with
      | ScanOk last' => rus_loop rest ln' last' pre
      | ScanPanic => RPanic
      | ScanFuel => RFuel
      end
    end
  else RLine ln reads.

(** isPrefix = true, lastChar = '0', ln empty *)
Definition read_until_semicolon (reads : list phys_read) : rus_res :=
  rus_loop reads "" "0"%char true.

(** * bufio.Reader.ReadLine on a byte string, buffer of [bufsz] bytes *)
Definition is_nl (c : ascii) : bool := Ascii.eqb c "010".
Definition is_cr (c : ascii) : bool := Ascii.eqb c "013".

(** ReadSlice('\n') with an empty buffer: the bytes up to and including the first "\n", or
    [bufsz] bytes when there is none among them (ErrBufferFull), or what is left (EOF).
    Result: (slice without the "\n", found a "\n", rest). *)
Fixpoint read_slice (n : nat) (s : string) : string * bool * string :=
  match n, s with
  | _, EmptyString => ("", false, "")
  | O, _ => ("", false, s)
  | S k, String c r =>
    if is_nl c then ("", true, r)
    else let '(a, nl, rest) := read_slice k r in (String c a, nl, rest)
  end.

Fixpoint drop_last_cr (s : string) : string :=
  match s with
  | EmptyString => EmptyString
  | String c EmptyString => if is_cr c then EmptyString else s
  | String c r => String c (drop_last_cr r)
  end.
Definition ends_cr (s : string) : bool :=
  match String.get (Nat.pred (String.length s)) s with Some c => is_cr c | None => false end.

(** successive ReadLine results; [fuel] >= length of the input + 1 *)
Fixpoint phys_reads (fuel bufsz : nat) (s : string) : list phys_read :=
  match fuel with
  | O => []
  | S f =>
    match s with
    | EmptyString => []
    | _ =>
      let '(a, nl, rest) := read_slice bufsz s in
      if nl then (drop_last_cr a, false) :: phys_reads f bufsz rest
      else if Nat.eqb (String.length a) bufsz then
        (* ErrBufferFull (also when the input ends exactly here: the next ReadLine then
           reports EOF); a trailing "\r" is put back *)
        if ends_cr a then (drop_last_cr a, true) :: phys_reads f bufsz (String "013" rest)
        else (a, true) :: phys_reads f bufsz rest
      else
        (* end of input without "\n" *)
        [(a, false)]
    end
  end.

(** * The reader loop of ReadMultiTrees, FORMAT_NEWICK.  [nparse] is newick.Parser.Parse on
    the text: a tree or an error message. *)
Inductive item : Type :=
| ITree (id : nat) (t : utree)
| IErr (id : nat) (msg : string).

Inductive multi_res : Type :=
| MDone (items : list item)        (* the channel was closed after these items *)
| MPanic (items : list item)       (* the reader goroutine panicked after sending these items *)
| MFuel.

Section Multi.
  Variable nparse : string -> utree + string.

  Definition mcons (i : item) (r : multi_res) : multi_res :=
    match r with
    | MDone l => MDone (i :: l)
    | MPanic l => MPanic (i :: l)
    | MFuel => MFuel
    end.

  (** for e == nil { parse line; on error send it and stop; send the tree; id++; read again } *)
  Fixpoint multi_loop (fuel : nat) (id : nat) (line : string) (rest : list phys_read) : multi_res :=
    match fuel with
    | O => MFuel
    | S f =>
      match nparse line with
      | inr msg => MDone [IErr id msg]
      | inl t =>
        mcons (ITree id t)
              (match read_until_semicolon rest with
               | RLine line' rest' => multi_loop f (S id) line' rest'
               | REof _ => MDone []
               | RPanic => MPanic []
               | RFuel => MFuel
               end)
      end
    end.

  Definition read_multi (reads : list phys_read) : multi_res :=
    match read_until_semicolon reads with
    | RLine line rest => multi_loop (S (length reads)) 0 line rest
    | REof _ => MDone [IErr 0 "EOF"]
    | RPanic => MPanic []
    | RFuel => MFuel
    end.

  (** ReadTreeReader, FORMAT_NEWICK (after the fix 6227553; before it: the parser on the whole input, line breaks
      included): line, err = ReadUntilSemiColon(reader); if err != nil && line == "" { return nil, err };
      newick.NewParser(strings.NewReader(line)).Parse() -- the text of the first tree is taken as ReadMultiTrees takes
      it; a text without ';' at the end of the input is still handed to the parser *)
  Definition first_tree_newick (reads : list phys_read) : utree + string :=
    match read_until_semicolon reads with
    | RLine line _ => nparse line
    | REof line => if String.eqb line "" then inr "EOF" else nparse line
    | RPanic => inr "panic"
    | RFuel => inr "out of fuel"
    end.

  (** the first record delivered by the multi-tree reader *)
  Definition head_multi (r : multi_res) : option item :=
    match r with
    | MDone (i :: _) | MPanic (i :: _) => Some i
    | _ => None
    end.
End Multi.

Definition items_of (r : multi_res) : list item :=
  match r with MDone l | MPanic l => l | MFuel => [] end.

Definition n_trees (l : list item) : nat :=
  length (filter (fun i => match i with ITree _ _ => true | _ => false end) l).
