(** Model of the Newick writer (tree/node.go [Node.Newick], tree/tree.go [Tree.Newick]) and of
    the Newick reader (io/newick: newick_lexer.go [Scanner.Scan/scanWhitespace/scanIdent],
    newick_token.go [isWhitespace/isIdent], newick_nodestack.go, newick_parser.go
    [Parse/parseIter/consumeComment]).  No proofs in this file.

    Strings are byte strings.  The Go lexer reads runes (bufio.Reader.ReadRune) and writes
    them back into its literals, all Newick metacharacters are ASCII: [utf8_sanitize] is the
    effect of decoding and re-encoding (every byte that does not start a valid UTF-8 sequence
    becomes U+FFFD, bytes EF BF BD), and the lexer works on the sanitized bytes.  Rune 0 is the
    lexer's EOF marker: a NUL byte in the input is read as EOF (and consumed); what follows it
    is read by the next call.

    Text <-> number conversion is external (strconv): everything is parameterised by
      [fmt       : Q -> string]          strconv.FormatFloat(x,'f',-1,64)
      [numeric   : string -> bool]       strconv.ParseFloat(s,64) returns no error
      [parse_num : string -> option Q]   its value when finite
    ([numeric s = true] with [parse_num s = None] is a non-finite value, inf/nan: the model
    stops with the error [nonfinite_msg], such inputs are outside its domain).
    Model/NewickNum.v gives the executable instance used by the correspondence check. *)
From Coq Require Import String Ascii ZArith QArith Bool Arith List.
From GT Require Import Base.UTree.
Import ListNotations.
Local Close Scope Q_scope.
Local Open Scope string_scope.

(** * Tokens (newick_token.go) *)
Inductive token : Type :=
| ILLEGAL | EOF | WS | IDENT | NUMERIC | OPENPAR | CLOSEPAR | STARTLEN
| OPENBRACK | CLOSEBRACK | NEWSIBLING | EOT.

Definition token_eqb (a b : token) : bool :=
  match a, b with
  | ILLEGAL, ILLEGAL | EOF, EOF | WS, WS | IDENT, IDENT | NUMERIC, NUMERIC
  | OPENPAR, OPENPAR | CLOSEPAR, CLOSEPAR | STARTLEN, STARTLEN
  | OPENBRACK, OPENBRACK | CLOSEBRACK, CLOSEBRACK | NEWSIBLING, NEWSIBLING | EOT, EOT => true
  | _, _ => false
  end.

(** prevTok: [None] is the initial value -1 *)
Definition prev_is (p : option token) (t : token) : bool :=
  match p with Some x => token_eqb x t | None => false end.

(** isWhitespace *)
Definition is_ws (c : ascii) : bool :=
  Ascii.eqb c " " || Ascii.eqb c "009" || Ascii.eqb c "010" || Ascii.eqb c "013".

(** the characters that are never part of an identifier:  [ ] ( ) , :  *)
Definition is_meta (c : ascii) : bool :=
  Ascii.eqb c "[" || Ascii.eqb c "]" || Ascii.eqb c "(" || Ascii.eqb c ")" ||
  Ascii.eqb c "," || Ascii.eqb c ":".

(** isIdent(ch, ignoreSemiColumn) *)
Definition is_ident (ign : bool) (c : ascii) : bool :=
  negb (is_meta c) && (ign || negb (Ascii.eqb c ";")).

(** rune 0 = eof *)
Definition is_nul (c : ascii) : bool := Ascii.eqb c "000".

(** longest prefix whose characters satisfy [p], and the rest (the read/unread loops of
    scanWhitespace and scanIdent: a character that does not belong is unread, rune 0 ends the
    loop and stays consumed) *)
Fixpoint span (p : ascii -> bool) (s : string) : string * string :=
  match s with
  | EmptyString => (EmptyString, EmptyString)
  | String c r => if is_nul c then (EmptyString, r)
                  else if p c then let '(a, b) := span p r in (String c a, b) else (EmptyString, s)
  end.

(** * bufio.Reader.ReadRune / bytes.Buffer.WriteRune: utf8.DecodeRune on the remaining input;
    a valid sequence is copied, otherwise ONE byte is consumed and U+FFFD is produced.
    Byte by byte: [upend] are the bytes of a sequence begun and not finished, [uneed] the
    number of continuation bytes still expected, [ulo..uhi] the accepted range of the next
    one (acceptRanges; later ones 80..BF).  When the sequence breaks, its lead byte and each
    pending continuation byte (none of which can start a sequence) give one U+FFFD each and
    the offending byte is looked at afresh. *)
Definition repl : string := String "239" (String "191" (String "189" EmptyString)).
Record ust : Type := mkU { upend : string; uneed : nat; ulo : nat; uhi : nat }.
Definition uclean : ust := mkU EmptyString 0 0 0.
Fixpoint repl_n (s : string) : string :=
  match s with EmptyString => EmptyString | String _ r => (repl ++ repl_n r)%string end.

Definition ustart (c : ascii) : string * ust :=
  let n := nat_of_ascii c in
  let one := String c EmptyString in
  if Nat.ltb n 128 then (one, uclean)
  else if Nat.leb 194 n && Nat.leb n 223 then (EmptyString, mkU one 1 128 191)
  else if Nat.eqb n 224 then (EmptyString, mkU one 2 160 191)
  else if (Nat.leb 225 n && Nat.leb n 236) || (Nat.leb 238 n && Nat.leb n 239) then (EmptyString, mkU one 2 128 191)
  else if Nat.eqb n 237 then (EmptyString, mkU one 2 128 159)
  else if Nat.eqb n 240 then (EmptyString, mkU one 3 144 191)
  else if Nat.leb 241 n && Nat.leb n 243 then (EmptyString, mkU one 3 128 191)
  else if Nat.eqb n 244 then (EmptyString, mkU one 3 128 143)
  else (repl, uclean).

Definition ufeed (st : ust) (c : ascii) : string * ust :=
  match uneed st with
  | O => ustart c
  | S k =>
    let n := nat_of_ascii c in
    if Nat.leb (ulo st) n && Nat.leb n (uhi st) then
      match k with
      | O => ((upend st ++ String c EmptyString)%string, uclean)
      | S _ => (EmptyString, mkU (upend st ++ String c EmptyString)%string k 128 191)
      end
    else let '(o, st') := ustart c in ((repl_n (upend st) ++ o)%string, st')
  end.

(** output and final state (the pending bytes are not flushed) *)
Fixpoint ufold (st : ust) (s : string) : string * ust :=
  match s with
  | EmptyString => (EmptyString, st)
  | String c r => let '(o, st1) := ufeed st c in
                  let '(o2, st2) := ufold st1 r in ((o ++ o2)%string, st2)
  end.

Definition utf8_sanitize (s : string) : string :=
  let '(o, st) := ufold uclean s in (o ++ repl_n (upend st))%string.

(** strings.Split(lit, "/") has exactly two parts *)
Fixpoint split_slash (s : string) : string * option string :=
  match s with
  | EmptyString => (EmptyString, None)
  | String c r => if Ascii.eqb c "/" then (EmptyString, Some r)
                  else let '(a, b) := split_slash r in (String c a, b)
  end.
Definition split2 (s : string) : option (string * string) :=
  match split_slash s with
  | (a, Some b) => match split_slash b with (_, None) => Some (a, b) | _ => None end
  | _ => None
  end.

(** * strings.TrimSpace (used by Parse on tip names).
    ASCII blanks, and the UTF-8 encodings of the other code points of unicode.IsSpace:
    U+0085 U+00A0 U+1680 U+2000..U+200A U+2028 U+2029 U+202F U+205F U+3000. *)
Definition is_blank1 (c : ascii) : bool :=
  Ascii.eqb c " " || Ascii.eqb c "009" || Ascii.eqb c "010" || Ascii.eqb c "011" ||
  Ascii.eqb c "012" || Ascii.eqb c "013".

Definition byte_in (c : ascii) (lo hi : nat) : bool :=
  let n := nat_of_ascii c in Nat.leb lo n && Nat.leb n hi.

(** number of bytes of the blank at the beginning of [s] (0: none) *)
Definition blank_prefix (s : string) : nat :=
  match s with
  | String a r =>
    if is_blank1 a then 1
    else match r with
         | String b r2 =>
           if byte_in a 194 194 && (byte_in b 133 133 || byte_in b 160 160) then 2
           else match r2 with
                | String c _ =>
                  if byte_in a 225 225 && byte_in b 154 154 && byte_in c 128 128 then 3
                  else if byte_in a 226 226 && byte_in b 128 128 &&
                          (byte_in c 128 138 || byte_in c 168 169 || byte_in c 175 175) then 3
                  else if byte_in a 226 226 && byte_in b 129 129 && byte_in c 159 159 then 3
                  else if byte_in a 227 227 && byte_in b 128 128 && byte_in c 128 128 then 3
                  else 0
                | EmptyString => 0
                end
         | EmptyString => 0
         end
  | EmptyString => 0
  end.

(** the same, read backwards: [s] is the reversed string *)
Definition blank_suffix_rev (s : string) : nat :=
  match s with
  | String a r =>
    if is_blank1 a then 1
    else match r with
         | String b r2 =>
           if byte_in b 194 194 && (byte_in a 133 133 || byte_in a 160 160) then 2
           else match r2 with
                | String c _ =>
                  if byte_in c 225 225 && byte_in b 154 154 && byte_in a 128 128 then 3
                  else if byte_in c 226 226 && byte_in b 128 128 &&
                          (byte_in a 128 138 || byte_in a 168 169 || byte_in a 175 175) then 3
                  else if byte_in c 226 226 && byte_in b 129 129 && byte_in a 159 159 then 3
                  else if byte_in c 227 227 && byte_in b 128 128 && byte_in a 128 128 then 3
                  else 0
                | EmptyString => 0
                end
         | EmptyString => 0
         end
  | EmptyString => 0
  end.

Fixpoint sdrop (n : nat) (s : string) : string :=
  match n, s with
  | S k, String _ r => sdrop k r
  | _, _ => s
  end.

Fixpoint srev_app (s acc : string) : string :=
  match s with EmptyString => acc | String c r => srev_app r (String c acc) end.
Definition srev (s : string) : string := srev_app s EmptyString.

Fixpoint trim_with (width : string -> nat) (fuel : nat) (s : string) : string :=
  match fuel with
  | O => s
  | S f => match width s with O => s | k => trim_with width f (sdrop k s) end
  end.
Definition trim_left (s : string) : string := trim_with blank_prefix (String.length s) s.
Definition trim_right (s : string) : string :=
  srev (trim_with blank_suffix_rev (String.length s) (srev s)).
Definition trim_space (s : string) : string := trim_right (trim_left s).

(** * Results *)
Inductive pres : Type := POk (t : utree) | PErr (msg : string) | POutOfFuel.

(** the error of the model on a non-finite number (outside its domain) *)
Definition nonfinite_msg : string := "model: non-finite number".

(** * The parser's stack (newick_nodestack.go) of nodes under construction.
    A frame is the Go node at that stack position with the children it has so far, and the
    branch to its parent ([None] for the root: "edge == nil").  [ConnectNodes(parent, child)]
    appends the child to the parent's [neigh] and the parent to the (new, empty) child's
    [neigh]: a non-root frame starts with the slot list [[None]]; while a child is on the
    stack its parent is not the head and gets no other child, so the child can be appended
    to the parent's slots when it is popped (or when the parser returns). *)
Record frame : Type := mkF { fname : string; fcom : list string; fslots : list slot; fedge : option einfo }.

Definition node_of (f : frame) : utree := UNode (fname f) (fcom f) (fslots f).
Definition edge_of (f : frame) : einfo := match fedge f with Some e => e | None => e0 end.
Definition add_child (p f : frame) : frame :=
  mkF (fname p) (fcom p) (fslots p ++ [Some (edge_of f, node_of f)]) (fedge p).

(** parser state: the variables of parseIter.  [node]/[edge] always are the head of the
    stack (nil when it is empty); [droot] is [t.root] once the root frame has been popped;
    [perr] is the named result [err], which the two ParseFloat calls of the
    "support/pvalue" test assign and nobody resets until the next Pop / consumeComment /
    ParseFloat (it is returned as is at ';'). *)
Record pstate : Type := mkS { stk : list frame; droot : option utree; lvl : Z; prev : option token; perr : bool }.

Definition st0 : pstate := mkS [] None 0%Z None false.

Fixpoint collapse (f : frame) (below : list frame) : utree :=
  match below with
  | [] => node_of f
  | p :: r => collapse (add_child p f) r
  end.
Definition final_tree (st : pstate) : option utree :=
  match stk st with
  | [] => droot st
  | f :: r => Some (collapse f r)
  end.

(** nodeStack.Pop() then Head() *)
Definition pop (st : pstate) : option (list frame * option utree) :=
  match stk st with
  | [] => None
  | [f] => Some ([], Some (node_of f))
  | f :: p :: r => Some (add_child p f :: r, droot st)
  end.

Definition set_name (n : string) (f : frame) : frame := mkF n (fcom f) (fslots f) (fedge f).
Definition add_ncom (c : string) (f : frame) : frame := mkF (fname f) (fcom f ++ [c]) (fslots f) (fedge f).
Definition map_edge (g : einfo -> einfo) (f : frame) : frame :=
  mkF (fname f) (fcom f) (fslots f) (match fedge f with Some e => Some (g e) | None => None end).
Definition set_len (x : Q) (e : einfo) : einfo := mkE x (esup e) (epv e) (ecom e).
Definition set_sup (x : Q) (e : einfo) : einfo := mkE (elen e) x (epv e) (ecom e).
Definition set_pv (x : Q) (e : einfo) : einfo := mkE (elen e) (esup e) x (ecom e).
Definition add_ecom (c : string) (e : einfo) : einfo := mkE (elen e) (esup e) (epv e) (ecom e ++ [c]).

(** Parse: for _, tip := range Tips() { tip.SetName(TrimSpace(tip.Name())) };
    Tips() lists every node with exactly one neighbour (also the root if it has one) *)
Fixpoint trim_tips (t : utree) : utree :=
  match t with
  | UNode n c sl =>
    UNode (if Nat.eqb (length sl) 1 then trim_space n else n) c
          (map (fun s => match s with Some (e, ch) => Some (e, trim_tips ch) | None => None end) sl)
  end.

Definition present (q : Q) : bool := negb (qeqb q nilv).

Inductive cres : Type := COk (comment rest : string) | CErr | CFuel.

Inductive ires : Type := IErr (msg : string) | IRet (st : pstate) (rest : string) | IFuel.
Inductive outcome : Type := Cont (st : pstate) (rest : string) | Stop (r : ires).

Section Num.
  Variable fmt : Q -> string.
  Variable numeric : string -> bool.
  Variable parse_num : string -> option Q.

  (** * Writer *)
  Definition write_coms (l : list string) : string :=
    fold_right (fun c acc => "[" ++ c ++ "]" ++ acc) "" l.

  (** what Node.Newick prints after the child's own text: support (only for unnamed children)
      with "/pvalue", the child's comments, ":length", the branch comments *)
  Definition deco (e : einfo) (ch : utree) : string :=
    (if present (esup e) && String.eqb (uname ch) ""
     then fmt (esup e) ++ (if present (epv e) then "/" ++ fmt (epv e) else "")
     else "") ++
    write_coms (ucom ch) ++
    (if present (elen e) then ":" ++ fmt (elen e) else "") ++
    write_coms (ecom e).

  (** Node.Newick(parent, buffer): parentheses iff more than one neighbour, the parent is
      skipped, "," between children, the node's name last *)
  Fixpoint write_node (t : utree) : string :=
    match t with
    | UNode n c sl =>
      let body :=
          (fix go (first : bool) (l : list slot) : string :=
             match l with
             | [] => ""
             | None :: r => go first r
             | Some (e, ch) :: r =>
               (if first then "" else ",") ++ write_node ch ++ deco e ch ++ go false r
             end) true sl in
      (if Nat.ltb 1 (length sl) then "(" ++ body ++ ")" else body) ++ n
    end.

  (** Tree.Newick() *)
  Definition write (t : utree) : string := write_node t ++ write_coms (ucom t) ++ ";".

  (** * Lexer: Scanner.Scan(ignoreSemiColumn) -> (token, literal, remaining input) *)
  Definition scan (ign : bool) (s : string) : token * string * string :=
    match s with
    | EmptyString => (EOF, "", "")
    | String c r =>
      if is_nul c then (EOF, "", r)
      else if is_ws c then let '(w, r') := span is_ws r in (WS, String c w, r')
      else if Ascii.eqb c "(" then (OPENPAR, "(", r)
      else if Ascii.eqb c ")" then (CLOSEPAR, ")", r)
      else if Ascii.eqb c "[" then (OPENBRACK, "[", r)
      else if Ascii.eqb c "]" then (CLOSEBRACK, "]", r)
      else if Ascii.eqb c "," then (NEWSIBLING, ",", r)
      else if Ascii.eqb c ";" && negb ign then (EOT, ";", r)
      else if Ascii.eqb c ":" then (STARTLEN, ":", r)
      else let '(w, r') := span (is_ident ign) r in
           let lit := String c w in
           (if numeric lit then NUMERIC else IDENT, lit, r')
    end.

  (** Parser.scanIgnoreWhitespace; the 4th component is the input in front of the returned
      token (what [unscan] goes back to) *)
  Definition scan_iw (s : string) : token * string * string * string :=
    let '(tok, lit, r) := scan false s in
    match tok with
    | WS => let '(tok2, lit2, r2) := scan false r in (tok2, lit2, r2, r)
    | _ => (tok, lit, r, s)
    end.

  (** Parser.consumeComment after the "[": tokens scanned with ignoreSemiColumn, their
      literals concatenated, until "]" *)
  Fixpoint consume_comment (fuel : nat) (acc s : string) : cres :=
    match fuel with
    | O => CFuel
    | S f =>
      let '(tok, lit, r) := scan true s in
      match tok with
      | CLOSEBRACK => COk acc r
      | EOF | ILLEGAL => CErr
      | _ => consume_comment f (acc ++ lit) r
      end
    end.

  Definition head_edge (st : pstate) : option einfo :=
    match stk st with f :: _ => fedge f | [] => None end.
  Definition upd_head (g : frame -> frame) (st : pstate) : list frame :=
    match stk st with f :: r => g f :: r | [] => [] end.

  (** the value of a literal the lexer classified as a number *)
  Definition with_num (lit : string) (k : Q -> outcome) : outcome :=
    match parse_num lit with Some q => k q | None => Stop (IErr nonfinite_msg) end.

  (** one iteration of the loop of parseIter *)
  Definition step (st : pstate) (s : string) : outcome :=
    let '(tok, lit, r, pre) := scan_iw s in
    match tok with
    | OPENPAR =>
      match stk st with
      | [] =>
        if (0 <? lvl st)%Z then Stop (IErr "nil node at depth > 0")
        else
          (* fix 98ea38b: "if nnodes > 0": a root may only be created while no node exists.
             The first node is the root and the stack then stays non-empty until the root is
             popped, so with an empty stack "a node exists" is "[droot] is set" *)
          match droot st with
          | Some _ => Stop (IErr "newick Error: An open parenthesis after the end of the tree")
          | None => Cont (mkS [mkF "" [] [] None] (droot st) (lvl st + 1)%Z (Some OPENPAR) (perr st)) r
          end
      | _ :: _ =>
        if (lvl st =? 0)%Z then Stop (IErr "newick Error: An open parenthesis while the stack is empty")
        else Cont (mkS (mkF "" [] [None] (Some e0) :: stk st) (droot st) (lvl st + 1)%Z (Some OPENPAR) (perr st)) r
      end
    | CLOSEPAR =>
      (* fix bd702f3: a closing parenthesis below level 0 is an error *)
      if (lvl st - 1 <? 0)%Z
      then Stop (IErr "newick Error: Mismatched parenthesis: closing parenthesis after the end of the tree")
      else
      match pop st with
      | None => Stop (IErr "newick Error: Closing parenthesis while the stack is already empty")
      | Some (stk', dr') => Cont (mkS stk' dr' (lvl st - 1)%Z (Some CLOSEPAR) false) r
      end
    | OPENBRACK =>
      match consume_comment (S (String.length r)) "" r with
      | CFuel => Stop IFuel
      | CErr => Stop (IErr "unmatched bracket")
      | COk comment r' =>
        match stk st with
        | [] => Stop (IErr "newick error: comment should not be located here")
        | f :: _ =>
          if prev_is (prev st) STARTLEN then
            (* edge != nil: branch comment; edge == nil && node != nil: node comment *)
            match fedge f with
            | Some _ => Cont (mkS (upd_head (map_edge (add_ecom comment)) st) (droot st) (lvl st) (Some CLOSEBRACK) false) r'
            | None => Cont (mkS (upd_head (add_ncom comment) st) (droot st) (lvl st) (Some CLOSEBRACK) false) r'
            end
          else if prev_is (prev st) CLOSEPAR || prev_is (prev st) IDENT ||
                  prev_is (prev st) NUMERIC || prev_is (prev st) CLOSEBRACK then
            Cont (mkS (upd_head (add_ncom comment) st) (droot st) (lvl st) (Some CLOSEBRACK) false) r'
          else Stop (IErr "newick error: comment should not be located here")
        end
      end
    | CLOSEBRACK => Stop (IErr "newick error: mismatched ] here")
    | STARTLEN =>
      let '(tok2, lit2, r2, _) := scan_iw r in
      match tok2 with
      | NUMERIC =>
        match stk st with
        | f :: _ =>
          if negb (lvl st =? 0)%Z then
            match fedge f with
            | None => Stop (IErr "Newick Error: Edge length should not be located here")
            | Some e =>
              if present (elen e) then Stop (IErr "Newick Error: More than one length is given")
              else with_num lit2 (fun x =>
                     Cont (mkS (upd_head (map_edge (set_len x)) st) (droot st) (lvl st) (Some STARTLEN) false) r2)
            end
          else (* level 0: "Branch lengths attached to root node are ignored" *)
            Cont (mkS (stk st) (droot st) (lvl st) (Some STARTLEN) (perr st)) r2
        | [] =>
          if (lvl st =? 0)%Z then Cont (mkS (stk st) (droot st) (lvl st) (Some STARTLEN) (perr st)) r2
          else Stop (IErr "Newick Error: Cannot assign length to nil node")
        end
      | _ => Stop (IErr "newick error: no numeric value after ':'")
      end
    | NEWSIBLING =>
      match pop st with
      | None => Stop (IErr "Newick Error: Stack is empty, a coma should not be located here")
      | Some (stk', dr') => Cont (mkS stk' dr' (lvl st) (Some NEWSIBLING) false) r
      end
    | IDENT | NUMERIC =>
      if prev_is (prev st) CLOSEPAR then
        (* a support value, support/pvalue, or the name of the node just closed; prevTok
           is left unchanged *)
        if token_eqb tok NUMERIC then
          match head_edge st with
          | Some _ =>
            if (lvl st =? 0)%Z then Cont st r
            else with_num lit (fun x =>
                   Cont (mkS (upd_head (map_edge (set_sup x)) st) (droot st) (lvl st) (prev st) false) r)
          | None => Cont st r     (* "Support values attached to root node are ignored" *)
          end
        else
          let as_name (e : bool) : outcome :=
              match stk st with
              | [] => Stop (IErr "Newick Error: Cannot assign node name to nil node")
              | _ :: _ => Cont (mkS (upd_head (set_name lit) st) (droot st) (lvl st) (prev st) e) r
              end in
          match split2 lit, head_edge st with
          | Some (v0, v1), Some _ =>
            if numeric v0 then
              if numeric v1 then
                with_num v0 (fun x => with_num v1 (fun y =>
                  Cont (mkS (upd_head (map_edge (fun e => set_pv y (set_sup x e))) st)
                            (droot st) (lvl st) (prev st) false) r))
              else as_name true
            else as_name true
          | _, _ => as_name (perr st)
          end
      else if negb (prev_is (prev st) OPENPAR || prev_is (prev st) NEWSIBLING) then
        Stop (IErr "Newick Error: There should not be a tip name in this context")
      else
        match stk st with
        | [] => Stop (IErr "Cannot create a new tip with no parent")
        | _ :: _ => Cont (mkS (mkF lit [] [None] (Some e0) :: stk st) (droot st) (lvl st) (Some tok) (perr st)) r
        end
    | EOT =>
      if negb (lvl st =? 0)%Z then Stop (IErr "newick Error: Mismatched parenthesis at ;")
      else if perr st then Stop (IErr "strconv.ParseFloat: parsing")
      else Stop (IRet st pre)
    | EOF =>
      (* nothing is unscanned: after a NUL the caller goes on reading behind it *)
      if perr st then Stop (IErr "strconv.ParseFloat: parsing") else Stop (IRet st r)
    | WS | ILLEGAL => Cont st r      (* not produced by scanIgnoreWhitespace *)
    end.

  Fixpoint parse_iter (fuel : nat) (st : pstate) (s : string) : ires :=
    match fuel with
    | O => IFuel
    | S f => match step st s with
             | Cont st' r => parse_iter f st' r
             | Stop x => x
             end
    end.

  (** Parser.Parse *)
  Definition parse_fuel (fuel : nat) (s : string) : pres :=
    let '(tok, lit, r, pre) := scan_iw s in
    let start : pres + (token * string) :=
        match tok with
        | OPENBRACK =>
          match consume_comment (S (String.length r)) "" r with
          | COk _ r' => let '(tok2, _, _, pre2) := scan_iw r' in inr (tok2, pre2)
          | CErr => inl (PErr "unmatched bracket")
          | CFuel => inl POutOfFuel
          end
        | _ => inr (tok, pre)
        end in
    match start with
    | inl e => e
    | inr (tok1, pre1) =>
      if negb (token_eqb tok1 OPENPAR) then PErr "found"
      else
        (* unscan: parseIter starts in front of the "(" *)
        match parse_iter fuel st0 pre1 with
        | IErr m => PErr m
        | IFuel => POutOfFuel
        | IRet st rest =>
          if negb (lvl st =? 0)%Z then PErr "newick error : mismatched parenthesis after parsing"
          else
            let '(tok3, _, _, _) := scan_iw rest in
            if negb (token_eqb tok3 EOT) then PErr "found"
            else match final_tree st with
                 | Some t => POk (trim_tips t)
                 | None => PErr "model: no root"    (* unreachable: the first token is "(" *)
                 end
        end
    end.

  (** the parser on the bytes as the lexer sees them *)
  Definition parse_raw (s : string) : pres := parse_fuel (S (String.length s)) s.

  Definition parse (s : string) : pres := parse_raw (utf8_sanitize s).
End Num.
