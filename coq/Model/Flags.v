(** Model of pflag registration as used by /repo/cmd: every
    `X.Flags().TVarP(&v, name, short, default, usage)` stores the default into the bound
    variable at registration time (pflag.newTVarValue does `*p = val`) and remembers the
    default's text as Flag.DefValue, which the help template prints.  When the user omits
    the option, the command reads the variable, i.e. the value left by the LAST registration
    bound to that variable. *)
From Coq Require Import String Bool List.
Import ListNotations.
Local Open Scope string_scope.

Record reg : Type := mkReg {
  rcmd : string;     (* command path, e.g. "gotree compute consensus" *)
  rflag : string;    (* long option name *)
  rshort : string;
  rkind : string;    (* Bool | Float64 | Int | Int64 | String ... *)
  rvar : string;     (* the bound variable *)
  rdef : string;     (* default, rendered as pflag renders DefValue *)
  rpers : bool;      (* registered on PersistentFlags() *)
  rsrc : string      (* file:line, informational *)
}.

Definition store := list (string * string).

Fixpoint lookup (s : store) (v : string) : option string :=
  match s with
  | [] => None
  | (k, x) :: r => if String.eqb k v then Some x else lookup r v
  end.

(** registration: *var = default *)
Definition register (s : store) (r : reg) : store := (rvar r, rdef r) :: s.

(** state after every init() has run *)
Definition final (rs : list reg) : store := fold_left register rs [].

(** the value command [r] uses when its option is omitted *)
Definition used_when_omitted (rs : list reg) (r : reg) : option string := lookup (final rs) (rvar r).

Definition ostring_eqb (a : option string) (b : string) : bool :=
  match a with Some x => String.eqb x b | None => false end.

(** every documented default is the value actually used *)
Definition consistent (rs : list reg) : bool :=
  forallb (fun r => ostring_eqb (used_when_omitted rs r) (rdef r)) rs.

(** registrations of different options never share a variable with different defaults *)
Definition no_conflict (rs : list reg) : bool :=
  forallb (fun r1 => forallb (fun r2 =>
     negb (String.eqb (rvar r1) (rvar r2)) || String.eqb (rdef r1) (rdef r2)) rs) rs.

Definition conflicts (rs : list reg) : list (reg * reg) :=
  flat_map (fun r1 => flat_map (fun r2 =>
     if String.eqb (rvar r1) (rvar r2) && negb (String.eqb (rdef r1) (rdef r2)) then [(r1, r2)] else []) rs) rs.

(** Option-presence tests.  `cmd.Flags().Changed("name")` lets behaviour depend on whether the
    option was GIVEN rather than on its value, so passing the documented default explicitly can
    differ from omitting the option.  Every such call site of the current source (inventory in
    Gen/Flags.v: file, command, option) must be a reviewed one. *)
Definition changed_site := (string * string * string)%type.

(** reviewed presence tests that do violate the property (open known finding C19-setrand-presence):
    `gotree brlen setrand` switches to "mean drawn in [min-mean,max-mean]" only when BOTH options are given;
    giving their documented defaults 0.001 and 0.05 explicitly therefore differs from omitting them. *)
Definition reviewed_changed : list changed_site :=
  [("randbrlen.go", "gotree brlen setrand", "min-mean"); ("randbrlen.go", "gotree brlen setrand", "max-mean")].

Definition changed_eqb (a b : changed_site) : bool :=
  match a, b with (f1, c1, o1), (f2, c2, o2) => String.eqb f1 f2 && String.eqb c1 c2 && String.eqb o1 o2 end.
Definition unreviewed_changed (l : list changed_site) : list changed_site :=
  filter (fun s => negb (existsb (changed_eqb s) reviewed_changed)) l.

(** Anything done to an option besides registering it and testing its presence (inventory in
    Gen/Flags.v [flag_touch_sites]: file, function, what): a field of a pflag.Flag read or written
    (NoOptDefVal, DefValue, Hidden, Value ...), a FlagSet method other than the registrations and
    Changed (Lookup, Set, SetNormalizeFunc ...), a cobra Mark* / normalisation / parsing switch.
    The registration model above knows none of them; none exists at the pinned commit. *)
Definition reviewed_touch : list changed_site := [].
Definition unreviewed_touch (l : list changed_site) : list changed_site :=
  filter (fun s => negb (existsb (changed_eqb s) reviewed_touch)) l.

(** A numeric option compared (== / !=) with its own documented default (inventory in Gen/Flags.v
    [default_sentinel_sites]): the default used as a sentinel.  When the help text documents the sentinel
    ("-1 = no filter", "-1 = nano seconds since ...") the behaviour still depends on the VALUE only, so
    giving the default explicitly equals omitting the option; an undocumented one ("height == 200 means
    not set, then scale with the tree") makes the documented default not the value actually used.
    Reviewed at the pinned commit: the five "-1" sentinels below, all documented in their help texts. *)
Definition reviewed_sentinels : list changed_site :=
  [("randbrlen.go", "var randbrlenCmd", "setlengthMinLen == -1"); ("randbrlen.go", "var randbrlenCmd", "setlengthMaxLen == -1");
   ("roccurve.go", "var roccurveCmd", "roccurveMinBrLen == -1"); ("roccurve.go", "var roccurveCmd", "roccurveMaxBrLen == -1");
   ("root.go", "var RootCmd", "seed == -1")].
Definition unreviewed_sentinels (l : list changed_site) : list changed_site :=
  filter (fun s => negb (existsb (changed_eqb s) reviewed_sentinels)) l.

(** pflag: the value an option takes when it is given WITHOUT a value ("--name" alone).  Registration
    sets it to "true" for Bool options and leaves it empty for every other kind, and an option with
    an empty NoOptDefVal consumes the next word as its value. *)
Definition noopt_of_kind (k : string) : string :=
  if String.eqb k "Bool" then "true" else if String.eqb k "Count" then "+1" else "".

(** Parsing "--name v" / "--name=v" / "-s v" for one registered option (pflag.parseLongArg /
    parseSingleShortArg, restricted to one option followed by one word): the value the option ends
    with and the number of words left over as positional arguments. *)
Inductive form := LongSpace | LongEq | ShortSpace.
Definition parse_given (noopt : string) (f : form) (v : string) : string * nat :=
  match f with
  | LongEq => (v, 0)
  | LongSpace | ShortSpace => if String.eqb noopt "" then (v, 0) else (noopt, 1)
  end.
