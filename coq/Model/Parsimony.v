(** Model of acr/parsimony.go (ParsimonyAcr, parsimonyUPPASS, parsimonyDOWNPASS,
    computeParsimony, parsimonyDELTRAN, parsimonyACCTRAN, assignStatesToTree,
    buildInternalNamesToStatesMap) and of asr/parsimony.go (the same passes run on every
    alignment site).  No proofs in this file.

    Go keeps one count vector ([AncestralState], float64 counts, here [nat]) per node id
    (= index in Tree.Nodes()).  The model keeps them in a tree [vtree] of the same shape as
    the rooted structure (children in neighbour order, the parent slot skipped); [vflat] is the
    array indexed by node id. *)
From Coq Require Import String Ascii ZArith QArith Bool Arith List.
From GT Require Import Base.Sexp Base.UTree Spec.Obs Model.Reroot.
Import ListNotations.
Local Close Scope Q_scope.
Local Open Scope string_scope.

(** ** count vectors *)
Definition vec := list nat.
Definition vzero (k : nat) : vec := repeat 0 k.

(** [for k, c := range src { dst[k] += c }]  (all vectors have the alphabet's length) *)
Fixpoint vadd (dst src : vec) : vec :=
  match dst, src with
  | x :: d, y :: s => (x + y) :: vadd d s
  | _, _ => dst
  end.
Definition vsum (k : nat) (l : list vec) : vec := fold_left vadd l (vzero k).

(** [max := 0.0; for _, c := range v { if c > max { max = c } }] *)
Definition vmax (v : vec) : nat := fold_left Nat.max v 0.

(** [maxState := 0; max := 0.0; for k, c := range v { if c > max { maxState = k; max = c } }] *)
Fixpoint first_max_go (v : vec) (k best bi : nat) : nat :=
  match v with
  | [] => bi
  | c :: r => if Nat.ltb best c then first_max_go r (S k) c k else first_max_go r (S k) best bi
  end.
Definition first_max (v : vec) : nat := first_max_go v 0 0 0.

(** computeParsimony(neighborStates, currentStates, nchild): 1 where the count is maximal *)
Definition compute_parsimony (v : vec) : vec :=
  let m := vmax v in map (fun c => if Nat.eqb c m then 1 else 0) v.

(** the "intersection with the parent if it is not empty" step of DELTRAN / ACCTRAN:
    state := child; state += parent; if some entry > 1 then child[k] = (state[k] > 1) *)
Definition refine (parent child : vec) : vec :=
  let s := vadd child parent in
  if existsb (fun x => Nat.ltb 1 x) s then map (fun x => if Nat.ltb 1 x then 1 else 0) s else child.

Inductive vtree : Type := VNode (v : vec) (kids : list vtree).
Definition vroot (t : vtree) : vec := match t with VNode v _ => v end.
Definition vkids (t : vtree) : list vtree := match t with VNode _ k => k end.
Fixpoint vflat (t : vtree) : list vec :=
  match t with VNode v ks => v :: flat_map vflat ks end.

Fixpoint remove_nth {A} (i : nat) (l : list A) : list A :=
  match l, i with
  | [], _ => []
  | _ :: r, O => r
  | x :: r, S j => x :: remove_nth j r
  end.

(** ** parsimonyUPPASS(cur, prev, ...)
    [tv name] is the 0/1 vector of the tip called [name].  Returns the vectors of the
    subtree and the number of steps.  A node is a tip when it has exactly one neighbour. *)
Fixpoint uppass (tv : string -> vec) (k : nat) (t : utree) : vtree * nat :=
  match t with
  | UNode n _ sl =>
    if Nat.eqb (length sl) 1 then (VNode (tv n) [], 0)
    else
      let rs := flat_map (fun s => match s with Some (_, c) => [uppass tv k c] | None => [] end) sl in
      let vs := map (fun r => vroot (fst r)) rs in
      let sum := vsum k vs in
      let ms := first_max sum in
      (VNode (compute_parsimony sum) (map fst rs),
       fold_right (fun r acc => snd r + acc) 0 rs
       + length (filter (fun v => Nat.eqb (nth ms v 0) 0) vs))
  end.

(** ** parsimonyDOWNPASS(cur, prev, states, upstates, ...), randomResolve = false
    [up] = upstates[cur]; the vectors of the children read here are still the up-pass ones
    (a child's vector is only rewritten inside its own call, after all the upstates of its
    siblings have been computed). *)
Fixpoint downpass (isroot : bool) (up : vec) (k : nat) (t : vtree) : vtree :=
  match t with
  | VNode v [] => t
  | VNode v ks =>
    let roots := map vroot ks in
    let base := if isroot then [] else [up] in
    let v' := if isroot then v else compute_parsimony (vsum k (base ++ roots)) in
    VNode v' ((fix go (i : nat) (l : list vtree) : list vtree :=
                 match l with
                 | [] => []
                 | c :: r =>
                   downpass false (compute_parsimony (vsum k (base ++ remove_nth i roots))) k c
                            :: go (S i) r
                 end) 0 ks)
  end.

(** ** parsimonyDELTRAN(cur, prev, states, ...), randomResolve = false; [par] = states[prev] *)
Fixpoint deltran (par : option vec) (t : vtree) : vtree :=
  match t with
  | VNode v [] => t
  | VNode v ks =>
    let v' := match par with Some p => refine p v | None => v end in
    VNode v' (map (deltran (Some v')) ks)
  end.

(** ** parsimonyACCTRAN(cur, prev, states, ...), randomResolve = false.
    The parent rewrites the vector of every child before descending; [v'] is the (already
    rewritten) vector of the current node.  acr/parsimony.go rewrites tip children too
    ([skip_tips = false]; tips hold a single state there, so nothing changes);
    asr/parsimony.go skips them: [if child != prev && !child.Tip()] ([skip_tips = true]). *)
Definition is_vtip (t : vtree) : bool := match t with VNode _ [] => true | _ => false end.

Fixpoint acctran (skip_tips : bool) (v' : vec) (t : vtree) : vtree :=
  match t with
  | VNode _ ks =>
    VNode v' (map (fun c => acctran skip_tips
                                    (if skip_tips && is_vtip c then vroot c else refine v' (vroot c)) c) ks)
  end.

Inductive algo : Type := Deltran | Acctran | Downpass | NoPass.

Definition passes (skip_tips : bool) (a : algo) (k : nat) (u : vtree) : vtree :=
  match a with
  | Downpass => downpass true [] k u
  | Deltran => deltran None (downpass true [] k u)
  | Acctran => acctran skip_tips (vroot u) u
  | NoPass => u
  end.

(** every node below a root that is itself a "tip" (one neighbour) keeps its zero vector *)
Fixpoint zero_vtree (k : nat) (t : utree) : vtree :=
  match t with
  | UNode _ _ sl =>
    VNode (vzero k) (flat_map (fun s => match s with Some (_, c) => [zero_vtree k c] | None => [] end) sl)
  end.

(** the passes of ParsimonyAcr / ParsimonyAsr (for one site) from the root *)
Definition parsimony (skip_tips : bool) (tv : string -> vec) (k : nat) (a : algo) (t : utree) : vtree * nat :=
  if is_tip t
  then (VNode (tv (uname t))
              (flat_map (fun s => match s with Some (_, c) => [zero_vtree k c] | None => [] end) (uslots t)), 0)
  else let '(u, s) := uppass tv k t in (passes skip_tips a k u, s).

Definition up_steps (tv : string -> vec) (k : nat) (t : utree) : nat := snd (uppass tv k t).

(** ** character variant: ParsimonyAcr(t, tipCharacters, algo, false) *)
Fixpoint lookup {A} (n : string) (m : list (string * A)) : option A :=
  match m with
  | [] => None
  | (k, v) :: r => if String.eqb k n then Some v else lookup n r
  end.

Fixpoint index_of (s : string) (l : list string) : option nat :=
  match l with
  | [] => None
  | x :: r => if String.eqb x s then Some 0 else match index_of s r with Some i => Some (S i) | None => None end
  end.

Definition onehot (k i : nat) : vec := map (fun j => if Nat.eqb j i then 1 else 0) (seq 0 k).

(** the distinct states of the map, sorted (sort.Strings: bytewise) *)
Definition acr_alphabet (m : list (string * string)) : list string := sset (map snd m).

Definition acr_tipvec (m : list (string * string)) (alpha : list string) (n : string) : vec :=
  match lookup n m with
  | Some s => match index_of s alpha with
              | Some i => onehot (length alpha) i
              | None => vzero (length alpha)
              end
  | None => vzero (length alpha)
  end.

(** the states with a positive count, "*" when there is none *)
Definition states_of (alpha : list string) (v : vec) : list string :=
  match flat_map (fun p => if Nat.ltb 0 (snd p) then [fst p] else []) (combine alpha v) with
  | [] => ["*"]
  | l => l
  end.

Fixpoint assoc_set {A} (k : string) (v : A) (m : list (string * A)) : list (string * A) :=
  match m with
  | [] => [(k, v)]
  | (k', v') :: r => if String.eqb k k' then (k, v) :: r else (k', v') :: assoc_set k v r
  end.

Record acr_result : Type := mkAcr {
  acr_steps : nat;
  acr_vecs : list vec;                      (* by node id *)
  acr_comments : list (list string);        (* assignStatesToTree: the comments of every node, by id *)
  acr_map : list (string * string) }.       (* buildInternalNamesToStatesMap *)

Definition acr_map_of (t : utree) (alpha : list string) (vs : list vec) : list (string * string) :=
  fold_left (fun acc p =>
               let '(i, n, v) := p in
               if is_tip n then acc
               else assoc_set (if String.eqb (uname n) "" then string_of_nat i else uname n)
                              (concat_with "," (ssort (states_of alpha v))) acc)
            (combine (combine (seq 0 (length vs)) (nodes t)) vs) [].

Definition parsimony_acr (t : utree) (m : list (string * string)) (a : algo) : res acr_result :=
  let alpha := acr_alphabet m in
  match find (fun n => match lookup n m with Some _ => false | None => true end) (all_tip_names t) with
  | Some n => Err ("Tip " ++ n ++ " does not exist in the tip/state mapping file")
  | None =>
    let '(vt, s) := parsimony false (acr_tipvec m alpha) (length alpha) a t in
    let vs := vflat vt in
    Ok (mkAcr s vs (map (fun v => [concat_with "|" (states_of alpha v)]) vs) (acr_map_of t alpha vs))
  end.

(** ** sequence variant: ParsimonyAsr(t, alignment, algo, false), nucleotide alphabet *)
Local Open Scope char_scope.
Definition nt_alphabet : list ascii := ["A"; "C"; "G"; "T"; "-"; "*"].

(** align.IupacCode *)
Definition iupac (c : ascii) : list ascii :=
  if Ascii.eqb c "A" then ["A"] else if Ascii.eqb c "C" then ["C"] else
  if Ascii.eqb c "G" then ["G"] else if Ascii.eqb c "T" then ["T"] else
  if Ascii.eqb c "R" then ["A"; "G"] else if Ascii.eqb c "Y" then ["C"; "T"] else
  if Ascii.eqb c "S" then ["G"; "C"] else if Ascii.eqb c "W" then ["A"; "T"] else
  if Ascii.eqb c "K" then ["G"; "T"] else if Ascii.eqb c "M" then ["A"; "C"] else
  if Ascii.eqb c "B" then ["C"; "G"; "T"] else if Ascii.eqb c "D" then ["A"; "G"; "T"] else
  if Ascii.eqb c "H" then ["A"; "C"; "T"] else if Ascii.eqb c "V" then ["A"; "C"; "G"] else
  if Ascii.eqb c "N" then ["A"; "C"; "G"; "T"] else if Ascii.eqb c "-" then ["-"] else [].
Local Close Scope char_scope.

(** uint8(unicode.ToUpper(rune(c))) on a byte: only a..z change among the bytes that can then
    be a key of the IUPAC table *)
Definition upper (c : ascii) : ascii :=
  let n := nat_of_ascii c in
  if Nat.leb 97 n && Nat.leb n 122 then ascii_of_nat (n - 32) else c.

(** parsimonyUPPASS at a tip: align.IupacCode[upper(c)], one count per possibility *)
Definition nt_vec (c : ascii) : vec :=
  map (fun a => if existsb (Ascii.eqb a) (iupac (upper c)) then 1 else 0) nt_alphabet.

Fixpoint string_nth (j : nat) (s : string) : option ascii :=
  match s, j with
  | EmptyString, _ => None
  | String c _, O => Some c
  | String _ r, S i => string_nth i r
  end.

Definition asr_tipvec (aln : list (string * string)) (j : nat) (n : string) : vec :=
  match lookup n aln with
  | Some s => match string_nth j s with Some c => nt_vec c | None => vzero 6 end
  | None => vzero 6
  end.

(** assignSequencesToTree: the characters with a positive count, braces when several, "*" when none *)
Definition render_site (v : vec) : string :=
  let cs := flat_map (fun p => if Nat.ltb 0 (snd p) then [fst p] else []) (combine nt_alphabet v) in
  let s := string_of_list_ascii cs in
  match cs with
  | [] => "*"
  | [_] => s
  | _ => "{" ++ s ++ "}"
  end.

Definition aln_length (aln : list (string * string)) : nat :=
  match aln with [] => 0 | (_, s) :: _ => String.length s end.

Record asr_result : Type := mkAsr {
  asr_steps : list nat;                     (* one per site plus the trailing entry (always 0) *)
  asr_vecs : list (list vec);               (* per site, by node id *)
  asr_added : list string }.                (* the comment appended to every node, by id *)

Definition parsimony_asr (t : utree) (aln : list (string * string)) (a : algo) : res asr_result :=
  match find (fun n => match lookup n aln with Some _ => false | None => true end) (all_tip_names t) with
  | Some n => Err ("sequence " ++ n ++ " does not exist in the alignment")
  | None =>
    match a with
    | NoPass => Err "parsimony algorithm 3 unkown"
    | _ =>
      let sites := map (fun j => parsimony true (asr_tipvec aln j) 6 a t) (seq 0 (aln_length aln)) in
      let per_site := map (fun r => vflat (fst r)) sites in
      let added := fold_left (fun acc vs => map (fun p => fst p ++ render_site (snd p)) (combine acc vs))
                             per_site (map (fun _ => "") (nodes t)) in
      Ok (mkAsr (map snd sites ++ [0]) per_site added)
    end
  end.
