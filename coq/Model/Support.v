(** Model of support/fbp.go (FBP) and support/tbe.go (TBE, MinTransferDist,
    minTransferDistRecur, NormalizeTransferDistancesByDepth) with the pieces of tree/ they rely
    on (ReinitIndexes: tip index, branch bitsets, ntaxleft/ntaxright; Edge.TopoDepth;
    CompareTipIndexes; EdgeIndex on top of hashmap).  Sequential semantics (cpus = 1), options of
    `gotree compute support tbe` (no raw tree, no moved-taxa computation: absent = true).
    No proofs in this file.

    Representation choices (all on trees whose tips have distinct names):
    - a branch bitset is the list of the tip names below the branch ([all_tip_names], the
      recursion of fillRightBitSet); bit positions are tip names.  Tip ids are positions in the
      sorted name list of *each* tree, so position-wise operations on bitsets of two trees are
      name-wise operations exactly when both trees have the same tip names; both functions
      stop with an error at the first bootstrap tree for which this fails ([boot_err]), so
      bitsets of trees on different taxa are never compared.
    - the EdgeIndex is the list of the bitsets put into it; [Value] is [existsb
      EqualOrComplement].  (HashCode = sum of FNV hashes of the names on the lighter side, product
      of both sums for a tie: equal-or-complement bitsets over the same names have equal codes,
      and the bucket array only narrows the HashEquals scan.)
    - ints are [nat]; TopoDepth's error value -1 (a side without tips) is 0 here: both fail the
      only test made on it, [p > 1].  *)
From Coq Require Import String ZArith QArith Bool Arith List.
From GT Require Import Base.UTree Model.Reroot.
Import ListNotations.
Local Close Scope Q_scope.
Local Open Scope string_scope.

Definition mem (x : string) (l : list string) : bool := existsb (String.eqb x) l.

(** Tree.UpdateTipIndex: "Cannot create a tip index when several tips have the same name" *)
Fixpoint has_dup (l : list string) : bool :=
  match l with
  | [] => false
  | x :: r => mem x r || has_dup r
  end.

Definition dup_msg : string := "Cannot create a tip index when several tips have the same name".

(** ** what ReinitIndexes computes for the branch (e, c) *)
(** bitset: tips below (fillRightBitSet) *)
Definition below (c : utree) : list string := all_tip_names c.
(** ntaxright (computeEdgeHashesRightRecur) *)
Definition ntax_right (c : utree) : nat := length (all_tip_names c).
(** ntaxleft (computeEdgeHashesLeftRecur): the tips reached from the root through the other
    branches = all tips counted from the root's branches minus those below *)
Definition ntax_root (t : utree) : nat :=
  length (flat_map (fun ec => all_tip_names (snd ec)) (kids t)).
Definition ntax_left (t c : utree) : nat := ntax_root t - ntax_right c.
(** Edge.TopoDepth *)
Definition topo_depth (t c : utree) : nat := Nat.min (ntax_left t c) (ntax_right c).

(** ** bitset.EqualOrComplement, over the tip names [X] of the tree *)
Definition bits_equal (X A B : list string) : bool :=
  forallb (fun x => Bool.eqb (mem x A) (mem x B)) X.
Definition bits_compl (X A B : list string) : bool :=
  forallb (fun x => negb (Bool.eqb (mem x A) (mem x B))) X.
Definition equal_or_complement (X A B : list string) : bool :=
  bits_equal X A B || bits_compl X A B.

(** EdgeIndex.Value *)
Definition index_has (X : list string) (idx : list (list string)) (A : list string) : bool :=
  existsb (equal_or_complement X A) idx.

(** Tree.CompareTipIndexes, on the key sets of the two tip indexes; "" = nil *)
Definition compare_tip_indexes (a b : list string) : string :=
  if Nat.eqb (length a) 0 || Nat.eqb (length b) 0 || negb (Nat.eqb (length a) (length b))
  then "Tip name index is not initialized or trees do not have the same number of tips"
  else if forallb (fun k => mem k b) a then ""
  else "Trees do not have the same tip names".

(** what stops both FBP and TBE at the bootstrap tree b ("" = nothing):
    boot.ReinitIndexes() (duplicate tip names), then reftree.CompareTipIndexes(boot) *)
Definition boot_err (ref b : utree) : string :=
  if has_dup (tip_names b) then dup_msg
  else compare_tip_indexes (tip_names ref) (tip_names b).

Definition no_err (s : string) : bool := String.eqb s "".

(** every bootstrap tree passes the checks *)
Definition taxa_ok (ref : utree) (boots : list utree) : bool :=
  negb (has_dup (tip_names ref)) && forallb (fun b => no_err (boot_err ref b)) boots.

(** result of a run: the error ("" = nil) and, per branch of the reference in Edges() order,
    (Right().Tip(), Support()) after the call *)
Record outcome : Type := mkOut { oerr : string; osup : list (bool * Q) }.

Definition qnat (n : nat) : Q := inject_Z (Z.of_nat n).

(** ** FBP (support/fbp.go) *)
(** the per-bootstrap index: branches whose child is not a tip *)
Definition fbp_index (b : utree) : list (list string) :=
  map (fun ec => below (snd ec)) (filter (fun ec => negb (is_tip (snd ec))) (edges b)).

(** one bootstrap tree: [foundBoot[i]++] for every reference branch found in the index
    (every branch is looked up, tip branches too) *)
Definition fbp_step (X : list string) (es : list (einfo * utree)) (found : list nat) (b : utree)
  : list nat :=
  let idx := fbp_index b in
  map (fun p => if index_has X idx (below (snd (snd p))) then S (fst p) else fst p)
      (combine found es).

(** the loop of the (single) worker over the channel: state = (foundBoot, ntrees, err).  The
    first tree whose ReinitIndexes or CompareTipIndexes fails sets the error and ends the worker:
    later trees are not read. *)
Definition fbp_state : Type := (list nat * nat * string)%type.

Definition fbp_loop_step (ref : utree) (X : list string) (es : list (einfo * utree))
           (st : fbp_state) (b : utree) : fbp_state :=
  let '(found, ntrees, err) := st in
  if negb (no_err err) then st
  else let e := boot_err ref b in
       if negb (no_err e) then (found, ntrees, e)
       else (fbp_step X es found b, S ntrees, "").

(** After the loop every inner branch gets count / ntrees, also when an error is returned (the
    supports are then those of the trees read before the offending one; 0/0 is NaN in Go and 0
    here: on an error the supports are not part of the observable behaviour). *)
Definition fbp (ref : utree) (boots : list utree) : outcome :=
  let es := edges ref in
  if has_dup (tip_names ref) then mkOut dup_msg (map (fun ec => (is_tip (snd ec), esup (fst ec))) es)
  else
    let X := tip_names ref in
    let '(found, ntrees, err) :=
        fold_left (fbp_loop_step ref X es) boots (map (fun _ => 0) es, 0, "") in
    mkOut err (map (fun p => let '(cnt, (e, c)) := p in
                             if is_tip c then (true, esup e)
                             else (false, (qnat cnt / qnat ntrees)%Q))
                   (combine found es)).

(** ** TBE (support/tbe.go) *)
(** minTransferDistRecur at a tip named [x]: light = refEdge.TipPresent(tipIndex), negated
    when refEdge.NumTipsRight() > ntips/2; curOnes = 1 unless light *)
Definition tip_one (ntips r : nat) (refbelow : list string) (x : string) : nat :=
  let light := mem x refbelow in
  let light := if Nat.ltb (ntips / 2) r then negb light else light in
  if light then 0 else 1.

(** state threaded through the traversal: ( *dist, *stop ) *)
Definition mstate : Type := (nat * bool)%type.

(** what happens at [curEdge] once [curOnes] is known (rr = curEdge.NumTipsRight()) *)
Definition mtd_edge (ntips p : nat) (absent : bool) (rr curOnes : nat) (st : mstate) : mstate :=
  let zero := rr - curOnes in
  let d := p - zero + curOnes in
  let d := if Nat.ltb (ntips / 2) d then ntips - d else d in
  if Nat.leb d (fst st) then (d, Nat.eqb d 1 && absent) else st.

(** the loop over cur.Neigh() of minTransferDistRecur: [rec c st] is the recursive call on the
    neighbour c through its branch; curOnes += ones[nextEdge]; return as soon as *stop is set *)
Definition mtd_loop (rec : utree -> mstate -> nat * mstate)
  : list slot -> nat -> mstate -> nat * mstate :=
  fix go (l : list slot) (acc : nat) (st : mstate) : nat * mstate :=
    match l with
    | [] => (acc, st)
    | None :: rest => go rest acc st
    | Some (_, c) :: rest =>
      let '(o, st') := rec c st in
      if snd st' then (acc + o, st') else go rest (acc + o) st'
    end.

(** minTransferDistRecur(cur, curEdge): returns ones[curEdge] (0 when the call returned before
    writing it) and the state *)
Fixpoint mtd_rec (ntips p r : nat) (refbelow : list string) (absent : bool)
         (cur : utree) (has_edge : bool) (st : mstate) {struct cur} : nat * mstate :=
  if snd st then (0, st) else
  match cur with
  | UNode name _ sl =>
    let '(curOnes, st1) :=
        if Nat.eqb (length sl) 1 then (tip_one ntips r refbelow name, st)
        else mtd_loop (fun c st => mtd_rec ntips p r refbelow absent c true st) sl 0 st in
    if snd st1 then (curOnes, st1)
    else if has_edge then (curOnes, mtd_edge ntips p absent (ntax_right cur) curOnes st1)
    else (curOnes, st1)
  end.

(** MinTransferDist(refedge, reftree, boottree, ntips, bootedges, absent): the distance only *)
Definition min_transfer_dist (ntips p r : nat) (refbelow : list string) (absent : bool)
           (boot : utree) : nat :=
  if Nat.eqb p 1 then p - 1
  else fst (snd (mtd_rec ntips p r refbelow absent boot false (p - 1, false))).

(** the per-bootstrap index of TBE: every branch *)
Definition tbe_index (b : utree) : list (list string) := map (fun ec => below (snd ec)) (edges b).

(** one bootstrap tree; the support field of a reference branch is [None] = NIL_SUPPORT or the
    running sum of distances (IncrementSupport) *)
Definition tbe_step (ref : utree) (X : list string) (ntips : nat) (es : list (einfo * utree))
           (acc : list (option nat)) (b : utree) : list (option nat) :=
  let idx := tbe_index b in
  map (fun q =>
         let s := fst q in
         let c := snd (snd q) in
         let p := topo_depth ref c in
         if Nat.ltb 1 p then
           let d := if index_has X idx (below c) then 0
                    else min_transfer_dist ntips p (ntax_right c) (below c) true b in
           Some (match s with None => d | Some a => a + d end)
         else s)
      (combine acc es).

(** the loop over the channel: state = (support fields, nboot, err); ReinitIndexes or
    CompareTipIndexes failing on a tree makes TBE return at once *)
Definition tbe_state : Type := (list (option nat) * nat * string)%type.

Definition tbe_loop_step (ref : utree) (X : list string) (ntips : nat) (es : list (einfo * utree))
           (st : tbe_state) (b : utree) : tbe_state :=
  let '(acc, nboot, err) := st in
  if negb (no_err err) then st
  else let e := boot_err ref b in
       if negb (no_err e) then (acc, nboot, e)
       else (tbe_step ref X ntips es acc b, S nboot, "").

(** NormalizeTransferDistancesByDepth *)
Definition tbe_norm (nboot : nat) (p : nat) (s : option nat) : Q :=
  match s with
  | None => nilv
  | Some a => (1 - (qnat a / qnat nboot) / qnat (p - 1))%Q
  end.

(** cmd/booster.go: refTree.ReinitIndexes(); support.TBE(...).  On an error TBE returns before
    the normalisation: the support fields hold NIL_SUPPORT or the sums so far. *)
Definition tbe (ref : utree) (boots : list utree) : outcome :=
  let es := edges ref in
  if has_dup (tip_names ref) then mkOut dup_msg (map (fun ec => (is_tip (snd ec), esup (fst ec))) es)
  else
    let X := tip_names ref in
    let ntips := length (tips ref) in
    let '(acc, nboot, err) :=
        fold_left (tbe_loop_step ref X ntips es) boots (map (fun _ => None) es, 0, "") in
    if no_err err then
      mkOut "" (map (fun q => let c := snd (snd q) in
                              (is_tip c, tbe_norm nboot (topo_depth ref c) (fst q)))
                    (combine acc es))
    else
      mkOut err (map (fun q => (is_tip (snd (snd q)),
                                match fst q with None => nilv | Some a => qnat a end))
                     (combine acc es)).

(** sup.IncrementProgress(): once per bootstrap tree that passed the checks, before the first
    one that does not (none when the reference itself is refused) *)
Fixpoint n_before_err (ref : utree) (boots : list utree) : nat :=
  match boots with
  | [] => 0
  | b :: r => if no_err (boot_err ref b) then S (n_before_err ref r) else 0
  end.
Definition n_processed (ref : utree) (boots : list utree) : nat :=
  if has_dup (tip_names ref) then 0 else n_before_err ref boots.
