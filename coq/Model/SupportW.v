(** FBP and TBE (Model/Support.v) on a collection given with multiplicities: (k, T) stands for k
    consecutive copies of the bootstrap tree T.  The results are written per reference branch
    from the count / the sum of distances over the distinct trees; Proofs/SupportW.v proves that
    they are those of [fbp] / [tbe] on the expanded list (same error; same supports when there
    is no error).  Used by the judge for collections of thousands of trees.  No proofs here. *)
From Coq Require Import String ZArith QArith Bool Arith List.
From GT Require Import Base.UTree Model.Support Spec.SupportW.
Import ListNotations.
Local Close Scope Q_scope.
Local Open Scope string_scope.

(** the first tree (with a positive multiplicity) that fails the checks decides the error *)
Fixpoint wfirst_err (ref : utree) (w : wtrees) : string :=
  match w with
  | [] => ""
  | p :: r => if Nat.eqb (fst p) 0 || no_err (boot_err ref (snd p)) then wfirst_err ref r
              else boot_err ref (snd p)
  end.

(** trees read before that one *)
Fixpoint wn_before_err (ref : utree) (w : wtrees) : nat :=
  match w with
  | [] => 0
  | p :: r => if Nat.eqb (fst p) 0 || no_err (boot_err ref (snd p)) then fst p + wn_before_err ref r
              else 0
  end.
Definition wn_processed (ref : utree) (w : wtrees) : nat :=
  if has_dup (tip_names ref) then 0 else wn_before_err ref w.

(** per reference branch (child c) and bootstrap tree b: found in FBP's index; distance added by TBE *)
Definition w_has (ref c b : utree) : bool := index_has (tip_names ref) (fbp_index b) (below c).
Definition w_dist (ref c b : utree) : nat :=
  if index_has (tip_names ref) (tbe_index b) (below c) then 0
  else min_transfer_dist (length (tips ref)) (topo_depth ref c) (ntax_right c) (below c) true b.

Definition fbp_w (ref : utree) (w : wtrees) : outcome :=
  let es := edges ref in
  if has_dup (tip_names ref) then mkOut dup_msg (map (fun ec => (is_tip (snd ec), esup (fst ec))) es)
  else
    let err := wfirst_err ref w in
    if no_err err then
      mkOut "" (map (fun ec => if is_tip (snd ec) then (true, esup (fst ec))
                               else (false, (qnat (wcnt (w_has ref (snd ec)) w) / qnat (wlen w))%Q)) es)
    else mkOut err [].

Definition tbe_w (ref : utree) (w : wtrees) : outcome :=
  let es := edges ref in
  if has_dup (tip_names ref) then mkOut dup_msg (map (fun ec => (is_tip (snd ec), esup (fst ec))) es)
  else
    let err := wfirst_err ref w in
    if no_err err then
      mkOut "" (map (fun ec =>
                       let c := snd ec in
                       (is_tip c,
                        if Nat.ltb 1 (topo_depth ref c) then
                          match wlen w with
                          | 0 => nilv
                          | _ => (1 - (qnat (wsum (w_dist ref c) w) / qnat (wlen w)) / qnat (topo_depth ref c - 1))%Q
                          end
                        else nilv)) es)
    else mkOut err [].
