(** Model of tree/edgeindex.go: EdgeIndex = HashMap keyed by branches.
    Key = the Edge object: HashCode (Model.Index.hash_code), HashEquals
    (bitset.EqualOrComplement), Length(); [ek_tag] identifies the object (which branch of which
    tree) and takes no part in hashing or equality.  Value = EdgeIndexInfo{Count int, Len float64}
    as (Z, Q); the Go [int] is assumed not to overflow, the float sums are exact for the dyadic
    lengths the driver generates.  The "Bitset not initialized" error (e.Bitset() == nil) cannot
    arise for rows produced by ReinitIndexes and is not modelled.  No proofs in this file. *)
From Coq Require Import NArith ZArith QArith Bool Arith List.
From GT Require Import Model.Index Model.HashMap.
Import ListNotations.
Local Close Scope Q_scope.

Record ekey : Type := mkEK { ek_tag : nat * nat; ek_row : erow; ek_len : Q }.
Definition ekey_hash (k : ekey) : N := hash_code (ek_row k).
(** q.HashEquals(stored) = q.bitset.EqualOrComplement(stored.bitset) *)
Definition ekey_eqb (q s : ekey) : bool := hash_equals (ek_row q) (ek_row s).

Definition einfo_v : Type := (Z * Q)%type.      (* Count, Len *)

Section EdgeIndex.
  Variable need : nat -> N -> bool.
  Definition eindex : Type := hmap ekey einfo_v.

  (** NewEdgeIndex(size, loadfactor) *)
  Definition new_edge_index (size : N) : eindex := new_hashmap ekey einfo_v size.

  (** EdgeIndex.Value *)
  Definition ei_value (m : eindex) (e : ekey) : option (option einfo_v) :=
    value ekey einfo_v ekey_hash ekey_eqb m e.

  (** EdgeIndex.PutEdgeValue *)
  Definition ei_put (m : eindex) (e : ekey) (count : Z) (len : Q) : option eindex :=
    put ekey einfo_v ekey_hash ekey_eqb need m e (count, len).

  (** EdgeIndex.AddEdgeCount: absent -> PutValue(e, {1, e.Length()}); present -> the stored
      *EdgeIndexInfo is mutated in place (Count++, Len += e.Length()), which is what PutValue
      does to the first equal entry without touching total or rehashing. *)
  Definition ei_add (m : eindex) (e : ekey) : option eindex :=
    match ei_value m e with
    | None => None
    | Some None => put ekey einfo_v ekey_hash ekey_eqb need m e (1%Z, ek_len e)
    | Some (Some (c, l)) => put ekey einfo_v ekey_hash ekey_eqb need m e ((c + 1)%Z, (l + ek_len e)%Q)
    end.

  (** EdgeIndex.Edges(minCount, maxCount): KeyValues() filtered by
      (Count > min && Count <= max) || Count == max *)
  Definition ei_edges (m : eindex) (minc maxc : Z) : list (ekey * einfo_v) :=
    filter (fun kv => let c := fst (snd kv) in
                      ((minc <? c)%Z && (c <=? maxc)%Z) || (c =? maxc)%Z)
           (key_values ekey einfo_v m).

  (** * histories *)
  Inductive eiop : Type :=
  | EIPut (e : ekey) (count : Z) (len : Q)      (* PutEdgeValue *)
  | EIAdd (e : ekey)                            (* AddEdgeCount *)
  | EIValue (e : ekey).                         (* Value *)
  Inductive eires : Type := EIOk | EIVal (r : option einfo_v).

  Fixpoint ei_run (m : eindex) (ops : list eiop) : option (list eires * eindex) :=
    match ops with
    | [] => Some ([], m)
    | EIPut e cn ln :: r =>
      match ei_put m e cn ln with
      | None => None
      | Some m' => match ei_run m' r with Some (rs, mf) => Some (EIOk :: rs, mf) | None => None end
      end
    | EIAdd e :: r =>
      match ei_add m e with
      | None => None
      | Some m' => match ei_run m' r with Some (rs, mf) => Some (EIOk :: rs, mf) | None => None end
      end
    | EIValue e :: r =>
      match ei_value m e with
      | None => None
      | Some x => match ei_run m r with Some (rs, mf) => Some (EIVal x :: rs, mf) | None => None end
      end
    end.

  (** the plain association list keyed by branches compared with HashEquals *)
  Definition ea_value (a : list (ekey * einfo_v)) (e : ekey) : option einfo_v := assoc_value ekey einfo_v ekey_eqb a e.
  Definition ea_put (a : list (ekey * einfo_v)) (e : ekey) (v : einfo_v) := assoc_put ekey einfo_v ekey_eqb a e v.
  Definition ea_add (a : list (ekey * einfo_v)) (e : ekey) :=
    match ea_value a e with
    | None => ea_put a e (1%Z, ek_len e)
    | Some (c, l) => ea_put a e ((c + 1)%Z, (l + ek_len e)%Q)
    end.
  Fixpoint ei_run_assoc (a : list (ekey * einfo_v)) (ops : list eiop) : list eires * list (ekey * einfo_v) :=
    match ops with
    | [] => ([], a)
    | EIPut e cn ln :: r => let '(rs, af) := ei_run_assoc (ea_put a e (cn, ln)) r in (EIOk :: rs, af)
    | EIAdd e :: r => let '(rs, af) := ei_run_assoc (ea_add a e) r in (EIOk :: rs, af)
    | EIValue e :: r => let '(rs, af) := ei_run_assoc a r in (EIVal (ea_value a e) :: rs, af)
    end.
End EdgeIndex.
