(** Model of tree/edgeindex.go: EdgeIndex = HashMap keyed by branches.
    Key = the Edge object: HashCode (Model.Index.hash_code), HashEquals
    (bitset.EqualOrComplement), Length(); [ek_tag] identifies the object (which branch of which
    tree) and takes no part in hashing or equality.  Value = EdgeIndexInfo{Count int, Len float64}
    as (Z, Q); the Go [int] is assumed not to overflow, the float sums are exact for the dyadic
    lengths the driver generates.  The "Bitset not initialized" error (e.Bitset() == nil) cannot
    arise for rows produced by ReinitIndexes and is not modelled.  No proofs in this file. *)
From Coq Require Import NArith ZArith QArith Bool Arith List.
From GT Require Import Model.Index Model.HashMap.
Import ListNotations.
Local Close Scope Q_scope.

Record ekey : Type := mkEK { ek_tag : nat * nat; ek_row : erow; ek_len : Q }.
Definition ekey_hash (k : ekey) : N := hash_code (ek_row k).
(** q.HashEquals(stored) = q.bitset.EqualOrComplement(stored.bitset) *)
Definition ekey_eqb (q s : ekey) : bool := hash_equals (ek_row q) (ek_row s).

Definition einfo_v : Type := (Z * Q)%type.      (* Count, Len *)

Section EdgeIndex.
  Variable need : nat -> N -> bool.
  Definition eindex : Type := hmap ekey einfo_v.

  (** NewEdgeIndex(size, loadfactor) *)
  Definition new_edge_index (size : N) : eindex := new_hashmap ekey einfo_v size.

  (** EdgeIndex.Value *)
  Definition ei_value (m : eindex) (e : ekey) : option (option einfo_v) :=
    value ekey einfo_v ekey_hash ekey_eqb m e.

  (** EdgeIndex.PutEdgeValue *)
  Definition ei_put (m : eindex) (e : ekey) (count : Z) (len : Q) : option eindex :=
    put ekey einfo_v ekey_hash ekey_eqb need m e (count, len).

  (** EdgeIndex.AddEdgeCount: absent -> PutValue(e, {1, e.Length()}); present -> the stored
      *EdgeIndexInfo is mutated in place (Count++, Len += e.Length()), which is what PutValue
      does to the first equal entry without touching total or rehashing. *)
  Definition ei_add (m : eindex) (e : ekey) : option eindex :=
    match ei_value m e with
    | None => None
    | Some None => put ekey einfo_v ekey_hash ekey_eqb need m e (1%Z, ek_len e)
    | Some (Some (c, l)) => put ekey einfo_v ekey_hash ekey_eqb need m e ((c + 1)%Z, (l + ek_len e)%Q)
    end.

  (** EdgeIndex.Edges(minCount, maxCount): KeyValues() filtered by
      (Count > min && Count <= max) || Count == max *)
  Definition ei_edges (m : eindex) (minc maxc : Z) : list (ekey * einfo_v) :=
    filter (fun kv => let c := fst (snd kv) in
                      ((minc <? c)%Z && (c <=? maxc)%Z) || (c =? maxc)%Z)
           (key_values ekey einfo_v m).
End EdgeIndex.
