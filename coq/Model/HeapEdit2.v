(** Heap-level models of further operations of /repo/tree (continuation of Model/HeapEdit.v;
    same conventions: [HErr] = the Go error, [HPanic] = nil / out of range / unbounded
    recursion).  No proofs. *)
From Coq Require Import String ZArith QArith Bool Arith List.
From GT Require Import Base.UTree Model.Reroot Model.Heap.
From GT Require Model.Prune.
Import ListNotations.
Local Close Scope Q_scope.

(** ** Tree.SortNeighborsByTips / sortNeighbors(cur, prev): the recursive calls on the
    neighbours other than [prev] give the numbers of tips; the (ntips, neigh, br) records are
    sorted (sort.SliceStable) and written back in neigh and br; the result is the number of
    tips below [cur] (1 for a node with one neighbour) *)
Definition sort_loop (rec : nat -> heap -> hres (heap * nat)) (prev : option nat) : list nat -> heap -> hres (heap * list nat) :=
  fix loop (ns : list nat) (h : heap) : hres (heap * list nat) :=
    match ns with
    | [] => HOk (h, [])
    | c :: r =>
      if opt_nat_eqb (Some c) prev then do p <- loop r h; HOk (fst p, 0 :: snd p)
      else do q <- rec c h; do p <- loop r (fst q); HOk (fst p, snd q :: snd p)
    end.

Fixpoint sort_neighbors_heap (fuel : nat) (cur : nat) (prev : option nat) (h : heap) : hres (heap * nat) :=
  match fuel with
  | O => HPanic
  | S f =>
    do hn <- get_node h cur;
    if Nat.ltb (length (hbr hn)) (length (hneigh hn)) then HPanic        (* cur.Edges()[i] out of range *)
    else
      do p <- sort_loop (fun c h => sort_neighbors_heap f c (Some cur) h) prev (hneigh hn) h;
      let h1 := fst p in
      let keys := snd p in
      let sorted := stable_sort_by (fun x : nat * (nat * nat) => fst x) (combine keys (combine (hneigh hn) (hbr hn))) in
      do hc <- get_node h1 cur;
      HOk (set_node h1 cur (mkHN (hname hc) (hcom hc) (map (fun x => fst (snd x)) sorted) (map (fun x => snd (snd x)) sorted)),
           if Nat.eqb (length (hneigh hn)) 1 then 1 else fold_right Nat.add 0 keys)
  end.

Definition sort_neighbors_by_tips_heap (h : heap) : hres heap :=
  do p <- sort_neighbors_heap (hfuel h) (hroot h) None h; HOk (fst p).

(** ** Tree.RemoveSingleNodes / removeSingleNodesRecur(current, previous, e) *)
Local Open Scope string_scope.
Definition err_rs_orient : string := "Problem in edge orientation".
Local Close Scope string_scope.

(** the body of  for _, child := range current.Neigh() { if child != previous {...} } :
    child.neigh[idx] = previous; the branch child.br[idx] gets previous as left end and
    max(support, e.support); previous.addChild(child, br); the lengths are added *)
Definition rs_child (current previous child : nat) (length support : Q) (h : heap) : hres heap :=
  do idx <- node_index h child current;
  do h <- set_neigh_at h child idx previous;
  do b <- br_at h child idx;
  do bd <- get_edge h b;
  if Nat.eqb (hleft bd) current then
    let i := hinfo bd in
    let h := set_edge h b (mkHE previous (hright bd) (mkE (elen i) (qmax (esup i) support) (epv i) (ecom i))) in
    do h <- add_child previous child b h;
    if negb (qeqb (elen i) nilv) || negb (qeqb length nilv)
    then set_info h b (fun j => mkE (qmax 0%Q (elen j) + qmax 0%Q length)%Q (esup j) (epv j) (ecom j))
    else HOk h
  else HErr err_rs_orient.

(** the suppression of [current] (two neighbours, not the root) reached from [previous]
    through the branch [e]; e.left = e.right = nil: the branch leaves the heap *)
Definition rs_suppress (current previous e : nat) (h : heap) : hres heap :=
  do ed <- get_edge h e;
  let length := elen (hinfo ed) in
  let support := esup (hinfo ed) in
  do h <- del_neighbor current previous h;
  do h <- del_neighbor previous current h;
  let h := mkHeap (hnodes h) (arem e (hedges h)) (hroot h) (hnextn h) (hnexte h) in
  do hc <- get_node h current;
  do h <- (fix loop (cs : list nat) (h : heap) : hres heap :=
             match cs with
             | [] => HOk h
             | child :: r =>
               if Nat.eqb child previous then loop r h
               else do h1 <- rs_child current previous child length support h; loop r h1
             end) (hneigh hc) h;
  unconnect_node current h.

(** post-order: the neighbours other than [previous] first (over copies of neigh and br taken
    at entry), then the node itself.  The Go code drops the error returned by the recursive
    calls and by the top call; the model reports it: on a good heap there is none. *)
Definition rs_loop (rec : nat -> nat -> heap -> hres heap) (prev : option nat) : list (nat * nat) -> heap -> hres heap :=
  fix loop (l : list (nat * nat)) (h : heap) : hres heap :=
    match l with
    | [] => HOk h
    | (n, e) :: r =>
      if opt_nat_eqb (Some n) prev then loop r h
      else do h1 <- rec n e h; loop r h1
    end.

Fixpoint rs_rec (fuel : nat) (cur : nat) (prev : option (nat * nat)) (h : heap) : hres heap :=
  match fuel with
  | O => HPanic
  | S f =>
    do hn <- get_node h cur;
    if Nat.ltb (length (hbr hn)) (length (hneigh hn)) then HPanic          (* tmpedges[i] out of range *)
    else
      do h <- rs_loop (fun n e h => rs_rec f n (Some (cur, e)) h) (option_map fst prev) (combine (hneigh hn) (hbr hn)) h;
      do hc <- get_node h cur;
      if Nat.eqb (length (hneigh hc)) 2 && negb (Nat.eqb cur (hroot h)) then
        match prev with
        | Some (previous, e) => rs_suppress cur previous e h
        | None => HPanic                                                   (* previous == nil *)
        end
      else HOk h
  end.

Definition remove_single_nodes_heap (h : heap) : hres heap := rs_rec (hfuel h) (hroot h) None h.

(** ** Tree.RemoveTips(revert, names...): the loop over the Tips() snapshot, BY POINTER.  Every
    tip of the snapshot is first checked (len(tip.neigh) != 1: "The node named X is not a
    tip"), whether its name is selected or not; a selected one goes to removeTip.  (The
    UpdateTipIndex / ReinitInternalIndexes that follow do not touch the structure.) *)
Fixpoint remove_tips_loop_heap (revert : bool) (names : list string) (tips : list nat) (h : heap) : hres heap :=
  match tips with
  | [] => HOk h
  | x :: r =>
    do hx <- get_node h x;
    if negb (Nat.eqb (length (hneigh hx)) 1) then HErr (Prune.err_not_tip (hname hx))
    else if Prune.selected revert names (hname hx)
         then do h1 <- remove_tip_heap (hname hx) x h; remove_tips_loop_heap revert names r h1
         else remove_tips_loop_heap revert names r h
  end.

(** Tree.Tips(): the nodes of Nodes() with one neighbour *)
Definition tips_heap (h : heap) : hres (list nat) :=
  do ns <- tree_nodes h;
  HOk (filter (fun n => match alookup n (hnodes h) with Some hn => Nat.eqb (length (hneigh hn)) 1 | None => false end) ns).

Definition remove_tips_by_pointer_heap (revert : bool) (names : list string) (h : heap) : hres heap :=
  do ts <- tips_heap h; remove_tips_loop_heap revert names ts h.
