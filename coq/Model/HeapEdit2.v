(** Heap-level models of further operations of /repo/tree (continuation of Model/HeapEdit.v;
    same conventions: [HErr] = the Go error, [HPanic] = nil / out of range / unbounded
    recursion).  No proofs. *)
From Coq Require Import String ZArith QArith Bool Arith List.
From GT Require Import Base.UTree Model.Reroot Model.Heap.
Import ListNotations.
Local Close Scope Q_scope.

(** ** Tree.SortNeighborsByTips / sortNeighbors(cur, prev): the recursive calls on the
    neighbours other than [prev] give the numbers of tips; the (ntips, neigh, br) records are
    sorted (sort.SliceStable) and written back in neigh and br; the result is the number of
    tips below [cur] (1 for a node with one neighbour) *)
Definition sort_loop (rec : nat -> heap -> hres (heap * nat)) (prev : option nat) : list nat -> heap -> hres (heap * list nat) :=
  fix loop (ns : list nat) (h : heap) : hres (heap * list nat) :=
    match ns with
    | [] => HOk (h, [])
    | c :: r =>
      if opt_nat_eqb (Some c) prev then do p <- loop r h; HOk (fst p, 0 :: snd p)
      else do q <- rec c h; do p <- loop r (fst q); HOk (fst p, snd q :: snd p)
    end.

Fixpoint sort_neighbors_heap (fuel : nat) (cur : nat) (prev : option nat) (h : heap) : hres (heap * nat) :=
  match fuel with
  | O => HPanic
  | S f =>
    do hn <- get_node h cur;
    if Nat.ltb (length (hbr hn)) (length (hneigh hn)) then HPanic        (* cur.Edges()[i] out of range *)
    else
      do p <- sort_loop (fun c h => sort_neighbors_heap f c (Some cur) h) prev (hneigh hn) h;
      let h1 := fst p in
      let keys := snd p in
      let sorted := stable_sort_by (fun x : nat * (nat * nat) => fst x) (combine keys (combine (hneigh hn) (hbr hn))) in
      do hc <- get_node h1 cur;
      HOk (set_node h1 cur (mkHN (hname hc) (hcom hc) (map (fun x => fst (snd x)) sorted) (map (fun x => snd (snd x)) sorted)),
           if Nat.eqb (length (hneigh hn)) 1 then 1 else fold_right Nat.add 0 keys)
  end.

Definition sort_neighbors_by_tips_heap (h : heap) : hres heap :=
  do p <- sort_neighbors_heap (hfuel h) (hroot h) None h; HOk (fst p).
