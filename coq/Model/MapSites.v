(** Inventory entries for `range` statements over Go maps (generated table: Gen/MapRanges.v). *)
From Coq Require Import String Bool Arith List.
Import ListNotations.
Local Open Scope string_scope.

Record site : Type := mkSite {
  sfile : string;    (* path relative to /repo *)
  sfunc : string;    (* enclosing function *)
  sidx : nat;        (* occurrence index inside that function *)
  sdigest : string   (* digest of the loop and of the 10 statements that follow it *)
}.

Definition site_eqb (a b : site) : bool :=
  String.eqb (sfile a) (sfile b) && String.eqb (sfunc a) (sfunc b) && Nat.eqb (sidx a) (sidx b) &&
  String.eqb (sdigest a) (sdigest b).
