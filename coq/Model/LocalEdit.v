(** Model of tree/tree.go: Clone (l.1772) / copyTreeRecur / CopyNode / CopyEdge, SubTree
    (l.1802), Merge (l.1826), GraftTreeOnTip (l.2229), InsertIdenticalTips (l.2078) /
    InsertIdenticalTip (l.2161), RemoveSingleNodes (l.1281) / removeSingleNodesRecur (l.1301).
    No proofs in this file.

    Facts of the code that the model keeps:
      - copyTreeRecur connects every copied child with ConnectNodes(copyparent, copychild):
        in the copy the parent is the FIRST neighbour of every non-root node, whatever its
        position in the source; the children keep their relative order;
      - CopyEdge copies length, support, p-value and (since the fix "Clone dropped branch
        comments") the branch comments;
      - Merge / GraftTreeOnTip append the new parent at the END of the neighbours of the old
        root(s) (addChild); the two branches made by Merge have no length;
      - InsertIdenticalTip appends the new tip at the end of the parent's neighbours when the
        tip branch has length 0, otherwise it puts a new node [new tip; parent; old tip] on
        the tip branch, with two new branches of length 0;
      - removeSingleNodesRecur works bottom-up; a suppressed node's child is appended at the
        END of the neighbours of the node above; the new length is max(0,l1)+max(0,l2) as
        soon as one of the two is present (since the fix "RemoveSingleNodes lost the length
        above a single-child node"), the support is the maximum, the lower branch keeps its
        comments and p-value.
    The tip-name index ([Tree.tipIndex]) is represented by the list of names it holds. *)
From Coq Require Import String ZArith QArith Bool Arith List.
From GT Require Import Base.UTree Model.Reroot.
Import ListNotations.
Local Close Scope Q_scope.
Local Open Scope string_scope.
Local Open Scope list_scope.

Definition name_mem (x : string) (l : list string) : bool := existsb (String.eqb x) l.

Definition err_no_index : string := "No tips in the index, tip name index is not initialized".
Definition err_no_parent : string := "The node has no parent : May be the root?".

(** * Clone, SubTree *)
Definition copy_edge (e : einfo) : einfo := mkE (elen e) (esup e) (epv e) (ecom e).

(** CopyNode + copyTreeRecur for every child branch *)
Fixpoint copy_node (isroot : bool) (t : utree) : utree :=
  match t with
  | UNode n c sl =>
    UNode n c ((if isroot then [] else [None]) ++
               flat_map (fun s => match s with
                                  | None => []
                                  | Some (e, ch) => [Some (copy_edge e, copy_node false ch)]
                                  end) sl)
  end.

Definition clone (t : utree) : utree := copy_node true t.

(** Tree.SubTree(Nodes()[i]) *)
Definition subtree (t : utree) (i : nat) : option utree :=
  match nth_error (nodes t) i with
  | Some s => Some (copy_node true s)
  | None => None
  end.

(** * Merge *)
(** addChild(new parent) *)
Definition add_up_end (t : utree) : utree :=
  match t with UNode n c sl => UNode n c (sl ++ [None]) end.

(** [idx1], [idx2]: the names held by the two tip indexes *)
Definition merge (t1 t2 : utree) (idx1 idx2 : list string) : res utree :=
  if negb (rooted t1) || negb (rooted t2) then Err "One of the two tree (or both) is not rooted"
  else match idx1, idx2 with
       | [], _ | _, [] => Err err_no_index
       | _, _ =>
         if existsb (fun a => name_mem a idx2) idx1 then Err "Trees should not have common tip names"
         else Ok (UNode "" [] [Some (e0, add_up_end t1); Some (e0, add_up_end t2)])
       end.

(** * GraftTreeOnTip *)
(** replace the (first) non-root tip named [tip] by [g'] in its slot *)
Fixpoint graft_sub (tip : string) (g' : utree) (t : utree) : option utree :=
  match t with
  | UNode n c sl =>
    match (fix go (l : list slot) : option (list slot) :=
             match l with
             | [] => None
             | None :: r => match go r with Some r' => Some (None :: r') | None => None end
             | Some (e, ch) :: r =>
               if is_tip ch && String.eqb (uname ch) tip then Some (Some (e, g') :: r)
               else match graft_sub tip g' ch with
                    | Some ch' => Some (Some (e, ch') :: r)
                    | None => match go r with
                              | Some r' => Some (Some (e, ch) :: r')
                              | None => None
                              end
                    end
             end) sl with
    | Some sl' => Some (UNode n c sl')
    | None => None
    end
  end.

Definition graft (t : utree) (idx : list string) (tip : string) (g : utree) : res utree :=
  match idx with
  | [] => Err err_no_index
  | _ =>
    if negb (name_mem tip idx) then Err ("No tip named " ++ tip ++ " in the index")
    else if is_tip t && String.eqb (uname t) tip then Err err_no_parent
    else match graft_sub tip (add_up_end g) t with
         | Some t' => Ok t'
         | None => Err "model: indexed tip not in the tree"
         end
  end.

(** * InsertIdenticalTips *)
Definition zedge : einfo := mkE 0%Q nilv nilv [].
Definition new_tip (nm : string) : utree := UNode nm [] [None].

(** InsertIdenticalTip(n = the non-root tip named [old], newn), structure only *)
Fixpoint insert_sub (old newn : string) (t : utree) : option utree :=
  match t with
  | UNode n c sl =>
    match (fix go (l : list slot) : option (list slot) :=
             match l with
             | [] => None
             | None :: r => match go r with Some r' => Some (None :: r') | None => None end
             | Some (e, ch) :: r =>
               if is_tip ch && String.eqb (uname ch) old then
                 if qeqb (elen e) 0%Q
                 then Some (Some (e, ch) :: r ++ [Some (zedge, new_tip newn)])
                 else Some (Some (e, UNode "" [] [Some (zedge, new_tip newn); None; Some (zedge, ch)]) :: r)
               else match insert_sub old newn ch with
                    | Some ch' => Some (Some (e, ch') :: r)
                    | None => match go r with
                              | Some r' => Some (Some (e, ch) :: r')
                              | None => None
                              end
                    end
             end) sl with
    | Some sl' => Some (UNode n c sl')
    | None => None
    end
  end.

(** NewNodeIndex: the first name (not empty) met twice in Tree.Nodes() *)
Fixpoint first_dup (seen : list string) (l : list string) : option string :=
  match l with
  | [] => None
  | x :: r => if String.eqb x "" then first_dup seen r
              else if name_mem x seen then Some x else first_dup (x :: seen) r
  end.

(** the loop over the names of one group: (existing tip, new names, last name seen) *)
Fixpoint scan_group (idx : list string) (group : list string) (old : string) (news : list string)
         (last : string) : res (string * list string * string) :=
  match group with
  | [] => Ok (old, news, last)
  | name :: r =>
    match idx with
    | [] => Err err_no_index
    | _ =>
      let e := name_mem name idx in
      if e && String.eqb old "" then scan_group idx r name news name
      else if e then Err "Several already existing tips are present in an identical group"
      else scan_group idx r old (news ++ [name]) name
    end
  end.

(** the loop over the new tips of one group *)
Fixpoint insert_news (old : string) (news : list string) (t : utree) (idx : list string)
  : res (utree * list string) :=
  match news with
  | [] => Ok (t, idx)
  | nm :: r =>
    if name_mem nm idx then Err ("The tip to add to " ++ old ++ " is already present in the tree")
    else if is_tip t && String.eqb (uname t) old then Err err_no_parent
    else match insert_sub old nm t with
         | Some t' => insert_news old r t' (idx ++ [nm])
         | None => Err "The node to add the new tip to is not a tip"
         end
  end.

Fixpoint insert_groups (groups : list (list string)) (t : utree) (idx : list string) (last : string)
  : res utree :=
  match groups with
  | [] => Ok t
  | g :: r =>
    match scan_group idx g "" [] last with
    | Err m => Err m
    | Ok (old, news, last') =>
      if String.eqb old ""
      then Err ("No existing tip is present in the given identical group: " ++ last')
      else match insert_news old news t idx with
           | Err m => Err m
           | Ok (t', idx') => insert_groups r t' idx' last'
           end
    end
  end.

Definition insert_identical (t : utree) (idx : list string) (groups : list (list string)) : res utree :=
  match first_dup [] (map uname (nodes t)) with
  | Some nm => Err ("NewNodeIndex error: Tree contains several node with the same name: " ++ nm)
  | None => insert_groups groups t idx ""
  end.

(** * RemoveSingleNodes *)
(** the lower branch [e2] after the suppression of the node between [pe] (above) and [e2] *)
Definition rs_edge (pe e2 : einfo) : einfo :=
  mkE (if negb (qeqb (elen e2) nilv) || negb (qeqb (elen pe) nilv)
       then (qmax 0%Q (elen e2) + qmax 0%Q (elen pe))%Q else elen e2)
      (qmax (esup e2) (esup pe))
      (epv e2) (ecom e2).

(** a non-root node with two neighbours: its only child *)
Definition single_child (t : utree) : option (einfo * utree) :=
  match uslots t with
  | [None; Some x] => Some x
  | [Some x; None] => Some x
  | _ => None
  end.

(** removeSingleNodesRecur below [t] ([t] itself is examined by its caller): the children
    that stay keep their slot, the children of suppressed nodes come after them *)
Fixpoint rs_node (t : utree) : utree :=
  match t with
  | UNode n c sl =>
    let kp :=
        (fix go (l : list slot) : list slot * list slot :=
           match l with
           | [] => ([], [])
           | None :: r => let kp := go r in (None :: fst kp, snd kp)
           | Some (e, ch) :: r =>
             let ch' := rs_node ch in
             let kp := go r in
             match single_child ch' with
             | Some (e2, gc) => (fst kp, Some (rs_edge e e2, gc) :: snd kp)
             | None => (Some (e, ch') :: fst kp, snd kp)
             end
           end) sl in
    UNode n c (fst kp ++ snd kp)
  end.

Definition remove_single (t : utree) : utree := rs_node t.
