(** The locking discipline of hashmap.HashMap (hashmap/hashmap.go): `Value` runs under
    `RLock()/RUnlock()`, `PutValue` under `Lock()/Unlock()` of the embedded sync.RWMutex.

    Threads execute programs (lists of operations); an operation is three or four atomic steps
    (acquire, body, release; the body of a Put is two steps, between which the map is "torn":
    buckets, total and capacity are inconsistent and a reader would see [garbage]).
    The map itself is abstract: [get]/[put] are what Value/PutValue compute without concurrency
    (Model/HashMap.v).  The lock: [readers] read locks held, [writer] write lock held; RLock blocks
    while a writer holds the lock, Lock blocks while anybody holds it (Go additionally makes new
    readers wait behind a waiting writer: that only removes schedules).
    Schedule: a list of thread indexes; a blocked or finished thread stutters.
    No proofs in this file. *)
From Coq Require Import Bool Arith List.
From GT Require Import Model.Pool.
Import ListNotations.

Section RW.
  Variables (key val mp : Type).
  Variable get : mp -> key -> option val.
  Variable put : mp -> key -> val -> mp.
  Variable garbage : option val.

  Inductive op := Get (k : key) | Put (k : key) (v : val).

  Inductive phase :=
  | P0        (* between operations *)
  | PR        (* holds the read lock, has not read yet *)
  | PRd       (* has read, still holds the read lock *)
  | PW        (* holds the write lock, has not started writing *)
  | PWt       (* in the middle of the update *)
  | PWd.      (* update complete, still holds the write lock *)

  Record thr := mkThr { todo : list op; ph : phase }.

  Record rw := mkRW {
    threads : list thr;
    readers : nat;
    writer : bool;
    themap : mp;
    torn : bool;
    rlog : list (nat * key * option val)   (* the reads in real-time order: thread, key, value returned *)
  }.

  Definition upd_thr (s : rw) (t : nat) (th : thr) : list thr := set_nth t th (threads s).

  Definition rwstep (s : rw) (t : nat) : rw :=
    match nth_error (threads s) t with
    | None => s
    | Some th =>
      match ph th, todo th with
      | P0, Get k :: _ =>
        if writer s then s
        else mkRW (upd_thr s t (mkThr (todo th) PR)) (S (readers s)) (writer s) (themap s) (torn s) (rlog s)
      | P0, Put k v :: _ =>
        if writer s || negb (readers s =? 0) then s
        else mkRW (upd_thr s t (mkThr (todo th) PW)) (readers s) true (themap s) (torn s) (rlog s)
      | PR, Get k :: _ =>
        mkRW (upd_thr s t (mkThr (todo th) PRd)) (readers s) (writer s) (themap s) (torn s)
             (rlog s ++ [(t, k, if torn s then garbage else get (themap s) k)])
      | PRd, _ :: rest =>
        mkRW (upd_thr s t (mkThr rest P0)) (pred (readers s)) (writer s) (themap s) (torn s) (rlog s)
      | PW, Put k v :: _ =>
        mkRW (upd_thr s t (mkThr (todo th) PWt)) (readers s) (writer s) (themap s) true (rlog s)
      | PWt, Put k v :: _ =>
        mkRW (upd_thr s t (mkThr (todo th) PWd)) (readers s) (writer s) (put (themap s) k v) false (rlog s)
      | PWd, _ :: rest =>
        mkRW (upd_thr s t (mkThr rest P0)) (readers s) false (themap s) (torn s) (rlog s)
      | _, _ => s
      end
    end.

  Definition rwrun (sched : list nat) (s : rw) : rw := fold_left rwstep sched s.

  Definition rwinit (progs : list (list op)) (m0 : mp) : rw :=
    mkRW (map (fun p => mkThr p P0) progs) 0 false m0 false [].

  (** every thread has run its program to the end *)
  Definition quiescent (s : rw) : bool :=
    forallb (fun th => match todo th, ph th with [], P0 => true | _, _ => false end) (threads s).

  (** the sequential meaning of a history: operations one after the other, each tagged with the
      thread that issued it *)
  Definition seq_step (st : mp * list (nat * key * option val)) (x : nat * op) :=
    match snd x with
    | Get k => (fst st, snd st ++ [(fst x, k, get (fst st) k)])
    | Put k v => (put (fst st) k v, snd st)
    end.
  Definition seq_exec (h : list (nat * op)) (m0 : mp) := fold_left seq_step h (m0, []).

  (** the operations of thread [t] in a history, in order *)
  Definition proj (t : nat) (h : list (nat * op)) : list op :=
    map snd (filter (fun x => Nat.eqb (fst x) t) h).
End RW.

Arguments Get {key val}. Arguments Put {key val}.
Arguments mkThr {key val}. Arguments todo {key val}. Arguments ph {key val}.
