(** Model of the PhyloXML and Nextstrain tree conversions, starting at the decoded value
    (the text layer is encoding/xml / encoding/json: trusted, not modelled).
      io/phyloxml/phyloxml.go    [cladeToTree, phylogenyToTree, IterateTrees, FirstTree,
                                  writeClade, writePhylogeny, WritePhyloXML]
                                 (state of /repo after the fix 2b87fca)
      io/nextstrain/nextstrain.go [cladeToTree, IterateTrees, FirstTree]
      io/utils/readtrees.go      [ReadTreeReader / ReadMultiTrees, FORMAT_PHYLOXML, FORMAT_NEXTSTRAIN]
    No proofs in this file.

    A clade value is what xml.Unmarshal stores in a [Clade] struct: name, taxonomy
    scientific name and code, optional branch length and confidence, sub-clades in document
    order.  [write_clade] is the clade value denoted by the text that writeClade prints
    (<name>, <branch_length>, <confidence>, nested <clade> elements): numbers are printed with
    FormatFloat(x,'f',-1,64) and read back by ParseFloat, which is exact for finite values. *)
From Coq Require Import String ZArith QArith Bool Arith List.
From GT Require Import Base.UTree.
Import ListNotations.
Local Close Scope Q_scope.
Local Open Scope string_scope.

Inductive clade : Type :=
| Clade (name sci code : string) (blen conf : option Q) (kids : list clade).

Definition ckids (c : clade) : list clade := match c with Clade _ _ _ _ _ k => k end.
Definition cblen (c : clade) : option Q := match c with Clade _ _ _ b _ _ => b end.
Definition cconf (c : clade) : option Q := match c with Clade _ _ _ _ f _ => f end.

(** c.Name, else c.Tax.ScientificName, else c.Tax.Code *)
Definition cname (c : clade) : string :=
  match c with
  | Clade n sci code _ _ _ =>
    if negb (String.eqb n "") then n
    else if negb (String.eqb sci "") then sci
    else code
  end.

Definition is_nil {A} (l : list A) : bool := match l with [] => true | _ => false end.

(** the branch created by ConnectNodes(parent, newNode): length when present, support when
    present and the clade has sub-clades *)
Definition clade_edge (c : clade) : einfo :=
  mkE (match cblen c with Some x => x | None => nilv end)
      (if is_nil (ckids c) then nilv else match cconf c with Some x => x | None => nilv end)
      nilv [].

(** cladeToTree: the new node gets its parent as first neighbour (not for the root), then
    its sub-clades in order; the first error of a sub-clade is returned at once; a clade
    without sub-clades and without a name is the error "One tip has no name". *)
Fixpoint clade_node (is_root : bool) (c : clade) : utree + string :=
  match c with
  | Clade _ _ _ _ _ ks =>
    match (fix go (l : list clade) : list slot + string :=
             match l with
             | [] => inl []
             | k :: r =>
               match clade_node false k with
               | inr e => inr e
               | inl t => match go r with
                          | inr e => inr e
                          | inl sl => inl (Some (clade_edge k, t) :: sl)
                          end
               end
             end) ks with
    | inr e => inr e
    | inl sl =>
      if is_nil ks && String.eqb (cname c) "" then inr "One tip has no name"
      else inl (UNode (cname c) [] ((if is_root then [] else [None]) ++ sl))
    end
  end.

(** phylogenyToTree *)
Definition clade_to_tree (c : clade) : utree + string := clade_node true c.

(** a decoded PhyloXML document: the root clades of its phylogenies *)
Definition phyloxml_doc : Type := list clade.

(** PhyloXML.IterateTrees through ReadMultiTrees: one record per phylogeny, ids 0, 1, ... ;
    a conversion error is a record too and the iteration goes on *)
Definition iterate_phyloxml (d : phyloxml_doc) : list (nat * (utree + string)) :=
  combine (seq 0 (length d)) (map clade_to_tree d).

(** PhyloXML.FirstTree through ReadTreeReader (after the fix: before it the tree was assigned
    to a shadowed variable and the result was always "No tree in the input PhyloXML file") *)
Definition first_tree_phyloxml (d : phyloxml_doc) : utree + string :=
  match d with
  | [] => inr "No tree in the input PhyloXML file"
  | c :: _ => clade_to_tree c
  end.

(** the same accessor as it was before the fix *)
Definition first_tree_phyloxml_unfixed (d : phyloxml_doc) : utree + string :=
  inr "No tree in the input PhyloXML file".

(** * Writer *)
Definition present (q : Q) : bool := negb (qeqb q nilv).

(** writeClade(n, prev, e): name; for a non-root node the length when present and, when the
    node is not a tip (more than one neighbour), the support when present; then every
    neighbour but [prev] *)
Fixpoint write_clade (up : option einfo) (t : utree) : clade :=
  match t with
  | UNode n _ sl =>
    Clade n "" ""
          (match up with Some e => if present (elen e) then Some (elen e) else None | None => None end)
          (match up with
           | Some e => if negb (Nat.eqb (length sl) 1) && present (esup e) then Some (esup e) else None
           | None => None
           end)
          (flat_map (fun s => match s with Some (e, ch) => [write_clade (Some e) ch] | None => [] end) sl)
  end.

(** writePhylogeny / WritePhyloXML: one phylogeny per tree *)
Definition write_phyloxml (l : list utree) : phyloxml_doc := map (write_clade None) l.

(** * Nextstrain.  A decoded node: name, node_attrs.div, the comment built from the
    annotation fields by string operations ([None]: no annotation), children. *)
Inductive nsnode : Type :=
| NsNode (name : string) (div : Q) (comment : option string) (kids : list nsnode).

Definition nskids (c : nsnode) : list nsnode := match c with NsNode _ _ _ k => k end.
Definition nsdiv (c : nsnode) : Q := match c with NsNode _ d _ _ => d end.

(** cladeToTree of nextstrain.go: the branch length is the difference of divergences
    (float64 subtraction in Go; exact on the rationals here) *)
Fixpoint ns_node (is_root : bool) (c : nsnode) : utree + string :=
  match c with
  | NsNode n d com ks =>
    match (fix go (l : list nsnode) : list slot + string :=
             match l with
             | [] => inl []
             | k :: r =>
               match ns_node false k with
               | inr e => inr e
               | inl t => match go r with
                          | inr e => inr e
                          | inl sl => inl (Some (mkE (nsdiv k - d)%Q nilv nilv [], t) :: sl)
                          end
               end
             end) ks with
    | inr e => inr e
    | inl sl =>
      if is_nil ks && String.eqb n "" then inr "one tip has no name"
      else inl (UNode n (match com with Some x => [x] | None => [] end)
                      ((if is_root then [] else [None]) ++ sl))
    end
  end.

Definition ns_to_tree (c : nsnode) : utree + string := ns_node true c.
(** Nextstrain.IterateTrees / FirstTree: the same conversion of the single tree *)
Definition iterate_nextstrain (c : nsnode) : list (nat * (utree + string)) := [(0, ns_to_tree c)].
Definition first_tree_nextstrain (c : nsnode) : utree + string := ns_to_tree c.
