(** C08, round 8: the numbers printed by cmd/comparetrees.go RunE from the records of
    Compare / CompareWeighted.

    --rf:        fmt.Printf("%d\n", st.Tree1+st.Tree2)                           -> [rf_of]
    --weighted:  wrf := 0.0; kf := 0.0
                 for _, diff := range st.Common { wrf += math.Abs(diff); kf += math.Pow(diff, 2.0) }
                 for _, container := range [][]float64{st.Tree1, st.Tree2} {
                   for _, length := range container { wrf += length; kf += math.Pow(length, 2.0) } }
                 fmt.Printf("%d\t%E\t%E\n", st.Id, wrf, math.Sqrt(kf))           -> [wrf_of], [kf2_of]
    Numbers are exact rationals as in Model/Compare.v (exact for the dyadic lengths of the
    generators); [kf2_of] is the argument of math.Sqrt (the square of the printed KF score).
    The accumulation order is the one of the code: Common, then Tree1, then Tree2.
    No proofs in this file. *)
From Coq Require Import String ZArith QArith Qabs List.
From GT Require Import Base.UTree Model.Compare.
Import ListNotations.
Local Close Scope Q_scope.

Definition rf_of (b : bstats) : Z := (bs_tree1 b + bs_tree2 b)%Z.

Definition wrf_of (w : wstats) : Q :=
  fold_left Qplus (ws_tree2 w)
    (fold_left Qplus (ws_tree1 w)
       (fold_left (fun a d => (a + Qabs d)%Q) (ws_common w) 0%Q)).

Definition kf2_of (w : wstats) : Q :=
  fold_left (fun a l => (a + l * l)%Q) (ws_tree2 w)
    (fold_left (fun a l => (a + l * l)%Q) (ws_tree1 w)
       (fold_left (fun a d => (a + d * d)%Q) (ws_common w) 0%Q)).
