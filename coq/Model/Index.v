(** Model of the split indexes of gotree: tip ranking, per-branch bitsets, tip counts on both
    sides, the two additive 64-bit name hashes, HashCode, TopoDepth, SameBipartition, FindEdge.

    Go sources mirrored (cited at each definition):
      tree/tree.go       UpdateTipIndex, SortedTips, ClearBitSets, UpdateBitSet/fillRightBitSet,
                         ReinitIndexes
      tree/edge_hash.go  tax_hash (hash/fnv New64a), ComputeEdgeHashes,
                         computeEdgeHashesRightRecur, computeEdgeHashesLeftRecur, HashCode, HashEquals
      tree/edge.go       TopoDepth, SameBipartition, FindEdge, TipPresent, NumTipsLeft/Right

    The external package github.com/fredericlemoine/bitset is NOT modelled word by word: a
    [BitSet] of length n is a [list bool] of length n (bit i = element i).  Assumed of it:
      New(n)                 n cleared bits
      Set(i)                 sets bit i; if i >= length the set is extended to length i+1
      ClearAll               clears every bit, keeps the length
      Test(i)                bit i, false beyond the length
      None()                 no bit set
      EqualOrComplement(c)   same length and (all bits equal or all bits different); two sets of
                             length 0 are both equal and complementary
    (word-boundary masking inside ComplementTest is trusted and probed with 63/64/65/128/129 tips).

    uint64 arithmetic is arithmetic on [N] followed by [mod 2^64].  Go [int] counters (ntaxleft,
    ntaxright, tipid) are [nat]: assumed not to overflow 63 bits.
    No proofs in this file. *)
From Coq Require Import String Ascii NArith ZArith QArith Bool Arith List.
From GT Require Import Base.UTree Model.Reroot.
Import ListNotations.
Local Close Scope Q_scope.
Local Open Scope string_scope.

(** * uint64 *)
Definition W64 : N := 18446744073709551616%N.     (* 2^64 *)
Definition w64 (x : N) : N := (x mod W64)%N.

(** * tax_hash: hash/fnv New64a; Write: for each byte c { hash ^= c; hash *= prime64 }; Sum64 *)
Definition fnv_offset64 : N := 14695981039346656037%N.
Definition fnv_prime64 : N := 1099511628211%N.
Fixpoint fnv1a (s : string) (h : N) : N :=
  match s with
  | EmptyString => h
  | String c r => fnv1a r (w64 (N.lxor h (N_of_ascii c) * fnv_prime64))
  end.
Definition tax_hash (s : string) : N := fnv1a s fnv_offset64.

(** * SortedTips / UpdateTipIndex
    sort.Slice(tips, strings.Compare(name_i, name_j) < 0): byte-wise order.  sort.Slice is not
    stable, but UpdateTipIndex refuses duplicated names, and for distinct names the sorted
    sequence is unique; the model sorts the names by insertion. *)
Fixpoint ins_name (x : string) (l : list string) : list string :=
  match l with
  | [] => [x]
  | y :: r => if String.ltb x y then x :: l else y :: ins_name x r
  end.
Definition sort_names (l : list string) : list string := fold_right ins_name [] l.

(** names of Tree.Tips() in sorted order *)
Definition sorted_tip_names (t : utree) : list string := sort_names (tip_names t).

(** "if _, ok := t.tipIndex[tip.Name()]; ok { err }" while walking the sorted tips: a name seen
    twice; in a sorted list duplicates are adjacent *)
Fixpoint has_dup_sorted (l : list string) : bool :=
  match l with
  | x :: ((y :: _) as r) => String.eqb x y || has_dup_sorted r
  | _ => false
  end.

(** tip.tipid = i : the rank of the tip name (first position in the sorted names) *)
Fixpoint index_of (x : string) (l : list string) : nat :=
  match l with
  | [] => 0
  | y :: r => if String.eqb x y then 0 else S (index_of x r)
  end.

(** * bit vectors (package bitset, see the header) *)
Definition bits_new (n : nat) : list bool := repeat false n.
Fixpoint set_bit (i : nat) (b : list bool) : list bool :=
  match i, b with
  | O, [] => [true]
  | O, _ :: r => true :: r
  | S i', [] => false :: set_bit i' []
  | S i', x :: r => x :: set_bit i' r
  end.
Definition test_bit (b : list bool) (i : nat) : bool := nth i b false.
Definition bits_none (b : list bool) : bool := forallb negb b.
Definition bits_equal (a b : list bool) : bool :=
  Nat.eqb (length a) (length b) && list_eqb Bool.eqb a b.
Definition bits_complement (a b : list bool) : bool :=
  Nat.eqb (length a) (length b) && list_eqb Bool.eqb (map negb a) b.
(** BitSet.EqualOrComplement = b.Equal(c) || b.ComplementTest(c) *)
Definition equal_or_complement (a b : list bool) : bool := bits_equal a b || bits_complement a b.

(** * UpdateBitSet / fillRightBitSet
    For a branch whose right node is a tip: Set(tipid) in the bitsets of all the branches on
    the path from the root branch ([rightEdges]); otherwise recursion over the branches whose
    left end is the right node.  Hence the bitset of a branch receives exactly the ids of the
    tips met below its right node, in pre-order. *)
Fixpoint tip_ids_below (ids : list string) (c : utree) : list nat :=
  match c with
  | UNode n _ sl =>
    if Nat.eqb (length sl) 1 then [index_of n ids]
    else flat_map (fun s => match s with Some (_, ch) => tip_ids_below ids ch | None => [] end) sl
  end.
(** ClearBitSets: bitset.New(len(tipIndex)); then the Set calls *)
Definition bitset_of (ids : list string) (c : utree) : list bool :=
  fold_left (fun b i => set_bit i b) (tip_ids_below ids c) (bits_new (length ids)).

(** * computeEdgeHashesRightRecur: (hashcoderight, ntaxright) of the branch above [c] *)
Definition hadd (a b : N * nat) : N * nat := (w64 (fst a + fst b), snd a + snd b).
Fixpoint right_of (c : utree) : N * nat :=
  match c with
  | UNode n _ sl =>
    if Nat.eqb (length sl) 1 then (tax_hash n, 1)
    else fold_left hadd
           (map (fun s => match s with Some (_, ch) => right_of ch | None => (0%N, 0) end) sl)
           (0%N, 0)
  end.

(** * computeEdgeHashesLeftRecur
    For the branch e = (prev -> cur): sum over the neighbours n of prev other than cur of
      the right values of the branch to n when it descends (n == prevE.Right()),
      the left  values of the branch to n when it ascends  (n == prevE.Left()).
    [pl] = (hashcodeleft, ntaxleft) of the branch above prev (used for its parent slot). *)
Definition side_of_slot (pl : N * nat) (s : slot) : N * nat :=
  match s with Some (_, c) => right_of c | None => pl end.
Fixpoint left_sum (pl : N * nat) (i : nat) (k : nat) (sl : list slot) (acc : N * nat) : N * nat :=
  match sl with
  | [] => acc
  | s :: r => left_sum pl i (S k) r (if Nat.eqb k i then acc else hadd acc (side_of_slot pl s))
  end.
Definition left_for (pl : N * nat) (sl : list slot) (i : nat) : N * nat := left_sum pl i 0 sl (0%N, 0).

(** * one row per branch, in Tree.Edges() order *)
Record erow : Type := mkRow {
  r_bits : list bool;      (* Edge.bitset *)
  r_nright : nat;          (* ntaxright *)
  r_nleft : nat;           (* ntaxleft *)
  r_hright : N;            (* hashcoderight *)
  r_hleft : N;             (* hashcodeleft *)
  r_tip : bool             (* Right().Tip() *)
}.

Fixpoint rows_below (ids : list string) (t : utree) (pl : N * nat) : list erow :=
  match t with
  | UNode _ _ sl =>
    (fix go (i : nat) (l : list slot) : list erow :=
       match l with
       | [] => []
       | None :: r => go (S i) r
       | Some (_, c) :: r =>
         let lf := left_for pl sl i in
         let rg := right_of c in
         mkRow (bitset_of ids c) (snd rg) (snd lf) (fst rg) (fst lf) (is_tip c)
         :: (if Nat.ltb 1 (degree c) then rows_below ids c lf else []) ++ go (S i) r
       end) 0 sl
  end.

(** Edge.HashCode *)
Definition hash_code_of (nl nr : nat) (hl hr : N) : N :=
  if Nat.eqb nl nr then w64 (hl * hr)
  else if Nat.ltb nl nr then hl else hr.
Definition hash_code (r : erow) : N := hash_code_of (r_nleft r) (r_nright r) (r_hleft r) (r_hright r).

(** Edge.TopoDepth: error (-1) when a side count is 0 *)
Definition topo_depth (r : erow) : option nat :=
  if Nat.eqb (r_nleft r) 0 || Nat.eqb (r_nright r) 0 then None
  else Some (Nat.min (r_nleft r) (r_nright r)).

(** Edge.HashEquals *)
Definition hash_equals (a b : erow) : bool := equal_or_complement (r_bits a) (r_bits b).

(** Edge.SameBipartition *)
Definition same_bipartition (a b : erow) : bool :=
  if negb (N.eqb (hash_code a) (hash_code b)) then false
  else equal_or_complement (r_bits a) (r_bits b).

(** Edge.FindEdge(edges): [Ok true] = found (the Go code returns the receiver itself),
    [Ok false] = nil, nil *)
Fixpoint find_edge_in (e : erow) (l : list erow) : res bool :=
  match l with
  | [] => Ok false
  | e2 :: r =>
    if negb (Bool.eqb (r_tip e) (r_tip e2)) then find_edge_in e r
    else if negb (N.eqb (hash_code e) (hash_code e2)) then find_edge_in e r
    else if equal_or_complement (r_bits e) (r_bits e2) then
      (if bits_none (r_bits e2) then Err "One edge has a bitset of 0...000" else Ok true)
    else find_edge_in e r
  end.
Definition find_edge (e : erow) (l : list erow) : res bool :=
  if bits_none (r_bits e) then Err "One edge has a bitset of 0...000" else find_edge_in e l.

(** * ReinitIndexes on a tree built from the root.
    Result: tip ids in Tips() order, rows in Edges() order. *)
Record tables : Type := mkTables { tb_names : list string; tb_tipids : list nat; tb_rows : list erow }.

Definition index_tables (t : utree) : res tables :=
  let ids := sorted_tip_names t in
  (* UpdateTipIndex *)
  if has_dup_sorted ids then Err "Cannot create a tip index when several tips have the same name"
  (* ClearBitSets *)
  else if Nat.eqb (length ids) 0 then Err "No tips in the index, tip name index is not initialized"
  (* a root with a single neighbour is a "tip" for Tips()/the tip index, but
     computeEdgeHashesRightRecur(root, nil, nil) treats it as an inner node ("cur.Tip() && e != nil"):
     its name gets a rank, no bitset ever has that bit, no count includes it *)
  else Ok (mkTables ids (map (fun n => index_of n ids) (tip_names t)) (rows_below ids t (0%N, 0))).

Definition rows (t : utree) : list erow := rows_below (sorted_tip_names t) t (0%N, 0).
