(** C02, the channel hand-off of utils.ReadMultiTrees (io/utils/readtrees.go:98):
      compTrees := make(chan tree.Trees, 10)
      go func() { ... compTrees <- record ... ; close(compTrees) }()
    The reader goroutine is a sequential program: it sends the records it computed, one after the
    other, then closes the channel (every branch of the switch falls through to close).  The
    consumer is `for t := range ch`: either it drains the channel until it is closed, or (most
    commands) it returns at the first record that carries an error.
    Small-step interleaving semantics: one step of an agent is one channel operation; an agent
    whose operation is not possible (send on a full buffer, receive on an empty open channel)
    stutters.  A schedule is a list of agents ([false] the reader goroutine, [true] the consumer).
    No proofs in this file. *)
From Coq Require Import Bool Arith List.
Import ListNotations.

Section Chan.
  Variable rec : Type.
  Variable is_err : rec -> bool.      (* the record has Err != nil *)
  Variable cap : nat.                 (* buffer size of the channel: 10 *)
  Variable stop_on_err : bool.        (* the consumer leaves its loop at the first error record *)

  Record cst := mkC {
    pending : list rec;   (* records the reader goroutine has still to send (program order) *)
    buf : list rec;       (* sent, not yet received *)
    closed : bool;        (* close(compTrees) was executed *)
    got : list rec;       (* received by the consumer, in order *)
    cstop : bool          (* the consumer left its loop *)
  }.

  (** compTrees <- r  (blocks while the buffer is full); after the last one: close(compTrees) *)
  Definition prod_step (s : cst) : cst :=
    match pending s with
    | r :: p => if length (buf s) <? cap
                then mkC p (buf s ++ [r]) (closed s) (got s) (cstop s)
                else s
    | [] => if closed s then s else mkC [] (buf s) true (got s) (cstop s)
    end.

  (** one iteration of `for t := range compTrees { if t.Err != nil { return } ... }` *)
  Definition cons_step (s : cst) : cst :=
    if cstop s then s
    else match buf s with
         | r :: b => mkC (pending s) b (closed s) (got s ++ [r]) (stop_on_err && is_err r)
         | [] => if closed s then mkC (pending s) [] true (got s) true else s
         end.

  Definition step (s : cst) (a : bool) : cst := if a then cons_step s else prod_step s.
  Definition run (sch : list bool) (s : cst) : cst := fold_left step sch s.
  Definition init (l : list rec) : cst := mkC l [] false [] false.

  (** both sides are done: the goroutine has closed the channel and returned, the consumer has
      left its loop *)
  Definition final (s : cst) : bool := closed s && cstop s.

  (** an agent can take a real step *)
  Definition prod_enabled (s : cst) : bool :=
    match pending s with
    | _ :: _ => length (buf s) <? cap
    | [] => negb (closed s)
    end.
  Definition cons_enabled (s : cst) : bool :=
    negb (cstop s) && (match buf s with _ :: _ => true | [] => closed s end).
  Definition enabled (s : cst) (a : bool) : bool := if a then cons_enabled s else prod_enabled s.

  (** a record with an error is the last one the goroutine sends (Newick: send the error, break;
      Nexus / Nextstrain / unsupported format: one error record) *)
  Fixpoint err_last (l : list rec) : Prop :=
    match l with
    | [] => True
    | r :: t => (is_err r = true -> t = []) /\ err_last t
    end.

  Definition mu (s : cst) : nat :=
    2 * length (pending s) + length (buf s) + (if closed s then 0 else 1) + (if cstop s then 0 else 1).

  (** a schedule made of rounds in each of which both agents are scheduled at least once *)
  Definition fair_round (r : list bool) : Prop := In true r /\ In false r.
End Chan.

(** * nexus_parser.go:533-564, the single-character options of FORMAT:
      if len(lit4) != 1 { err = ...; stopformat = true } else { missing = []rune(lit4)[0] }
    [len] counts bytes; a one-byte string converts to a one-rune slice (an invalid byte becomes
    U+FFFD), so the read at index 0 is modelled on the bytes.  [IPanic] = index out of range. *)
From Coq Require Import String Ascii.
Inductive idx_res : Type := IChar (c : ascii) | IErrLen | IPanic.

Definition byte0 (lit : string) : idx_res :=
  match String.get 0 lit with Some c => IChar c | None => IPanic end.

(** after the fix 4b7059e *)
Definition single_char_option (lit : string) : idx_res :=
  if negb (Nat.eqb (String.length lit) 1) then IErrLen else byte0 lit.

(** before it: the index was evaluated whatever the length *)
Definition single_char_option_unfixed (lit : string) : idx_res := byte0 lit.
