(** Model of tree/algo.go: Tree.ToDistanceMatrix (l.672), pathLengths (l.742),
    AvgDistanceMatrix (l.705) and of tree/tree.go: Tree.CutEdgesMaxLength (l.2001),
    cutEdgesMaxLengthRecur (l.2049) with tree/tipbags.go.  No proofs in this file.

    The Go walks are undirected (they follow [Node.neigh] and skip the node they come from).
    On the nested model a walk that leaves a node through its parent slot is represented by a
    continuation built on the way down:
      - [up a] for the matrix: what pathLengths(parent, this, _, a + w(parent branch)) records;
      - [(e, id, k)] for the cut: the parent branch, its id, and what
        cutEdgesMaxLengthRecur(bag, parent, this) collects.
    Tips are [Node.Tip()]: nodes with exactly one neighbour (a root of degree one included). *)
From Coq Require Import String ZArith QArith Bool Arith List.
From GT Require Import Base.UTree Model.Reroot.
Import ListNotations.
Local Close Scope Q_scope.
Local Open Scope string_scope.
Local Open Scope list_scope.

(** * Metrics *)
Inductive metric : Type := MBrlen | MBoots | MNone.

(** the switch of pathLengths: support (1 when absent) / 1 / length (0 when absent) *)
Definition mweight (m : metric) (e : einfo) : Q :=
  match m with
  | MBoots => if qeqb (esup e) nilv then 1%Q else esup e
  | MNone => 1%Q
  | MBrlen => if qeqb (elen e) nilv then 0%Q else elen e
  end.

(** * pathLengths *)
(** pathLengths(cur = t, prev = parent of t, _, acc): a tip records, another node goes on to
    every neighbour but [prev] *)
Fixpoint walk_down (w : einfo -> Q) (acc : Q) (t : utree) : list (string * Q) :=
  match t with
  | UNode n _ sl =>
    if Nat.eqb (length sl) 1 then [(n, acc)]
    else flat_map (fun s => match s with
                            | Some (e, c) => walk_down w (acc + w e)%Q c
                            | None => []
                            end) sl
  end.

(** the loop of pathLengths over some of the neighbours of a node reached with [a]:
    children downwards, the parent through the continuation *)
Definition side (w : einfo -> Q) (up : Q -> list (string * Q)) (a : Q) (l : list slot)
  : list (string * Q) :=
  flat_map (fun s => match s with
                     | None => up a
                     | Some (e, c) => walk_down w (a + w e)%Q c
                     end) l.

(** one entry per tip, in the order of Tree.Tips(): the tip's name and what
    pathLengths(tip, nil, row, 0, metric) records (name of the tip reached, value written) *)
Fixpoint walks (w : einfo -> Q) (t : utree) (up : Q -> list (string * Q)) {struct t}
  : list (string * list (string * Q)) :=
  match t with
  | UNode n _ sl =>
    (if Nat.eqb (length sl) 1 then [(n, side w up 0%Q sl)] else []) ++
    (fix go (pre l : list slot) {struct l} : list (string * list (string * Q)) :=
       match l with
       | [] => []
       | None :: r => go (pre ++ [None]) r
       | Some (e, c) :: r =>
         walks w c (fun a => let a' := (a + w e)%Q in
                             if Nat.eqb (length sl) 1 then [(n, a')]
                             else side w up a' pre ++ side w up a' r)
         ++ go (pre ++ [Some (e, c)]) r
       end) [] sl
  end.

Definition tip_rows (w : einfo -> Q) (t : utree) : list (string * list (string * Q)) :=
  walks w t (fun _ => []).

(** sort.Slice(tips, name <): the result is determined when the names are distinct *)
Fixpoint name_insert (x : string) (l : list string) : list string :=
  match l with
  | [] => [x]
  | y :: r => if String.leb x y then x :: l else y :: name_insert x r
  end.
Definition name_sort (l : list string) : list string := fold_right name_insert [] l.

Definition assoc_q (b : string) (r : list (string * Q)) : Q :=
  match find (fun p => String.eqb (fst p) b) r with Some p => snd p | None => 0%Q end.

Definition assoc_row (a : string) (rows : list (string * list (string * Q))) : list (string * Q) :=
  match find (fun p => String.eqb (fst p) a) rows with Some p => snd p | None => [] end.

(** Tree.ToDistanceMatrix: (names of the returned tips, matrix); cells never written keep
    the 0 of make([]float64, n) *)
Definition to_matrix (m : metric) (t : utree) : list string * list (list Q) :=
  let rows := tip_rows (mweight m) t in
  let names := name_sort (map fst rows) in
  (names, map (fun a => let r := assoc_row a rows in map (fun b => assoc_q b r) names) names).

(** * AvgDistanceMatrix *)
Fixpoint madd (a b : list (list Q)) : list (list Q) :=
  match a, b with
  | ra :: a', rb :: b' =>
    (fix row (x y : list Q) : list Q :=
       match x, y with
       | p :: x', q :: y' => (p + q)%Q :: row x' y'
       | _, _ => x
       end) ra rb :: madd a' b'
  | _, _ => a
  end.

Definition mdiv (k : nat) (a : list (list Q)) : list (list Q) :=
  map (map (fun x => (x / inject_Z (Z.of_nat k))%Q)) a.

(** the loop over the channel after the first tree.  Both trees must have the same number
    of tips for Go not to index out of range; the generator only produces such inputs. *)
Fixpoint avg_loop (m : metric) (names : list string) (acc : list (list Q)) (ts : list utree)
  : res (list (list Q)) :=
  match ts with
  | [] => Ok acc
  | t :: r =>
    let '(names2, m2) := to_matrix m t in
    if negb (Nat.eqb (length names) (length names2)) then Err "index out of range"
    else if negb (list_eqb String.eqb names names2)
    then Err "trees do not have the same sets of tip names"
    else avg_loop m names (madd acc m2) r
  end.

Definition avg_matrix (m : metric) (ts : list utree) : res (list string * list (list Q)) :=
  match ts with
  | [] => Ok ([], [])
  | t :: r =>
    let '(names, m1) := to_matrix m t in
    match avg_loop m names m1 r with
    | Err e => Err e
    | Ok s => Ok (names, match r with [] => s | _ => mdiv (length ts) s end)
    end
  end.

(** * CutEdgesMaxLength *)
(** e.Length() < maxlen, on the stored number (an absent length is -1) *)
Definition short (maxlen : Q) (e : einfo) : bool := negb (Qle_bool maxlen (elen e)).

(** number of branches Tree.Edges() lists below the far node of a branch *)
Definition nedges (c : utree) : nat :=
  if Nat.ltb 1 (degree c) then length (edges_below c) else 0.

Definition mem_nat (x : nat) (l : list nat) : bool := existsb (Nat.eqb x) l.

(** cutEdgesMaxLengthRecur(bag, cur = t, prev = parent of t): tips put in the bag and ids of
    the branches marked visited; [base] is the id (position in Tree.Edges()) of the first
    branch below [t] *)
Fixpoint flood_down (maxlen : Q) (t : utree) (base : nat) : list string * list nat :=
  match t with
  | UNode n _ sl =>
    let r :=
        (fix go (l : list slot) (i : nat) : list string * list nat :=
           match l with
           | [] => ([], [])
           | None :: r => go r i
           | Some (e, c) :: r =>
             let below := if short maxlen e
                          then let p := flood_down maxlen c (S i) in (fst p, i :: snd p)
                          else ([], []) in
             let rest := go r (S i + nedges c) in
             (fst below ++ fst rest, snd below ++ snd rest)
           end) sl base in
    ((if Nat.eqb (length sl) 1 then [n] else []) ++ fst r, snd r)
  end.

(** the way out of a node through its parent slot: the parent branch, its id, what the
    recursive call on the parent (coming from this node) collects *)
Definition upctx : Type := option (einfo * nat * (unit -> list string * list nat)).

(** the loop of cutEdgesMaxLengthRecur over some of the neighbours of a node; [i] is the id of
    the first child branch among them *)
Fixpoint flood_slots (maxlen : Q) (up : upctx) (l : list slot) (i : nat) : list string * list nat :=
  match l with
  | [] => ([], [])
  | None :: r =>
    let above := match up with
                 | Some (pe, pid, k) =>
                   if short maxlen pe then let p := k tt in (fst p, pid :: snd p) else ([], [])
                 | None => ([], [])
                 end in
    let rest := flood_slots maxlen up r i in
    (fst above ++ fst rest, snd above ++ snd rest)
  | Some (e, c) :: r =>
    let below := if short maxlen e
                 then let p := flood_down maxlen c (S i) in (fst p, i :: snd p)
                 else ([], []) in
    let rest := flood_slots maxlen up r (S i + nedges c) in
    (fst below ++ fst rest, snd below ++ snd rest)
  end.

Record cstate : Type := mkC { cvisited : list nat; cbags : list (list string) }.

(** a TipBag is a map keyed by name and TipBag.Tips() lists it by sorted name *)
Fixpoint name_insert_set (x : string) (l : list string) : list string :=
  match l with
  | [] => [x]
  | y :: r => if String.eqb x y then l
              else if String.leb x y then x :: l else y :: name_insert_set x r
  end.
Definition bag_of (l : list string) : list string := fold_right name_insert_set [] l.

(** the main loop of CutEdgesMaxLength restricted to the branches below [t] (ids from
    [base]), in the order of Tree.Edges() *)
Fixpoint cut_rec (maxlen : Q) (t : utree) (base : nat) (up : upctx) (st : cstate) {struct t} : cstate :=
  match t with
  | UNode n _ sl =>
    (fix go (pre l : list slot) (i : nat) (st : cstate) {struct l} : cstate :=
       match l with
       | [] => st
       | None :: r => go (pre ++ [None]) r i st
       | Some (e, c) :: r =>
         let inext := S i + nedges c in
         (* cutEdgesMaxLengthRecur(bag, e.Left() = t, e.Right() = c) *)
         let visit := fun _ : unit =>
             let p1 := flood_slots maxlen up pre base in
             let p2 := flood_slots maxlen up r inext in
             ((if Nat.eqb (length sl) 1 then [n] else []) ++ fst p1 ++ fst p2, snd p1 ++ snd p2) in
         let st1 :=
             if mem_nat i (cvisited st) then st
             else if short maxlen e then
               let pl := visit tt in
               let pr := flood_down maxlen c (S i) in
               let found := fst pl ++ fst pr in
               mkC (i :: snd pl ++ snd pr ++ cvisited st)
                   (cbags st ++ match found with [] => [] | _ => [bag_of found] end)
             else
               mkC (i :: cvisited st)
                   (cbags st ++ (if Nat.eqb (length sl) 1 then [[n]] else [])
                             ++ (if is_tip c then [[uname c]] else [])) in
         let st2 := if Nat.ltb 1 (degree c) then cut_rec maxlen c (S i) (Some (e, i, visit)) st1
                    else st1 in
         go (pre ++ [Some (e, c)]) r inext st2
       end) [] sl base st
  end.

(** Tree.CutEdgesMaxLength(maxlen), each bag as TipBag.Tips() lists it *)
Definition cut (maxlen : Q) (t : utree) : list (list string) :=
  cbags (cut_rec maxlen t 0 None (mkC [] [])).

(** * homonymous tips *)
(** Two tips with the same name are two nodes: pathLengths addresses columns through the node
    ids given by the position in the sorted slice, and sort.Slice on at most 12 elements is an
    insertion sort (stable: homonyms stay in the order of Tree.Tips()).  The model reduces this
    case to distinct names: the k-th tip named n (in Tips() order) is renamed n\000k' (k' the
    character of code 48+k), which keeps the name order, and the matrix is that of the renamed
    tree.  Only for trees of at most 12 tips (pdqsort is not stable beyond). *)
Definition count_of (n : string) (seen : list string) : nat := length (filter (String.eqb n) seen).

Definition tag (n : string) (k : nat) : string :=
  (n ++ String (Ascii.ascii_of_nat 0) (String (Ascii.ascii_of_nat (48 + k)) EmptyString))%string.

Fixpoint relabel (t : utree) (seen : list string) : utree * list string :=
  match t with
  | UNode n c sl =>
    let istip := Nat.eqb (length sl) 1 in
    let n' := if istip then tag n (count_of n seen) else n in
    let seen1 := if istip then n :: seen else seen in
    let r :=
        (fix go (l : list slot) (seen : list string) : list slot * list string :=
           match l with
           | [] => ([], seen)
           | None :: r => let p := go r seen in (None :: fst p, snd p)
           | Some (e, ch) :: r =>
             let p1 := relabel ch seen in
             let p2 := go r (snd p1) in
             (Some (e, fst p1) :: fst p2, snd p2)
           end) sl seen1 in
    (UNode n' c (fst r), snd r)
  end.

Definition relabel_tips (t : utree) : utree := fst (relabel t []).

(** the same renaming on a list of names in which homonyms are in Tips() order *)
Definition relabel_names (l : list string) : list string :=
  (fix go (l seen : list string) : list string :=
     match l with
     | [] => []
     | x :: r => tag x (count_of x seen) :: go r (x :: seen)
     end) l [].
