(** Model of tree/algo.go AvgDistanceMatrix, exact about HOW the call fails when a later tree
    does not have the tips of the first one (Model/Matrix.v [avg_matrix] only says [Err]).
    No proofs in this file.

      for i, tip := range tips { if tip.Name() != tips2[i].Name() { err = ...; return } }
          -> tips2[i] is out of range as soon as the names agree on all of a shorter tips2
      for i := range tips { for j := range tips2 { matrix[i][j] += matrix2[i][j] } }
          -> matrix[i][j] is out of range when tips2 is longer (and tips is not empty)          *)
From Coq Require Import String ZArith QArith Bool Arith List.
From GT Require Import Base.UTree Model.Reroot Model.Matrix.
Import ListNotations.
Local Close Scope Q_scope.
Local Open Scope string_scope.
Local Open Scope list_scope.

Inductive ncheck : Type := NCOk | NCErr | NCPanic.

(** the loop comparing the names, position by position, over the tips of the FIRST tree *)
Fixpoint names_check (n1 n2 : list string) : ncheck :=
  match n1 with
  | [] => NCOk
  | a :: r1 =>
    match n2 with
    | [] => NCPanic
    | b :: r2 => if String.eqb a b then names_check r1 r2 else NCErr
    end
  end.

Inductive avg_out (A : Type) : Type :=
| AOk : A -> avg_out A
| AErr : string -> avg_out A
| APanic : avg_out A.
Arguments AOk {A} _. Arguments AErr {A} _. Arguments APanic {A}.

Fixpoint avg_loop_x (m : metric) (names : list string) (acc : list (list Q)) (ts : list utree)
  : avg_out (list (list Q)) :=
  match ts with
  | [] => AOk acc
  | t :: r =>
    let '(names2, m2) := to_matrix m t in
    match names_check names names2 with
    | NCPanic => APanic
    | NCErr => AErr "trees do not have the same sets of tip names"
    | NCOk =>
      if negb (Nat.eqb (length names) 0) && Nat.ltb (length names) (length names2) then APanic
      else avg_loop_x m names (madd acc m2) r
    end
  end.

Definition avg_matrix_x (m : metric) (ts : list utree) : avg_out (list string * list (list Q)) :=
  match ts with
  | [] => AOk ([], [])
  | t :: r =>
    let '(names, m1) := to_matrix m t in
    match avg_loop_x m names m1 r with
    | AErr e => AErr e
    | APanic => APanic
    | AOk s => AOk (names, match r with [] => s | _ => mdiv (length ts) s end)
    end
  end.
