(** The pair of trees of the C10 'family' cases (harness/worker/c10.go c10family):
    reference (((a,b),(c,d)),(e,f),H), bootstrap ((H,(c,e)),(a,f),(b,d)), H any common clade.
    No proofs here. *)
From Coq Require Import String List.
From GT Require Import Base.UTree.
Import ListNotations.
Local Open Scope string_scope.

Definition ftip (n : string) : utree := UNode n [] [None].
Definition fnode (l : list utree) : utree := UNode "" [] (None :: map (fun c => Some (e0, c)) l).
Definition froot (l : list utree) : utree := UNode "" [] (map (fun c => Some (e0, c)) l).

Definition fam_ref_of (H : utree) : utree :=
  froot [fnode [fnode [ftip "a"; ftip "b"]; fnode [ftip "c"; ftip "d"]]; fnode [ftip "e"; ftip "f"]; H].
Definition fam_boot_of (H : utree) : utree :=
  froot [fnode [H; fnode [ftip "c"; ftip "e"]]; fnode [ftip "a"; ftip "f"]; fnode [ftip "b"; ftip "d"]].

(** the member the judge evaluates: H on 12 taxa in groups of 4 *)
Definition fam_H : utree :=
  fnode [fnode [ftip "h00"; ftip "h01"; ftip "h02"; ftip "h03"];
         fnode [ftip "h04"; ftip "h05"; ftip "h06"; ftip "h07"];
         fnode [ftip "h08"; ftip "h09"; ftip "h10"; ftip "h11"]].
Definition fam_ref : utree := fam_ref_of fam_H.
Definition fam_boot : utree := fam_boot_of fam_H.
