(** Model of tree/treegen.go:352 BipartitionTree and tree/treegen.go:314 EdgeTree (round 8).
    No proofs in this file.

    Both build the same shape: root n2, first neighbour the inner node n (branch of length 1.0),
    then the "left" tips under n2; n has n2 first (the [None] slot), then the "right" tips; every
    branch has length 1.0; then ReinitIndexes (whose only error is a duplicated tip name). *)
From Coq Require Import String Ascii ZArith QArith Bool Arith List.
From GT Require Import Base.UTree Model.Reroot Model.Rand2 Model.TreeGen.
Import ListNotations.
Local Close Scope Q_scope.
Local Open Scope string_scope.
Local Open Scope list_scope.

Definition tip_slot (nm : string) : slot := Some (eL one, tip_node nm).

(** the tree  (left tips)-n2 --- n-(right tips) *)
Definition two_star (lefts rights : list string) : utree :=
  UNode "" [] (Some (eL one, UNode "" [] (None :: map tip_slot rights)) :: map tip_slot lefts).

Definition mem_str (x : string) (l : list string) : bool := existsb (String.eqb x) l.

(** tipIndex map insertion in UpdateTipIndex: an error as soon as a name is seen twice *)
Fixpoint nodup_strb (l : list string) : bool :=
  match l with
  | [] => true
  | x :: r => negb (mem_str x r) && nodup_strb r
  end.

Definition err_bip_small := "Left and Right tip sets must have length > 1".
Definition err_bip_common := "One or more tips are common between left set and right set".
Definition err_tipindex_dup := "Cannot create a tip index when several tips have the same name".

(** BipartitionTree(leftTips, rightTips) *)
Definition bipartition_tree (lefts rights : list string) : gres :=
  if Nat.leb (length lefts) 1 || Nat.leb (length rights) 1 then GErr err_bip_small
  else if existsb (fun r => mem_str r lefts) rights then GErr err_bip_common
  else if nodup_strb (lefts ++ rights) then GOk (two_star lefts rights)
  else GErr err_tipindex_dup.

(** EdgeTree(t, e, alltips): [isright name] stands for e.Bitset().Test(t.TipIndex(name)); no size
    test, the error of ReinitIndexes is dropped (the tree is returned anyway) *)
Definition edge_tree_of (alltips : list string) (isright : string -> bool) : utree :=
  two_star (filter (fun nm => negb (isright nm)) alltips) (filter isright alltips).
