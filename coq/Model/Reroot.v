(** Model of tree/tree.go: Reroot (+ReorderEdges), UnRoot, Node.RotateNeighbors /
    Tree.RotateInternalNodes (choice vector), SortNeighborsByTips.  No proofs in this file. *)
From Coq Require Import String ZArith QArith Bool Arith List.
From GT Require Import Base.UTree.
Import ListNotations.
Local Close Scope Q_scope.

(** ** list surgery *)
Definition set_nth {A} (k : nat) (x : A) (l : list A) : list A :=
  firstn k l ++ match skipn k l with [] => [] | _ :: r => x :: r end.

Definition is_up (s : slot) : bool := match s with None => true | _ => false end.

(** replace the (first) parent slot by [x] *)
Fixpoint replace_up (sl : list slot) (x : slot) : list slot :=
  match sl with
  | [] => []
  | None :: r => x :: r
  | s :: r => s :: replace_up r x
  end.

(** delNeighbor(parent): drop the parent slot *)
Fixpoint drop_up (sl : list slot) : list slot :=
  match sl with
  | [] => []
  | None :: r => r
  | s :: r => s :: drop_up r
  end.

(** ** addressing: pre-order paths (slot indexes), parallel to [nodes] *)
Fixpoint paths (t : utree) : list (list nat) :=
  match t with
  | UNode _ _ sl =>
    [] :: (fix go (k : nat) (l : list slot) : list (list nat) :=
             match l with
             | [] => []
             | None :: r => go (S k) r
             | Some (_, c) :: r => map (cons k) (paths c) ++ go (S k) r
             end) 0 sl
  end.

Fixpoint node_at (t : utree) (p : list nat) : option utree :=
  match p with
  | [] => Some t
  | k :: r => match nth_error (uslots t) k with
              | Some (Some (_, c)) => node_at c r
              | _ => None
              end
  end.

(** ** Reroot *)
(** One step: the child in slot [k] becomes the root.  Nothing moves inside any neigh[]
    array (ReorderEdges only flips left/right): the old root keeps its slots, slot [k] now
    points to its parent; the child's parent slot now holds the edge and the old root. *)
Definition rotate_to (t : utree) (k : nat) : option utree :=
  match t with
  | UNode n c sl =>
    match nth_error sl k with
    | Some (Some (e, UNode n' c' sl')) =>
      Some (UNode n' c' (replace_up sl' (Some (e, UNode n c (set_nth k None sl)))))
    | _ => None
    end
  end.

Fixpoint reroot_path (t : utree) (p : list nat) : option utree :=
  match p with
  | [] => Some t
  | k :: r => match rotate_to t k with Some t' => reroot_path t' r | None => None end
  end.

Inductive res (A : Type) : Type := Ok (a : A) | Err (msg : string).
Arguments Ok {A}. Arguments Err {A}.

Local Open Scope string_scope.
(** Tree.Reroot(n), n = Nodes()[i] *)
Definition reroot (t : utree) (i : nat) : res utree :=
  match nth_error (paths t) i with
  | None => Err "The node is not part of the tree"
  | Some p =>
    match node_at t p with
    | None => Err "The node is not part of the tree"
    | Some n =>
      if Nat.ltb (degree n) 2 then Err "Cannot reroot on a tip node"
      else match reroot_path t p with Some t' => Ok t' | None => Err "internal" end
    end
  end.

(** ** UnRoot *)
Definition qmax (a b : Q) : Q := if Qle_bool a b then b else a.

Definition unroot (t : utree) : utree :=
  match t with
  | UNode _ _ [Some (e1, UNode n1 c1 sl1); Some (e2, UNode n2 c2 sl2)] =>
    let n1tip := Nat.eqb (length sl1) 1 in
    let n2tip := Nat.eqb (length sl2) 1 in
    let len := if negb (qeqb (elen e1) nilv) || negb (qeqb (elen e2) nilv)
               then (qmax 0%Q (elen e1) + qmax 0%Q (elen e2))%Q else nilv in
    let sup := if negb n1tip && negb n2tip &&
                  (negb (qeqb (esup e1) nilv) || negb (qeqb (esup e2) nilv))
               then qmax (qmax 0%Q (esup e1)) (qmax 0%Q (esup e2)) else nilv in
    let e3 := mkE len sup nilv [] in
    if n1tip
    then UNode n2 c2 (drop_up sl2 ++ [Some (e3, UNode n1 c1 (drop_up sl1 ++ [None]))])
    else UNode n1 c1 (drop_up sl1 ++ [Some (e3, UNode n2 c2 (drop_up sl2 ++ [None]))])
  | _ => t
  end.

(** ** RotateNeighbors: for i := range neigh { j := rand.Intn(i+1); swap(i, j) } *)
Definition swap_nth {A} (i j : nat) (l : list A) : list A :=
  match nth_error l i, nth_error l j with
  | Some a, Some b => set_nth j a (set_nth i b l)
  | _, _ => l
  end.

Fixpoint rotate_slots {A} (i : nat) (n : nat) (cs : list nat) (l : list A) : list A * list nat :=
  match n with
  | O => (l, cs)
  | S n' => match cs with
            | [] => (l, [])
            | j :: cs' => rotate_slots (S i) n' cs' (swap_nth i j l)
            end
  end.

(** Tree.RotateInternalNodes: nodes in pre-order (the list is taken before any rotation);
    rotating a node permutes its own slots only, so the pre-order *set* of nodes is stable
    and each node is rotated exactly once with the next |neigh| choices.  The traversal
    below visits the node, then its children in their ORIGINAL slot order, which is the
    order of the Nodes() snapshot. *)
Fixpoint rotate_all (t : utree) (cs : list nat) {struct t} : utree * list nat :=
  match t with
  | UNode n c sl =>
    (* choices for this node first (pre-order) *)
    let k := length sl in
    let mine := firstn k cs in
    let rest := skipn k cs in
    (* then children, in original order *)
    let '(sl', rest') :=
        (fix go (l : list slot) (cs : list nat) : list slot * list nat :=
           match l with
           | [] => ([], cs)
           | None :: r => let '(r', cs') := go r cs in (None :: r', cs')
           | Some (e, ch) :: r =>
             let '(ch', cs1) := rotate_all ch cs in
             let '(r', cs2) := go r cs1 in
             (Some (e, ch') :: r', cs2)
           end) sl rest in
    (UNode n c (fst (rotate_slots 0 k mine sl')), rest')
  end.

(** ** SortNeighborsByTips: stable sort of every node's slots by the number of tips behind
    the neighbour, the parent counting 0 *)
Fixpoint insert_by {A} (key : A -> nat) (x : A) (l : list A) : list A :=
  match l with
  | [] => [x]
  | y :: r => if Nat.ltb (key x) (key y) then x :: l else y :: insert_by key x r
  end.
(** stable: equal keys keep their order (insert after the equal ones, processing from the right) *)
Definition stable_sort_by {A} (key : A -> nat) (l : list A) : list A :=
  fold_right (fun x acc => (fix ins (l : list A) : list A :=
                              match l with
                              | [] => [x]
                              | y :: r => if Nat.leb (key x) (key y) then x :: l else y :: ins r
                              end) acc) [] l.

Fixpoint sort_neighbors (t : utree) : utree * nat :=
  match t with
  | UNode n c sl =>
    let keyed := map (fun s => match s with
                               | None => (None, 0)
                               | Some (e, ch) => let '(ch', k) := sort_neighbors ch in (Some (e, ch'), k)
                               end) sl in
    let total := fold_right (fun p acc => snd p + acc) 0 keyed in
    let sorted := map fst (stable_sort_by (fun p => snd p) keyed) in
    (UNode n c sorted, if Nat.eqb (length sl) 1 then 1 else total)
  end.
Definition sort_by_tips (t : utree) : utree := fst (sort_neighbors t).

(** bounds of the successive rand.Intn calls made by RotateInternalNodes *)
Definition rotate_bounds (t : utree) : list nat :=
  flat_map (fun n => map S (seq 0 (degree n))) (nodes t).
