(** Histories of edits on ONE tree object (property C03).

    An [op] is one public editing operation of tree/*.go with its arguments already
    resolved (node indexes are indexes in Tree.Nodes(), names are names, random operations
    carry the choice vector that math/rand delivered).  [run_op] dispatches to the models of
    the individual operations, which were written and validated against the Go code for
    C05 (Model/Reroot.v, Model/Outgroup.v), C06 (Model/Prune.v), C07 (Model/Collapse.v),
    C15 (Model/LocalEdit.v), C17 (Model/NNI.v) and C02/C13 (Tree.Rename in Model/Nexus.v).
    The tip-name index of the Go tree ([Tree.tipIndex]) is "the tip names of the current
    tree": this is what Tree.ReinitIndexes() makes it, and the operations that consult it
    (GraftTreeOnTip, InsertIdenticalTips, Merge) are run right after ReinitIndexes.
    No proofs in this file. *)
From Coq Require Import String ZArith QArith Bool Arith List.
From GT Require Import Base.UTree Model.Reroot.
From GT Require Spec.Obs.
From GT Require Model.Outgroup Model.Prune Model.Collapse Model.LocalEdit Model.NNI Model.Nexus.
Import ListNotations.
Local Close Scope Q_scope.
Local Open Scope string_scope.

Inductive op : Type :=
| OReroot (i : nat)                                        (* Tree.Reroot(Nodes()[i]) *)
| OUnroot                                                  (* Tree.UnRoot() *)
| OOutgroup (remove strict : bool) (names : list string)   (* Tree.RerootOutGroup *)
| OMidpoint                                                (* Tree.RerootMidPoint() *)
| ORotate (cs : list nat)                                  (* Tree.RotateInternalNodes() *)
| OSort                                                    (* Tree.SortNeighborsByTips() *)
| OPrune (revert : bool) (names : list string)             (* Tree.RemoveTips *)
| OCollapseLen (l : Q) (rr rt : bool)                      (* Tree.CollapseShortBranches *)
| OCollapseSup (s : Q) (rr : bool)                         (* Tree.CollapseLowSupport *)
| OCollapseDepth (mn mx : Z) (rr rt : bool)                (* Tree.CollapseTopoDepth *)
| OResolve (cs : list nat)                                 (* Tree.Resolve() *)
| ORmSingle                                                (* Tree.RemoveSingleNodes() *)
| OGraft (tip : string) (g : utree)                        (* Tree.GraftTreeOnTip *)
| OInsert (groups : list (list string))                    (* Tree.InsertIdenticalTips *)
| OMerge (t2 : utree)                                      (* Tree.Merge *)
| ONni (k : nat) (undo : bool)                             (* k-th proposal of NNIRearranger: Apply (, Undo) *)
| ORename (old new : string)                               (* Tree.Rename({old: new}) *)
| OClone                                                   (* the history goes on with Tree.Clone() *)
| OSubtree (i : nat).                                      (* the history goes on with Tree.SubTree(Nodes()[i]) *)

(** Tree.ReinitIndexes(): UpdateTipIndex refuses two tips with the same name, ClearBitSets a
    tree without tips; nothing of the structure changes *)
Definition err_no_tips : string := "No tips in the index, tip name index is not initialized".
Definition reinit (t : utree) : res unit :=
  match Prune.update_tip_index t with
  | Err m => Err m
  | Ok [] => Err err_no_tips
  | Ok _ => Ok tt
  end.

Definition err_few_tips : string := "cannot reroot on an outgroup a tree with less than 3 tips".

(** the k-th proposal (modulo their number) of the NNI enumeration; none: nothing to do *)
Definition nni_pick (k : nat) (t : utree) : option NNI.nni :=
  let l := NNI.nni_list t in
  match l with
  | [] => None
  | _ => nth_error l (Nat.modulo k (length l))
  end.

Definition err_nni : string := "model: the rearrangement is not applicable".

(** the tree between Apply and Undo *)
Definition nni_applied (k : nat) (t : utree) : res utree :=
  match nni_pick k t with
  | None => Ok t
  | Some r => match NNI.apply r t with Some t1 => Ok t1 | None => Err err_nni end
  end.

Definition nni_step (k : nat) (undo : bool) (t : utree) : res utree :=
  match nni_pick k t with
  | None => Ok t
  | Some r =>
    match NNI.apply r t with
    | None => Err err_nni
    | Some t1 =>
      if undo then match NNI.undo r t1 with Some t2 => Ok t2 | None => Err err_nni end
      else Ok t1
    end
  end.

Definition run_op (o : op) (t : utree) : res utree :=
  match o with
  | OReroot i => reroot t i
  | OUnroot => Ok (unroot t)
  | OOutgroup remove strict names =>
    (* the guard added by the fix "RerootOutGroup dereferenced a nil pointer on a two-tip
       tree": len(t.Tips()) < 3, before UnRoot (Tips() counts a root with one neighbour) *)
    if Nat.ltb (length (tips t)) 3 then Err err_few_tips
    else Outgroup.reroot_outgroup remove strict t names
  | OMidpoint => Outgroup.reroot_midpoint t
  | ORotate cs => Ok (fst (rotate_all t cs))
  | OSort => Ok (sort_by_tips t)
  | OPrune revert names => Prune.remove_tips revert names t
  | OCollapseLen l rr rt => Ok (Collapse.collapse_len l rr rt t)
  | OCollapseSup s rr => Ok (Collapse.collapse_sup s rr t)
  | OCollapseDepth mn mx rr rt => Collapse.collapse_depth mn mx rr rt t
  | OResolve cs => Ok (Collapse.resolve t cs)
  | ORmSingle => Ok (LocalEdit.remove_single t)
  | OGraft tip g => LocalEdit.graft t (tip_names t) tip g
  | OInsert groups => LocalEdit.insert_identical t (tip_names t) groups
  | OMerge t2 => LocalEdit.merge t t2 (tip_names t) (tip_names t2)
  | ONni k undo => nni_step k undo t
  | ORename old new =>
    match Nexus.rename_tree [(old, new)] t with inl t' => Ok t' | inr m => Err m end
  | OClone => Ok (LocalEdit.clone t)
  | OSubtree i =>
    match LocalEdit.subtree t i with Some s => Ok s | None => Err "model: no such node" end
  end.

(** one step of a history: optionally ReinitIndexes first *)
Definition run_step (s : bool * op) (t : utree) : res utree :=
  if fst s then match reinit t with Err m => Err m | Ok _ => run_op (snd s) t end
  else run_op (snd s) t.

(** a history stops at the first refusal *)
Fixpoint run (ops : list (bool * op)) (t : utree) : res utree :=
  match ops with
  | [] => Ok t
  | s :: r => match run_step s t with Ok t' => run r t' | Err m => Err m end
  end.

(** * boolean versions of the side conditions of the history theorem (Proofs/History.v), for
    closed examples: what the lemma of an operation needs beyond [wf] of the current tree *)
Definition distinct_tips_b (re : bool) (t : utree) : bool :=
  re || negb (Prune.has_dup (Obs.leaves t)).

Definition side_b (s : bool * op) (t : utree) : bool :=
  match snd s with
  | OOutgroup remove _ _ => Nat.leb 2 (degree t) && (negb remove || distinct_tips_b (fst s) t)
  | OMidpoint =>
    Nat.leb 2 (degree t) && (negb (rooted t) || existsb (fun p => negb (is_tip (snd p))) (kids t))
  | OPrune _ _ => no_single t && Nat.leb 2 (degree t) && distinct_tips_b (fst s) t
  | OInsert groups =>
    Nat.leb 2 (degree t) && negb (Prune.name_in "" (tip_names t)) &&
    forallb (fun g => negb (Prune.name_in "" g)) groups
  | OGraft _ g => wf g
  | OMerge t2 => wf t2
  | _ => true
  end.

Fixpoint sides_b (ops : list (bool * op)) (t : utree) : bool :=
  match ops with
  | [] => true
  | s :: r => side_b s t && match run_step s t with Ok t' => sides_b r t' | Err _ => true end
  end.

(** the history runs to its end (and the final tree is well formed) *)
Definition run_ok_b (ops : list (bool * op)) (t : utree) : bool :=
  match run ops t with Ok t' => wf t' | Err _ => false end.
