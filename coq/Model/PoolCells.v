(** TBE's inner worker pool (support/tbe.go, per bootstrap tree): a producer goroutine feeds the
    branches of the reference tree into `edgechan` (capacity cpu*10) and closes it; `cpu` workers
    range over the channel; for a branch e a worker
      - adds something to accumulators shared by all workers, under `mux` (nbranchclose++,
        moved_species[...] += ...): one atomic step (the critical section),
      - updates cells that belong to the branch alone (e.IncrementSupport, sumNbClosestBranches[e.Id()],
        moved_species_per_branch[e.Id()]): a read followed by a write, NOT atomic;
    then `wg.Wait()`.

    Shared memory: [cells] maps a cell number (the branch id) to its content, [accu] is the
    mutex-protected accumulator.  [cell j] is the cell job [j] owns, [upd j] what it does to the
    content, [contrib j] what it adds to the accumulator with [op].
    Schedule: 0 = producer, i+1 = worker i.  No proofs in this file. *)
From Coq Require Import Bool Arith List.
From GT Require Import Model.Pool.
Import ListNotations.

Section Cells.
  Variables (job val acc : Type).
  Variable cell : job -> nat.
  Variable upd : job -> val -> val.
  Variable contrib : job -> acc.
  Variable op : acc -> acc -> acc.
  Variable cj : nat.                   (* capacity of the job channel; 0 = unbuffered *)

  Inductive tstate :=
  | TIdle                              (* at the head of `for e := range edgechan` *)
  | TGot (j : job)                     (* received a branch *)
  | TCounted (j : job)                 (* critical section done *)
  | TRead (j : job) (v : val)          (* has read the branch's cell, not yet written it back *)
  | TExited.                           (* left the loop, wg.Done() *)

  Record cst := mkC {
    cpending : list job;
    cclosed : bool;
    cqueue : list job;
    cws : list tstate;
    cells : nat -> val;
    accu : acc
  }.

  Definition set_cell (m : nat -> val) (c : nat) (v : val) : nat -> val :=
    fun c' => if Nat.eqb c' c then v else m c'.

  Definition cproducer_step (s : cst) : cst :=
    match cpending s with
    | j :: p => if length (cqueue s) <? cj
                then mkC p (cclosed s) (cqueue s ++ [j]) (cws s) (cells s) (accu s)
                else s
    | [] => mkC [] true (cqueue s) (cws s) (cells s) (accu s)
    end.

  Definition cworker_step (s : cst) (i : nat) : cst :=
    match nth_error (cws s) i with
    | None => s
    | Some TIdle =>
      match cqueue s with
      | j :: q => mkC (cpending s) (cclosed s) q (set_nth i (TGot j) (cws s)) (cells s) (accu s)
      | [] =>
        match cj, cpending s with
        | 0, j :: p => mkC p (cclosed s) [] (set_nth i (TGot j) (cws s)) (cells s) (accu s)
        | _, _ => if cclosed s
                  then mkC (cpending s) (cclosed s) [] (set_nth i TExited (cws s)) (cells s) (accu s)
                  else s
        end
      end
    | Some (TGot j) =>
      mkC (cpending s) (cclosed s) (cqueue s) (set_nth i (TCounted j) (cws s)) (cells s)
          (op (accu s) (contrib j))
    | Some (TCounted j) =>
      mkC (cpending s) (cclosed s) (cqueue s) (set_nth i (TRead j (cells s (cell j))) (cws s))
          (cells s) (accu s)
    | Some (TRead j v) =>
      mkC (cpending s) (cclosed s) (cqueue s) (set_nth i TIdle (cws s))
          (set_cell (cells s) (cell j) (upd j v)) (accu s)
    | Some TExited => s
    end.

  Definition cstep (s : cst) (a : nat) : cst :=
    match a with 0 => cproducer_step s | S i => cworker_step s i end.

  Definition crun (sched : list nat) (s : cst) : cst := fold_left cstep sched s.

  Definition cinit (jobs : list job) (n : nat) (c0 : nat -> val) (a0 : acc) : cst :=
    mkC jobs false [] (repeat TIdle n) c0 a0.

  Definition t_exited (w : tstate) : bool := match w with TExited => true | _ => false end.
  (** wg.Wait() returns *)
  Definition cfinished (s : cst) : bool := forallb t_exited (cws s).

  (** the sequential loop `for _, e := range edges { ... }` *)
  Definition seq_cells (jobs : list job) (c0 : nat -> val) : nat -> val :=
    fold_left (fun m j => set_cell m (cell j) (upd j (m (cell j)))) jobs c0.
  Definition seq_accu (jobs : list job) (a0 : acc) : acc :=
    fold_left op (map contrib jobs) a0.
End Cells.

Arguments TIdle {job val}. Arguments TGot {job val}. Arguments TCounted {job val}.
Arguments TRead {job val}. Arguments TExited {job val}.
